#!/bin/bash
# usage: harvest.sh <Cnn> <A|B> [srcdir]
# Confirms a seeded change in a scratch worktree of /repo (removed afterwards) and, when confirmed,
# stores it as /verif/seeded/<Cnn>-<S>/ {patch.diff, demo test(s), meta.json}.
#   1. the demonstration passes on the unchanged tree
#   2. the patch applies, the tree builds, the demonstration fails with it
#   3. the whole existing test suite passes with it (demo removed)
set -u
P="$1"; S="$2"; SRC="${3:-/tmp/seedout/$P}"
export GOFLAGS=-mod=mod GOPROXY=off GOSUMDB=off GOTOOLCHAIN=local GOWORK=off
DST=/verif/seeded/$P-$S
PATCH=$SRC/$S.patch.diff
[ -f "$DST/patch.diff" ] && PATCH=$DST/patch.diff
META=$SRC/$S.meta.json
[ -f "$META" ] || META=$DST/meta.src.json
[ -f "$PATCH" ] && [ -f "$META" ] || { echo "$P-$S: missing patch or meta"; exit 2; }
WT=/tmp/wt_harvest_$P$S
git -C /repo worktree remove --force $WT >/dev/null 2>&1
git -C /repo worktree add --detach $WT HEAD >/dev/null 2>&1 || { echo "$P-$S: cannot create worktree"; exit 2; }
cleanup() { git -C /repo worktree remove --force $WT >/dev/null 2>&1; rm -rf $WT; }
trap cleanup EXIT
# demo files and where they go
python3 - "$META" "$SRC" "$S" "$WT" "$DST" > /tmp/harvest_$P$S.plan <<'E'
import json,sys,re,os,glob
meta=json.load(open(sys.argv[1])); src,s,wt,dst=sys.argv[2:6]
loc=meta.get('demo_location','')
cmd=meta.get('demo_cmd','')
# demo files: <S>_demo*_test.go in src (or stored copies in dst)
files=sorted(glob.glob(os.path.join(src,f'{s}_demo*_test.go'))) or sorted(glob.glob(os.path.join(dst,'*_test.go')))
# locations: every path ending _test.go mentioned in demo_location
locs=re.findall(r'[\w./-]+_test\.go',loc)
locs=[l for l in locs if '/' in l]
m=re.search(r"-run\s+'?\"?([^'\"\s]+)",cmd)
run=m.group(1) if m else 'TestDemo'
pk=re.findall(r'(\./[\w./-]+)',cmd)
pk=[x for x in pk if not x.endswith('.go')]
print('RUN',run)
print('PKG',' '.join(dict.fromkeys(pk)))
print('RACE','1' if '-race' in cmd else '0')
for i,f in enumerate(files):
    tgt=locs[i] if i<len(locs) else (os.path.join(os.path.dirname(locs[0]),os.path.basename(f).lower()) if locs else '')
    print('FILE',f,tgt)
E
RUN=$(awk '$1=="RUN"{print $2}' /tmp/harvest_$P$S.plan)
PKG=$(awk '$1=="PKG"{$1="";print}' /tmp/harvest_$P$S.plan)
RACE=$(awk '$1=="RACE"{print $2}' /tmp/harvest_$P$S.plan)
[ -n "$(echo $PKG | tr -d " ")" ] || PKG="."
RF=""; [ "$RACE" = 1 ] && RF="-race"
DEMOS=()
while read -r _ f tgt; do
  [ -n "$tgt" ] || { echo "$P-$S: no demo location for $f"; exit 2; }
  mkdir -p "$WT/$(dirname $tgt)"; cp "$f" "$WT/$tgt"; DEMOS+=("$tgt")
done < <(grep '^FILE' /tmp/harvest_$P$S.plan)
[ ${#DEMOS[@]} -gt 0 ] || { echo "$P-$S: no demo files"; exit 2; }
cd $WT
echo "[$P-$S] demo run='$RUN' pkgs='$PKG' race=$RACE files=${DEMOS[*]}"
go test $RF -vet=off -count=1 -run "$RUN" $PKG > /tmp/harvest_$P$S.base.txt 2>&1; rc0=$?
git apply "$PATCH" || { echo "$P-$S: PATCH DOES NOT APPLY"; exit 3; }
go build ./... > /tmp/harvest_$P$S.build.txt 2>&1 || { echo "$P-$S: does not build"; exit 3; }
go test $RF -vet=off -count=1 -run "$RUN" $PKG > /tmp/harvest_$P$S.seeded.txt 2>&1; rc1=$?
for d in "${DEMOS[@]}"; do rm -f "$d"; done
go test -vet=off -count=1 -timeout 25m ./... > /tmp/harvest_$P$S.pkgtests.txt 2>&1; rc2=$?
echo "[$P-$S] demo on unchanged tree rc=$rc0 (want 0); demo with patch rc=$rc1 (want !=0); existing test suite (go test ./...) rc=$rc2 (want 0)"
if [ $rc0 -eq 0 ] && [ $rc1 -ne 0 ] && [ $rc2 -eq 0 ]; then
  mkdir -p $DST
  [ "$PATCH" = "$DST/patch.diff" ] || cp "$PATCH" $DST/patch.diff
  for f in $(awk '$1=="FILE"{print $2}' /tmp/harvest_$P$S.plan); do [ "$(dirname $f)" = "$DST" ] || cp "$f" $DST/; done
  cp "$META" $DST/meta.src.json
  tail -15 /tmp/harvest_$P$S.seeded.txt > $DST/demo.failing-output.txt
  echo "CONFIRMED $P-$S"
  exit 0
fi
echo "NOT CONFIRMED $P-$S (see /tmp/harvest_$P$S.*.txt)"
exit 1
