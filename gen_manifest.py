#!/usr/bin/env python3
"""Generates MANIFEST.json from the rule packs registered in the checker (vcheck -list) so that it stays in sync."""
import json, subprocess
BASE = json.load(open('/root/.vp/BASELINE.json'))
packs = {p["id"]: p for p in json.loads(subprocess.check_output(["bin/vcheck", "-list"]))}
NA = {}  # property -> reason, for properties that are deliberately not claimed
PENDING_REASON = "check not built yet in this round (design in DESIGN.md §4); not claimed until its rule pack exists"
props = [json.loads(l)["id"] for l in open("properties.jsonl")]
checks, na = [], []
for p in props:
    if p in packs and p not in NA:
        pk = packs[p]
        checks.append({
            "property_id": p,
            "quick_cmd": "./run.sh %s quick" % p,
            "thorough_cmd": "./run.sh %s thorough" % p,
            "evidence_file": "/verif/evidence/%s.json" % p,
            "replay_cmd_template": "./run.sh --replay {path}",
            "engine": "vcheck",
            "level_claimed": {"category": "other",
                              "text": "Static decision, over every path of the current source, of structural necessary conditions of the property (not of the behavioural statement itself). " + pk["explanation"],
                              "design_ref": "DESIGN.md §4 " + p},
            "level_note": "Trusted base: go/packages + go/types + go/ssa (x/tools v0.29.0) as the model of the code; the checker's rule tables (printed in evidence); " + " ".join(pk.get("assumptions") or []) + " A pass means the listed clauses hold on all paths; the clauses listed as NOT decided are outside this family.",
            "technique": "static analysis: " + pk["technique"],
        })
    else:
        na.append({"property_id": p, "reason": NA.get(p, PENDING_REASON)})
m = {
 "version": 1,
 "setup_cmd": "cd checker && GOFLAGS=-mod=mod GOPROXY=off GOSUMDB=off GOTOOLCHAIN=local GOWORK=off go build -o ../bin/vcheck ./cmd/vcheck",
 "hooks": {"guard": "verif", "enable": "none needed: static analysis reads /repo's working tree as it is; no instrumentation is compiled in",
           "baseline_off_cmd": BASE["cmd"], "source_commits": [], "add_only": True},
 "engines": [{"name": "vcheck", "path": "checker", "serves_properties": sorted(c["property_id"] for c in checks),
              "kind_free_text": "repository-specific static analyser (go/packages + go/ssa + call graph): path queries by edge deletion, lock sets, value provenance, table/template conformance; mutant self-test through packages.Overlay"}],
 "checks": checks,
 "not_applicable": na,
 "notes": "All checks are static (no code of /repo is executed). Exit 0 held / 1 VIOLATION / 2 checker could not decide (broken floor, unresolved anchor, undetected seeded edit). known_findings.json lists recorded and fixed defects.",
}
json.dump(m, open("MANIFEST.json", "w"), indent=1)
print("claimed", len(checks), "not_applicable", len(na))
