#!/usr/bin/env python3
"""Generates MANIFEST.json from the table below (kept in one place so that the manifest stays valid)."""
import json, os
BASE = json.load(open('/root/.vp/BASELINE.json'))
# property -> (technique, level text, level note, design ref)
CLAIMED = {
 "C18": ("SSA path queries (guard by edge deletion), value provenance, lock-set dataflow over services/cache/standard",
         "Decides, for every path of the real code, structural necessary conditions of the property: success returns carry a slot from a found cache entry or from the header fetched in the same call; the stored and returned values agree; fetch failure is an error; handlers store (Block, Slot) of one event; deletes are guarded by slot < minSlot with a guarded epoch subtraction; the map is accessed under its mutex and locks are paired. It does not decide the behaviour for all histories (beacon-node honesty, retention size, interleavings).",
         "Trusted: go/packages+go/types+go/ssa (x/tools v0.29.0) model of the code; the library decoder contract that a nil error implies non-nil Data.Header.Message. Level 'other': necessary structural clauses, not the behavioural statement.",
         "DESIGN.md §4 C18"),
}
PENDING_REASON = "check not built yet in this round (design in DESIGN.md §4); not claimed until its rule pack exists"
props = [json.loads(l)["id"] for l in open("properties.jsonl")]
checks, na = [], []
for p in props:
    if p in CLAIMED:
        tech, text, note, ref = CLAIMED[p]
        checks.append({
            "property_id": p,
            "quick_cmd": "./run.sh %s quick" % p,
            "thorough_cmd": "./run.sh %s thorough" % p,
            "evidence_file": "/verif/evidence/%s.json" % p,
            "replay_cmd_template": "./run.sh --replay {path}",
            "engine": "vcheck",
            "level_claimed": {"category": "other", "text": text, "design_ref": ref},
            "level_note": note,
            "technique": "static analysis: " + tech,
        })
    else:
        na.append({"property_id": p, "reason": NA.get(p, PENDING_REASON) if 'NA' in globals() else PENDING_REASON})
m = {
 "version": 1,
 "setup_cmd": "cd checker && GOFLAGS=-mod=mod GOPROXY=off GOSUMDB=off GOTOOLCHAIN=local GOWORK=off go build -o ../bin/vcheck ./cmd/vcheck",
 "hooks": {"guard": "verif", "enable": "none needed: static analysis reads /repo's working tree as it is; no instrumentation is compiled in",
           "baseline_off_cmd": BASE["cmd"], "source_commits": [], "add_only": True},
 "engines": [{"name": "vcheck", "path": "checker", "serves_properties": sorted(CLAIMED), 
              "kind_free_text": "repository-specific static analyser (go/packages + go/ssa + call graph): path queries by edge deletion, lock sets, value provenance, table/template conformance; mutant self-test through packages.Overlay"}],
 "checks": checks,
 "not_applicable": na,
 "notes": "All checks are static (no code of /repo is executed). Exit 0 held / 1 VIOLATION / 2 checker could not decide (broken floor, unresolved anchor, undetected seeded edit). known_findings.json lists recorded and fixed defects.",
}
json.dump(m, open("MANIFEST.json", "w"), indent=1)
print("claimed", len(checks), "not_applicable", len(na))
