package main

import (
	"bufio"
	"bytes"
	"encoding/json"
	"fmt"
	"os"
	"os/exec"
	"path/filepath"
	"strings"
	"sync"

	"vouchcheck/internal/core"
)

// Mutant is a seeded edit applied in memory (packages Overlay) to check that a rule is alive.
type Mutant struct {
	ID      string `json:"id"`
	File    string `json:"file"`    // relative to the repository
	Find    string `json:"find"`    // must occur exactly once
	Replace string `json:"replace"` //
	Expect  string `json:"expect"`  // prefix of the obligation key that must be reported (e.g. "C18.a")
	Quick   bool   `json:"quick"`   // also run in the quick tier
	Note    string `json:"note"`
}

// MutantResult is recorded in evidence.
type MutantResult struct {
	ID     string `json:"id"`
	Status string `json:"status"` // detected | MISSED | drifted | does-not-typecheck
	By     string `json:"by,omitempty"`
	Note   string `json:"note,omitempty"`
}

func runMutants(verif, repo, prop, tier string, base map[string]bool) ([]MutantResult, []string) {
	b, err := os.ReadFile(filepath.Join(verif, "mutants", prop+".json"))
	if err != nil {
		return nil, nil
	}
	var ms []Mutant
	if err := json.Unmarshal(b, &ms); err != nil {
		return []MutantResult{{ID: "catalogue", Status: "MISSED", Note: err.Error()}}, []string{"catalogue unreadable: " + err.Error()}
	}
	self, _ := os.Executable()
	scratch, err := os.MkdirTemp("", "vcheck-mut-")
	if err != nil {
		return nil, []string{"no scratch dir"}
	}
	defer os.RemoveAll(scratch)
	results := make([]MutantResult, len(ms))
	var wg sync.WaitGroup
	sem := make(chan struct{}, 6)
	for i, m := range ms {
		results[i] = MutantResult{ID: m.ID, Note: m.Note}
		if tier != "thorough" && !m.Quick {
			results[i].Status = "skipped (thorough tier only)"
			continue
		}
		src, err := os.ReadFile(filepath.Join(repo, m.File))
		if err != nil || strings.Count(string(src), m.Find) != 1 {
			results[i].Status = "drifted"
			continue
		}
		mut := strings.Replace(string(src), m.Find, m.Replace, 1)
		tmp := filepath.Join(scratch, fmt.Sprintf("m%d.go", i))
		if err := os.WriteFile(tmp, []byte(mut), 0o644); err != nil {
			results[i].Status = "drifted"
			continue
		}
		wg.Add(1)
		go func(i int, m Mutant) {
			defer wg.Done()
			sem <- struct{}{}
			defer func() { <-sem }()
			cmd := exec.Command(self, "-repo", repo, "-verif", verif, "-prop", prop, "-tier", "quick", "-no-evidence", "-json",
				"-overlay", filepath.Join(repo, m.File)+"="+tmp)
			cmd.Env = append(os.Environ(), "VCHECK_NO_MUTANTS=1")
			var out, errb bytes.Buffer
			cmd.Stdout = &out
			cmd.Stderr = &errb
			_ = cmd.Run()
			if strings.Contains(errb.String(), "CHECKER-ERROR") {
				results[i].Status = "does-not-typecheck"
				results[i].Note = firstLine(errb.String())
				return
			}
			sc := bufio.NewScanner(&out)
			sc.Buffer(make([]byte, 1<<20), 1<<20)
			for sc.Scan() {
				f := strings.Fields(sc.Text())
				if len(f) >= 3 && f[0] == "OBL" {
					key := f[2]
					// the key may contain spaces: recover it from the line
					rest := strings.TrimPrefix(sc.Text(), "OBL "+f[1]+" ")
					if j := strings.LastIndex(rest, " "); j > 0 {
						key = rest[:j]
					}
					if base[key] {
						continue
					}
					if strings.HasPrefix(key, m.Expect) {
						results[i].Status = "detected"
						results[i].By = key
						return
					}
				}
			}
			results[i].Status = "MISSED"
		}(i, m)
	}
	wg.Wait()
	var fails []string
	for _, r := range results {
		if r.Status == "MISSED" {
			fails = append(fails, r.ID)
		}
	}
	return results, fails
}

func firstLine(s string) string {
	if i := strings.Index(s, "\n"); i > 0 {
		s = s[:i]
	}
	if len(s) > 300 {
		s = s[:300]
	}
	return s
}

func doReplay(r *core.Report, path string) int {
	b, err := os.ReadFile(path)
	if err != nil {
		fmt.Fprintln(os.Stderr, err)
		return 2
	}
	var rep struct {
		Key string `json:"key"`
	}
	if err := json.Unmarshal(b, &rep); err != nil {
		fmt.Fprintln(os.Stderr, err)
		return 2
	}
	for _, o := range r.Obligations {
		if o.Key() == rep.Key {
			fmt.Printf("obligation %s at %s: %s\n  %s\n", o.Key(), o.Pos, o.Verdict, o.Detail)
			for _, w := range o.Witness {
				fmt.Println("     ", w)
			}
			if o.Verdict == core.Violated {
				fmt.Printf("VIOLATION property=%s replay=%s\n", r.Property, path)
				return 1
			}
			return 0
		}
	}
	fmt.Printf("obligation %s no longer exists on this tree\n", rep.Key)
	return 0
}
