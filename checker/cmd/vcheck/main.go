// vcheck decides the vouch properties by static analysis of /repo's current working tree.
package main

import (
	"encoding/json"
	"flag"
	"fmt"
	"os"
	"path/filepath"
	"strconv"
	"strings"
	"time"

	"vouchcheck/internal/core"
	"vouchcheck/internal/rules"
)

func main() {
	repo := flag.String("repo", "/repo", "repository to analyse")
	verif := flag.String("verif", "/verif", "verification directory (evidence, known findings)")
	prop := flag.String("prop", "", "property id (C01..C20)")
	tier := flag.String("tier", "quick", "quick|thorough")
	goarch := flag.String("goarch", "", "GOARCH override")
	noEvidence := flag.Bool("no-evidence", false, "do not write evidence (used by mutant runs)")
	jsonOut := flag.Bool("json", false, "print violated obligation keys as JSON lines (mutant runs)")
	replay := flag.String("replay", "", "replay file: re-evaluate that obligation only")
	var overlays multi
	flag.Var(&overlays, "overlay", "file=replacement (repeatable)")
	list := flag.Bool("list", false, "print the registered packs as JSON")
	writeBaseline := flag.Bool("write-baseline", false, "write <verif>/baseline_funcs.json: the function declarations of the tree the rules were written against")
	flag.Parse()
	if *list {
		var out []map[string]any
		for _, id := range rules.IDs() {
			pk := rules.Get(id)
			out = append(out, map[string]any{"id": id, "explanation": pk.Expl, "rule": pk.Rule, "assumptions": pk.Assumptions, "technique": pk.Technique})
		}
		b, _ := json.MarshalIndent(out, "", " ")
		fmt.Println(string(b))
		return
	}
	if *writeBaseline {
		abs, _ := filepath.Abs(*repo)
		p, err := core.Load(abs, nil, *goarch)
		if err != nil {
			fmt.Fprintln(os.Stderr, err)
			os.Exit(2)
		}
		bl := core.BuildBaseline(p.All)
		keys := bl.Funcs
		b, _ := json.MarshalIndent(bl, "", " ")
		if err := os.WriteFile(filepath.Join(*verif, "baseline.json"), b, 0o644); err != nil {
			fmt.Fprintln(os.Stderr, err)
			os.Exit(2)
		}
		fmt.Printf("%d function declarations\n", len(keys))
		return
	}
	start := time.Now()
	seed := int64(0)
	if s := os.Getenv("VERIF_SEED"); s != "" {
		if v, err := strconv.ParseInt(s, 10, 64); err == nil {
			seed = v
		}
	}
	var pack *rules.Pack
	if *prop != "all" {
		pack = rules.Get(*prop)
	}
	if pack == nil && *prop != "all" {
		fmt.Fprintf(os.Stderr, "unknown property %q; have %v\n", *prop, rules.IDs())
		os.Exit(2)
	}
	ov := map[string][]byte{}
	for _, o := range overlays {
		parts := strings.SplitN(o, "=", 2)
		if len(parts) != 2 {
			fmt.Fprintln(os.Stderr, "bad -overlay", o)
			os.Exit(2)
		}
		b, err := os.ReadFile(parts[1])
		if err != nil {
			fmt.Fprintln(os.Stderr, err)
			os.Exit(2)
		}
		ov[parts[0]] = b
	}
	abs, _ := filepath.Abs(*repo)
	// normalisation: helpers that are new relative to the baseline tree are inlined at their call sites
	var normNotes []string
	if bl := core.LoadBaseline(filepath.Join(*verif, "baseline.json")); bl != nil && os.Getenv("VCHECK_NO_NORMALIZE") == "" {
		// function literals called on the spot (the per-trip defer idiom) run in place
		var ni []string
		core.IIFEBaseline = bl
		ov, ni = core.InlineIIFE(abs, ov)
		normNotes = append(normNotes, ni...)
		// memo tables local to one call and keyed by all that the value depends on: the value is computed in place
		ov, ni = core.InlineMemo(abs, ov)
		normNotes = append(normNotes, ni...)
		if core.NamesDiffer(abs, ov, bl) {
			var n0, n1 []string
			ov, n0 = core.UnbundleParams(abs, ov, *goarch, bl)
			normNotes = append(normNotes, n0...)
			ov, n1 = core.RenameBack(abs, ov, *goarch, bl)
			base := map[string]bool{}
			for k := range bl.Funcs {
				base[k] = true
			}
			var n2 []string
			ov, n2 = core.Normalize(abs, ov, *goarch, base, bl)
			normNotes = append(append(normNotes, n1...), n2...)
		}
	}
	if d := os.Getenv("VCHECK_DUMP_OVERLAY"); d != "" {
		for name, b := range ov {
			_ = os.MkdirAll(d, 0o755)
			_ = os.WriteFile(filepath.Join(d, strings.ReplaceAll(strings.TrimPrefix(name, abs+"/"), "/", "__")), b, 0o644)
		}
	}
	p, err := core.Load(abs, ov, *goarch)
	if err != nil {
		fmt.Fprintf(os.Stderr, "CHECKER-ERROR property=%s load failed: %v\n", *prop, err)
		os.Exit(2)
	}
	if *prop == "all" {
		// every pack on one loaded program, nothing written: used for the false-alarm corpora (benignpar.sh)
		known, err := core.LoadKnown(filepath.Join(*verif, "known_findings.json"))
		if err != nil {
			fmt.Fprintf(os.Stderr, "CHECKER-ERROR known findings: %v\n", err)
			os.Exit(2)
		}
		worst := 0
		for _, id := range rules.IDs() {
			pk := rules.Get(id)
			r := core.NewReport(id)
			r.Floor("packages loaded", p.NumPkgs, 80)
			r.Floor("production functions", len(p.SrcFuncs()), 700)
			func() {
				defer func() {
					if e := recover(); e != nil {
						r.Undecide(id+".panic", "checker", "", fmt.Sprintf("analyser panic: %v", e))
					}
				}()
				pk.Run(p, r, *tier)
				rules.Common(id, p, r)
				rules.RunImports(id, p, r, *tier)
			}()
			out := r.Finish("", *tier, seed, start, known, map[string]any{}, false)
			fmt.Printf("== %s rc=%d\n", id, out.ExitCode)
			if out.ExitCode > worst {
				worst = out.ExitCode
			}
		}
		os.Exit(worst)
	}
	r := core.NewReport(*prop)
	r.ReplayDir = filepath.Join(*verif, "replays")
	r.Explanation = pack.Expl + rules.CommonExpl(*prop)
	r.RuleText = pack.Rule
	r.Assumptions = append(r.Assumptions, pack.Assumptions...)
	r.Notes = append(r.Notes, normNotes...)
	if os.Getenv("VCHECK_LIST") != "" {
		for _, n := range normNotes {
			fmt.Println("NORMALISE", n)
		}
	}
	r.Count("packages", p.NumPkgs)
	r.Count("production functions", len(p.SrcFuncs()))
	r.Floor("packages loaded", p.NumPkgs, 80)
	r.Floor("production functions", len(p.SrcFuncs()), 700)
	func() {
		defer func() {
			if e := recover(); e != nil {
				r.Undecide(*prop+".panic", "checker", "", fmt.Sprintf("analyser panic: %v", e))
				if os.Getenv("VCHECK_DEBUG") != "" {
					panic(e)
				}
			}
		}()
		pack.Run(p, r, *tier)
		rules.Common(*prop, p, r)
		rules.RunImports(*prop, p, r, *tier)
	}()
	known, err := core.LoadKnown(filepath.Join(*verif, "known_findings.json"))
	if err != nil {
		fmt.Fprintf(os.Stderr, "CHECKER-ERROR property=%s known findings: %v\n", *prop, err)
		os.Exit(2)
	}
	vd := *verif
	if *noEvidence {
		vd = ""
	}
	if *jsonOut {
		for _, o := range r.Obligations {
			if o.Verdict != core.Holds {
				fmt.Printf("OBL %s %s %s\n", o.Verdict, o.Key(), o.Pos)
			}
		}
	}
	extra := map[string]any{"goarch": *goarch, "repo": abs}
	if vd == "" {
		// still print, but write nothing
		out := r.Finish("", *tier, seed, start, known, extra, *jsonOut)
		fmt.Println(r.Summary())
		os.Exit(out.ExitCode)
	}
	if *replay != "" {
		os.Exit(doReplay(r, *replay))
	}
	// mutant self-test (liveness of the rules): only when the base tree is decided and clean
	base := map[string]bool{}
	clean := true
	for _, o := range r.Obligations {
		if o.Verdict != core.Holds {
			base[o.Key()] = true
		}
		if o.Verdict == core.Undecided {
			clean = false
		}
	}
	if clean && len(overlays) == 0 && os.Getenv("VCHECK_NO_MUTANTS") == "" {
		ms, fails := runMutants(*verif, abs, *prop, *tier, base)
		extra["mutants"] = ms
		det, app := 0, 0
		for _, m := range ms {
			if m.Status == "detected" {
				det++
			}
			if m.Status == "detected" || m.Status == "MISSED" {
				app++
			}
		}
		extra["mutants_applicable"] = app
		extra["mutants_detected"] = det
		for _, f := range fails {
			r.Undecide(*prop+".selftest", "mutant|"+f, "", "seeded edit applied and type-checked but no rule of this pack reported it: the checker is broken")
		}
	}
	out := r.Finish(vd, *tier, seed, start, known, extra, false)
	fmt.Println(r.Summary())
	if n, ok := extra["mutants_applicable"]; ok {
		fmt.Printf("self-test: %v of %v applicable seeded edits detected\n", extra["mutants_detected"], n)
	}
	fmt.Printf("wall %.1fs\n", time.Since(start).Seconds())
	os.Exit(out.ExitCode)
}

type multi []string

func (m *multi) String() string     { return strings.Join(*m, ",") }
func (m *multi) Set(s string) error { *m = append(*m, s); return nil }
