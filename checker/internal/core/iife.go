package core

import (
	"fmt"
	"go/ast"
	"go/parser"
	"go/token"
	"io/fs"
	"os"
	"path/filepath"
	"sort"
	"strings"
)

// InlineIIFE replaces function literals that are called on the spot, as a statement of their own —
//
//	func() { mu.Lock(); defer mu.Unlock(); … }()
//	v := func() T { …; return x }()
//
// — by their bodies: the statements run in place, a `return` becomes a jump to the end of the inlined body
// (`break` out of a labelled `switch { default: … }`), results are assigned to the variables of the statement, and the
// calls deferred at the top level of the literal follow the body. This is the "per-trip defer" idiom (a critical
// section wrapped in a literal so that the unlock can be deferred): the rules are written for the explicit form
// `Lock(); …; Unlock()`, which this pass restores. The pinned tree has no such statement; the pass is purely syntactic.
//
// Not handled (left as they are): literals with parameters, with named results, with defers below the top level of
// the body or with deferred calls whose arguments are not plain names, `go`/`defer` of a literal, literals that
// mention `recover`.
func InlineIIFE(dir string, overlay map[string][]byte) (map[string][]byte, []string) {
	cur := map[string][]byte{}
	for k, v := range overlay {
		cur[k] = v
	}
	var notes []string
	counter := 0
	for round := 0; round < 4; round++ {
		changed := false
		_ = filepath.WalkDir(dir, func(path string, d fs.DirEntry, err error) error {
			if err != nil {
				return nil
			}
			if d.IsDir() {
				n := d.Name()
				if path != dir && (strings.HasPrefix(n, ".") || n == "testdata" || n == "vendor") {
					return filepath.SkipDir
				}
				return nil
			}
			if !strings.HasSuffix(path, ".go") || strings.HasSuffix(path, "_test.go") {
				return nil
			}
			text, ok := cur[path]
			if !ok {
				b, rerr := os.ReadFile(path)
				if rerr != nil {
					return nil
				}
				text = b
			}
			if !strings.Contains(string(text), "}()") {
				return nil
			}
			rel, _ := filepath.Rel(dir, filepath.Dir(path))
			pkgPath := ModulePath
			if rel != "." {
				pkgPath = ModulePath + "/" + filepath.ToSlash(rel)
			}
			if !IsProd(pkgPath) {
				return nil
			}
			fset := token.NewFileSet()
			file, perr := parser.ParseFile(fset, path, text, parser.SkipObjectResolution)
			if perr != nil || file == nil {
				return nil
			}
			off := func(p token.Pos) int { return fset.PositionFor(p, false).Offset }
			var edits []edit
			for _, dd := range file.Decls {
				fd, ok := dd.(*ast.FuncDecl)
				if !ok || fd.Body == nil {
					continue
				}
				visitStmtLists(fd.Body, func(list []ast.Stmt) {
					for _, st := range list {
						repl, ok := inlineIIFEStmt(fset, text, st, &counter)
						if !ok {
							continue
						}
						s, e := off(st.Pos()), off(st.End())
						overlap := false
						for _, o := range edits {
							if s < o.end && o.start < e {
								overlap = true
							}
						}
						if overlap {
							continue // an enclosing or enclosed literal is being replaced in this round; the next round sees the other
						}
						edits = append(edits, edit{s, e, repl})
						notes = append(notes, fmt.Sprintf("replaced a function literal called on the spot in %s by its body", FuncDeclKey(pkgPath, fd)))
					}
				})
			}
			if len(edits) == 0 {
				return nil
			}
			sort.Slice(edits, func(i, j int) bool { return edits[i].start > edits[j].start })
			out := append([]byte{}, text...)
			for _, e := range edits {
				out = append(out[:e.start], append([]byte(e.text), out[e.end:]...)...)
			}
			cur[path] = out
			changed = true
			return nil
		})
		if !changed {
			break
		}
	}
	if len(notes) == 0 {
		return overlay, nil
	}
	return cur, notes
}

func inlineIIFEStmt(fset *token.FileSet, text []byte, st ast.Stmt, counter *int) (string, bool) {
	off := func(p token.Pos) int { return fset.PositionFor(p, false).Offset }
	var call *ast.CallExpr
	var lhs []ast.Expr
	define := false
	switch x := st.(type) {
	case *ast.ExprStmt:
		call, _ = x.X.(*ast.CallExpr)
	case *ast.AssignStmt:
		if len(x.Rhs) == 1 && (x.Tok == token.ASSIGN || x.Tok == token.DEFINE) {
			call, _ = x.Rhs[0].(*ast.CallExpr)
			lhs = x.Lhs
			define = x.Tok == token.DEFINE
		}
	}
	if call == nil || len(call.Args) != 0 {
		return "", false
	}
	lit, ok := call.Fun.(*ast.FuncLit)
	if !ok || lit.Body == nil || (lit.Type.Params != nil && len(lit.Type.Params.List) > 0) {
		return "", false
	}
	// results
	var resTypes []string
	if lit.Type.Results != nil {
		for _, fl := range lit.Type.Results.List {
			if len(fl.Names) > 0 {
				return "", false // named results
			}
			resTypes = append(resTypes, string(text[off(fl.Type.Pos()):off(fl.Type.End())]))
		}
	}
	if len(resTypes) != len(lhs) {
		return "", false
	}
	for _, l := range lhs {
		if _, isID := l.(*ast.Ident); !isID {
			return "", false
		}
	}
	// defers: only at the top level of the body, plain calls with plain-name arguments
	var deferred []string
	var inner []edit
	bad := false
	for _, s := range lit.Body.List {
		if ds, ok := s.(*ast.DeferStmt); ok {
			if _, isLit := ds.Call.Fun.(*ast.FuncLit); isLit {
				bad = true
			}
			for _, a := range ds.Call.Args {
				if _, isID := a.(*ast.Ident); !isID {
					bad = true
				}
			}
			deferred = append(deferred, string(text[off(ds.Call.Pos()):off(ds.Call.End())]))
			inner = append(inner, edit{off(ds.Pos()), off(ds.End()), ""})
		}
	}
	nReturns := 0
	*counter++
	label := fmt.Sprintf("iife%d", *counter)
	var walk func(n ast.Node, top bool)
	walk = func(n ast.Node, top bool) {
		ast.Inspect(n, func(y ast.Node) bool {
			if y == nil || bad {
				return false
			}
			switch z := y.(type) {
			case *ast.FuncLit:
				return false
			case *ast.DeferStmt:
				isTop := false
				for _, s := range lit.Body.List {
					if s == ast.Stmt(z) {
						isTop = true
					}
				}
				if !isTop {
					bad = true
				}
			case *ast.Ident:
				if z.Name == "recover" {
					bad = true
				}
			case *ast.ReturnStmt:
				nReturns++
				if len(z.Results) != len(lhs) {
					bad = true // `return f()` spreading several values
					return false
				}
				var sb strings.Builder
				sb.WriteString("{ ")
				if len(lhs) > 0 {
					// the results go to fresh variables declared ahead of the body (the body may declare variables of
					// the same names as the statement's own, which would capture a direct assignment)
					var parts []string
					for i := range z.Results {
						parts = append(parts, fmt.Sprintf("%s_o%d", label, i))
					}
					var vals []string
					for _, e := range z.Results {
						vals = append(vals, string(text[off(e.Pos()):off(e.End())]))
					}
					sb.WriteString(strings.Join(parts, ", ") + " = " + strings.Join(vals, ", ") + "; ")
				}
				sb.WriteString("break " + label + " }")
				inner = append(inner, edit{off(z.Pos()), off(z.End()), sb.String()})
				return false
			}
			return true
		})
	}
	walk(lit.Body, true)
	if bad {
		return "", false
	}
	// compose
	bs, be := off(lit.Body.Lbrace)+1, off(lit.Body.Rbrace)
	body := append([]byte{}, text[bs:be]...)
	sort.Slice(inner, func(i, j int) bool { return inner[i].start > inner[j].start })
	for _, e := range inner {
		s, en := e.start-bs, e.end-bs
		if s < 0 || en > len(body) {
			return "", false
		}
		body = append(body[:s], append([]byte(e.text), body[en:]...)...)
	}
	var out strings.Builder
	for i := range lhs {
		out.WriteString(fmt.Sprintf("var %s_o%d %s\n", label, i, resTypes[i]))
	}
	if nReturns > 0 {
		out.WriteString(label + ":\nswitch {\ndefault:\n")
		out.Write(body)
		out.WriteString("\n}\n")
	} else {
		out.WriteString("{\n")
		out.Write(body)
		out.WriteString("\n}\n")
	}
	for i := len(deferred) - 1; i >= 0; i-- {
		out.WriteString(deferred[i] + "\n")
	}
	if len(lhs) > 0 {
		var names, outs []string
		for i, l := range lhs {
			names = append(names, l.(*ast.Ident).Name)
			outs = append(outs, fmt.Sprintf("%s_o%d", label, i))
		}
		op := " = "
		if define {
			op = " := "
		}
		out.WriteString(strings.Join(names, ", ") + op + strings.Join(outs, ", ") + "\n")
		return out.String(), true
	}
	return "{\n" + out.String() + "}", true
}
