package core

import (
	"fmt"
	"go/ast"
	"go/parser"
	"go/token"
	"io/fs"
	"os"
	"path/filepath"
	"sort"
	"strings"
)

// InlineIIFE replaces function literals that are called on the spot, as a statement of their own —
//
//	func() { mu.Lock(); defer mu.Unlock(); … }()
//	v := func() T { …; return x }()
//
// — by their bodies: the statements run in place, a `return` becomes a jump to the end of the inlined body
// (`break` out of a labelled `switch { default: … }`), results are assigned to the variables of the statement, and the
// calls deferred at the top level of the literal follow the body. This is the "per-trip defer" idiom (a critical
// section wrapped in a literal so that the unlock can be deferred): the rules are written for the explicit form
// `Lock(); …; Unlock()`, which this pass restores. The pinned tree has no such statement; the pass is purely syntactic.
//
// Not handled (left as they are): literals with parameters, with named results, with defers below the top level of
// the body or with deferred calls whose arguments are not plain names, `go`/`defer` of a literal, literals that
// mention `recover`.
// IIFEBaseline, when set, names the functions whose bodies are unchanged since the rules were validated.
var IIFEBaseline *Baseline

func InlineIIFE(dir string, overlay map[string][]byte) (map[string][]byte, []string) {
	cur := map[string][]byte{}
	for k, v := range overlay {
		cur[k] = v
	}
	var notes []string
	counter := 0
	for round := 0; round < 4; round++ {
		changed := false
		_ = filepath.WalkDir(dir, func(path string, d fs.DirEntry, err error) error {
			if err != nil {
				return nil
			}
			if d.IsDir() {
				n := d.Name()
				if path != dir && (strings.HasPrefix(n, ".") || n == "testdata" || n == "vendor") {
					return filepath.SkipDir
				}
				return nil
			}
			if !strings.HasSuffix(path, ".go") || strings.HasSuffix(path, "_test.go") {
				return nil
			}
			text, ok := cur[path]
			if !ok {
				b, rerr := os.ReadFile(path)
				if rerr != nil {
					return nil
				}
				text = b
			}
			if !strings.Contains(string(text), "}()") {
				return nil
			}
			rel, _ := filepath.Rel(dir, filepath.Dir(path))
			pkgPath := ModulePath
			if rel != "." {
				pkgPath = ModulePath + "/" + filepath.ToSlash(rel)
			}
			if !IsProd(pkgPath) {
				return nil
			}
			fset := token.NewFileSet()
			file, perr := parser.ParseFile(fset, path, text, parser.SkipObjectResolution)
			if perr != nil || file == nil {
				return nil
			}
			off := func(p token.Pos) int { return fset.PositionFor(p, false).Offset }
			var edits []edit
			for _, dd := range file.Decls {
				fd, ok := dd.(*ast.FuncDecl)
				if !ok || fd.Body == nil {
					continue
				}
				visitStmtLists(fd.Body, func(list []ast.Stmt) {
					for _, st := range list {
						repl, ok := inlineIIFEStmt(fset, text, st, &counter)
						if !ok && !(IIFEBaseline != nil && IIFEBaseline.Funcs[FuncDeclKey(pkgPath, fd)].BodyHash == bodyHash(fset, fd)) {
							// (a function that is as it was when the rules were validated is left as it is)
							repl, ok = unwrapGoLiteral(fset, text, fd, st)
						}
						if !ok {
							continue
						}
						s, e := off(st.Pos()), off(st.End())
						overlap := false
						for _, o := range edits {
							if s < o.end && o.start < e {
								overlap = true
							}
						}
						if overlap {
							continue // an enclosing or enclosed literal is being replaced in this round; the next round sees the other
						}
						edits = append(edits, edit{s, e, repl})
						notes = append(notes, fmt.Sprintf("replaced a function literal called on the spot in %s by its body", FuncDeclKey(pkgPath, fd)))
					}
				})
			}
			if len(edits) == 0 {
				return nil
			}
			sort.Slice(edits, func(i, j int) bool { return edits[i].start > edits[j].start })
			out := append([]byte{}, text...)
			for _, e := range edits {
				out = append(out[:e.start], append([]byte(e.text), out[e.end:]...)...)
			}
			cur[path] = out
			changed = true
			return nil
		})
		if !changed {
			break
		}
	}
	if len(notes) == 0 {
		return overlay, nil
	}
	return cur, notes
}

func inlineIIFEStmt(fset *token.FileSet, text []byte, st ast.Stmt, counter *int) (string, bool) {
	off := func(p token.Pos) int { return fset.PositionFor(p, false).Offset }
	var call *ast.CallExpr
	var lhs []ast.Expr
	define := false
	switch x := st.(type) {
	case *ast.ExprStmt:
		call, _ = x.X.(*ast.CallExpr)
	case *ast.AssignStmt:
		if len(x.Rhs) == 1 && (x.Tok == token.ASSIGN || x.Tok == token.DEFINE) {
			call, _ = x.Rhs[0].(*ast.CallExpr)
			lhs = x.Lhs
			define = x.Tok == token.DEFINE
		}
	}
	if call == nil || len(call.Args) != 0 {
		return "", false
	}
	lit, ok := call.Fun.(*ast.FuncLit)
	if !ok || lit.Body == nil || (lit.Type.Params != nil && len(lit.Type.Params.List) > 0) {
		return "", false
	}
	// results
	var resTypes []string
	if lit.Type.Results != nil {
		for _, fl := range lit.Type.Results.List {
			if len(fl.Names) > 0 {
				return "", false // named results
			}
			resTypes = append(resTypes, string(text[off(fl.Type.Pos()):off(fl.Type.End())]))
		}
	}
	if len(resTypes) != len(lhs) {
		return "", false
	}
	for _, l := range lhs {
		if _, isID := l.(*ast.Ident); !isID {
			return "", false
		}
	}
	// defers: only at the top level of the body, plain calls with plain-name arguments
	var deferred []string
	var inner []edit
	bad := false
	for _, s := range lit.Body.List {
		if ds, ok := s.(*ast.DeferStmt); ok {
			if _, isLit := ds.Call.Fun.(*ast.FuncLit); isLit {
				bad = true
			}
			for _, a := range ds.Call.Args {
				if _, isID := a.(*ast.Ident); !isID {
					bad = true
				}
			}
			deferred = append(deferred, string(text[off(ds.Call.Pos()):off(ds.Call.End())]))
			inner = append(inner, edit{off(ds.Pos()), off(ds.End()), ""})
		}
	}
	nReturns := 0
	*counter++
	label := fmt.Sprintf("iife%d", *counter)
	var walk func(n ast.Node, top bool)
	walk = func(n ast.Node, top bool) {
		ast.Inspect(n, func(y ast.Node) bool {
			if y == nil || bad {
				return false
			}
			switch z := y.(type) {
			case *ast.FuncLit:
				return false
			case *ast.DeferStmt:
				isTop := false
				for _, s := range lit.Body.List {
					if s == ast.Stmt(z) {
						isTop = true
					}
				}
				if !isTop {
					bad = true
				}
			case *ast.Ident:
				if z.Name == "recover" {
					bad = true
				}
			case *ast.ReturnStmt:
				nReturns++
				if len(z.Results) != len(lhs) {
					bad = true // `return f()` spreading several values
					return false
				}
				var sb strings.Builder
				sb.WriteString("{ ")
				if len(lhs) > 0 {
					// the results go to fresh variables declared ahead of the body (the body may declare variables of
					// the same names as the statement's own, which would capture a direct assignment)
					var parts []string
					for i := range z.Results {
						parts = append(parts, fmt.Sprintf("%s_o%d", label, i))
					}
					var vals []string
					for _, e := range z.Results {
						vals = append(vals, string(text[off(e.Pos()):off(e.End())]))
					}
					sb.WriteString(strings.Join(parts, ", ") + " = " + strings.Join(vals, ", ") + "; ")
				}
				sb.WriteString("break " + label + " }")
				inner = append(inner, edit{off(z.Pos()), off(z.End()), sb.String()})
				return false
			}
			return true
		})
	}
	walk(lit.Body, true)
	if bad {
		return "", false
	}
	// compose
	bs, be := off(lit.Body.Lbrace)+1, off(lit.Body.Rbrace)
	body := append([]byte{}, text[bs:be]...)
	sort.Slice(inner, func(i, j int) bool { return inner[i].start > inner[j].start })
	for _, e := range inner {
		s, en := e.start-bs, e.end-bs
		if s < 0 || en > len(body) {
			return "", false
		}
		body = append(body[:s], append([]byte(e.text), body[en:]...)...)
	}
	var out strings.Builder
	for i := range lhs {
		out.WriteString(fmt.Sprintf("var %s_o%d %s\n", label, i, resTypes[i]))
	}
	if nReturns > 0 {
		out.WriteString(label + ":\nswitch {\ndefault:\n")
		out.Write(body)
		out.WriteString("\n}\n")
	} else {
		out.WriteString("{\n")
		out.Write(body)
		out.WriteString("\n}\n")
	}
	for i := len(deferred) - 1; i >= 0; i-- {
		out.WriteString(deferred[i] + "\n")
	}
	if len(lhs) > 0 {
		var names, outs []string
		for i, l := range lhs {
			names = append(names, l.(*ast.Ident).Name)
			outs = append(outs, fmt.Sprintf("%s_o%d", label, i))
		}
		op := " = "
		if define {
			op = " := "
		}
		out.WriteString(strings.Join(names, ", ") + op + strings.Join(outs, ", ") + "\n")
		return out.String(), true
	}
	return "{\n" + out.String() + "}", true
}

// unwrapGoLiteral: `go func() { f(a, b) }()` — a literal without parameters whose whole body is one call — is read as
// `go f(a, b)`. The two differ only in when the arguments are evaluated (at the go statement, or later inside the
// goroutine); they are the same when nothing assigns the names the call mentions after the goroutine was started, and
// only then is the rewrite made: no name of the call is assigned later in the function, nor anywhere in a loop around
// the go statement unless the loop declares it (its own variables are per-iteration).
func unwrapGoLiteral(fset *token.FileSet, text []byte, fd *ast.FuncDecl, st ast.Stmt) (string, bool) {
	off := func(p token.Pos) int { return fset.PositionFor(p, false).Offset }
	g, ok := st.(*ast.GoStmt)
	if !ok || len(g.Call.Args) != 0 {
		return "", false
	}
	lit, ok := g.Call.Fun.(*ast.FuncLit)
	if !ok || lit.Body == nil || len(lit.Body.List) != 1 || (lit.Type.Params != nil && len(lit.Type.Params.List) > 0) || (lit.Type.Results != nil && len(lit.Type.Results.List) > 0) {
		return "", false
	}
	es, ok := lit.Body.List[0].(*ast.ExprStmt)
	if !ok {
		return "", false
	}
	call, ok := es.X.(*ast.CallExpr)
	if !ok {
		return "", false
	}
	if _, isLit := call.Fun.(*ast.FuncLit); isLit {
		return "", false
	}
	names := map[string]bool{}
	bad := false
	ast.Inspect(call, func(n ast.Node) bool {
		switch x := n.(type) {
		case *ast.FuncLit:
			bad = true
			return false
		case *ast.SelectorExpr:
			ast.Inspect(x.X, func(m ast.Node) bool {
				if id, ok := m.(*ast.Ident); ok {
					names[id.Name] = true
				}
				return true
			})
			return false
		case *ast.Ident:
			names[x.Name] = true
		}
		return true
	})
	if bad {
		return "", false
	}
	// loops around the go statement, and what they declare
	var loops []ast.Node
	var find func(n ast.Node, stack []ast.Node) bool
	find = func(n ast.Node, stack []ast.Node) bool {
		found := false
		ast.Inspect(n, func(m ast.Node) bool {
			if found || m == nil {
				return false
			}
			if m == ast.Node(g) {
				loops = append([]ast.Node{}, stack...)
				found = true
				return false
			}
			if m != n {
				switch m.(type) {
				case *ast.ForStmt, *ast.RangeStmt:
					if find(m, append(stack, m)) {
						found = true
					}
					return false
				}
			}
			return true
		})
		return found
	}
	find(fd.Body, nil)
	declaredIn := func(loop ast.Node, name string) bool {
		d := false
		switch l := loop.(type) {
		case *ast.RangeStmt:
			for _, e := range []ast.Expr{l.Key, l.Value} {
				if id, ok := e.(*ast.Ident); ok && id.Name == name && l.Tok == token.DEFINE {
					d = true
				}
			}
		case *ast.ForStmt:
			if as, ok := l.Init.(*ast.AssignStmt); ok && as.Tok == token.DEFINE {
				for _, e := range as.Lhs {
					if id, ok := e.(*ast.Ident); ok && id.Name == name {
						d = true
					}
				}
			}
		}
		var body *ast.BlockStmt
		switch l := loop.(type) {
		case *ast.RangeStmt:
			body = l.Body
		case *ast.ForStmt:
			body = l.Body
		}
		if body != nil {
			for _, s := range body.List {
				switch x := s.(type) {
				case *ast.AssignStmt:
					if x.Tok == token.DEFINE {
						for _, e := range x.Lhs {
							if id, ok := e.(*ast.Ident); ok && id.Name == name {
								d = true
							}
						}
					}
				case *ast.DeclStmt:
					if gd, ok := x.Decl.(*ast.GenDecl); ok {
						for _, sp := range gd.Specs {
							if vs, ok := sp.(*ast.ValueSpec); ok {
								for _, nm := range vs.Names {
									if nm.Name == name {
										d = true
									}
								}
							}
						}
					}
				}
			}
		}
		return d
	}
	assigned := func(n ast.Node, name string, after token.Pos) bool {
		hit := false
		ast.Inspect(n, func(m ast.Node) bool {
			if hit || m == nil {
				return false
			}
			check := func(e ast.Expr, pos token.Pos) {
				if id, ok := e.(*ast.Ident); ok && id.Name == name && pos > after {
					hit = true
				}
			}
			switch x := m.(type) {
			case *ast.AssignStmt:
				for _, e := range x.Lhs {
					check(e, x.Pos())
				}
			case *ast.IncDecStmt:
				check(x.X, x.Pos())
			case *ast.RangeStmt:
				if x.Tok == token.ASSIGN {
					if x.Key != nil {
						check(x.Key, x.Pos())
					}
					if x.Value != nil {
						check(x.Value, x.Pos())
					}
				}
			case *ast.UnaryExpr:
				if x.Op == token.AND {
					check(x.X, x.Pos()) // address taken later: may be written through it
				}
			}
			return true
		})
		return hit
	}
	for name := range names {
		if assigned(fd.Body, name, g.End()) {
			return "", false
		}
		for _, l := range loops {
			if declaredIn(l, name) {
				continue
			}
			if assigned(l, name, token.NoPos) {
				return "", false
			}
		}
	}
	return "go " + string(text[off(call.Pos()):off(call.End())]), true
}
