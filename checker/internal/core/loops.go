package core

import (
	"go/ast"
	"go/token"
	"go/types"

	"golang.org/x/tools/go/packages"
	"golang.org/x/tools/go/ssa"
)

// Loop is a for/range statement of a function.
type Loop struct {
	Fn    *ssa.Function
	Stmt  ast.Stmt // *ast.ForStmt or *ast.RangeStmt
	Body  *ast.BlockStmt
	Label string
	Pkg   *packages.Package
	Depth int // nesting depth among loops of the function
	Outer *Loop
}

// PkgOf returns the go/packages package of an SSA function.
func (p *Prog) PkgOf(fn *ssa.Function) *packages.Package {
	for fn.Parent() != nil {
		fn = fn.Parent()
	}
	if fn.Pkg == nil {
		return nil
	}
	return p.ByPath[fn.Pkg.Pkg.Path()]
}

// FuncBody returns the syntax body of fn (FuncDecl or FuncLit).
func FuncBody(fn *ssa.Function) *ast.BlockStmt {
	switch n := fn.Syntax().(type) {
	case *ast.FuncDecl:
		return n.Body
	case *ast.FuncLit:
		return n.Body
	}
	return nil
}

// Loops returns the loops of fn (not of nested function literals), outermost first.
func (p *Prog) Loops(fn *ssa.Function) []*Loop {
	body := FuncBody(fn)
	if body == nil {
		return nil
	}
	pk := p.PkgOf(fn)
	var out []*Loop
	var walk func(n ast.Node, outer *Loop, label string)
	walk = func(n ast.Node, outer *Loop, label string) {
		ast.Inspect(n, func(x ast.Node) bool {
			if x == nil || x == n {
				return true
			}
			switch s := x.(type) {
			case *ast.FuncLit:
				return false
			case *ast.LabeledStmt:
				walk(s.Stmt, outer, s.Label.Name)
				// handle the labelled statement itself
				switch ls := s.Stmt.(type) {
				case *ast.ForStmt, *ast.RangeStmt:
					_ = ls
				}
				return false
			case *ast.ForStmt:
				l := &Loop{Fn: fn, Stmt: s, Body: s.Body, Pkg: pk, Outer: outer}
				if outer != nil {
					l.Depth = outer.Depth + 1
				}
				out = append(out, l)
				walk(s.Body, l, "")
				return false
			case *ast.RangeStmt:
				l := &Loop{Fn: fn, Stmt: s, Body: s.Body, Pkg: pk, Outer: outer}
				if outer != nil {
					l.Depth = outer.Depth + 1
				}
				out = append(out, l)
				walk(s.Body, l, "")
				return false
			}
			return true
		})
	}
	// labelled loops: a first pass to attach labels
	labels := map[ast.Stmt]string{}
	ast.Inspect(body, func(x ast.Node) bool {
		if ls, ok := x.(*ast.LabeledStmt); ok {
			labels[ls.Stmt] = ls.Label.Name
		}
		return true
	})
	// wrapper so that a loop that is the direct statement is also seen
	wrapper := &ast.BlockStmt{List: body.List, Lbrace: body.Lbrace, Rbrace: body.Rbrace}
	var walk2 func(n ast.Node, outer *Loop)
	walk2 = func(n ast.Node, outer *Loop) {
		ast.Inspect(n, func(x ast.Node) bool {
			if x == nil {
				return true
			}
			switch s := x.(type) {
			case *ast.FuncLit:
				return false
			case *ast.ForStmt:
				if x == n {
					return true
				}
				l := &Loop{Fn: fn, Stmt: s, Body: s.Body, Pkg: pk, Outer: outer, Label: labels[s]}
				if outer != nil {
					l.Depth = outer.Depth + 1
				}
				out = append(out, l)
				walk2(s.Body, l)
				return false
			case *ast.RangeStmt:
				if x == n {
					return true
				}
				l := &Loop{Fn: fn, Stmt: s, Body: s.Body, Pkg: pk, Outer: outer, Label: labels[s]}
				if outer != nil {
					l.Depth = outer.Depth + 1
				}
				out = append(out, l)
				walk2(s.Body, l)
				return false
			}
			return true
		})
	}
	_ = walk
	out = nil
	walk2(wrapper, nil)
	return out
}

// RangeExpr returns the ranged-over expression (nil for plain for loops).
func (l *Loop) RangeExpr() ast.Expr {
	if r, ok := l.Stmt.(*ast.RangeStmt); ok {
		return r.X
	}
	return nil
}

// RangeType returns the type of the ranged-over expression.
func (l *Loop) RangeType() types.Type {
	if x := l.RangeExpr(); x != nil && l.Pkg != nil {
		return l.Pkg.TypesInfo.TypeOf(x)
	}
	return nil
}

// Describe names the loop without line numbers.
func (l *Loop) Describe() string {
	if x := l.RangeExpr(); x != nil {
		return "range " + types.ExprString(x)
	}
	if f, ok := l.Stmt.(*ast.ForStmt); ok && f.Cond != nil {
		return "for " + types.ExprString(f.Cond)
	}
	return "for"
}

// Exit is a statement that leaves a loop before exhaustion.
type Exit struct {
	Stmt ast.Stmt
	Kind string // return | break | goto | continue-outer
}

// EarlyExits lists the statements in the loop body (excluding nested function literals) that leave the loop:
// return, break out of this loop (or an enclosing one), labelled continue of an enclosing loop, goto.
func (l *Loop) EarlyExits() []Exit {
	var out []Exit
	outerLabels := map[string]bool{}
	for o := l.Outer; o != nil; o = o.Outer {
		if o.Label != "" {
			outerLabels[o.Label] = true
		}
	}
	var walk func(n ast.Node, breakable int)
	walk = func(n ast.Node, breakable int) {
		ast.Inspect(n, func(x ast.Node) bool {
			if x == nil || x == n {
				return true
			}
			switch s := x.(type) {
			case *ast.FuncLit:
				return false
			case *ast.ReturnStmt:
				out = append(out, Exit{s, "return"})
			case *ast.ForStmt:
				walk(s.Body, breakable+1)
				return false
			case *ast.RangeStmt:
				walk(s.Body, breakable+1)
				return false
			case *ast.SwitchStmt:
				if s.Init != nil {
					walk(s.Init, breakable)
				}
				walk(s.Body, breakable+1)
				return false
			case *ast.TypeSwitchStmt:
				walk(s.Body, breakable+1)
				return false
			case *ast.SelectStmt:
				walk(s.Body, breakable+1)
				return false
			case *ast.BranchStmt:
				switch s.Tok {
				case token.BREAK:
					if s.Label == nil {
						if breakable == 0 {
							out = append(out, Exit{s, "break"})
						}
					} else if s.Label.Name == l.Label || outerLabels[s.Label.Name] {
						out = append(out, Exit{s, "break"})
					}
				case token.CONTINUE:
					if s.Label != nil && outerLabels[s.Label.Name] {
						out = append(out, Exit{s, "continue-outer"})
					}
				case token.GOTO:
					// a goto whose label lies inside this loop's body stays in the iteration
					inside := false
					if s.Label != nil {
						ast.Inspect(l.Body, func(y ast.Node) bool {
							if ls, ok := y.(*ast.LabeledStmt); ok && ls.Label.Name == s.Label.Name {
								inside = true
							}
							return !inside
						})
					}
					if !inside {
						out = append(out, Exit{s, "goto"})
					}
				}
			}
			return true
		})
	}
	walk(l.Body, 0)
	return out
}

// Contains reports whether pos lies in the loop body.
func (l *Loop) Contains(pos token.Pos) bool { return l.Body.Pos() <= pos && pos <= l.Body.End() }

// InnermostLoopAt returns the innermost loop of fn containing pos.
func (p *Prog) InnermostLoopAt(fn *ssa.Function, pos token.Pos) *Loop {
	var best *Loop
	for _, l := range p.Loops(fn) {
		if l.Contains(pos) && (best == nil || l.Depth > best.Depth) {
			best = l
		}
	}
	return best
}

// CallsInNode lists call expressions inside node n (not in nested function literals unless deep).
func CallsInNode(n ast.Node, deep bool) []*ast.CallExpr {
	var out []*ast.CallExpr
	ast.Inspect(n, func(x ast.Node) bool {
		switch s := x.(type) {
		case *ast.FuncLit:
			return deep
		case *ast.CallExpr:
			out = append(out, s)
		}
		return true
	})
	return out
}
