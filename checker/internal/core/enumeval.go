package core

import (
	"go/constant"
	"go/token"

	"golang.org/x/tools/go/ssa"
)

// EvalBoolFunc partially evaluates fn (a predicate over one integer-like parameter) for the given constant
// argument by propagating constants through comparisons, boolean operators, phis and branches. No code is
// executed; anything outside this fragment makes the result undecided (ok == false).
// EnumCallHook, if set, evaluates calls (library predicates of the enum type) from already known operand values.
var EnumCallHook func(c *ssa.Call, get func(ssa.Value) (constant.Value, bool)) (constant.Value, bool)

func EvalBoolFunc(fn *ssa.Function, arg constant.Value) (result bool, ok bool) {
	if len(fn.Blocks) == 0 || len(fn.Params) < 1 {
		return false, false
	}
	param := fn.Params[len(fn.Params)-1]
	vals := map[ssa.Value]constant.Value{param: arg}
	get := func(v ssa.Value) (constant.Value, bool) {
		if c, ok := v.(*ssa.Const); ok {
			if c.Value == nil {
				return nil, false
			}
			return c.Value, true
		}
		x, ok := vals[v]
		return x, ok
	}
	lookups := map[*ssa.Lookup]bool{}
	b := fn.Blocks[0]
	var prev *ssa.BasicBlock
	for steps := 0; steps < 500; steps++ {
		for _, in := range b.Instrs {
			switch x := in.(type) {
			case *ssa.DebugRef:
			case *ssa.Phi:
				for i, p := range b.Preds {
					if p == prev {
						if v, ok := get(x.Edges[i]); ok {
							vals[x] = v
						} else {
							return false, false
						}
					}
				}
			case *ssa.BinOp:
				l, ok1 := get(x.X)
				r, ok2 := get(x.Y)
				if !ok1 || !ok2 {
					return false, false
				}
				switch x.Op {
				case token.EQL, token.NEQ, token.LSS, token.LEQ, token.GTR, token.GEQ:
					vals[x] = constant.MakeBool(constant.Compare(l, x.Op, r))
				default:
					return false, false
				}
			case *ssa.UnOp:
				if _, isGlobal := x.X.(*ssa.Global); isGlobal && x.Op == token.MUL {
					continue // load of a package-level variable: judged where it is used (a set lookup)
				}
				if x.Op != token.NOT {
					return false, false
				}
				v, ok := get(x.X)
				if !ok {
					return false, false
				}
				vals[x] = constant.MakeBool(!constant.BoolVal(v))
			case *ssa.Call:
				if EnumCallHook == nil {
					return false, false
				}
				v, ok := EnumCallHook(x, get)
				if !ok {
					return false, false
				}
				vals[x] = v
			case *ssa.Lookup:
				// membership in a package-level set that is filled with constant keys in the package initialiser
				// and written nowhere else
				k, okk := get(x.Index)
				keys, oks := constantKeySet(x.X)
				if !okk || !oks || !x.CommaOk {
					return false, false
				}
				member := false
				for _, kk := range keys {
					if constant.Compare(k, token.EQL, kk) {
						member = true
					}
				}
				lookups[x] = member
			case *ssa.Extract:
				lk, isLk := x.Tuple.(*ssa.Lookup)
				m, known := lookups[lk]
				if !isLk || !known || x.Index != 1 {
					if x.Index == 0 && isLk && known {
						continue // the value of the set entry: not needed unless used (then undecided at the use)
					}
					return false, false
				}
				vals[x] = constant.MakeBool(m)
			case *ssa.Convert:
				v, ok := get(x.X)
				if !ok {
					return false, false
				}
				vals[x] = v
			case *ssa.ChangeType:
				v, ok := get(x.X)
				if !ok {
					return false, false
				}
				vals[x] = v
			case *ssa.If:
				v, ok := get(x.Cond)
				if !ok {
					return false, false
				}
				prev = b
				if constant.BoolVal(v) {
					b = b.Succs[0]
				} else {
					b = b.Succs[1]
				}
				goto next
			case *ssa.Jump:
				prev = b
				b = b.Succs[0]
				goto next
			case *ssa.Return:
				if len(x.Results) != 1 {
					return false, false
				}
				v, ok := get(x.Results[0])
				if !ok {
					return false, false
				}
				return constant.BoolVal(v), true
			default:
				return false, false
			}
		}
		return false, false
	next:
	}
	return false, false
}

// constantKeySet: m is a load of a package-level map variable that is assigned once, in the package initialiser, a
// map built there with constant keys, and the variable is stored to nowhere else in the package. Returns the keys.
func constantKeySet(m ssa.Value) ([]constant.Value, bool) {
	ld, ok := m.(*ssa.UnOp)
	if !ok || ld.Op != token.MUL {
		return nil, false
	}
	g, ok := ld.X.(*ssa.Global)
	if !ok || g.Pkg == nil {
		return nil, false
	}
	initFn := g.Pkg.Func("init")
	if initFn == nil {
		return nil, false
	}
	var made ssa.Value
	nStores := 0
	for _, mem := range g.Pkg.Members {
		fn, isFn := mem.(*ssa.Function)
		if !isFn {
			continue
		}
		for _, f := range WithClosures(fn) {
			EachInstr(f, func(in ssa.Instruction) {
				switch x := in.(type) {
				case *ssa.Store:
					if x.Addr == ssa.Value(g) {
						nStores++
						made = x.Val
					}
				case *ssa.MapUpdate:
					if u, ok := x.Map.(*ssa.UnOp); ok && u.X == ssa.Value(g) {
						nStores += 2 // written after initialisation
					}
				}
			})
		}
	}
	if nStores != 1 || made == nil {
		return nil, false
	}
	var keys []constant.Value
	okAll := true
	EachInstr(initFn, func(in ssa.Instruction) {
		mu, ok := in.(*ssa.MapUpdate)
		if !ok || mu.Map != made {
			return
		}
		c, ok := mu.Key.(*ssa.Const)
		if !ok || c.Value == nil {
			okAll = false
			return
		}
		keys = append(keys, c.Value)
	})
	return keys, okAll
}
