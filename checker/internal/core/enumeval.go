package core

import (
	"go/constant"
	"go/token"

	"golang.org/x/tools/go/ssa"
)

// EvalBoolFunc partially evaluates fn (a predicate over one integer-like parameter) for the given constant
// argument by propagating constants through comparisons, boolean operators, phis and branches. No code is
// executed; anything outside this fragment makes the result undecided (ok == false).
// EnumCallHook, if set, evaluates calls (library predicates of the enum type) from already known operand values.
var EnumCallHook func(c *ssa.Call, get func(ssa.Value) (constant.Value, bool)) (constant.Value, bool)

func EvalBoolFunc(fn *ssa.Function, arg constant.Value) (result bool, ok bool) {
	if len(fn.Blocks) == 0 || len(fn.Params) < 1 {
		return false, false
	}
	param := fn.Params[len(fn.Params)-1]
	vals := map[ssa.Value]constant.Value{param: arg}
	get := func(v ssa.Value) (constant.Value, bool) {
		if c, ok := v.(*ssa.Const); ok {
			if c.Value == nil {
				return nil, false
			}
			return c.Value, true
		}
		x, ok := vals[v]
		return x, ok
	}
	b := fn.Blocks[0]
	var prev *ssa.BasicBlock
	for steps := 0; steps < 500; steps++ {
		for _, in := range b.Instrs {
			switch x := in.(type) {
			case *ssa.DebugRef:
			case *ssa.Phi:
				for i, p := range b.Preds {
					if p == prev {
						if v, ok := get(x.Edges[i]); ok {
							vals[x] = v
						} else {
							return false, false
						}
					}
				}
			case *ssa.BinOp:
				l, ok1 := get(x.X)
				r, ok2 := get(x.Y)
				if !ok1 || !ok2 {
					return false, false
				}
				switch x.Op {
				case token.EQL, token.NEQ, token.LSS, token.LEQ, token.GTR, token.GEQ:
					vals[x] = constant.MakeBool(constant.Compare(l, x.Op, r))
				default:
					return false, false
				}
			case *ssa.UnOp:
				if x.Op != token.NOT {
					return false, false
				}
				v, ok := get(x.X)
				if !ok {
					return false, false
				}
				vals[x] = constant.MakeBool(!constant.BoolVal(v))
			case *ssa.Call:
				if EnumCallHook == nil {
					return false, false
				}
				v, ok := EnumCallHook(x, get)
				if !ok {
					return false, false
				}
				vals[x] = v
			case *ssa.Convert:
				v, ok := get(x.X)
				if !ok {
					return false, false
				}
				vals[x] = v
			case *ssa.ChangeType:
				v, ok := get(x.X)
				if !ok {
					return false, false
				}
				vals[x] = v
			case *ssa.If:
				v, ok := get(x.Cond)
				if !ok {
					return false, false
				}
				prev = b
				if constant.BoolVal(v) {
					b = b.Succs[0]
				} else {
					b = b.Succs[1]
				}
				goto next
			case *ssa.Jump:
				prev = b
				b = b.Succs[0]
				goto next
			case *ssa.Return:
				if len(x.Results) != 1 {
					return false, false
				}
				v, ok := get(x.Results[0])
				if !ok {
					return false, false
				}
				return constant.BoolVal(v), true
			default:
				return false, false
			}
		}
		return false, false
	next:
	}
	return false, false
}
