package core

import (
	"go/token"

	"golang.org/x/tools/go/ssa"
)

// CountOnPaths computes the minimum and maximum number of instructions satisfying pred on any path from the
// beginning of block start to a function exit (return/panic) or to a block for which stop returns true
// (the stop block itself is not counted). ok is false if a cycle not broken by stop is reachable.
func CountOnPaths(start *ssa.BasicBlock, pred InstrPred, stop func(*ssa.BasicBlock) bool) (min, max int, ok bool) {
	type res struct {
		min, max int
		ok       bool
	}
	memo := map[*ssa.BasicBlock]*res{}
	onStack := map[*ssa.BasicBlock]bool{}
	var visit func(b *ssa.BasicBlock, first bool) res
	visit = func(b *ssa.BasicBlock, first bool) res {
		if !first && stop != nil && stop(b) {
			return res{0, 0, true}
		}
		if r, ok := memo[b]; ok {
			return *r
		}
		if onStack[b] {
			return res{0, 0, false}
		}
		onStack[b] = true
		defer delete(onStack, b)
		n := 0
		for _, in := range b.Instrs {
			if pred(in) {
				n++
			}
		}
		if len(b.Succs) == 0 {
			r := res{n, n, true}
			memo[b] = &r
			return r
		}
		out := res{-1, -1, true}
		for _, s := range b.Succs {
			sr := visit(s, false)
			if !sr.ok {
				out.ok = false
				continue
			}
			if out.min < 0 || sr.min < out.min {
				out.min = sr.min
			}
			if sr.max > out.max {
				out.max = sr.max
			}
		}
		if out.min < 0 {
			out.min, out.max = 0, 0
		}
		out.min += n
		out.max += n
		memo[b] = &out
		return out
	}
	r := visit(start, true)
	return r.min, r.max, r.ok
}

// SelectArm returns the block executed when the select takes state k (nil if not found).
func SelectArm(sel *ssa.Select, k int) *ssa.BasicBlock {
	idx := ExtractOf(sel, 0)
	if idx == nil || idx.Referrers() == nil {
		return nil
	}
	for _, ref := range *idx.Referrers() {
		b, ok := ref.(*ssa.BinOp)
		if !ok || b.Op != token.EQL {
			continue
		}
		c, ok := b.Y.(*ssa.Const)
		if !ok || c.Value == nil || c.Int64() != int64(k) {
			continue
		}
		if b.Referrers() == nil {
			continue
		}
		for _, r2 := range *b.Referrers() {
			if ifi, ok := r2.(*ssa.If); ok {
				return ifi.Block().Succs[0]
			}
		}
	}
	return nil
}

// SelectRecvValue returns the value received on state k of a select (nil if that state does not bind one).
func SelectRecvValue(sel *ssa.Select, k int) ssa.Value {
	// results: index, recvOk, then one value per receive state in order
	pos := 2
	for i, st := range sel.States {
		if st.Dir == 2 /* types.RecvOnly */ {
			if i == k {
				return ExtractOf(sel, pos)
			}
			pos++
		}
	}
	return nil
}
