package core

import (
	"fmt"
	"go/constant"
	"go/token"

	"golang.org/x/tools/go/ssa"
)

// EdgeFilter decides whether the CFG edge from block b to its succ-th successor may be taken.
type EdgeFilter func(b *ssa.BasicBlock, succ int) bool

// InstrPred selects instructions.
type InstrPred func(ssa.Instruction) bool

// PathQuery describes a reachability question inside one function.
type PathQuery struct {
	Fn     *ssa.Function
	From   ssa.Instruction // nil = function entry; search starts AFTER this instruction
	Target InstrPred       // reaching such an instruction succeeds
	Avoid  InstrPred       // paths may not pass such an instruction (nil = none)
	// StartEdge, if set, starts the search with the traversal of the CFG edge [0] -> [1] (From is ignored):
	// the branch that edge forces at [1] (jump threading) is respected.
	StartEdge *[2]*ssa.BasicBlock
	Edge      EdgeFilter // nil = all edges
}

// Find returns a witness path (list of instructions that are block heads / the
// target) if Target is reachable under the query, or nil.
func (q PathQuery) Find() []ssa.Instruction {
	if q.Fn == nil || len(q.Fn.Blocks) == 0 {
		return nil
	}
	type st struct {
		b      *ssa.BasicBlock
		from   int
		forced int // successor the incoming edge forces at b's If (-1: none) — see forcedSucc
	}
	type key struct {
		b      *ssa.BasicBlock
		forced int
	}
	startB := q.Fn.Blocks[0]
	startI := 0
	if q.From != nil {
		startB = q.From.Block()
		for i, in := range startB.Instrs {
			if in == q.From {
				startI = i + 1
			}
		}
	}
	prev := map[*ssa.BasicBlock]*ssa.BasicBlock{}
	seen := map[key]bool{}
	// scan returns (found target instr, blocked)
	scan := func(b *ssa.BasicBlock, from int) (ssa.Instruction, bool) {
		for i := from; i < len(b.Instrs); i++ {
			in := b.Instrs[i]
			if q.Target != nil && q.Target(in) {
				return in, false
			}
			if q.Avoid != nil && q.Avoid(in) {
				return nil, true
			}
		}
		return nil, false
	}
	build := func(b *ssa.BasicBlock, tgt ssa.Instruction) []ssa.Instruction {
		var rev []ssa.Instruction
		rev = append(rev, tgt)
		for cur := b; cur != nil; cur = prev[cur] {
			if len(cur.Instrs) > 0 && cur.Instrs[0] != tgt {
				rev = append(rev, firstPositioned(cur))
			}
			if cur == startB {
				break
			}
		}
		for i, j := 0, len(rev)-1; i < j; i, j = i+1, j-1 {
			rev[i], rev[j] = rev[j], rev[i]
		}
		return rev
	}
	queue := []st{{startB, startI, -1}}
	first := true
	if q.StartEdge != nil {
		startB = q.StartEdge[1]
		queue = []st{{startB, 0, forcedSucc(q.StartEdge[0], q.StartEdge[1])}}
	}
	for len(queue) > 0 {
		cur := queue[0]
		queue = queue[1:]
		if !first || cur.from == 0 {
			k := key{cur.b, cur.forced}
			if seen[k] {
				continue
			}
			seen[k] = true
		}
		first = false
		tgt, blocked := scan(cur.b, cur.from)
		if tgt != nil {
			return build(cur.b, tgt)
		}
		if blocked {
			continue
		}
		for i, s := range cur.b.Succs {
			if cur.forced >= 0 && i != cur.forced {
				continue
			}
			if q.Edge != nil && !q.Edge(cur.b, i) {
				continue
			}
			f := forcedSucc(cur.b, s)
			if !seen[key{s, f}] {
				if _, ok := prev[s]; !ok {
					prev[s] = cur.b
				}
				queue = append(queue, st{s, 0, f})
			}
		}
	}
	return nil
}

// forcedSucc: jump threading. If block s ends in an If whose condition is (a negation of) a phi of s
// and the value flowing in from pred is a boolean constant, entering s from pred can only leave it by
// the matching successor. This is what a boolean result of an inlined helper looks like
// (`r = true; goto L` / `r = false; goto L` ... `L: if r`), and without it a path query would combine
// the helper's "false" exit with the caller's "true" branch.
func forcedSucc(pred, s *ssa.BasicBlock) int {
	if len(s.Instrs) == 0 {
		return -1
	}
	ifi, ok := s.Instrs[len(s.Instrs)-1].(*ssa.If)
	if !ok {
		return -1
	}
	v := ifi.Cond
	neg := false
	for {
		if u, ok := v.(*ssa.UnOp); ok && u.Op == token.NOT {
			neg = !neg
			v = u.X
			continue
		}
		break
	}
	// `phi == nil` / `phi != nil` with a value of known nil-ness flowing in (an error result of an inlined helper)
	if bo, ok := v.(*ssa.BinOp); ok && (bo.Op == token.EQL || bo.Op == token.NEQ) {
		var other ssa.Value
		if c, ok := bo.Y.(*ssa.Const); ok && c.Value == nil {
			other = bo.X
		} else if c, ok := bo.X.(*ssa.Const); ok && c.Value == nil {
			other = bo.Y
		}
		phi, ok := other.(*ssa.Phi)
		if !ok || phi.Block() != s {
			return -1
		}
		for i, p := range s.Preds {
			if p != pred {
				continue
			}
			n := knownNilness(phi.Edges[i])
			if n == 0 && testedNonNilAt(phi.Edges[i], pred) {
				n = 1 // flows in from a block that is only reached when the value was found non-nil
			}
			if n == 0 {
				// pred itself ends in the nil test of the value, and s is the branch of one outcome
				if pif, ok := pred.Instrs[len(pred.Instrs)-1].(*ssa.If); ok && pred.Succs[0] != pred.Succs[1] {
					if cmp, ok := pif.Cond.(*ssa.BinOp); ok && (cmp.Op == token.EQL || cmp.Op == token.NEQ) {
						isNil := func(x ssa.Value) bool { c, ok := x.(*ssa.Const); return ok && c.Value == nil }
						v := phi.Edges[i]
						if (cmp.X == v && isNil(cmp.Y)) || (cmp.Y == v && isNil(cmp.X)) {
							onTrue := pred.Succs[0] == s
							if (cmp.Op == token.NEQ) == onTrue {
								n = 1
							} else {
								n = -1
							}
						}
					}
				}
			}
			if n == 0 {
				return -1
			}
			truth := (n < 0) == (bo.Op == token.EQL) // value of the comparison
			if neg {
				truth = !truth
			}
			if truth {
				return 0
			}
			return 1
		}
		return -1
	}
	phi, ok := v.(*ssa.Phi)
	if !ok || phi.Block() != s {
		return -1
	}
	for i, p := range s.Preds {
		if p != pred {
			continue
		}
		c, ok := phi.Edges[i].(*ssa.Const)
		if !ok || c.Value == nil || c.Value.Kind() != constant.Bool {
			return -1
		}
		truth := constant.BoolVal(c.Value)
		if neg {
			truth = !truth
		}
		if truth {
			return 0
		}
		return 1
	}
	return -1
}

// knownNilness: -1 the value is nil, +1 it is certainly not nil, 0 unknown.
func knownNilness(v ssa.Value) int {
	switch x := v.(type) {
	case *ssa.Const:
		if x.Value == nil {
			return -1
		}
	case *ssa.MakeInterface, *ssa.Alloc, *ssa.MakeMap, *ssa.MakeSlice, *ssa.MakeClosure, *ssa.FieldAddr, *ssa.IndexAddr:
		return 1
	case *ssa.Call:
		pk, name := calleePkgName(x.Common())
		switch {
		case pk == "github.com/pkg/errors" && (name == "New" || name == "Errorf"),
			pk == "errors" && name == "New", pk == "fmt" && name == "Errorf":
			return 1
		case pk == "github.com/pkg/errors" && (name == "Wrap" || name == "Wrapf" || name == "WithMessage" || name == "WithMessagef" || name == "WithStack"):
			// nil in, nil out; non-nil in, non-nil out
			if len(x.Call.Args) > 0 {
				a := x.Call.Args[0]
				if n := knownNilness(a); n != 0 {
					return n
				}
				if testedNonNilAt(a, x.Block()) {
					return 1
				}
			}
		}
	}
	return 0
}

// testedNonNilAt: block b is dominated by the non-nil edge of a test `v != nil` / `v == nil`.
func testedNonNilAt(v ssa.Value, b *ssa.BasicBlock) bool {
	refs := v.Referrers()
	if refs == nil {
		return false
	}
	for _, ref := range *refs {
		cmp, ok := ref.(*ssa.BinOp)
		if !ok || (cmp.Op != token.NEQ && cmp.Op != token.EQL) {
			continue
		}
		isNil := func(x ssa.Value) bool { c, ok := x.(*ssa.Const); return ok && c.Value == nil }
		if !(cmp.X == v && isNil(cmp.Y)) && !(cmp.Y == v && isNil(cmp.X)) {
			continue
		}
		if cmp.Referrers() == nil {
			continue
		}
		for _, r2 := range *cmp.Referrers() {
			ifi, ok := r2.(*ssa.If)
			if !ok {
				continue
			}
			succ := 0
			if cmp.Op == token.EQL {
				succ = 1
			}
			nb := ifi.Block().Succs[succ]
			if len(nb.Preds) == 1 && (nb == b || nb.Dominates(b)) {
				return true
			}
		}
	}
	return false
}

func firstPositioned(b *ssa.BasicBlock) ssa.Instruction {
	for _, in := range b.Instrs {
		if _, dbg := in.(*ssa.DebugRef); !dbg && in.Pos().IsValid() {
			return in
		}
	}
	if len(b.Instrs) > 0 {
		return b.Instrs[0]
	}
	return nil
}

// WitnessText renders a witness path.
func (p *Prog) WitnessText(path []ssa.Instruction) []string {
	var out []string
	last := ""
	for _, in := range path {
		if in == nil {
			continue
		}
		s := p.Pos(in.Pos())
		if s == "?" || s == last {
			continue
		}
		last = s
		out = append(out, fmt.Sprintf("%s  %s", s, in.String()))
	}
	return out
}

// IsReturn matches return instructions.
func IsReturn(in ssa.Instruction) bool { _, ok := in.(*ssa.Return); return ok }

// IsExit matches return and panic.
func IsExit(in ssa.Instruction) bool {
	switch in.(type) {
	case *ssa.Return, *ssa.Panic:
		return true
	}
	return false
}

// ---- conditions ----

// Cond is a decoded branch condition.
type Cond struct {
	If  *ssa.If
	Neg bool   // the condition value is negated (!x)
	Op  string // for comparisons: == != < <= > >= ; "" for non-comparison booleans
	X   *VD
	Y   *VD
	B   *VD // non-comparison boolean value
}

// DecodeCond describes the condition of an If.
func DecodeCond(ds *Describer, ifi *ssa.If) Cond {
	c := DecodeCondValue(ds, ifi.Cond)
	c.If = ifi
	return c
}

// DecodeCondValue describes a boolean value as a condition ("succ 0" = the value is true).
func DecodeCondValue(ds *Describer, v ssa.Value) Cond {
	c := Cond{}
	for {
		if u, ok := v.(*ssa.UnOp); ok && u.Op == token.NOT {
			c.Neg = !c.Neg
			v = u.X
			continue
		}
		break
	}
	if b, ok := v.(*ssa.BinOp); ok {
		switch b.Op {
		case token.EQL, token.NEQ, token.LSS, token.LEQ, token.GTR, token.GEQ:
			c.Op = b.Op.String()
			c.X = ds.D(b.X)
			c.Y = ds.D(b.Y)
			return c
		}
	}
	c.B = ds.D(v)
	return c
}

// GuardEdges computes, for every If of fn, the successor on which the guard is established (blocks without
// such an If are absent). Short-circuit conditions lowered to phis (a && b, a || b) are understood: the true
// edge of `a && b` establishes whatever a or b establishes when true; the false edge of `a || b` establishes
// whatever a or b establishes when false.
func GuardEdges(ds *Describer, fn *ssa.Function, guard GuardSpec) map[*ssa.BasicBlock]int {
	est := map[*ssa.BasicBlock]int{}
	for _, b := range fn.Blocks {
		if s := guardSucc(ds, b, guard, 0); s >= 0 {
			est[b] = s
		}
	}
	return est
}

func guardSucc(ds *Describer, b *ssa.BasicBlock, guard GuardSpec, depth int) int {
	if len(b.Instrs) == 0 || depth > 6 {
		return -1
	}
	ifi, ok := b.Instrs[len(b.Instrs)-1].(*ssa.If)
	if !ok {
		return -1
	}
	if s := guard(DecodeCond(ds, ifi)); s >= 0 {
		return s
	}
	// short-circuit phi
	v := ifi.Cond
	neg := false
	for {
		if u, ok := v.(*ssa.UnOp); ok && u.Op == token.NOT {
			neg = !neg
			v = u.X
			continue
		}
		break
	}
	phi, ok := v.(*ssa.Phi)
	if !ok || (phi.Comment != "&&" && phi.Comment != "||") {
		return -1
	}
	// for && : when phi is true all conjuncts were true; for || : when phi is false all disjuncts were false
	wantTruth := phi.Comment == "&&"
	established := false
	for i, e := range phi.Edges {
		if c, ok := e.(*ssa.Const); ok && c.Value != nil {
			continue // the short-circuit constant edge
		}
		// the last operand itself
		if s := guard(DecodeCondValue(ds, e)); s >= 0 {
			if (s == 0) == wantTruth {
				established = true
			}
		}
		// earlier operands: walk up through single-predecessor blocks whose If leads here
		cur := phi.Block().Preds[i]
		for d := 0; d < 6 && cur != nil && len(cur.Preds) == 1; d++ {
			p0 := cur.Preds[0]
			if s := guardSucc(ds, p0, guard, depth+1); s >= 0 && p0.Succs[s] == cur {
				established = true
			}
			cur = p0
		}
	}
	if !established {
		// the other polarity: `a || b` is true when a or b is true: established if EVERY operand being true
		// establishes the guard (dually: `a && b` false when every operand being false establishes it)
		all := true
		n := 0
		for i, e := range phi.Edges {
			pred := phi.Block().Preds[i]
			if c, ok := e.(*ssa.Const); ok && c.Value != nil {
				// short-circuit edge: pred's own If decided the value
				s := guardSucc(ds, pred, guard, depth+1)
				if s < 0 || pred.Succs[s] != phi.Block() {
					all = false
				}
				n++
				continue
			}
			s := guard(DecodeCondValue(ds, e))
			if s < 0 || (s == 0) == wantTruth {
				// must be established when e has the opposite truth value of wantTruth
				all = false
			}
			n++
		}
		if !all || n == 0 {
			return -1
		}
		truthSucc := 1
		if !wantTruth {
			truthSucc = 0
		}
		if neg {
			truthSucc = 1 - truthSucc
		}
		return truthSucc
	}
	// successor of b on which the phi has the wanted truth value
	truthSucc := 0
	if !wantTruth {
		truthSucc = 1
	}
	if neg {
		truthSucc = 1 - truthSucc
	}
	return truthSucc
}

// RelOnEdge returns the relation between X and Y that holds when the given
// successor (0 = true branch, 1 = false branch) is taken.
func (c Cond) RelOnEdge(succ int) string {
	if c.Op == "" {
		return ""
	}
	truth := succ == 0
	if c.Neg {
		truth = !truth
	}
	if truth {
		return c.Op
	}
	return negRel(c.Op)
}

func negRel(op string) string {
	switch op {
	case "==":
		return "!="
	case "!=":
		return "=="
	case "<":
		return ">="
	case "<=":
		return ">"
	case ">":
		return "<="
	case ">=":
		return "<"
	}
	return ""
}

// FlipRel swaps the operand order of a relation.
func FlipRel(op string) string {
	switch op {
	case "<":
		return ">"
	case "<=":
		return ">="
	case ">":
		return "<"
	case ">=":
		return "<="
	}
	return op
}

// BoolOnEdge returns the truth value of the (non-comparison) boolean B on the given successor.
func (c Cond) BoolOnEdge(succ int) bool {
	truth := succ == 0
	if c.Neg {
		truth = !truth
	}
	return truth
}

// GuardSpec says, for a decoded condition, whether it is an instance of the
// guard of interest and, if so, on which successor edge the guard is established.
// It returns (-1) if the condition is not an instance.
type GuardSpec func(c Cond) (establishedSucc int)

// Unguarded searches a path from entry (or from) to a Target that does not pass
// any edge on which the guard is established.  A nil result means every path to
// the target establishes the guard.
func Unguarded(ds *Describer, fn *ssa.Function, from ssa.Instruction, target InstrPred, guard GuardSpec) []ssa.Instruction {
	est := GuardEdges(ds, fn, guard)
	q := PathQuery{Fn: fn, From: from, Target: target, Edge: func(b *ssa.BasicBlock, succ int) bool {
		if s, ok := est[b]; ok && s == succ {
			return false
		}
		return true
	}}
	return q.Find()
}

// CountGuards returns how many If conditions of fn are instances of the guard.
func CountGuards(ds *Describer, fn *ssa.Function, guard GuardSpec) int {
	return len(GuardEdges(ds, fn, guard))
}

// Calls lists all call instructions (call, go, defer) of fn whose callee satisfies pred.
func Calls(fn *ssa.Function, pred func(c *ssa.CallCommon) bool) []ssa.CallInstruction {
	var out []ssa.CallInstruction
	for _, b := range fn.Blocks {
		for _, in := range b.Instrs {
			if ci, ok := in.(ssa.CallInstruction); ok {
				if pred(ci.Common()) {
					out = append(out, ci)
				}
			}
		}
	}
	return out
}

// CallsNamed lists calls whose method/function name is one of names.
func CallsNamed(fn *ssa.Function, names ...string) []ssa.CallInstruction {
	return Calls(fn, func(c *ssa.CallCommon) bool {
		m := MethodName(c)
		for _, n := range names {
			if m == n {
				return true
			}
		}
		return false
	})
}

// IsNilErrCheck recognises `err != nil` / `err == nil` where err has type error and
// derives from value src (if src != nil). It returns the successor on which err == nil, or -1.
func ErrNilSucc(c Cond, src ssa.Value) int {
	if c.Op != "==" && c.Op != "!=" {
		return -1
	}
	var e *VD
	if c.Y != nil && c.Y.Kind == "const" && c.Y.Name == "nil" {
		e = c.X
	} else if c.X != nil && c.X.Kind == "const" && c.X.Name == "nil" {
		e = c.Y
	} else {
		return -1
	}
	if src != nil && !e.MentionsValue(src) {
		return -1
	}
	// edge on which == holds
	for s := 0; s < 2; s++ {
		if c.RelOnEdge(s) == "==" {
			return s
		}
	}
	return -1
}

// UnguardedLeaf is Unguarded for a value leaf: the target is the use instruction, or, for a value that
// flows into a phi, the traversal of the CFG edge Pred -> To (so guards tested by Pred's own branch count).
func UnguardedLeaf(ds *Describer, fn *ssa.Function, from ssa.Instruction, lf Leaf, guard GuardSpec) []ssa.Instruction {
	if lf.Pred == nil {
		return Unguarded(ds, fn, from, func(in ssa.Instruction) bool { return in == lf.At }, guard)
	}
	// is the edge itself one that establishes the guard?
	if _, ok := lf.At.(*ssa.If); ok {
		s := guardSucc(ds, lf.Pred, guard, 0)
		if s >= 0 {
			onlyEst := true
			for i, succ := range lf.Pred.Succs {
				if succ == lf.To && i != s {
					onlyEst = false
				}
			}
			if onlyEst {
				return nil // flows only along the establishing edge
			}
		}
	}
	return Unguarded(ds, fn, from, func(in ssa.Instruction) bool { return in == lf.At }, guard)
}

// IfPos returns a source position for an If instruction (which has none of its own): that of its condition,
// else of the first positioned instruction of its block.
func IfPos(ifi *ssa.If) token.Pos {
	if v, ok := ifi.Cond.(interface{ Pos() token.Pos }); ok && v.Pos().IsValid() {
		return v.Pos()
	}
	for _, in := range ifi.Block().Instrs {
		if in.Pos().IsValid() {
			return in.Pos()
		}
	}
	return token.NoPos
}
