package core

import (
	"go/types"
	"sort"
	"strings"

	"golang.org/x/tools/go/ssa"
)

// Root is a thread root: a door through which production code starts running on a goroutine of its own.
type Root struct {
	// ID is line-free: kind:function-key of the registered function (or of the go target).
	ID string
	// Kind is one of periodic, job, events, go, api, entry, startup.
	Kind string
	// Sequential reports that at most one instance of the root runs at a time (a periodic job's
	// loop, one event subscription's handler, a go statement that is not in a loop).
	Sequential bool
}

// Roots finds which thread roots reach each function.
type Roots struct {
	P    *Prog
	ctor map[*ssa.Function]bool
	reg  map[*ssa.Function][]Root
	memo map[*ssa.Function]map[string]Root
	// Registrations counts the registration sites seen per kind.
	Registrations map[string]int
}

// funcOfValue resolves a func-typed operand to the function it denotes (closures, bound methods,
// plain functions); nil when the operand is a parameter or another dynamic value.
func funcOfValue(v ssa.Value) *ssa.Function {
	switch x := v.(type) {
	case *ssa.Function:
		return unboundFn(x)
	case *ssa.MakeClosure:
		fn, _ := x.Fn.(*ssa.Function)
		return unboundFn(fn)
	case *ssa.ChangeType:
		return funcOfValue(x.X)
	case *ssa.MakeInterface:
		return funcOfValue(x.X)
	}
	return nil
}

func unboundFn(fn *ssa.Function) *ssa.Function {
	if fn == nil {
		return nil
	}
	if strings.Contains(fn.Synthetic, "bound method wrapper") {
		if obj, ok := fn.Object().(*types.Func); ok && fn.Prog != nil {
			if m := fn.Prog.FuncValue(obj); m != nil {
				return m
			}
		}
	}
	return fn
}

// InLoop reports whether the instruction's block lies on a cycle of its function's CFG.
func InLoop(in ssa.Instruction) bool {
	b := in.Block()
	if b == nil {
		return false
	}
	seen := map[*ssa.BasicBlock]bool{}
	var stack []*ssa.BasicBlock
	stack = append(stack, b.Succs...)
	for len(stack) > 0 {
		x := stack[len(stack)-1]
		stack = stack[:len(stack)-1]
		if x == b {
			return true
		}
		if seen[x] {
			continue
		}
		seen[x] = true
		stack = append(stack, x.Succs...)
	}
	return false
}

// NewRoots scans the registration sites: scheduler ScheduleJob / SchedulePeriodicJob function
// arguments, event handlers passed to Events, and go statements.
func NewRoots(p *Prog) *Roots {
	r := &Roots{P: p, ctor: p.ConstructorPhase(), reg: map[*ssa.Function][]Root{}, memo: map[*ssa.Function]map[string]Root{}, Registrations: map[string]int{}}
	add := func(fn *ssa.Function, root Root) {
		if fn == nil {
			return
		}
		for _, x := range r.reg[fn] {
			if x.ID == root.ID {
				return
			}
		}
		r.reg[fn] = append(r.reg[fn], root)
	}
	for _, fn := range p.SrcFuncs() {
		EachInstr(fn, func(in ssa.Instruction) {
			ci, ok := in.(ssa.CallInstruction)
			if !ok {
				return
			}
			c := ci.Common()
			if g, isGo := in.(*ssa.Go); isGo {
				var tgt *ssa.Function
				if c.IsInvoke() {
					return
				}
				tgt = funcOfValue(c.Value)
				if tgt == nil {
					return
				}
				r.Registrations["go"]++
				add(tgt, Root{ID: "go:" + FnKey(tgt) + "@" + FnKey(fn), Kind: "go", Sequential: !InLoop(g)})
				return
			}
			switch MethodName(c) {
			case "SchedulePeriodicJob":
				// both the run-time function and the job function run on the job's goroutine
				var fs []*ssa.Function
				for _, a := range c.Args {
					if _, ok := a.Type().Underlying().(*types.Signature); ok {
						if f := funcOfValue(a); f != nil {
							fs = append(fs, f)
						}
					}
				}
				if len(fs) == 0 {
					return
				}
				r.Registrations["periodic"]++
				id := "periodic:" + FnKey(fs[len(fs)-1])
				for _, f := range fs {
					add(f, Root{ID: id, Kind: "periodic", Sequential: true})
				}
			case "ScheduleJob":
				for _, a := range c.Args {
					if _, ok := a.Type().Underlying().(*types.Signature); ok {
						if f := funcOfValue(a); f != nil {
							r.Registrations["job"]++
							add(f, Root{ID: "job:" + FnKey(f), Kind: "job", Sequential: false})
						}
					}
				}
			case "Events":
				for _, a := range c.Args {
					if _, ok := a.Type().Underlying().(*types.Signature); ok {
						if f := funcOfValue(a); f != nil {
							r.Registrations["events"]++
							add(f, Root{ID: "events:" + FnKey(f) + "@" + FnKey(fn), Kind: "events", Sequential: true})
						}
					}
				}
			}
		})
	}
	return r
}

func isSchedulerPkg(fn *ssa.Function) bool {
	for fn.Parent() != nil {
		fn = fn.Parent()
	}
	return fn.Pkg != nil && strings.Contains(fn.Pkg.Pkg.Path(), "/services/scheduler/")
}

// Of returns the roots from which fn may run, keyed by root ID.
func (r *Roots) Of(fn *ssa.Function) map[string]Root {
	return r.of(fn, map[*ssa.Function]bool{})
}

func (r *Roots) of(fn *ssa.Function, busy map[*ssa.Function]bool) map[string]Root {
	if m, ok := r.memo[fn]; ok {
		return m
	}
	out := map[string]Root{}
	if busy[fn] {
		return out
	}
	busy[fn] = true
	defer delete(busy, fn)
	if r.ctor[fn] {
		out["startup"] = Root{ID: "startup", Kind: "startup", Sequential: true}
		r.memo[fn] = out
		return out
	}
	for _, x := range r.reg[fn] {
		out[x.ID] = x
	}
	used := 0
	if n := r.P.CallGraph().Nodes[fn]; n != nil {
		for _, e := range n.In {
			caller := e.Caller.Func
			if caller == nil || caller.Pkg == nil && caller.Parent() == nil {
				continue
			}
			top := caller
			for top.Parent() != nil {
				top = top.Parent()
			}
			if top.Pkg == nil || !IsProd(top.Pkg.Pkg.Path()) {
				continue
			}
			if _, isGo := e.Site.(*ssa.Go); isGo {
				used++ // registered as a go root
				continue
			}
			if e.Site != nil && e.Site.Common().StaticCallee() == nil && !e.Site.Common().IsInvoke() && isSchedulerPkg(caller) {
				// the scheduler calling a job function value: covered by the registrations
				used++
				continue
			}
			used++
			for id, x := range r.of(caller, busy) {
				out[id] = x
			}
		}
	}
	if used == 0 && len(r.reg[fn]) == 0 {
		switch {
		case fn.Parent() != nil:
			// a callback run by a library on the caller's goroutine (sort.Slice and the like)
			for id, x := range r.of(fn.Parent(), busy) {
				out[id] = x
			}
		case fn.Object() != nil && fn.Object().Exported() && fn.Name() != "main":
			id := "api:" + FnKey(fn)
			out[id] = Root{ID: id, Kind: "api", Sequential: false}
		case fn.Name() == "main" || fn.Name() == "init":
			out["startup"] = Root{ID: "startup", Kind: "startup", Sequential: true}
		default:
			id := "entry:" + FnKey(fn)
			out[id] = Root{ID: id, Kind: "entry", Sequential: false}
		}
	}
	if len(busy) == 1 {
		r.memo[fn] = out
	}
	return out
}

// IDs lists the root ids of a set, sorted.
func RootIDs(m map[string]Root) []string {
	var out []string
	for id := range m {
		out = append(out, id)
	}
	sort.Strings(out)
	return out
}
