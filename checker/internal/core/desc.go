package core

import (
	"fmt"
	"go/token"
	"go/types"
	"strings"

	"golang.org/x/tools/go/ssa"
)

// VD is a structured description of where an SSA value derives from (a bounded
// backward slice through loads, field selections, conversions, calls, ...).
type VD struct {
	Kind string // param free const field call binop unop index lookup phi global alloc extract len slice make closure typeassert unknown
	Name string // param/field/callee/op name
	Args []*VD
	Val  ssa.Value
}

func (d *VD) String() string {
	if d == nil {
		return "?"
	}
	switch d.Kind {
	case "param", "free", "global", "alloc":
		return d.Name
	case "const":
		return d.Name
	case "field":
		return d.Args[0].String() + "." + d.Name
	case "call":
		var a []string
		for _, x := range d.Args {
			a = append(a, x.String())
		}
		return d.Name + "(" + strings.Join(a, ", ") + ")"
	case "binop":
		return "(" + d.Args[0].String() + " " + d.Name + " " + d.Args[1].String() + ")"
	case "unop":
		return d.Name + d.Args[0].String()
	case "index", "lookup":
		return d.Args[0].String() + "[" + d.Args[1].String() + "]"
	case "extract":
		return d.Args[0].String() + "#" + d.Name
	case "phi":
		var a []string
		for _, x := range d.Args {
			a = append(a, x.String())
		}
		return "phi(" + strings.Join(a, " | ") + ")"
	case "len", "cap":
		return d.Kind + "(" + d.Args[0].String() + ")"
	case "slice":
		var a []string
		for _, x := range d.Args {
			a = append(a, x.String())
		}
		return "slice(" + strings.Join(a, ", ") + ")"
	case "typeassert":
		return d.Args[0].String() + ".(" + d.Name + ")"
	case "varargs":
		var a []string
		for _, x := range d.Args {
			a = append(a, x.String())
		}
		return "[" + strings.Join(a, ", ") + "]"
	default:
		if d.Name != "" {
			return d.Kind + ":" + d.Name
		}
		return d.Kind
	}
}

// Describer computes VDs with memoisation and a depth bound.
type Describer struct {
	MaxDepth int
	memo     map[ssa.Value]*VD
	busy     map[ssa.Value]bool
}

func NewDescriber() *Describer {
	return &Describer{MaxDepth: 14, memo: map[ssa.Value]*VD{}, busy: map[ssa.Value]bool{}}
}

// CalleeName gives a stable name of the callee of a call: FnKey for static
// callees, "iface:<pkg>.<Type>.<Method>" for interface invocations,
// "builtin:<name>" for builtins, "dyn" for calls of function values.
func CalleeName(c *ssa.CallCommon) string {
	if c.IsInvoke() {
		recv := c.Value.Type()
		name := types.TypeString(recv, func(p *types.Package) string { return RelPkg(p.Path()) })
		return "iface:" + name + "." + c.Method.Name()
	}
	switch f := c.Value.(type) {
	case *ssa.Function:
		return FnKey(f)
	case *ssa.Builtin:
		return "builtin:" + f.Name()
	case *ssa.MakeClosure:
		if fn, ok := f.Fn.(*ssa.Function); ok {
			return FnKey(fn)
		}
	}
	return "dyn"
}

// MethodName returns just the method/function name of a call ("" for dynamic calls of values).
func MethodName(c *ssa.CallCommon) string {
	if c.IsInvoke() {
		return c.Method.Name()
	}
	if f := c.StaticCallee(); f != nil {
		return f.Name()
	}
	if b, ok := c.Value.(*ssa.Builtin); ok {
		return b.Name()
	}
	return ""
}

func (ds *Describer) D(v ssa.Value) *VD { return ds.d(v, 0) }

func (ds *Describer) d(v ssa.Value, depth int) *VD {
	if v == nil {
		return &VD{Kind: "unknown"}
	}
	if r, ok := ds.memo[v]; ok {
		return r
	}
	if depth > ds.MaxDepth || ds.busy[v] {
		return &VD{Kind: "unknown", Name: "deep", Val: v}
	}
	ds.busy[v] = true
	r := ds.d1(v, depth)
	delete(ds.busy, v)
	if r.Val != nil && r.Val != v {
		// a transparent wrapper (load, conversion, boxing): its own node, sharing the structure of the inner value
		cp := *r
		r = &cp
	}
	r.Val = v
	ds.memo[v] = r
	return r
}

func (ds *Describer) d1(v ssa.Value, depth int) *VD {
	switch x := v.(type) {
	case *ssa.Parameter:
		return &VD{Kind: "param", Name: x.Name()}
	case *ssa.FreeVar:
		// resolve to the binding in the parent if possible
		if b := FreeVarBinding(x); b != nil {
			inner := ds.d(b, depth+1)
			// a captured variable is an address (alloc) in the parent; keep its name
			return inner
		}
		return &VD{Kind: "free", Name: x.Name()}
	case *ssa.Const:
		if x.Value == nil {
			return &VD{Kind: "const", Name: "nil"}
		}
		return &VD{Kind: "const", Name: x.Value.ExactString()}
	case *ssa.Global:
		// a package-level numeric constant object (`var hundred = big.NewInt(100)`), assigned once in the package
		// initialiser and nowhere else: described as the constructor call it stands for
		if iv := numericGlobalInit(x); iv != nil {
			return ds.d(iv, depth+1)
		}
		return &VD{Kind: "global", Name: x.Name()}
	case *ssa.Function:
		return &VD{Kind: "func", Name: FnKey(x)}
	case *ssa.Alloc:
		name := x.Comment
		// single-store heap/local cell: describe the stored value instead
		if sv := singleStore(x); sv != nil {
			return ds.d(sv, depth+1)
		}
		return &VD{Kind: "alloc", Name: "var:" + name}
	case *ssa.FieldAddr:
		return &VD{Kind: "field", Name: fieldName(x.X.Type(), x.Field), Args: []*VD{ds.d(x.X, depth+1)}}
	case *ssa.Field:
		return &VD{Kind: "field", Name: fieldName(x.X.Type(), x.Field), Args: []*VD{ds.d(x.X, depth+1)}}
	case *ssa.UnOp:
		switch x.Op {
		case token.MUL:
			if us := Unspill(x); us != ssa.Value(x) {
				return ds.d(us, depth+1)
			}
			// a variable assigned more than once (a parameter re-assigned: `ctx, cancel := WithTimeout(ctx, …)` captured by
			// a closure lives in a cell): the assignment that reaches this read, where dominance decides it
			switch cell := x.X.(type) {
			case *ssa.Alloc:
				if singleStore(cell) == nil {
					if v := ReachingStore(cell, x); v != nil {
						return ds.d(v, depth+1)
					}
				}
			case *ssa.FreeVar:
				if a, ok := FreeVarBinding(cell).(*ssa.Alloc); ok && singleStore(a) == nil {
					if v := CapturedValue(cell); v != nil {
						return ds.d(v, depth+1)
					}
				}
			}
			return ds.d(x.X, depth+1) // load: transparent
		case token.ARROW:
			return &VD{Kind: "recv", Args: []*VD{ds.d(x.X, depth+1)}}
		default:
			return &VD{Kind: "unop", Name: x.Op.String(), Args: []*VD{ds.d(x.X, depth+1)}}
		}
	case *ssa.BinOp:
		return &VD{Kind: "binop", Name: x.Op.String(), Args: []*VD{ds.d(x.X, depth+1), ds.d(x.Y, depth+1)}}
	case *ssa.Convert:
		return ds.d(x.X, depth+1)
	case *ssa.ChangeType:
		return ds.d(x.X, depth+1)
	case *ssa.ChangeInterface:
		return ds.d(x.X, depth+1)
	case *ssa.MakeInterface:
		return ds.d(x.X, depth+1)
	case *ssa.SliceToArrayPointer:
		return &VD{Kind: "s2a", Args: []*VD{ds.d(x.X, depth+1)}}
	case *ssa.Call:
		c := x.Common()
		if b, ok := c.Value.(*ssa.Builtin); ok && (b.Name() == "len" || b.Name() == "cap") {
			return &VD{Kind: b.Name(), Args: []*VD{ds.d(c.Args[0], depth+1)}}
		}
		// a function that only re-types its argument (`func key(r Root) rootKey { return rootKey(r) }`, same
		// underlying type) is the identity on values
		if callee := c.StaticCallee(); callee != nil && len(callee.Params) == 1 && len(c.Args) == 1 && len(callee.Blocks) == 1 && callee.Signature.Results().Len() == 1 {
			var ret *ssa.Return
			pure := true
			for _, in := range callee.Blocks[0].Instrs {
				switch y := in.(type) {
				case *ssa.ChangeType:
					if y.X != ssa.Value(callee.Params[0]) {
						pure = false
					}
				case *ssa.DebugRef:
				case *ssa.Return:
					ret = y
				default:
					pure = false
				}
			}
			if pure && ret != nil && len(ret.Results) == 1 {
				if ct, ok := ret.Results[0].(*ssa.ChangeType); ok && ct.X == ssa.Value(callee.Params[0]) && types.Identical(ct.Type().Underlying(), callee.Params[0].Type().Underlying()) {
					return ds.d(c.Args[0], depth+1)
				}
			}
		}
		r := &VD{Kind: "call", Name: CalleeName(c)}
		if c.IsInvoke() {
			r.Args = append(r.Args, ds.d(c.Value, depth+1))
		}
		for _, a := range c.Args {
			r.Args = append(r.Args, ds.d(a, depth+1))
		}
		return r
	case *ssa.Extract:
		return &VD{Kind: "extract", Name: fmt.Sprint(x.Index), Args: []*VD{ds.d(x.Tuple, depth+1)}}
	case *ssa.IndexAddr:
		return &VD{Kind: "index", Args: []*VD{ds.d(x.X, depth+1), ds.d(x.Index, depth+1)}}
	case *ssa.Index:
		return &VD{Kind: "index", Args: []*VD{ds.d(x.X, depth+1), ds.d(x.Index, depth+1)}}
	case *ssa.Lookup:
		return &VD{Kind: "lookup", Args: []*VD{ds.d(x.X, depth+1), ds.d(x.Index, depth+1)}}
	case *ssa.Phi:
		r := &VD{Kind: "phi"}
		for _, e := range x.Edges {
			r.Args = append(r.Args, ds.d(e, depth+1))
		}
		return r
	case *ssa.Slice:
		if a, ok := x.X.(*ssa.Alloc); ok && (a.Comment == "varargs" || a.Comment == "slicelit") {
			r := &VD{Kind: "varargs"}
			if a.Referrers() != nil {
				for _, ref := range *a.Referrers() {
					ia, ok := ref.(*ssa.IndexAddr)
					if !ok || ia.Referrers() == nil {
						continue
					}
					for _, r2 := range *ia.Referrers() {
						if st, ok := r2.(*ssa.Store); ok && st.Addr == ssa.Value(ia) {
							r.Args = append(r.Args, ds.d(st.Val, depth+1))
						}
					}
				}
			}
			return r
		}
		r := &VD{Kind: "slice", Args: []*VD{ds.d(x.X, depth+1)}}
		for _, b := range []ssa.Value{x.Low, x.High} {
			if b != nil {
				r.Args = append(r.Args, ds.d(b, depth+1))
			} else {
				r.Args = append(r.Args, &VD{Kind: "const", Name: "-"})
			}
		}
		return r
	case *ssa.TypeAssert:
		return &VD{Kind: "typeassert", Name: types.TypeString(x.AssertedType, func(p *types.Package) string { return RelPkg(p.Path()) }), Args: []*VD{ds.d(x.X, depth+1)}}
	case *ssa.MakeClosure:
		if fn, ok := x.Fn.(*ssa.Function); ok {
			return &VD{Kind: "closure", Name: FnKey(fn)}
		}
	case *ssa.MakeSlice:
		return &VD{Kind: "make", Name: "slice", Args: []*VD{ds.d(x.Len, depth+1)}}
	case *ssa.MakeMap:
		return &VD{Kind: "make", Name: "map"}
	case *ssa.MakeChan:
		return &VD{Kind: "make", Name: "chan", Args: []*VD{ds.d(x.Size, depth+1)}}
	case *ssa.Next:
		return &VD{Kind: "next", Args: []*VD{ds.d(x.Iter, depth+1)}}
	case *ssa.Range:
		return &VD{Kind: "range", Args: []*VD{ds.d(x.X, depth+1)}}
	}
	return &VD{Kind: "unknown", Name: fmt.Sprintf("%T", v)}
}

func fieldName(t types.Type, idx int) string {
	if p, ok := t.Underlying().(*types.Pointer); ok {
		t = p.Elem()
	}
	if s, ok := t.Underlying().(*types.Struct); ok && idx < s.NumFields() {
		return s.Field(idx).Name()
	}
	return fmt.Sprintf("f%d", idx)
}

// freeVarBinding finds the value bound to a free variable at the (single) MakeClosure of its function.
func FreeVarBinding(fv *ssa.FreeVar) ssa.Value {
	fn := fv.Parent()
	par := fn.Parent()
	if par == nil {
		return nil
	}
	idx := -1
	for i, f := range fn.FreeVars {
		if f == fv {
			idx = i
		}
	}
	if idx < 0 {
		return nil
	}
	var found ssa.Value
	n := 0
	for _, b := range par.Blocks {
		for _, in := range b.Instrs {
			if mc, ok := in.(*ssa.MakeClosure); ok && mc.Fn == fn {
				n++
				if idx < len(mc.Bindings) {
					found = mc.Bindings[idx]
				}
			}
		}
	}
	if n == 1 {
		return found
	}
	return nil
}

// singleStore returns the value stored into an Alloc if there is exactly one
// store to it in its function and nested closures and its address does not
// escape otherwise (beyond loads and closure captures).
func singleStore(a *ssa.Alloc) ssa.Value {
	refs := a.Referrers()
	if refs == nil {
		return nil
	}
	var stored ssa.Value
	n := 0
	var visit func(v ssa.Value, refs []ssa.Instruction) bool
	visit = func(v ssa.Value, refs []ssa.Instruction) bool {
		for _, r := range refs {
			switch x := r.(type) {
			case *ssa.Store:
				if x.Addr == v {
					n++
					stored = x.Val
				} else {
					return false // address stored somewhere
				}
			case *ssa.UnOp:
				if x.Op != token.MUL {
					return false
				}
			case *ssa.MakeClosure:
				// find the matching free var and follow it
				fn, _ := x.Fn.(*ssa.Function)
				if fn == nil {
					return false
				}
				for i, b := range x.Bindings {
					if b == v && i < len(fn.FreeVars) {
						fv := fn.FreeVars[i]
						if fr := fv.Referrers(); fr != nil {
							if !visit(fv, *fr) {
								return false
							}
						}
					}
				}
			case *ssa.DebugRef:
			case *ssa.Slice:
				// x[:] of an array variable: reading access
			case *ssa.IndexAddr, *ssa.FieldAddr:
				// derived element address: fine as long as nothing is stored through it
				if dr := x.(ssa.Value).Referrers(); dr != nil {
					for _, r2 := range *dr {
						if st, ok := r2.(*ssa.Store); ok && st.Addr == x.(ssa.Value) {
							return false
						}
					}
				}
			default:
				return false
			}
		}
		return true
	}
	if !visit(a, *refs) {
		return nil
	}
	if n == 1 {
		return stored
	}
	return nil
}

// ---- matching helpers ----

// Walk visits d and all sub-descriptions.
func (d *VD) Walk(f func(*VD) bool) {
	if d == nil || !f(d) {
		return
	}
	for _, a := range d.Args {
		a.Walk(f)
	}
}

// Any reports whether any node of the description satisfies pred.
func (d *VD) Any(pred func(*VD) bool) bool {
	found := false
	d.Walk(func(x *VD) bool {
		if found {
			return false
		}
		if pred(x) {
			found = true
			return false
		}
		return true
	})
	return found
}

// FieldPath returns the chain of field names from the root, e.g. data.Target.Epoch -> [Target Epoch] with root.
func (d *VD) FieldPath() (root *VD, path []string) {
	cur := d
	for cur != nil && cur.Kind == "field" {
		path = append([]string{cur.Name}, path...)
		cur = cur.Args[0]
	}
	return cur, path
}

// HasFieldSuffix: d is a field selection ending in the given names.
func (d *VD) HasFieldSuffix(names ...string) bool {
	_, p := d.FieldPath()
	if len(p) < len(names) {
		return false
	}
	p = p[len(p)-len(names):]
	for i := range names {
		if p[i] != names[i] {
			return false
		}
	}
	return true
}

// IsCall reports whether d is a call whose callee name ends with one of the suffixes.
func (d *VD) IsCall(suffixes ...string) bool {
	if d == nil || d.Kind != "call" {
		return false
	}
	for _, s := range suffixes {
		if strings.HasSuffix(d.Name, s) {
			return true
		}
	}
	return false
}

// MentionsCall: some node is a call to a callee ending with one of suffixes.
func (d *VD) MentionsCall(suffixes ...string) bool {
	return d.Any(func(x *VD) bool { return x.IsCall(suffixes...) })
}

// MentionsField: some node is a field selection with that name.
func (d *VD) MentionsField(name string) bool {
	return d.Any(func(x *VD) bool { return x.Kind == "field" && x.Name == name })
}

// MentionsParam: some node is the named parameter.
func (d *VD) MentionsParam(name string) bool {
	return d.Any(func(x *VD) bool { return x.Kind == "param" && x.Name == name })
}

// MentionsValue: the slice passes through the given SSA value.
func (d *VD) MentionsValue(v ssa.Value) bool {
	return d.Any(func(x *VD) bool { return x.Val == v })
}

// CalleeNameOfFirst returns the callee name of the first call in fn whose method name is name ("" if none).
func CalleeNameOfFirst(fn *ssa.Function, name string) string {
	for _, b := range fn.Blocks {
		for _, in := range b.Instrs {
			if ci, ok := in.(ssa.CallInstruction); ok && MethodName(ci.Common()) == name {
				return CalleeName(ci.Common())
			}
		}
	}
	return ""
}

var numericGlobalMemo = map[*ssa.Global]ssa.Value{}

// numericGlobalInit: the call `big.NewInt(c)` / `uint256.NewInt(c)` stored into the package-level variable g by the
// package initialiser, when nothing else in the package stores to g; nil otherwise.
func numericGlobalInit(g *ssa.Global) ssa.Value {
	if v, ok := numericGlobalMemo[g]; ok {
		return v
	}
	numericGlobalMemo[g] = nil
	if g.Pkg == nil {
		return nil
	}
	var stored ssa.Value
	n := 0
	for _, mem := range g.Pkg.Members {
		fn, isFn := mem.(*ssa.Function)
		if !isFn {
			continue
		}
		for _, f := range WithClosures(fn) {
			EachInstr(f, func(in ssa.Instruction) {
				if st, ok := in.(*ssa.Store); ok && st.Addr == ssa.Value(g) {
					n++
					if f.Name() == "init" {
						stored = st.Val
					} else {
						n++
					}
				}
			})
		}
	}
	// methods are not package members: any store from a method disqualifies as well
	for _, mem := range g.Pkg.Members {
		t, isT := mem.(*ssa.Type)
		if !isT {
			continue
		}
		for _, typ := range []types.Type{t.Type(), types.NewPointer(t.Type())} {
			ms := g.Pkg.Prog.MethodSets.MethodSet(typ)
			for i := 0; i < ms.Len(); i++ {
				m := g.Pkg.Prog.MethodValue(ms.At(i))
				if m == nil || m.Pkg != g.Pkg {
					continue
				}
				for _, f := range WithClosures(m) {
					EachInstr(f, func(in ssa.Instruction) {
						if st, ok := in.(*ssa.Store); ok && st.Addr == ssa.Value(g) {
							n += 2
						}
					})
				}
			}
		}
	}
	if n != 1 || stored == nil {
		return nil
	}
	call, ok := stored.(*ssa.Call)
	if !ok || len(call.Call.Args) != 1 {
		return nil
	}
	name := CalleeName(&call.Call)
	if name != "math/big.NewInt" && !strings.HasSuffix(name, "uint256.NewInt") {
		return nil
	}
	if _, isC := call.Call.Args[0].(*ssa.Const); !isC {
		return nil
	}
	numericGlobalMemo[g] = stored
	return stored
}
