package core

import (
	"go/ast"
	"go/constant"
	"go/token"
	"go/types"
	"strings"

	"golang.org/x/tools/go/ssa"
)

// FieldID identifies a struct field by owner type and name.
type FieldID struct {
	Owner string // rel-pkg.TypeName
	Name  string
}

func (f FieldID) String() string { return f.Owner + "." + f.Name }

func ownerName(t types.Type) string {
	for {
		if p, ok := t.(*types.Pointer); ok {
			t = p.Elem()
			continue
		}
		break
	}
	if nt, ok := t.(*types.Named); ok {
		if nt.Obj().Pkg() != nil {
			return RelPkg(nt.Obj().Pkg().Path()) + "." + nt.Obj().Name()
		}
		return nt.Obj().Name()
	}
	return t.String()
}

// FieldOfAddr: if v is the address of a struct field (FieldAddr), return its id.
func FieldOfAddr(v ssa.Value) (FieldID, ssa.Value, bool) {
	if fa, ok := v.(*ssa.FieldAddr); ok {
		return FieldID{ownerName(fa.X.Type()), fieldName(fa.X.Type(), fa.Field)}, fa.X, true
	}
	return FieldID{}, nil, false
}

// FieldOfValue: if v is the value loaded from a struct field (or a Field extract), return its id.
func FieldOfValue(v ssa.Value) (FieldID, bool) {
	for {
		switch x := v.(type) {
		case *ssa.UnOp:
			if x.Op == token.MUL {
				if id, _, ok := FieldOfAddr(x.X); ok {
					return id, true
				}
				// load of a captured variable etc.
				return FieldID{}, false
			}
			return FieldID{}, false
		case *ssa.Field:
			return FieldID{ownerName(x.X.Type()), fieldName(x.X.Type(), x.Field)}, true
		case *ssa.ChangeType:
			v = x.X
		case *ssa.Convert:
			v = x.X
		default:
			return FieldID{}, false
		}
	}
}

// EachInstr visits every instruction of fn (not nested closures).
func EachInstr(fn *ssa.Function, f func(ssa.Instruction)) {
	for _, b := range fn.Blocks {
		for _, in := range b.Instrs {
			f(in)
		}
	}
}

// MapOp is an operation on a map held in a struct field.
type MapOp struct {
	Kind  string // lookup insert delete range len
	Field FieldID
	Instr ssa.Instruction
	Key   ssa.Value
	Val   ssa.Value
}

// MapOps finds the operations on field-held maps in fn.
func MapOps(fn *ssa.Function) []MapOp {
	var out []MapOp
	EachInstr(fn, func(in ssa.Instruction) {
		switch x := in.(type) {
		case *ssa.Lookup:
			if _, ok := x.X.Type().Underlying().(*types.Map); ok {
				if id, ok := FieldOfValue(x.X); ok {
					out = append(out, MapOp{"lookup", id, in, x.Index, nil})
				}
			}
		case *ssa.MapUpdate:
			if id, ok := FieldOfValue(x.Map); ok {
				out = append(out, MapOp{"insert", id, in, x.Key, x.Value})
			}
		case *ssa.Range:
			if _, ok := x.X.Type().Underlying().(*types.Map); ok {
				if id, ok := FieldOfValue(x.X); ok {
					out = append(out, MapOp{"range", id, in, nil, nil})
				}
			}
		case *ssa.Call:
			if b, ok := x.Call.Value.(*ssa.Builtin); ok {
				switch b.Name() {
				case "delete":
					if id, ok := FieldOfValue(x.Call.Args[0]); ok {
						out = append(out, MapOp{"delete", id, in, x.Call.Args[1], nil})
					}
				case "len":
					if _, ok := x.Call.Args[0].Type().Underlying().(*types.Map); ok {
						if id, ok := FieldOfValue(x.Call.Args[0]); ok {
							out = append(out, MapOp{"len", id, in, nil, nil})
						}
					}
				}
			}
		}
	})
	return out
}

// Implements reports whether *T or T (named type in SSA package) has a method with the given name
// and returns that method's function.
func (p *Prog) Method(rel, recv, name string) *ssa.Function { return p.Func(rel, recv, name) }

// ExtractOf returns the Extract instructions (by index) of a tuple-valued call.
func ExtractOf(call ssa.Value, idx int) *ssa.Extract {
	refs := call.Referrers()
	if refs == nil {
		return nil
	}
	for _, r := range *refs {
		if e, ok := r.(*ssa.Extract); ok && e.Index == idx {
			return e
		}
	}
	return nil
}

// IsNilConst reports whether v is the nil constant.
func IsNilConst(v ssa.Value) bool {
	c, ok := v.(*ssa.Const)
	return ok && c.Value == nil
}

// ReturnsOf lists return instructions of fn.
func ReturnsOf(fn *ssa.Function) []*ssa.Return {
	var out []*ssa.Return
	EachInstr(fn, func(in ssa.Instruction) {
		if r, ok := in.(*ssa.Return); ok {
			out = append(out, r)
		}
	})
	return out
}

// IsErrorType reports whether t is the predeclared error type.
func IsErrorType(t types.Type) bool {
	return types.Identical(t, types.Universe.Lookup("error").Type())
}

// Leaf is a non-phi value flowing into a use, together with the last instruction of the
// predecessor block through which it flows (or the use itself for a direct operand).
type Leaf struct {
	V    ssa.Value
	At   ssa.Instruction
	Pred *ssa.BasicBlock // non-nil when the value flows along the CFG edge Pred -> To into a phi
	To   *ssa.BasicBlock
}

// PhiLeaves expands nested phis of v used at instruction at.
func PhiLeaves(v ssa.Value, at ssa.Instruction) []Leaf {
	var out []Leaf
	seen := map[*ssa.Phi]bool{}
	var rec func(v ssa.Value, at ssa.Instruction, pred, to *ssa.BasicBlock)
	rec = func(v ssa.Value, at ssa.Instruction, pred, to *ssa.BasicBlock) {
		v = Unspill(v)
		if phi, ok := v.(*ssa.Phi); ok {
			if seen[phi] {
				return
			}
			seen[phi] = true
			for i, e := range phi.Edges {
				pb := phi.Block().Preds[i]
				rec(e, pb.Instrs[len(pb.Instrs)-1], pb, phi.Block())
			}
			return
		}
		out = append(out, Leaf{v, at, pred, to})
	}
	rec(v, at, nil, nil)
	return out
}

// FeasibleLeaves is PhiLeaves without the leaves that cannot reach the use: a leaf flowing along the edge
// Pred -> To is dropped when, with the branch that edge forces at To (jump threading), `at` is unreachable.
func FeasibleLeaves(fn *ssa.Function, v ssa.Value, at ssa.Instruction) []Leaf {
	var out []Leaf
	for _, lf := range PhiLeaves(v, at) {
		if lf.Pred != nil && lf.To != nil {
			to := lf.To
			direct := false // the leaf is an edge of v itself (not of a phi nested in it, whose value v may carry round a loop)
			if top, ok := Unspill(v).(*ssa.Phi); ok && top.Block() == to {
				direct = true
			}
			// coming back into the phi's block gives the phi its next value (a later loop iteration): not this leaf
			w := PathQuery{Fn: fn, StartEdge: &[2]*ssa.BasicBlock{lf.Pred, lf.To}, Target: func(in ssa.Instruction) bool { return in == at },
				Edge: func(b *ssa.BasicBlock, succ int) bool { return !direct || b.Succs[succ] != to }}.Find()
			if w == nil {
				continue
			}
		}
		out = append(out, lf)
	}
	return out
}

// Reach answers "may fn (transitively, through module-internal callees) execute a call satisfying pred?".
type Reach struct {
	P    *Prog
	Pred func(site ssa.CallInstruction) bool
	memo map[*ssa.Function]*reachRes
}

type reachRes struct {
	done bool
	hit  ssa.CallInstruction
	via  *ssa.Function
}

func NewReach(p *Prog, pred func(site ssa.CallInstruction) bool) *Reach {
	return &Reach{P: p, Pred: pred, memo: map[*ssa.Function]*reachRes{}}
}

// From returns a chain of function keys ending in the matching call site, or nil.
func (r *Reach) From(fn *ssa.Function) []string {
	res := r.visit(fn, 0)
	if res == nil || res.hit == nil {
		return nil
	}
	var chain []string
	cur := fn
	for i := 0; i < 30 && cur != nil; i++ {
		rr := r.memo[cur]
		if rr == nil || rr.hit == nil {
			break
		}
		if rr.via == nil {
			chain = append(chain, FnKey(cur)+" -> "+CalleeName(rr.hit.Common())+" at "+r.P.Pos(rr.hit.Pos()))
			break
		}
		chain = append(chain, FnKey(cur)+" calls "+FnKey(rr.via)+" at "+r.P.Pos(rr.hit.Pos()))
		cur = rr.via
	}
	return chain
}

func (r *Reach) visit(fn *ssa.Function, depth int) *reachRes {
	if res, ok := r.memo[fn]; ok {
		return res
	}
	res := &reachRes{}
	r.memo[fn] = res
	if fn.Blocks == nil || depth > 25 {
		return res
	}
	// direct
	EachInstr(fn, func(in ssa.Instruction) {
		if res.hit != nil {
			return
		}
		if ci, ok := in.(ssa.CallInstruction); ok {
			if _, isGo := in.(*ssa.Go); isGo {
				return
			}
			if r.Pred(ci) {
				res.hit = ci
			}
		}
	})
	if res.hit != nil {
		return res
	}
	n := r.P.CallGraph().Nodes[fn]
	if n == nil {
		return res
	}
	for _, e := range n.Out {
		if e.Site == nil {
			continue
		}
		if _, isGo := e.Site.(*ssa.Go); isGo {
			continue
		}
		c := e.Callee.Func
		if c == nil || c.Pkg == nil || !IsProd(c.Pkg.Pkg.Path()) {
			continue
		}
		if sub := r.visit(c, depth+1); sub != nil && sub.hit != nil {
			res.hit = e.Site
			res.via = c
			return res
		}
	}
	return res
}

// CalleesAt returns the possible module-internal callees of a call site according to the call graph.
func (p *Prog) CalleesAt(fn *ssa.Function, site ssa.CallInstruction) []*ssa.Function {
	if f := site.Common().StaticCallee(); f != nil {
		return []*ssa.Function{f}
	}
	n := p.CallGraph().Nodes[fn]
	if n == nil {
		return nil
	}
	var out []*ssa.Function
	for _, e := range n.Out {
		if e.Site == site && e.Callee.Func != nil {
			out = append(out, e.Callee.Func)
		}
	}
	return out
}

// PkgOfType returns the package path of a named (or pointer to named) type, "" otherwise.
func PkgOfType(t types.Type) string {
	for {
		if p, ok := t.(*types.Pointer); ok {
			t = p.Elem()
			continue
		}
		break
	}
	if nt, ok := t.(*types.Named); ok && nt.Obj().Pkg() != nil {
		return nt.Obj().Pkg().Path()
	}
	return ""
}

// StructLit is a composite literal (or field-wise initialised allocation) of a named struct type.
type StructLit struct {
	Alloc  *ssa.Alloc
	Fields map[string]ssa.Value
	Stores map[string]*ssa.Store
}

// StructLits finds allocations in fn of the named struct type whose name (rel-pkg.Type) has the given suffix,
// with the values stored into their fields.
func StructLits(fn *ssa.Function, typeSuffix string) []*StructLit {
	var out []*StructLit
	EachInstr(fn, func(in ssa.Instruction) {
		a, ok := in.(*ssa.Alloc)
		if !ok {
			return
		}
		pt, isPtr := a.Type().(*types.Pointer)
		if !isPtr {
			return
		}
		nt, isNamed := pt.Elem().(*types.Named)
		if !isNamed {
			return
		}
		if _, isStruct := nt.Underlying().(*types.Struct); !isStruct || !strings.HasSuffix(ownerName(nt), typeSuffix) {
			return
		}
		sl := &StructLit{Alloc: a, Fields: map[string]ssa.Value{}, Stores: map[string]*ssa.Store{}}
		if a.Referrers() != nil {
			for _, ref := range *a.Referrers() {
				fa, ok := ref.(*ssa.FieldAddr)
				if !ok || fa.Referrers() == nil {
					continue
				}
				for _, r2 := range *fa.Referrers() {
					if st, ok := r2.(*ssa.Store); ok && st.Addr == fa {
						name := fieldName(fa.X.Type(), fa.Field)
						sl.Fields[name] = st.Val
						sl.Stores[name] = st
					}
				}
			}
		}
		out = append(out, sl)
	})
	return out
}

// RangeIndex recognises the index variable of a `for i := range X` / `for i, v := range X` loop over a
// slice/array/string (go/ssa lowers these to an index phi) and returns the ranged collection.
func RangeIndex(v ssa.Value) (coll ssa.Value, ok bool) {
	if c, ok := explicitLoopIndex(v); ok {
		return c, true
	}
	b, isBin := v.(*ssa.BinOp)
	if !isBin || b.Op != token.ADD {
		return nil, false
	}
	phi, isPhi := b.X.(*ssa.Phi)
	if !isPhi || phi.Comment != "rangeindex" {
		return nil, false
	}
	if b.Referrers() == nil {
		return nil, false
	}
	for _, ref := range *b.Referrers() {
		cmp, ok := ref.(*ssa.BinOp)
		if !ok || cmp.Op != token.LSS || cmp.X != ssa.Value(b) {
			continue
		}
		if call, ok := cmp.Y.(*ssa.Call); ok {
			if bi, ok := call.Call.Value.(*ssa.Builtin); ok && bi.Name() == "len" {
				return call.Call.Args[0], true
			}
		}
	}
	return nil, false
}

// RangeElem: v is the element loaded at the range index of a slice range loop (`for _, v := range X`);
// returns the collection and the index value.
func RangeElem(v ssa.Value) (coll ssa.Value, idx ssa.Value, ok bool) {
	u, isLoad := v.(*ssa.UnOp)
	if !isLoad || u.Op != token.MUL {
		return nil, nil, false
	}
	ia, isIdx := u.X.(*ssa.IndexAddr)
	if !isIdx {
		return nil, nil, false
	}
	c, ok := RangeIndex(ia.Index)
	if !ok || c != ia.X {
		return nil, nil, false
	}
	return c, ia.Index, true
}

// explicitLoopIndex: v is the induction variable of `for i := 0; i < len(X); i++` (phi of 0 and phi+1,
// compared with len(X)); returns X.
func explicitLoopIndex(v ssa.Value) (ssa.Value, bool) {
	phi, isPhi := v.(*ssa.Phi)
	if !isPhi || len(phi.Edges) != 2 || phi.Comment == "rangeindex" {
		return nil, false
	}
	zero, step := false, false
	for _, e := range phi.Edges {
		if c, ok := e.(*ssa.Const); ok && c.Value != nil && c.Value.String() == "0" {
			zero = true
		}
		if b, ok := e.(*ssa.BinOp); ok && b.Op == token.ADD && b.X == ssa.Value(phi) {
			if c, ok := b.Y.(*ssa.Const); ok && c.Value != nil && c.Value.String() == "1" {
				step = true
			}
		}
	}
	if !zero || !step || phi.Referrers() == nil {
		return nil, false
	}
	for _, ref := range *phi.Referrers() {
		cmp, ok := ref.(*ssa.BinOp)
		if !ok || cmp.Op != token.LSS || cmp.X != ssa.Value(phi) {
			continue
		}
		if call, ok := cmp.Y.(*ssa.Call); ok {
			if bi, ok := call.Call.Value.(*ssa.Builtin); ok && bi.Name() == "len" {
				return call.Call.Args[0], true
			}
		}
	}
	return nil, false
}

// LoopElem generalises RangeElem to explicit index loops: v is X[i] (loaded) where i is the induction
// variable of a loop `for i := 0; i < len(X); i++` over the same collection X (value or a local copy of it).
func LoopElem(v ssa.Value) (coll ssa.Value, ok bool) {
	if c, _, ok := RangeElem(v); ok {
		return c, true
	}
	u, isLoad := v.(*ssa.UnOp)
	if !isLoad || u.Op != token.MUL {
		return nil, false
	}
	ia, isIdx := u.X.(*ssa.IndexAddr)
	if !isIdx {
		return nil, false
	}
	phi, isPhi := ia.Index.(*ssa.Phi)
	if !isPhi || len(phi.Edges) != 2 {
		return nil, false
	}
	// one edge the constant 0, the other phi+1; the loop condition compares phi with len(X)
	zero, step := false, false
	for _, e := range phi.Edges {
		if c, ok := e.(*ssa.Const); ok && c.Value != nil && c.Value.String() == "0" {
			zero = true
		}
		if b, ok := e.(*ssa.BinOp); ok && b.Op == token.ADD && b.X == ssa.Value(phi) {
			if c, ok := b.Y.(*ssa.Const); ok && c.Value != nil && c.Value.String() == "1" {
				step = true
			}
		}
	}
	if !zero || !step || phi.Referrers() == nil {
		return nil, false
	}
	for _, ref := range *phi.Referrers() {
		cmp, ok := ref.(*ssa.BinOp)
		if !ok || cmp.Op != token.LSS || cmp.X != ssa.Value(phi) {
			continue
		}
		if call, ok := cmp.Y.(*ssa.Call); ok {
			if bi, ok := call.Call.Value.(*ssa.Builtin); ok && bi.Name() == "len" && call.Call.Args[0] == ia.X {
				return ia.X, true
			}
		}
	}
	return nil, false
}

// MapRange: v is the key (idx 1) or value (idx 2) of a map range loop; returns the Range instruction.
func MapRange(v ssa.Value) (rng *ssa.Range, which int, ok bool) {
	e, isEx := v.(*ssa.Extract)
	if !isEx {
		return nil, 0, false
	}
	n, isNext := e.Tuple.(*ssa.Next)
	if !isNext {
		return nil, 0, false
	}
	r, isR := n.Iter.(*ssa.Range)
	if !isR {
		return nil, 0, false
	}
	return r, e.Index, true
}

// ParamOrigins follows parameter k of fn to the values passed by its (static, module-internal) callers,
// transitively through callers that pass one of their own parameters (depth-bounded).
func (p *Prog) ParamOrigins(fn *ssa.Function, k int, depth int) []ssa.Value {
	var out []ssa.Value
	n := p.CallGraph().Nodes[fn]
	if n == nil || depth > 4 {
		return nil
	}
	for _, e := range n.In {
		if e.Site == nil || e.Site.Common().StaticCallee() != fn {
			continue
		}
		args := e.Site.Common().Args
		if k >= len(args) {
			continue
		}
		a := args[k]
		if prm, ok := a.(*ssa.Parameter); ok {
			caller := prm.Parent()
			for i, cp := range caller.Params {
				if cp == prm {
					out = append(out, p.ParamOrigins(caller, i, depth+1)...)
				}
			}
			continue
		}
		out = append(out, a)
	}
	return out
}

// ElemStores returns the values stored into elements of the slice value v (v[i] = x) in v's function.
func ElemStores(v ssa.Value) []ssa.Value {
	var out []ssa.Value
	refs := v.Referrers()
	if refs == nil {
		return nil
	}
	for _, r := range *refs {
		ia, ok := r.(*ssa.IndexAddr)
		if !ok || ia.Referrers() == nil {
			continue
		}
		for _, r2 := range *ia.Referrers() {
			if st, ok := r2.(*ssa.Store); ok && st.Addr == ssa.Value(ia) {
				out = append(out, st.Val)
			}
		}
	}
	return out
}

// ParamIndex returns the index of the parameter named name in fn (-1 if absent).
func ParamIndex(fn *ssa.Function, name string) int {
	for i, p := range fn.Params {
		if p.Name() == name {
			return i
		}
	}
	return -1
}

// Unspill sees through go/ssa's result spilling in functions with defers: a load `*slot` of a local cell
// that is preceded, in the same block, by a store to that cell yields the stored value.
func Unspill(v ssa.Value) ssa.Value {
	u, ok := v.(*ssa.UnOp)
	if !ok || u.Op != token.MUL {
		return v
	}
	a, ok := u.X.(*ssa.Alloc)
	if !ok {
		return v
	}
	b := u.Block()
	var last ssa.Value
	for _, in := range b.Instrs {
		if in == ssa.Instruction(u) {
			break
		}
		if st, ok := in.(*ssa.Store); ok && st.Addr == ssa.Value(a) {
			last = st.Val
		}
	}
	if last != nil {
		return last
	}
	return v
}

// SourceName returns the name of the source variable an SSA value was assigned to (from debug references), or "".
func SourceName(v ssa.Value) string {
	refs := v.Referrers()
	if refs == nil {
		return ""
	}
	for _, r := range *refs {
		if d, ok := r.(*ssa.DebugRef); ok {
			if id, ok := d.Expr.(*ast.Ident); ok {
				return id.Name
			}
		}
	}
	return ""
}

// Nillable: values of the type can be nil (pointer, interface, map, slice, chan, func).
func Nillable(t types.Type) bool {
	switch t.Underlying().(type) {
	case *types.Pointer, *types.Interface, *types.Map, *types.Slice, *types.Chan, *types.Signature:
		return true
	}
	return false
}

// IsIntConst: v is the integer constant n.
func IsIntConst(v ssa.Value, n int64) bool {
	c, ok := v.(*ssa.Const)
	if !ok || c.Value == nil || c.Value.Kind() != constant.Int {
		return false
	}
	x, exact := constant.Int64Val(c.Value)
	return exact && x == n
}

// ThroughLocalStruct resolves a field read of a struct value that was assembled in a local variable: v is
// Field(X, i) or a load of FieldAddr(A, i); every feasible leaf of the struct value at `at` is a load of one local
// Alloc whose field i is written by exactly one Store (or which is assigned as a whole exactly once, from such a
// value) — the stored value is returned. Anything else returns v unchanged.
// (A result struct bundled by an inlined helper: `var r T; r.a = f(); return r` … `x := r.a`.)
func ThroughLocalStruct(fn *ssa.Function, v ssa.Value, at ssa.Instruction) ssa.Value {
	var res ssa.Value
	switch x := v.(type) {
	case *ssa.Field:
		res = fieldOfStructValue(fn, x.X, x.Field, at, 0)
	case *ssa.UnOp:
		if fa, ok := x.X.(*ssa.FieldAddr); ok && x.Op == token.MUL {
			if a, ok := fa.X.(*ssa.Alloc); ok {
				res = fieldOfAlloc(fn, a, fa.Field, at, 0)
			}
		}
	}
	if res == nil {
		return v
	}
	return res
}

func fieldOfStructValue(fn *ssa.Function, sv ssa.Value, field int, at ssa.Instruction, depth int) ssa.Value {
	if depth > 3 {
		return nil
	}
	var res ssa.Value
	for _, lf := range FeasibleLeaves(fn, sv, at) {
		u, ok := lf.V.(*ssa.UnOp)
		if !ok || u.Op != token.MUL {
			return nil
		}
		a, ok := u.X.(*ssa.Alloc)
		if !ok {
			return nil
		}
		r := fieldOfAlloc(fn, a, field, at, depth+1)
		if r == nil || (res != nil && r != res) {
			return nil
		}
		res = r
	}
	return res
}

func fieldOfAlloc(fn *ssa.Function, a *ssa.Alloc, field int, at ssa.Instruction, depth int) ssa.Value {
	if a.Referrers() == nil || depth > 3 {
		return nil
	}
	var stored, whole ssa.Value
	nField, nWhole := 0, 0
	for _, ref := range *a.Referrers() {
		switch y := ref.(type) {
		case *ssa.FieldAddr:
			if y.Referrers() == nil {
				continue
			}
			for _, r2 := range *y.Referrers() {
				if st, ok := r2.(*ssa.Store); ok && st.Addr == ssa.Value(y) {
					if y.Field == field {
						stored = st.Val
						nField++
					}
				} else if _, isLoad := r2.(*ssa.UnOp); !isLoad {
					if _, isDbg := r2.(*ssa.DebugRef); !isDbg && y.Field == field {
						return nil // the address of the field is used otherwise
					}
				}
			}
		case *ssa.UnOp, *ssa.DebugRef:
		case *ssa.Store:
			if y.Addr != ssa.Value(a) {
				return nil // the variable's address is stored somewhere
			}
			whole = y.Val
			nWhole++
		default:
			return nil // the variable's address is used otherwise
		}
	}
	switch {
	case nField == 1 && nWhole == 0:
		return stored
	case nField == 0 && nWhole == 1:
		return fieldOfStructValue(fn, whole, field, at, depth+1)
	}
	return nil
}

// SoleFeasibleLeaf: when exactly one non-phi value can flow into v at the use (the other phi edges cannot reach it,
// as with the results of an inlined helper tested by its `ok` flag), that value; otherwise v itself.
func SoleFeasibleLeaf(fn *ssa.Function, v ssa.Value, at ssa.Instruction) ssa.Value {
	if _, isPhi := Unspill(v).(*ssa.Phi); !isPhi {
		return v
	}
	lfs := FeasibleLeaves(fn, v, at)
	if len(lfs) == 1 {
		return lfs[0].V
	}
	return v
}

func instrDominates(x, y ssa.Instruction) bool {
	if x.Block() == y.Block() {
		for _, in := range x.Block().Instrs {
			if in == x {
				return true
			}
			if in == y {
				return false
			}
		}
		return false
	}
	return x.Block().Dominates(y.Block())
}

// ReachingStore: the value the local variable cell a holds at instruction `at` of a's function, when that is decided
// by dominance: the latest store that dominates `at`, with no other store on a path between the two, the cell written
// by the function itself only (closures may read it). nil when undecided.
func ReachingStore(a *ssa.Alloc, at ssa.Instruction) ssa.Value {
	if a.Referrers() == nil || at == nil || at.Parent() != a.Parent() {
		return nil
	}
	var stores []*ssa.Store
	var closureWrites func(fn *ssa.Function, fv *ssa.FreeVar, depth int) bool
	closureWrites = func(fn *ssa.Function, fv *ssa.FreeVar, depth int) bool {
		if fv.Referrers() == nil {
			return false
		}
		for _, ref := range *fv.Referrers() {
			switch y := ref.(type) {
			case *ssa.Store:
				if y.Addr == ssa.Value(fv) {
					return true
				}
				return true // the address is stored somewhere
			case *ssa.UnOp, *ssa.DebugRef:
			case *ssa.MakeClosure:
				g, _ := y.Fn.(*ssa.Function)
				if g == nil || depth > 3 {
					return true
				}
				for i, b := range y.Bindings {
					if b == ssa.Value(fv) && i < len(g.FreeVars) && closureWrites(g, g.FreeVars[i], depth+1) {
						return true
					}
				}
			default:
				return true
			}
		}
		return false
	}
	for _, ref := range *a.Referrers() {
		switch y := ref.(type) {
		case *ssa.Store:
			if y.Addr != ssa.Value(a) {
				return nil
			}
			stores = append(stores, y)
		case *ssa.UnOp, *ssa.DebugRef:
		case *ssa.MakeClosure:
			g, _ := y.Fn.(*ssa.Function)
			if g == nil {
				return nil
			}
			for i, b := range y.Bindings {
				if b == ssa.Value(a) && i < len(g.FreeVars) && closureWrites(g, g.FreeVars[i], 0) {
					return nil
				}
			}
		default:
			return nil
		}
	}
	var best *ssa.Store
	for _, st := range stores {
		if instrDominates(st, at) && (best == nil || instrDominates(best, st)) {
			best = st
		}
	}
	if best == nil {
		return nil
	}
	for _, st := range stores {
		if st == best {
			continue
		}
		other := st
		w1 := PathQuery{Fn: a.Parent(), From: best, Target: func(in ssa.Instruction) bool { return in == ssa.Instruction(other) }}.Find()
		w2 := PathQuery{Fn: a.Parent(), From: other, Target: func(in ssa.Instruction) bool { return in == at }}.Find()
		if w1 != nil && w2 != nil {
			return nil
		}
	}
	return best.Val
}

// CapturedValue: what a closure reads from a captured variable of the enclosing function, when that is decided: the
// closure is created at one site, the variable holds one decided value there (ReachingStore) and is not assigned
// again on any path after that site. nil when undecided.
func CapturedValue(fv *ssa.FreeVar) ssa.Value {
	a, ok := FreeVarBinding(fv).(*ssa.Alloc)
	if !ok || a.Parent() != fv.Parent().Parent() {
		return nil
	}
	var site ssa.Instruction
	n := 0
	EachInstr(a.Parent(), func(in ssa.Instruction) {
		if mc, ok := in.(*ssa.MakeClosure); ok && mc.Fn == ssa.Value(fv.Parent()) {
			site = in
			n++
		}
	})
	if n != 1 {
		return nil
	}
	v := ReachingStore(a, site)
	if v == nil {
		return nil
	}
	for _, ref := range *a.Referrers() {
		if st, ok := ref.(*ssa.Store); ok && st.Val != v {
			other := st
			if (PathQuery{Fn: a.Parent(), From: site, Target: func(in ssa.Instruction) bool { return in == ssa.Instruction(other) }}).Find() != nil {
				return nil
			}
		}
	}
	return v
}

// ReachingStoreAny: the single value ever stored into the cell a by its own function (nil when none or several).
func ReachingStoreAny(a *ssa.Alloc) ssa.Value {
	if a.Referrers() == nil {
		return nil
	}
	var v ssa.Value
	n := 0
	for _, ref := range *a.Referrers() {
		if st, ok := ref.(*ssa.Store); ok && st.Addr == ssa.Value(a) {
			v = st.Val
			n++
		}
	}
	if n != 1 {
		return nil
	}
	return v
}

// InstrDominates: every path to y passes x first.
func InstrDominates(x, y ssa.Instruction) bool { return instrDominates(x, y) }
