package core

import (
	"bytes"
	"crypto/sha1"
	"encoding/hex"
	"encoding/json"
	"fmt"
	"go/ast"
	"go/format"
	"go/token"
	"go/types"
	"os"
	"regexp"
	"sort"
	"strings"

	"golang.org/x/tools/go/packages"
)

// Rename normalisation. Rules name a few anchors (an unexported helper, a mutex or map field, a parameter).
// Renaming one of them changes nothing about the program, so before the analysis a renamed identifier is given
// its old name back in the overlay:
//   - a function that is new relative to the baseline, in a package (and on a receiver) from which a baseline
//     function has disappeared, whose signature and body hash equal that function's: renamed back;
//   - a struct whose field set differs from the baseline by names only (one gone, one new, of the same type):
//     the new field is renamed back;
//   - a function present in both whose parameter at position i has another name: renamed back.
// Every definition and use of the object is rewritten (types.Info), so the result type-checks or is discarded.

// Baseline is what is recorded about the tree the rules were validated on.
type Baseline struct {
	Funcs  map[string]BaseFunc        `json:"funcs"`  // key: FuncDeclKey
	Fields map[string][][2]string     `json:"fields"` // key: pkgpath.Type -> [name, type]
}

// BaseFunc records the identity-free content of a function.
type BaseFunc struct {
	Hash   string   `json:"hash"`
	Params []string `json:"params"`
}

func funcHash(fset *token.FileSet, d *ast.FuncDecl) string {
	var b bytes.Buffer
	if d.Type != nil {
		_ = format.Node(&b, fset, d.Type)
	}
	if d.Body != nil {
		_ = format.Node(&b, fset, d.Body)
	}
	s := b.String()
	// the function's own name (recursion) is not part of its content
	re := regexp.MustCompile(`\b` + regexp.QuoteMeta(d.Name.Name) + `\b`)
	s = re.ReplaceAllString(s, "_SELF_")
	h := sha1.Sum([]byte(s))
	return hex.EncodeToString(h[:])
}

func paramNames(d *ast.FuncDecl) []string {
	var out []string
	if d.Type.Params == nil {
		return out
	}
	for _, f := range d.Type.Params.List {
		if len(f.Names) == 0 {
			out = append(out, "_")
		}
		for _, n := range f.Names {
			out = append(out, n.Name)
		}
	}
	return out
}

// BuildBaseline records functions and struct fields of the production packages.
func BuildBaseline(pkgs []*packages.Package) *Baseline {
	b := &Baseline{Funcs: map[string]BaseFunc{}, Fields: map[string][][2]string{}}
	packages.Visit(pkgs, nil, func(pk *packages.Package) {
		if !IsProd(pk.PkgPath) {
			return
		}
		for _, f := range pk.Syntax {
			for _, d := range f.Decls {
				if fd, ok := d.(*ast.FuncDecl); ok {
					b.Funcs[FuncDeclKey(pk.PkgPath, fd)] = BaseFunc{Hash: funcHash(pk.Fset, fd), Params: paramNames(fd)}
				}
			}
		}
		if pk.Types == nil {
			return
		}
		for _, n := range pk.Types.Scope().Names() {
			tn, ok := pk.Types.Scope().Lookup(n).(*types.TypeName)
			if !ok {
				continue
			}
			st, ok := tn.Type().Underlying().(*types.Struct)
			if !ok {
				continue
			}
			var fl [][2]string
			for i := 0; i < st.NumFields(); i++ {
				fl = append(fl, [2]string{st.Field(i).Name(), st.Field(i).Type().String()})
			}
			b.Fields[pk.PkgPath+"."+n] = fl
		}
	})
	return b
}

// LoadBaseline reads <verif>/baseline.json.
func LoadBaseline(path string) *Baseline {
	data, err := os.ReadFile(path)
	if err != nil {
		return nil
	}
	var b Baseline
	if json.Unmarshal(data, &b) != nil || len(b.Funcs) == 0 {
		return nil
	}
	return &b
}

// RenameBack returns an overlay in which renamed functions, fields and parameters carry their baseline names.
func RenameBack(dir string, overlay map[string][]byte, goarch string, base *Baseline) (map[string][]byte, []string) {
	if base == nil {
		return overlay, nil
	}
	pkgs, err := loadSyntax(dir, overlay, goarch)
	if err != nil || hasErrors(pkgs) {
		return overlay, nil
	}
	type ren struct {
		obj     types.Object
		newName string
		what    string
	}
	var rens []ren
	packages.Visit(pkgs, nil, func(pk *packages.Package) {
		if !IsProd(pk.PkgPath) || pk.TypesInfo == nil {
			return
		}
		// functions
		present := map[string]*ast.FuncDecl{}
		for _, f := range pk.Syntax {
			for _, d := range f.Decls {
				if fd, ok := d.(*ast.FuncDecl); ok {
					present[FuncDeclKey(pk.PkgPath, fd)] = fd
				}
			}
		}
		prefix := pk.PkgPath + "."
		var gone []string
		for k := range base.Funcs {
			if strings.HasPrefix(k, prefix) && !strings.Contains(strings.TrimPrefix(k, prefix), "/") {
				// same package exactly: key is pkg.Recv.Name
				rest := strings.TrimPrefix(k, prefix)
				if strings.Count(rest, ".") == 1 && present[k] == nil {
					gone = append(gone, k)
				}
			}
		}
		sort.Strings(gone)
		usedGone := map[string]bool{}
		var keys []string
		for k := range present {
			keys = append(keys, k)
		}
		sort.Strings(keys)
		for _, k := range keys {
			fd := present[k]
			if _, ok := base.Funcs[k]; ok {
				// parameter renames
				bp := base.Funcs[k].Params
				cp := paramNames(fd)
				if len(bp) == len(cp) && fd.Type.Params != nil {
					i := 0
					for _, fl := range fd.Type.Params.List {
						for _, nm := range fl.Names {
							if bp[i] != cp[i] && bp[i] != "_" && cp[i] != "_" {
								if obj := pk.TypesInfo.Defs[nm]; obj != nil && !nameTaken(fd, bp[i]) {
									rens = append(rens, ren{obj, bp[i], fmt.Sprintf("parameter %s of %s (was %s)", cp[i], k, bp[i])})
								}
							}
							i++
						}
						if len(fl.Names) == 0 {
							i++
						}
					}
				}
				continue
			}
			h := funcHash(pk.Fset, fd)
			recvKey := k[:strings.LastIndex(k, ".")]
			for _, g := range gone {
				if usedGone[g] || g[:strings.LastIndex(g, ".")] != recvKey || base.Funcs[g].Hash != h {
					continue
				}
				usedGone[g] = true
				if obj := pk.TypesInfo.Defs[fd.Name]; obj != nil {
					rens = append(rens, ren{obj, g[strings.LastIndex(g, ".")+1:], fmt.Sprintf("function %s (was %s)", k, g)})
				}
				break
			}
		}
		// struct fields
		if pk.Types == nil {
			return
		}
		for _, n := range pk.Types.Scope().Names() {
			tn, ok := pk.Types.Scope().Lookup(n).(*types.TypeName)
			if !ok {
				continue
			}
			st, ok := tn.Type().Underlying().(*types.Struct)
			if !ok {
				continue
			}
			bf, ok := base.Fields[pk.PkgPath+"."+n]
			if !ok {
				continue
			}
			baseSet := map[string]string{}
			for _, f := range bf {
				baseSet[f[0]] = f[1]
			}
			curSet := map[string]*types.Var{}
			for i := 0; i < st.NumFields(); i++ {
				curSet[st.Field(i).Name()] = st.Field(i)
			}
			var removed []string
			for name := range baseSet {
				if curSet[name] == nil {
					removed = append(removed, name)
				}
			}
			sort.Strings(removed)
			var added []*types.Var
			for name, v := range curSet {
				if _, ok := baseSet[name]; !ok {
					added = append(added, v)
				}
			}
			sort.Slice(added, func(i, j int) bool { return added[i].Name() < added[j].Name() })
			// pair gone and new names type by type; several of one type are paired in declaration order (a rename
			// keeps a field where it is), and only when their numbers agree
			baseOrder := map[string]int{}
			for i, f := range bf {
				baseOrder[f[0]] = i
			}
			curOrder := map[*types.Var]int{}
			for i := 0; i < st.NumFields(); i++ {
				curOrder[st.Field(i)] = i
			}
			byTypeOld := map[string][]string{}
			for _, old := range removed {
				byTypeOld[baseSet[old]] = append(byTypeOld[baseSet[old]], old)
			}
			byTypeNew := map[string][]*types.Var{}
			for _, a := range added {
				byTypeNew[a.Type().String()] = append(byTypeNew[a.Type().String()], a)
			}
			var tkeys []string
			for t := range byTypeOld {
				tkeys = append(tkeys, t)
			}
			sort.Strings(tkeys)
			for _, t := range tkeys {
				olds, news := byTypeOld[t], byTypeNew[t]
				if len(olds) != len(news) {
					continue
				}
				sort.Slice(olds, func(i, j int) bool { return baseOrder[olds[i]] < baseOrder[olds[j]] })
				sort.Slice(news, func(i, j int) bool { return curOrder[news[i]] < curOrder[news[j]] })
				for i := range olds {
					rens = append(rens, ren{news[i], olds[i], fmt.Sprintf("field %s.%s.%s (was %s)", pk.PkgPath, n, news[i].Name(), olds[i])})
				}
			}
		}
	})
	if len(rens) == 0 {
		return overlay, nil
	}
	byObj := map[types.Object]string{}
	var notes []string
	for _, r := range rens {
		byObj[r.obj] = r.newName
		notes = append(notes, "renamed back "+r.what)
	}
	edits := map[string][]edit{}
	packages.Visit(pkgs, nil, func(pk *packages.Package) {
		if pk.TypesInfo == nil || !strings.HasPrefix(pk.PkgPath, ModulePath) {
			return
		}
		add := func(id *ast.Ident, obj types.Object) {
			nn, ok := byObj[obj]
			if !ok || id.Name == nn {
				return
			}
			pos := pk.Fset.PositionFor(id.Pos(), false)
			edits[pos.Filename] = append(edits[pos.Filename], edit{pos.Offset, pos.Offset + len(id.Name), nn})
		}
		for id, obj := range pk.TypesInfo.Defs {
			if obj != nil {
				add(id, obj)
			}
		}
		for id, obj := range pk.TypesInfo.Uses {
			add(id, obj)
		}
	})
	cur := map[string][]byte{}
	for k, v := range overlay {
		cur[k] = v
	}
	for fname, es := range edits {
		text, ok := cur[fname]
		if !ok {
			text, _ = os.ReadFile(fname)
		}
		sort.Slice(es, func(i, j int) bool { return es[i].start > es[j].start })
		last := -1
		for _, e := range es {
			if e.start == last {
				continue
			}
			last = e.start
			text = append(append(append([]byte{}, text[:e.start]...), []byte(e.text)...), text[e.end:]...)
		}
		cur[fname] = text
	}
	chk, err := loadSyntax(dir, cur, goarch)
	if err != nil || hasErrors(chk) {
		return overlay, []string{"renaming identifiers back to their baseline names did not type-check; analysing the tree as it is"}
	}
	return cur, notes
}

// nameTaken: does the function already declare or use an identifier of that name?
func nameTaken(fd *ast.FuncDecl, name string) bool {
	taken := false
	ast.Inspect(fd, func(n ast.Node) bool {
		if id, ok := n.(*ast.Ident); ok && id.Name == name {
			taken = true
		}
		return !taken
	})
	return taken
}

// NamesDiffer is the cheap syntactic pre-check for RenameBack and Normalize: does the tree declare a function,
// parameter name or struct field name that the baseline does not have (or lack one it has)?
func NamesDiffer(dir string, overlay map[string][]byte, base *Baseline) bool {
	if base == nil {
		return false
	}
	differ := false
	seen := map[string]bool{}
	fset := token.NewFileSet()
	walkProdFiles(dir, overlay, fset, func(pkgPath string, f *ast.File) {
		if differ {
			return
		}
		for _, d := range f.Decls {
			switch x := d.(type) {
			case *ast.FuncDecl:
				k := FuncDeclKey(pkgPath, x)
				seen[k] = true
				bf, ok := base.Funcs[k]
				if !ok {
					differ = true
					return
				}
				cp := paramNames(x)
				if len(cp) != len(bf.Params) {
					continue
				}
				for i := range cp {
					if cp[i] != bf.Params[i] {
						differ = true
						return
					}
				}
			case *ast.GenDecl:
				for _, sp := range x.Specs {
					ts, ok := sp.(*ast.TypeSpec)
					if !ok {
						continue
					}
					st, ok := ts.Type.(*ast.StructType)
					if !ok {
						continue
					}
					bfl, ok := base.Fields[pkgPath+"."+ts.Name.Name]
					if !ok {
						continue
					}
					names := map[string]bool{}
					for _, b := range bfl {
						names[b[0]] = true
					}
					n := 0
					for _, fl := range st.Fields.List {
						for _, nm := range fl.Names {
							n++
							if !names[nm.Name] {
								differ = true
								return
							}
						}
						if len(fl.Names) == 0 {
							n++
						}
					}
					if n != len(bfl) {
						differ = true
						return
					}
				}
			}
		}
	})
	if differ {
		return true
	}
	for k := range base.Funcs {
		if !seen[k] {
			return true
		}
	}
	return false
}
