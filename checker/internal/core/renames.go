package core

import (
	"bytes"
	"crypto/sha1"
	"encoding/hex"
	"encoding/json"
	"fmt"
	"go/ast"
	"go/format"
	"go/token"
	"go/types"
	"os"
	"regexp"
	"sort"
	"strings"

	"golang.org/x/tools/go/packages"
)

// Rename normalisation. Rules name a few anchors (an unexported helper, a mutex or map field, a parameter).
// Renaming one of them changes nothing about the program, so before the analysis a renamed identifier is given
// its old name back in the overlay:
//   - a function that is new relative to the baseline, in a package (and on a receiver) from which a baseline
//     function has disappeared, whose signature and body hash equal that function's: renamed back;
//   - a struct whose field set differs from the baseline by names only (one gone, one new, of the same type):
//     the new field is renamed back;
//   - a function present in both whose parameter at position i has another name: renamed back.
// Every definition and use of the object is rewritten (types.Info), so the result type-checks or is discarded.

// Baseline is what is recorded about the tree the rules were validated on.
type Baseline struct {
	Funcs  map[string]BaseFunc    `json:"funcs"`  // key: FuncDeclKey
	Fields map[string][][2]string `json:"fields"` // key: pkgpath.Type -> [name, type]
}

// BaseFunc records the identity-free content of a function.
type BaseFunc struct {
	Hash     string   `json:"hash"`
	BodyHash string   `json:"body"`
	Alpha    string   `json:"alpha"` // body hash with local variables and parameters numbered (renaming-insensitive)
	Params   []string `json:"params"`
}

// alphaHash hashes the function's body with every identifier that denotes a local variable, parameter, named
// result or receiver replaced by the ordinal of its first occurrence: two bodies that differ only in the names of
// locals have the same hash.
func alphaHash(info *types.Info, pkg *types.Package, d *ast.FuncDecl) string {
	if d.Body == nil || info == nil {
		return ""
	}
	var b bytes.Buffer
	num := map[types.Object]int{}
	local := func(obj types.Object) bool {
		v, ok := obj.(*types.Var)
		if !ok || v.IsField() {
			return false
		}
		return pkg == nil || obj.Parent() != pkg.Scope()
	}
	ast.Inspect(d.Body, func(n ast.Node) bool {
		if n == nil {
			b.WriteString(")")
			return false
		}
		fmt.Fprintf(&b, "(%T", n)
		switch x := n.(type) {
		case *ast.Ident:
			obj := info.Defs[x]
			if obj == nil {
				obj = info.Uses[x]
			}
			if obj != nil && local(obj) {
				k, ok := num[obj]
				if !ok {
					k = len(num)
					num[obj] = k
				}
				fmt.Fprintf(&b, " v%d", k)
			} else if x.Name == d.Name.Name {
				b.WriteString(" _SELF_")
			} else {
				b.WriteString(" " + x.Name)
			}
		case *ast.BasicLit:
			b.WriteString(" " + x.Value)
		case *ast.BinaryExpr:
			b.WriteString(" " + x.Op.String())
		case *ast.UnaryExpr:
			b.WriteString(" " + x.Op.String())
		case *ast.AssignStmt:
			b.WriteString(" " + x.Tok.String())
		case *ast.IncDecStmt:
			b.WriteString(" " + x.Tok.String())
		case *ast.BranchStmt:
			b.WriteString(" " + x.Tok.String())
		case *ast.RangeStmt:
			b.WriteString(" " + x.Tok.String())
		}
		return true
	})
	h := sha1.Sum(b.Bytes())
	return hex.EncodeToString(h[:])
}

func bodyHash(fset *token.FileSet, d *ast.FuncDecl) string {
	var b bytes.Buffer
	if d.Body != nil {
		_ = format.Node(&b, fset, d.Body)
	}
	re := regexp.MustCompile(`\b` + regexp.QuoteMeta(d.Name.Name) + `\b`)
	h := sha1.Sum([]byte(re.ReplaceAllString(b.String(), "_SELF_")))
	return hex.EncodeToString(h[:])
}

// GoneBodies lists, per package, the body hashes of baseline functions that the tree no longer declares under
// their baseline key: a new function with such a body is that function with another signature (a method made a
// plain function, a dropped or reordered parameter, another receiver) and is left as it is.
func GoneBodies(base *Baseline, present map[string]bool) map[string]map[string]bool {
	out := map[string]map[string]bool{}
	for k, f := range base.Funcs {
		if present[k] || f.BodyHash == "" {
			continue
		}
		// key = pkg.Recv.Name
		i := strings.LastIndex(k, ".")
		j := strings.LastIndex(k[:i], ".")
		pkg := k[:j]
		if out[pkg] == nil {
			out[pkg] = map[string]bool{}
		}
		out[pkg][f.BodyHash] = true
		if f.Alpha != "" {
			out[pkg]["alpha:"+f.Alpha] = true
		}
	}
	return out
}

// AlphaHashOf exposes alphaHash.
func AlphaHashOf(info *types.Info, pkg *types.Package, d *ast.FuncDecl) string {
	return alphaHash(info, pkg, d)
}

// BodyHashOf is bodyHash for other files of the package.
func BodyHashOf(fset *token.FileSet, d *ast.FuncDecl) string { return bodyHash(fset, d) }

func funcHash(fset *token.FileSet, d *ast.FuncDecl) string {
	var b bytes.Buffer
	if d.Type != nil {
		_ = format.Node(&b, fset, d.Type)
	}
	if d.Body != nil {
		_ = format.Node(&b, fset, d.Body)
	}
	s := b.String()
	// the function's own name (recursion) is not part of its content
	re := regexp.MustCompile(`\b` + regexp.QuoteMeta(d.Name.Name) + `\b`)
	s = re.ReplaceAllString(s, "_SELF_")
	h := sha1.Sum([]byte(s))
	return hex.EncodeToString(h[:])
}

func paramNames(d *ast.FuncDecl) []string {
	var out []string
	if d.Type.Params == nil {
		return out
	}
	for _, f := range d.Type.Params.List {
		if len(f.Names) == 0 {
			out = append(out, "_")
		}
		for _, n := range f.Names {
			out = append(out, n.Name)
		}
	}
	return out
}

// BuildBaseline records functions and struct fields of the production packages.
func BuildBaseline(pkgs []*packages.Package) *Baseline {
	b := &Baseline{Funcs: map[string]BaseFunc{}, Fields: map[string][][2]string{}}
	packages.Visit(pkgs, nil, func(pk *packages.Package) {
		if !IsProd(pk.PkgPath) {
			return
		}
		for _, f := range pk.Syntax {
			for _, d := range f.Decls {
				if fd, ok := d.(*ast.FuncDecl); ok {
					b.Funcs[FuncDeclKey(pk.PkgPath, fd)] = BaseFunc{Hash: funcHash(pk.Fset, fd), BodyHash: bodyHash(pk.Fset, fd), Alpha: alphaHash(pk.TypesInfo, pk.Types, fd), Params: paramNames(fd)}
				}
			}
		}
		if pk.Types == nil {
			return
		}
		for _, n := range pk.Types.Scope().Names() {
			tn, ok := pk.Types.Scope().Lookup(n).(*types.TypeName)
			if !ok {
				continue
			}
			st, ok := tn.Type().Underlying().(*types.Struct)
			if !ok {
				continue
			}
			var fl [][2]string
			for i := 0; i < st.NumFields(); i++ {
				fl = append(fl, [2]string{st.Field(i).Name(), st.Field(i).Type().String()})
			}
			b.Fields[pk.PkgPath+"."+n] = fl
		}
	})
	return b
}

// LoadBaseline reads <verif>/baseline.json.
func LoadBaseline(path string) *Baseline {
	data, err := os.ReadFile(path)
	if err != nil {
		return nil
	}
	var b Baseline
	if json.Unmarshal(data, &b) != nil || len(b.Funcs) == 0 {
		return nil
	}
	return &b
}

// RenameBack returns an overlay in which renamed functions, fields and parameters carry their baseline names.
func RenameBack(dir string, overlay map[string][]byte, goarch string, base *Baseline) (map[string][]byte, []string) {
	if base == nil {
		return overlay, nil
	}
	pkgs, err := loadSyntax(dir, overlay, goarch)
	if err != nil || hasErrors(pkgs) {
		return overlay, nil
	}
	type ren struct {
		obj     types.Object
		newName string
		what    string
	}
	var rens []ren
	packages.Visit(pkgs, nil, func(pk *packages.Package) {
		if !IsProd(pk.PkgPath) || pk.TypesInfo == nil {
			return
		}
		// functions
		present := map[string]*ast.FuncDecl{}
		for _, f := range pk.Syntax {
			for _, d := range f.Decls {
				if fd, ok := d.(*ast.FuncDecl); ok {
					present[FuncDeclKey(pk.PkgPath, fd)] = fd
				}
			}
		}
		prefix := pk.PkgPath + "."
		var gone []string
		for k := range base.Funcs {
			if strings.HasPrefix(k, prefix) && !strings.Contains(strings.TrimPrefix(k, prefix), "/") {
				// same package exactly: key is pkg.Recv.Name
				rest := strings.TrimPrefix(k, prefix)
				if strings.Count(rest, ".") == 1 && present[k] == nil {
					gone = append(gone, k)
				}
			}
		}
		sort.Strings(gone)
		usedGone := map[string]bool{}
		var keys []string
		for k := range present {
			keys = append(keys, k)
		}
		sort.Strings(keys)
		for _, k := range keys {
			fd := present[k]
			if _, ok := base.Funcs[k]; ok {
				// parameter renames
				bp := base.Funcs[k].Params
				cp := paramNames(fd)
				if len(bp) == len(cp) && fd.Type.Params != nil {
					// by position, and only a renaming: a name that the other side has at another position means the
					// parameters were reordered, and position says nothing then
					inB, inC := map[string]bool{}, map[string]bool{}
					for j := range bp {
						inB[bp[j]] = true
						inC[cp[j]] = true
					}
					i := 0
					for _, fl := range fd.Type.Params.List {
						for _, nm := range fl.Names {
							if bp[i] != cp[i] && bp[i] != "_" && cp[i] != "_" && !inB[cp[i]] && !inC[bp[i]] {
								if obj := pk.TypesInfo.Defs[nm]; obj != nil && !nameTaken(fd, bp[i]) {
									rens = append(rens, ren{obj, bp[i], fmt.Sprintf("parameter %s of %s (was %s)", cp[i], k, bp[i])})
								}
							}
							i++
						}
						if len(fl.Names) == 0 {
							i++
						}
					}
				}
				continue
			}
			h := funcHash(pk.Fset, fd)
			recvKey := k[:strings.LastIndex(k, ".")]
			matched := false
			for _, g := range gone {
				if usedGone[g] || g[:strings.LastIndex(g, ".")] != recvKey || base.Funcs[g].Hash != h {
					continue
				}
				usedGone[g] = true
				matched = true
				if obj := pk.TypesInfo.Defs[fd.Name]; obj != nil {
					rens = append(rens, ren{obj, g[strings.LastIndex(g, ".")+1:], fmt.Sprintf("function %s (was %s)", k, g)})
				}
				break
			}
			if matched {
				continue
			}
			// same body under another signature (receiver dropped or added, parameters changed) and another name
			bh := bodyHash(pk.Fset, fd)
			ah := alphaHash(pk.TypesInfo, pk.Types, fd)
			for _, g := range gone {
				if usedGone[g] || (base.Funcs[g].BodyHash != bh && (ah == "" || base.Funcs[g].Alpha != ah)) {
					continue
				}
				usedGone[g] = true
				oldName := g[strings.LastIndex(g, ".")+1:]
				if oldName == fd.Name.Name {
					break
				}
				if fd.Recv == nil && pk.Types != nil && pk.Types.Scope().Lookup(oldName) != nil {
					break
				}
				if obj := pk.TypesInfo.Defs[fd.Name]; obj != nil {
					rens = append(rens, ren{obj, oldName, fmt.Sprintf("function %s (was %s, signature changed)", k, g)})
				}
				break
			}
		}
		// struct fields
		if pk.Types == nil {
			return
		}
		for _, n := range pk.Types.Scope().Names() {
			tn, ok := pk.Types.Scope().Lookup(n).(*types.TypeName)
			if !ok {
				continue
			}
			st, ok := tn.Type().Underlying().(*types.Struct)
			if !ok {
				continue
			}
			bf, ok := base.Fields[pk.PkgPath+"."+n]
			if !ok {
				continue
			}
			baseSet := map[string]string{}
			for _, f := range bf {
				baseSet[f[0]] = f[1]
			}
			curSet := map[string]*types.Var{}
			for i := 0; i < st.NumFields(); i++ {
				curSet[st.Field(i).Name()] = st.Field(i)
			}
			var removed []string
			for name := range baseSet {
				if curSet[name] == nil {
					removed = append(removed, name)
				}
			}
			sort.Strings(removed)
			var added []*types.Var
			for name, v := range curSet {
				if _, ok := baseSet[name]; !ok {
					added = append(added, v)
				}
			}
			sort.Slice(added, func(i, j int) bool { return added[i].Name() < added[j].Name() })
			// pair gone and new names type by type; several of one type are paired in declaration order (a rename
			// keeps a field where it is), and only when their numbers agree
			baseOrder := map[string]int{}
			for i, f := range bf {
				baseOrder[f[0]] = i
			}
			curOrder := map[*types.Var]int{}
			for i := 0; i < st.NumFields(); i++ {
				curOrder[st.Field(i)] = i
			}
			byTypeOld := map[string][]string{}
			for _, old := range removed {
				byTypeOld[baseSet[old]] = append(byTypeOld[baseSet[old]], old)
			}
			byTypeNew := map[string][]*types.Var{}
			for _, a := range added {
				byTypeNew[a.Type().String()] = append(byTypeNew[a.Type().String()], a)
			}
			var tkeys []string
			for t := range byTypeOld {
				tkeys = append(tkeys, t)
			}
			sort.Strings(tkeys)
			for _, t := range tkeys {
				olds, news := byTypeOld[t], byTypeNew[t]
				if len(olds) != len(news) {
					continue
				}
				sort.Slice(olds, func(i, j int) bool { return baseOrder[olds[i]] < baseOrder[olds[j]] })
				sort.Slice(news, func(i, j int) bool { return curOrder[news[i]] < curOrder[news[j]] })
				for i := range olds {
					rens = append(rens, ren{news[i], olds[i], fmt.Sprintf("field %s.%s.%s (was %s)", pk.PkgPath, n, news[i].Name(), olds[i])})
				}
			}
		}
	})
	if len(rens) == 0 {
		return overlay, nil
	}
	byObj := map[types.Object]string{}
	var notes []string
	for _, r := range rens {
		byObj[r.obj] = r.newName
		notes = append(notes, "renamed back "+r.what)
	}
	edits := map[string][]edit{}
	packages.Visit(pkgs, nil, func(pk *packages.Package) {
		if pk.TypesInfo == nil || !strings.HasPrefix(pk.PkgPath, ModulePath) {
			return
		}
		add := func(id *ast.Ident, obj types.Object) {
			nn, ok := byObj[obj]
			if !ok || id.Name == nn {
				return
			}
			pos := pk.Fset.PositionFor(id.Pos(), false)
			edits[pos.Filename] = append(edits[pos.Filename], edit{pos.Offset, pos.Offset + len(id.Name), nn})
		}
		for id, obj := range pk.TypesInfo.Defs {
			if obj != nil {
				add(id, obj)
			}
		}
		for id, obj := range pk.TypesInfo.Uses {
			add(id, obj)
		}
	})
	cur := map[string][]byte{}
	for k, v := range overlay {
		cur[k] = v
	}
	for fname, es := range edits {
		text, ok := cur[fname]
		if !ok {
			text, _ = os.ReadFile(fname)
		}
		sort.Slice(es, func(i, j int) bool { return es[i].start > es[j].start })
		last := -1
		for _, e := range es {
			if e.start == last {
				continue
			}
			last = e.start
			text = append(append(append([]byte{}, text[:e.start]...), []byte(e.text)...), text[e.end:]...)
		}
		cur[fname] = text
	}
	chk, err := loadSyntax(dir, cur, goarch)
	if err != nil || hasErrors(chk) {
		return overlay, []string{"renaming identifiers back to their baseline names did not type-check; analysing the tree as it is"}
	}
	return cur, notes
}

// nameTaken: does the function already declare or use an identifier of that name?
func nameTaken(fd *ast.FuncDecl, name string) bool {
	taken := false
	ast.Inspect(fd, func(n ast.Node) bool {
		if id, ok := n.(*ast.Ident); ok && id.Name == name {
			taken = true
		}
		return !taken
	})
	return taken
}

// NamesDiffer is the cheap syntactic pre-check for RenameBack and Normalize: does the tree declare a function,
// parameter name or struct field name that the baseline does not have (or lack one it has)?
func NamesDiffer(dir string, overlay map[string][]byte, base *Baseline) bool {
	if base == nil {
		return false
	}
	differ := false
	seen := map[string]bool{}
	fset := token.NewFileSet()
	walkProdFiles(dir, overlay, fset, func(pkgPath string, f *ast.File) {
		if differ {
			return
		}
		for _, d := range f.Decls {
			switch x := d.(type) {
			case *ast.FuncDecl:
				k := FuncDeclKey(pkgPath, x)
				seen[k] = true
				bf, ok := base.Funcs[k]
				if !ok {
					differ = true
					return
				}
				cp := paramNames(x)
				if len(cp) != len(bf.Params) {
					differ = true // another signature (parameters bundled or split)
					return
				}
				for i := range cp {
					if cp[i] != bf.Params[i] {
						differ = true
						return
					}
				}
			case *ast.GenDecl:
				for _, sp := range x.Specs {
					ts, ok := sp.(*ast.TypeSpec)
					if !ok {
						continue
					}
					st, ok := ts.Type.(*ast.StructType)
					if !ok {
						continue
					}
					bfl, ok := base.Fields[pkgPath+"."+ts.Name.Name]
					if !ok {
						differ = true // a struct type the baseline does not know
						return
					}
					names := map[string]bool{}
					for _, b := range bfl {
						names[b[0]] = true
					}
					n := 0
					for _, fl := range st.Fields.List {
						for _, nm := range fl.Names {
							n++
							if !names[nm.Name] {
								differ = true
								return
							}
						}
						if len(fl.Names) == 0 {
							n++
						}
					}
					if n != len(bfl) {
						differ = true
						return
					}
				}
			}
		}
	})
	if differ {
		return true
	}
	for k := range base.Funcs {
		if !seen[k] {
			return true
		}
	}
	return false
}
