package core

import (
	"crypto/sha1"
	"encoding/json"
	"fmt"
	"os"
	"path/filepath"
	"sort"
	"strings"
	"time"
)

// Verdict of one obligation.
type Verdict string

const (
	Holds     Verdict = "holds"
	Violated  Verdict = "violated"
	Undecided Verdict = "undecided"
)

// Obligation is one rule instance decided on one construct.
type Obligation struct {
	Rule      string   `json:"rule"`      // e.g. C01.f
	Construct string   `json:"construct"` // line-free identification of the code construct
	Verdict   Verdict  `json:"verdict"`
	Pos       string   `json:"pos,omitempty"` // file:line for the reader
	Detail    string   `json:"detail,omitempty"`
	Witness   []string `json:"witness,omitempty"`
}

// Key is the identity used in known_findings.json.
func (o *Obligation) Key() string { return o.Rule + "|" + o.Construct }

// Report accumulates what a rule pack did.
type Report struct {
	Property    string
	Obligations []*Obligation
	Analysed    map[string]int    // counters: functions, call sites, loops, lock operations, ...
	Floors      map[string][2]int // name -> (found, required)
	Notes       []string
	Explanation string
	RuleText    string
	Assumptions []string
	OutOfScope  []string
	Tables      map[string]any
	seenKeys    map[string]bool
	ReplayDir   string
}

func NewReport(prop string) *Report {
	return &Report{Property: prop, Analysed: map[string]int{}, Floors: map[string][2]int{}, Tables: map[string]any{}, seenKeys: map[string]bool{}}
}

func (r *Report) add(rule, construct string, v Verdict, pos, detail string, wit []string) *Obligation {
	o := &Obligation{Rule: rule, Construct: construct, Verdict: v, Pos: pos, Detail: detail, Witness: wit}
	k := o.Key()
	if r.seenKeys[k] {
		// keep keys unique: same rule+construct reported twice gets an ordinal
		for i := 2; ; i++ {
			k2 := fmt.Sprintf("%s#%d", construct, i)
			if !r.seenKeys[rule+"|"+k2] {
				o.Construct = k2
				break
			}
		}
	}
	r.seenKeys[o.Key()] = true
	r.Obligations = append(r.Obligations, o)
	return o
}

func (r *Report) Hold(rule, construct, pos, detail string) {
	r.add(rule, construct, Holds, pos, detail, nil)
}
func (r *Report) Violate(rule, construct, pos, detail string, wit ...string) {
	r.add(rule, construct, Violated, pos, detail, wit)
}
func (r *Report) Undecide(rule, construct, pos, detail string) {
	r.add(rule, construct, Undecided, pos, detail, nil)
}

// Check records holds/violated from a boolean.
func (r *Report) Check(ok bool, rule, construct, pos, okDetail, badDetail string, wit ...string) bool {
	if ok {
		r.Hold(rule, construct, pos, okDetail)
	} else {
		r.Violate(rule, construct, pos, badDetail, wit...)
	}
	return ok
}

func (r *Report) Count(name string, n int) { r.Analysed[name] += n }

// Floor records that at least req instances of something were found.
func (r *Report) Floor(name string, found, req int) { r.Floors[name] = [2]int{found, req} }

// KnownFinding is one line of known_findings.json.
type KnownFinding struct {
	Property string `json:"property"`
	Key      string `json:"key"`
	Status   string `json:"status"` // known | fixed
	Commit   string `json:"commit,omitempty"`
	What     string `json:"what"`
}

func LoadKnown(path string) ([]KnownFinding, error) {
	b, err := os.ReadFile(path)
	if err != nil {
		if os.IsNotExist(err) {
			return nil, nil
		}
		return nil, err
	}
	var out []KnownFinding
	if err := json.Unmarshal(b, &out); err != nil {
		return nil, fmt.Errorf("%s: %w", path, err)
	}
	return out, nil
}

// Outcome of finishing a report.
type Outcome struct {
	ExitCode   int
	Violations []*Obligation
	Known      []*Obligation
	Undecided  []*Obligation
	FloorFails []string
}

// Finish prints the result lines, writes evidence and replay files and returns the exit code
// (0 held, 1 violation, 2 checker could not decide).
func (r *Report) Finish(verifDir, tier string, seed int64, start time.Time, known []KnownFinding, extra map[string]any, quiet bool) Outcome {
	var out Outcome
	knownSet := map[string]KnownFinding{}
	for _, k := range known {
		if k.Property == r.Property && k.Status == "known" {
			knownSet[k.Key] = k
		}
	}
	sort.SliceStable(r.Obligations, func(i, j int) bool {
		a, b := r.Obligations[i], r.Obligations[j]
		if a.Rule != b.Rule {
			return a.Rule < b.Rule
		}
		return a.Construct < b.Construct
	})
	distinct := map[string]bool{}
	discharged := 0
	for _, o := range r.Obligations {
		distinct[o.Key()] = true
		switch o.Verdict {
		case Holds:
			discharged++
		case Violated:
			if _, ok := knownSet[o.Key()]; ok {
				out.Known = append(out.Known, o)
			} else {
				out.Violations = append(out.Violations, o)
			}
		case Undecided:
			out.Undecided = append(out.Undecided, o)
		}
	}
	var floorNames []string
	for n := range r.Floors {
		floorNames = append(floorNames, n)
	}
	sort.Strings(floorNames)
	for _, n := range floorNames {
		f := r.Floors[n]
		if f[0] < f[1] {
			out.FloorFails = append(out.FloorFails, fmt.Sprintf("%s: found %d, need >= %d", n, f[0], f[1]))
		}
	}
	replayDir := filepath.Join(verifDir, "replays")
	if r.ReplayDir != "" {
		replayDir = r.ReplayDir
	}
	_ = os.MkdirAll(replayDir, 0o755)
	var vioOut []map[string]any
	if !quiet {
		for _, o := range out.Known {
			fmt.Printf("KNOWN-FINDING: property=%s %s [%s] %s\n", r.Property, knownSet[o.Key()].What, o.Key(), o.Pos)
		}
	}
	for _, o := range out.Violations {
		h := sha1.Sum([]byte(o.Key()))
		path := filepath.Join(replayDir, fmt.Sprintf("%s-%x.json", r.Property, h[:5]))
		rep := map[string]any{"property": r.Property, "rule": o.Rule, "construct": o.Construct, "key": o.Key(), "pos": o.Pos, "detail": o.Detail, "witness": o.Witness, "tier": tier}
		b, _ := json.MarshalIndent(rep, "", " ")
		_ = os.WriteFile(path, b, 0o644)
		if !quiet {
			fmt.Printf("  violated %s at %s: %s\n", o.Key(), o.Pos, o.Detail)
			for _, w := range o.Witness {
				fmt.Printf("      %s\n", w)
			}
			fmt.Printf("VIOLATION property=%s replay=%s\n", r.Property, path)
		}
		vioOut = append(vioOut, rep)
	}
	for _, o := range out.Undecided {
		if !quiet {
			fmt.Printf("UNDECIDED property=%s %s at %s: %s\n", r.Property, o.Key(), o.Pos, o.Detail)
		}
	}
	for _, f := range out.FloorFails {
		if !quiet {
			fmt.Printf("FLOOR-MISSED property=%s %s\n", r.Property, f)
		}
	}
	switch {
	case len(out.Violations) > 0:
		out.ExitCode = 1
	case len(out.Undecided) > 0 || len(out.FloorFails) > 0:
		out.ExitCode = 2
	}
	// samples: a spread over rules
	var samples []any
	perRule := map[string]int{}
	for _, o := range r.Obligations {
		if perRule[o.Rule] >= 3 && o.Verdict == Holds {
			continue
		}
		perRule[o.Rule]++
		samples = append(samples, o)
		if len(samples) >= 60 {
			break
		}
	}
	floors := map[string]any{}
	for _, n := range floorNames {
		floors[n] = map[string]int{"found": r.Floors[n][0], "required": r.Floors[n][1]}
	}
	var knownOut []string
	for _, o := range out.Known {
		knownOut = append(knownOut, o.Key())
	}
	cov := map[string]any{
		"explanation":               r.Explanation,
		"obligations":               len(r.Obligations),
		"discharged":                discharged,
		"evaluations":               len(r.Obligations),
		"distinct_nontrivial":       len(distinct),
		"rule":                      r.RuleText,
		"samples":                   samples,
		"analysed":                  r.Analysed,
		"floors":                    floors,
		"known_findings":            knownOut,
		"violations_found":          vioOut,
		"undecided":                 len(out.Undecided),
		"tables":                    r.Tables,
		"notes":                     r.Notes,
		"out_of_scope_observations": r.OutOfScope,
		"exhaustive":                false,
	}
	for k, v := range extra {
		cov[k] = v
	}
	assumptions := append([]string{"go/packages + go/types + go/ssa (x/tools v0.29.0) are a faithful model of the code in /repo; only production (non-test, non-mock) packages are analysed; library functions are not analysed (their documented contracts are assumed)"}, r.Assumptions...)
	ev := map[string]any{
		"property_id": r.Property,
		"tier":        tier,
		"seed":        seed,
		"level":       "other",
		"coverage":    cov,
		"assumptions": assumptions,
		"wall_s":      time.Since(start).Seconds(),
		"violations":  len(out.Violations),
	}
	if verifDir != "" {
		_ = os.MkdirAll(filepath.Join(verifDir, "evidence"), 0o755)
		b, _ := json.MarshalIndent(ev, "", " ")
		_ = os.WriteFile(filepath.Join(verifDir, "evidence", r.Property+".json"), b, 0o644)
	}
	return out
}

// Summary is a one-line text of the report.
func (r *Report) Summary() string {
	h, v, u := 0, 0, 0
	for _, o := range r.Obligations {
		if os.Getenv("VCHECK_LIST") != "" {
			fmt.Printf("OBL %v %s|%s @%s :: %s\n", o.Verdict, o.Rule, o.Construct, o.Pos, o.Detail)
		}
		switch o.Verdict {
		case Holds:
			h++
		case Violated:
			v++
		default:
			u++
		}
	}
	var an []string
	for k, n := range r.Analysed {
		an = append(an, fmt.Sprintf("%s=%d", k, n))
	}
	sort.Strings(an)
	return fmt.Sprintf("%s: %d obligations (%d hold, %d violated, %d undecided); analysed %s", r.Property, len(r.Obligations), h, v, u, strings.Join(an, " "))
}
