package core

import (
	"go/token"
	"go/types"
	"sort"
	"strings"

	"golang.org/x/tools/go/ssa"
)

// FieldAccess is one access to a struct field, or to the collection held in it.
type FieldAccess struct {
	Field FieldID
	Fn    *ssa.Function
	Instr ssa.Instruction
	Write bool
	// Kind: store (the field itself is overwritten), load (the field itself is read and the value is
	// used as a scalar / reference), map-insert, map-delete, map-lookup, map-range, map-len,
	// elem-store (store through an element of the slice held in the field), slice-read, addr (the
	// field's address escapes to a call).
	Kind string
	// Inner reports an access to the collection held in the field rather than to the field word.
	Inner bool
	// Depth: 0 the field word, 1 the collection held in it, 2 a collection nested in that one, ...
	Depth int
	// Base is the value whose field is accessed.
	Base ssa.Value
	Type types.Type
}

// isSyncType: fields of these types synchronise themselves.
func isSyncType(t types.Type) bool {
	for {
		if p, ok := t.(*types.Pointer); ok {
			t = p.Elem()
			continue
		}
		break
	}
	nt, ok := t.(*types.Named)
	if !ok || nt.Obj().Pkg() == nil {
		return false
	}
	pk := nt.Obj().Pkg().Path()
	switch {
	case pk == "sync", pk == "sync/atomic", pk == "go.uber.org/atomic", pk == "github.com/sasha-s/go-deadlock":
		return true
	case pk == "golang.org/x/sync/semaphore":
		return true
	}
	return false
}

// FieldAccesses enumerates the accesses in fn (not nested closures) to fields of structs declared in
// the module. Accesses to fields of sync/atomic types are skipped.
func FieldAccesses(fn *ssa.Function) []FieldAccess {
	var out []FieldAccess
	depth := 0
	add := func(id FieldID, in ssa.Instruction, write bool, kind string, inner bool, base ssa.Value, t types.Type) {
		d := 0
		if inner {
			d = depth
			if d == 0 {
				d = 1
			}
		}
		out = append(out, FieldAccess{Field: id, Fn: fn, Instr: in, Write: write, Kind: kind, Inner: inner, Depth: d, Base: base, Type: t})
	}
	var useOfLoaded func(id FieldID, base ssa.Value, v ssa.Value, ft types.Type, seen map[ssa.Value]bool)
	useOfLoaded = func(id FieldID, base ssa.Value, v ssa.Value, ft types.Type, seen map[ssa.Value]bool) {
		if seen[v] || v.Referrers() == nil {
			return
		}
		seen[v] = true
		for _, ref := range *v.Referrers() {
			switch x := ref.(type) {
			case *ssa.MapUpdate:
				if x.Map == v {
					add(id, x, true, "map-insert", true, base, ft)
				}
			case *ssa.Lookup:
				if x.X == v {
					add(id, x, false, "map-lookup", true, base, ft)
					// a nested collection (map of maps): operations on the inner map are accesses to the
					// same guarded structure, also through a local name it was copied to
					inner := ssa.Value(x)
					if x.CommaOk {
						inner = nil
						if x.Referrers() != nil {
							for _, r2 := range *x.Referrers() {
								if e, ok := r2.(*ssa.Extract); ok && e.Index == 0 {
									inner = e
								}
							}
						}
					}
					if inner != nil {
						switch inner.Type().Underlying().(type) {
						case *types.Map, *types.Slice:
							depth++
							useOfLoaded(id, base, inner, ft, seen)
							depth--
						}
					}
				}
			case *ssa.Phi:
				// the inner map merged with a freshly made one (lazy initialisation)
				if _, isMap := x.Type().Underlying().(*types.Map); isMap {
					useOfLoaded(id, base, x, ft, seen)
				}
			case *ssa.Range:
				if x.X == v {
					add(id, x, false, "map-range", true, base, ft)
				}
			case *ssa.Call:
				if b, ok := x.Call.Value.(*ssa.Builtin); ok && len(x.Call.Args) > 0 && x.Call.Args[0] == v {
					switch b.Name() {
					case "delete":
						add(id, x, true, "map-delete", true, base, ft)
					case "len":
						if _, ok := v.Type().Underlying().(*types.Map); ok {
							add(id, x, false, "map-len", true, base, ft)
						}
					}
				}
			case *ssa.IndexAddr:
				if x.X == v {
					if _, ok := v.Type().Underlying().(*types.Slice); ok && x.Referrers() != nil {
						for _, r2 := range *x.Referrers() {
							if st, ok := r2.(*ssa.Store); ok && st.Addr == ssa.Value(x) {
								add(id, st, true, "elem-store", true, base, ft)
							}
						}
					}
				}
			case *ssa.ChangeType:
				useOfLoaded(id, base, x, ft, seen)
			}
		}
	}
	EachInstr(fn, func(in ssa.Instruction) {
		fa, ok := in.(*ssa.FieldAddr)
		if !ok {
			return
		}
		id, base, _ := FieldOfAddr(fa)
		st := structOf(fa.X.Type())
		if st == nil {
			return
		}
		ft := st.Field(fa.Field).Type()
		if isSyncType(ft) {
			return
		}
		if fa.Referrers() == nil {
			return
		}
		for _, ref := range *fa.Referrers() {
			switch x := ref.(type) {
			case *ssa.Store:
				if x.Addr == ssa.Value(fa) {
					add(id, x, true, "store", false, base, ft)
				} else {
					add(id, x, false, "addr", false, base, ft)
				}
			case *ssa.UnOp:
				if x.Op == token.MUL {
					add(id, x, false, "load", false, base, ft)
					depth = 1
					useOfLoaded(id, base, x, ft, map[ssa.Value]bool{})
					depth = 0
				}
			case *ssa.FieldAddr, *ssa.DebugRef:
				// nested struct: the inner field is its own access
			case *ssa.IndexAddr:
				// array field
				if x.Referrers() != nil {
					for _, r2 := range *x.Referrers() {
						if st, ok := r2.(*ssa.Store); ok && st.Addr == ssa.Value(x) {
							add(id, st, true, "elem-store", true, base, ft)
						}
					}
				}
			default:
				add(id, ref, false, "addr", false, base, ft)
			}
		}
	})
	return out
}

func structOf(t types.Type) *types.Struct {
	for {
		if p, ok := t.Underlying().(*types.Pointer); ok {
			t = p.Elem()
			continue
		}
		break
	}
	s, _ := t.Underlying().(*types.Struct)
	return s
}

// ConstructorPhase computes the functions that run only while an object is being built: functions
// named New / init / parseAndCheckParameters, functional-option closures (functions nested in a
// With* function), and functions all of whose static callers are in the set.
func (p *Prog) ConstructorPhase() map[*ssa.Function]bool {
	set := map[*ssa.Function]bool{}
	isCtor := func(fn *ssa.Function) bool {
		root := fn
		for root.Parent() != nil {
			root = root.Parent()
		}
		n := root.Name()
		if root.Signature.Recv() == nil {
			if n == "New" || n == "init" || n == "parseAndCheckParameters" || strings.HasPrefix(n, "With") {
				// closures inside New started with `go` are not constructor phase
				for f := fn; f != nil && f != root; f = f.Parent() {
					if startedWithGo(f) {
						return false
					}
				}
				return true
			}
		}
		return false
	}
	for _, fn := range p.SrcFuncs() {
		if isCtor(fn) {
			set[fn] = true
		}
	}
	cg := p.CallGraph()
	for changed := true; changed; {
		changed = false
		for _, fn := range p.SrcFuncs() {
			if set[fn] {
				continue
			}
			n := cg.Nodes[fn]
			if n == nil || len(n.In) == 0 {
				continue
			}
			all := true
			for _, e := range n.In {
				if !set[e.Caller.Func] {
					all = false
					break
				}
				if _, isGo := e.Site.(*ssa.Go); isGo {
					all = false
					break
				}
			}
			if all && !addressTaken(fn) {
				set[fn] = true
				changed = true
			}
		}
	}
	return set
}

func startedWithGo(fn *ssa.Function) bool {
	if fn.Referrers() == nil {
		return false
	}
	for _, ref := range *fn.Referrers() {
		switch x := ref.(type) {
		case *ssa.Go:
			return true
		case *ssa.MakeClosure:
			if x.Referrers() != nil {
				for _, r2 := range *x.Referrers() {
					if _, ok := r2.(*ssa.Go); ok {
						return true
					}
				}
			}
		}
	}
	// closures: the MakeClosure lives in the parent
	if fn.Parent() != nil {
		found := false
		EachInstr(fn.Parent(), func(in ssa.Instruction) {
			if mc, ok := in.(*ssa.MakeClosure); ok && mc.Fn == ssa.Value(fn) && mc.Referrers() != nil {
				for _, r2 := range *mc.Referrers() {
					if _, ok := r2.(*ssa.Go); ok {
						found = true
					}
				}
			}
			if g, ok := in.(*ssa.Go); ok && g.Call.Value == ssa.Value(fn) {
				found = true
			}
		})
		return found
	}
	return false
}

func addressTaken(fn *ssa.Function) bool {
	if fn.Referrers() == nil {
		return false
	}
	for _, ref := range *fn.Referrers() {
		if ci, ok := ref.(ssa.CallInstruction); ok && ci.Common().Value == ssa.Value(fn) {
			if _, isGo := ci.(*ssa.Go); !isGo {
				continue
			}
		}
		return true
	}
	return false
}

// SortAccesses orders accesses by position.
func SortAccesses(a []FieldAccess) {
	sort.SliceStable(a, func(i, j int) bool { return a[i].Instr.Pos() < a[j].Instr.Pos() })
}
