package core

import (
	"fmt"
	"go/ast"
	"go/token"
	"go/types"
	"sort"
	"strings"

	"golang.org/x/tools/go/packages"
)

// Index-space analysis (typed AST): which collection does an index belong to?
//
// Spaces are strings:
//   P<k>            the k-th parameter (a slice or map) of the analysed function
//   duty(<S>)       the parallel per-validator arrays of the attester.Duty value S (S = P<k> or a local)
//   coll(<fn>.<v>)  a local collection variable that is its own space
//   filter(<fn>.<v>) a slice built by conditional appends (a new space)
//   ""              unknown

// IfaceSummary describes a method known only through an interface.
type IfaceSummary struct {
	ResultLike map[int]int // result index -> parameter index whose space the result shares
	Groups     [][]int     // parameter indices that are co-indexed
}

// IdxFinding is one finding of the index-space analysis.
type IdxFinding struct {
	Kind   string // mismatch | unknown-index | const-in-loop | call-mismatch
	Fn     string
	Pos    token.Pos
	Expr   string
	Detail string
}

// FuncSummary is the per-function result.
type FuncSummary struct {
	Results  []string
	Groups   [][]string // members are P<k> or duty(P<k>)
	Findings []IdxFinding
	Accesses int // decided accesses (index and collection both known)
	Unknown  int
}

type funcSyntax struct {
	pkg  *packages.Package
	decl *ast.FuncDecl
	key  string
}

// IdxEngine runs the analysis with memoised summaries.
type IdxEngine struct {
	P            *Prog
	decls        map[*types.Func]*funcSyntax
	sums         map[*types.Func]*FuncSummary
	busy         map[*types.Func]bool
	Iface        map[string]IfaceSummary // by method name
	DutyArrs     map[string]bool         // accessor method names of attester.Duty that return per-validator arrays
	DutyTypes    map[string]bool         // rel-pkg.Type names of duty types
	fieldWriters map[*packages.Package]map[*types.Var]map[*ast.FuncDecl]bool
	Strict       map[string]bool // packages (relative path) in which an index of unknown provenance on a parameter array is a finding
}

func NewIdxEngine(p *Prog) *IdxEngine {
	e := &IdxEngine{P: p, decls: map[*types.Func]*funcSyntax{}, sums: map[*types.Func]*FuncSummary{}, busy: map[*types.Func]bool{},
		Iface: map[string]IfaceSummary{}, DutyArrs: map[string]bool{"ValidatorIndices": true, "CommitteeIndices": true, "ValidatorCommitteeIndices": true},
		DutyTypes: map[string]bool{"services/attester.Duty": true}, Strict: map[string]bool{}}
	for _, pk := range p.All {
		if !IsProd(pk.PkgPath) {
			continue
		}
		for _, f := range pk.Syntax {
			for _, d := range f.Decls {
				fd, ok := d.(*ast.FuncDecl)
				if !ok || fd.Body == nil {
					continue
				}
				if obj, ok := pk.TypesInfo.Defs[fd.Name].(*types.Func); ok {
					key := RelPkg(pk.PkgPath) + "." + fd.Name.Name
					if fd.Recv != nil && len(fd.Recv.List) == 1 {
						key = RelPkg(pk.PkgPath) + "." + recvName(fd.Recv.List[0].Type) + "." + fd.Name.Name
					}
					e.decls[obj] = &funcSyntax{pk, fd, key}
				}
			}
		}
	}
	return e
}

func recvName(x ast.Expr) string {
	switch t := x.(type) {
	case *ast.StarExpr:
		return recvName(t.X)
	case *ast.Ident:
		return t.Name
	case *ast.IndexExpr:
		return recvName(t.X)
	}
	return "?"
}

// FuncsOfPkg returns the analysed function objects of a package (relative path), sorted by key.
func (e *IdxEngine) FuncsOfPkg(rel string) []*types.Func {
	var out []*types.Func
	for f, s := range e.decls {
		if RelPkg(s.pkg.PkgPath) == rel {
			out = append(out, f)
		}
	}
	sort.Slice(out, func(i, j int) bool { return e.decls[out[i]].key < e.decls[out[j]].key })
	return out
}

// Key returns the line-free name of an analysed function.
func (e *IdxEngine) Key(f *types.Func) string {
	if s := e.decls[f]; s != nil {
		return s.key
	}
	return f.FullName()
}

// Summary analyses f (and, recursively, its static callees).
func (e *IdxEngine) Summary(f *types.Func) *FuncSummary {
	if s, ok := e.sums[f]; ok {
		return s
	}
	fs := e.decls[f]
	if fs == nil || e.busy[f] {
		return nil
	}
	e.busy[f] = true
	defer delete(e.busy, f)
	a := &idxAnalysis{e: e, fs: fs, info: fs.pkg.TypesInfo, sum: &FuncSummary{}, params: map[types.Object]int{},
		varSpace: map[types.Object]string{}, idxSpace: map[types.Object]string{}, mapVal: map[types.Object]string{}, parent: map[ast.Node]ast.Node{}}
	a.run()
	e.sums[f] = a.sum
	return a.sum
}

type idxAnalysis struct {
	e         *IdxEngine
	fs        *funcSyntax
	info      *types.Info
	sum       *FuncSummary
	params    map[types.Object]int
	varSpace  map[types.Object]string // resolved spaces of collection variables ("" unknown), memo
	idxSpace  map[types.Object]string
	mapVal    map[types.Object]string
	parent    map[ast.Node]ast.Node
	assigns   map[types.Object][]ast.Node // defining/assigning statements per variable
	resolving map[types.Object]bool
}

func (a *idxAnalysis) run() {
	fd := a.fs.decl
	k := 0
	if fd.Type.Params != nil {
		for _, fl := range fd.Type.Params.List {
			if len(fl.Names) == 0 {
				k++
				continue
			}
			for _, n := range fl.Names {
				if obj := a.info.Defs[n]; obj != nil {
					a.params[obj] = k
				}
				k++
			}
		}
	}
	// parents
	var stack []ast.Node
	ast.Inspect(fd.Body, func(n ast.Node) bool {
		if n == nil {
			stack = stack[:len(stack)-1]
			return true
		}
		if len(stack) > 0 {
			a.parent[n] = stack[len(stack)-1]
		}
		stack = append(stack, n)
		return true
	})
	// assignments
	a.assigns = map[types.Object][]ast.Node{}
	a.resolving = map[types.Object]bool{}
	ast.Inspect(fd.Body, func(n ast.Node) bool {
		switch s := n.(type) {
		case *ast.AssignStmt:
			for _, l := range s.Lhs {
				if obj := a.varOf(l); obj != nil {
					a.assigns[obj] = append(a.assigns[obj], s)
				}
			}
		case *ast.ValueSpec:
			for _, id := range s.Names {
				if obj := a.info.Defs[id]; obj != nil {
					a.assigns[obj] = append(a.assigns[obj], s)
				}
			}
		case *ast.RangeStmt:
			for _, x := range []ast.Expr{s.Key, s.Value} {
				if id, ok := x.(*ast.Ident); ok && id != nil {
					if obj := a.info.ObjectOf(id); obj != nil {
						a.assigns[obj] = append(a.assigns[obj], s)
					}
				}
			}
		case *ast.IncDecStmt:
			if id, ok := s.X.(*ast.Ident); ok {
				if obj := a.info.ObjectOf(id); obj != nil {
					a.assigns[obj] = append(a.assigns[obj], s)
				}
			}
		case *ast.CompositeLit:
			// fields set in a literal of an unexported struct type of this package
			if tv, ok := a.info.Types[s]; ok {
				if named, ok := tv.Type.(*types.Named); ok && !named.Obj().Exported() && named.Obj().Pkg() == a.fs.pkg.Types {
					if st, ok := named.Underlying().(*types.Struct); ok {
						for _, el := range s.Elts {
							if kv, ok := el.(*ast.KeyValueExpr); ok {
								if k, ok := kv.Key.(*ast.Ident); ok {
									for i := 0; i < st.NumFields(); i++ {
										if st.Field(i).Name() == k.Name {
											a.assigns[st.Field(i)] = append(a.assigns[st.Field(i)], kv)
										}
									}
								}
							}
						}
					}
				}
			}
		}
		return true
	})
	// map value index spaces
	mapKey := map[types.Object]string{}
	ast.Inspect(fd.Body, func(n ast.Node) bool {
		s, ok := n.(*ast.AssignStmt)
		if !ok || len(s.Lhs) != 1 || len(s.Rhs) != 1 {
			return true
		}
		ix, ok := s.Lhs[0].(*ast.IndexExpr)
		if !ok {
			return true
		}
		obj := a.varOf(ix.X)
		if obj == nil {
			return true
		}
		if _, isMap := obj.Type().Underlying().(*types.Map); !isMap {
			return true
		}
		if !isIntType(a.info.TypeOf(s.Rhs[0])) {
			return true
		}
		sp := a.idxOf(s.Rhs[0])
		if old, seen := a.mapVal[obj]; seen && old != sp {
			a.mapVal[obj] = "" // conflicting
		} else if !seen {
			a.mapVal[obj] = sp
		}
		// a position map (int -> int) is keyed by the positions of ONE collection: keys taken from two different
		// collections collide (position 0 of the one is position 0 of the other) and the later entry replaces the earlier
		if isIntType(a.info.TypeOf(ix.Index)) {
			if ks := a.idxOf(ix.Index); ks != "" && ks != "const" {
				if old, seen := mapKey[obj]; seen && old != ks {
					a.sum.Findings = append(a.sum.Findings, IdxFinding{"mismatch", a.fs.key, s.Pos(), types.ExprString(ix),
						"the position map " + obj.Name() + " is keyed by positions of " + old + " and of " + ks + ": the two collections number their elements independently, so the entries of one replace those of the other"})
				} else if !seen {
					mapKey[obj] = ks
				}
			}
		}
		return true
	})
	// slices of positions: `pos = append(pos, i)` — the elements of an int slice that is only ever appended to with
	// indices of one space are indices of that space (the slice form of the position map above)
	ast.Inspect(fd.Body, func(n ast.Node) bool {
		s, ok := n.(*ast.AssignStmt)
		if !ok || len(s.Lhs) != 1 || len(s.Rhs) != 1 {
			return true
		}
		obj := a.varOf(s.Lhs[0])
		if obj == nil {
			return true
		}
		sl, isSlice := obj.Type().Underlying().(*types.Slice)
		if !isSlice || !isIntType(sl.Elem()) {
			return true
		}
		sp := ""
		if call, isCall := s.Rhs[0].(*ast.CallExpr); isCall {
			if fid, isID := call.Fun.(*ast.Ident); isID && fid.Name == "append" && len(call.Args) == 2 && !call.Ellipsis.IsValid() {
				if a.varOf(call.Args[0]) == obj {
					sp = a.idxOf(call.Args[1])
				}
			} else if isID && fid.Name == "make" {
				return true // the empty slice it starts from
			}
		}
		if old, seen := a.mapVal[obj]; seen && old != sp {
			a.mapVal[obj] = "" // conflicting, or assigned otherwise
		} else if !seen {
			a.mapVal[obj] = sp
		}
		return true
	})
	// accesses
	ast.Inspect(fd.Body, func(n ast.Node) bool {
		switch x := n.(type) {
		case *ast.IndexExpr:
			a.checkIndex(x)
		case *ast.CallExpr:
			a.checkCall(x)
		}
		return true
	})
	// results
	a.results()
	sort.Slice(a.sum.Findings, func(i, j int) bool { return a.sum.Findings[i].Pos < a.sum.Findings[j].Pos })
}

func isIntType(t types.Type) bool {
	if t == nil {
		return false
	}
	b, ok := t.Underlying().(*types.Basic)
	return ok && b.Info()&types.IsInteger != 0
}

func isCollType(t types.Type) bool {
	if t == nil {
		return false
	}
	switch t.Underlying().(type) {
	case *types.Slice, *types.Array, *types.Map:
		return true
	case *types.Pointer:
		if _, ok := t.Underlying().(*types.Pointer).Elem().Underlying().(*types.Array); ok {
			return true
		}
	}
	return false
}

func (a *idxAnalysis) localName(obj types.Object) string {
	return a.fs.key + "." + obj.Name()
}

// spaceOf returns the space of a collection-valued expression.
func (a *idxAnalysis) spaceOf(x ast.Expr) string {
	switch t := x.(type) {
	case *ast.ParenExpr:
		return a.spaceOf(t.X)
	case *ast.SelectorExpr:
		if obj := a.varOf(t); obj != nil {
			return a.spaceOfVar(obj)
		}
	case *ast.Ident:
		obj := a.info.ObjectOf(t)
		if obj == nil {
			return ""
		}
		if k, ok := a.params[obj]; ok {
			if len(a.assigns[obj]) == 0 {
				return fmt.Sprintf("P%d", k)
			}
			return ""
		}
		return a.spaceOfVar(obj)
	case *ast.CallExpr:
		// duty accessor?
		if sel, ok := t.Fun.(*ast.SelectorExpr); ok {
			if a.e.DutyArrs[sel.Sel.Name] && a.e.DutyTypes[ownerName(a.info.TypeOf(sel.X))] {
				if id, ok := sel.X.(*ast.Ident); ok {
					if obj := a.info.ObjectOf(id); obj != nil {
						if k, ok := a.params[obj]; ok {
							return fmt.Sprintf("duty(P%d)", k)
						}
						return "duty(" + a.localName(obj) + ")"
					}
				}
				return ""
			}
		}
		rs := a.callResults(t)
		if len(rs) == 1 && rs[0] != "" {
			return rs[0]
		}
		// a zero-argument accessor on a variable: a stable space of its own (pure accessor assumed)
		if sel, ok := t.Fun.(*ast.SelectorExpr); ok && len(t.Args) == 0 && isCollType(a.info.TypeOf(t)) {
			if id, ok := sel.X.(*ast.Ident); ok {
				if obj := a.info.ObjectOf(id); obj != nil {
					if _, isPkg := obj.(*types.PkgName); !isPkg {
						if k, ok := a.params[obj]; ok {
							return fmt.Sprintf("acc(P%d.%s)", k, sel.Sel.Name)
						}
						return "acc(" + a.localName(obj) + "." + sel.Sel.Name + ")"
					}
				}
			}
		}
		return ""
	case *ast.SliceExpr:
		// a full reslice x[:] keeps the space
		if t.Low == nil && t.High == nil {
			return a.spaceOf(t.X)
		}
		return ""
	}
	return ""
}

// callResults returns the spaces of the results of a call, by callee summary.
func (a *idxAnalysis) callResults(c *ast.CallExpr) []string {
	fn, iface := a.callee(c)
	sig, _ := a.info.TypeOf(c.Fun).(*types.Signature)
	if sig == nil {
		return nil
	}
	out := make([]string, sig.Results().Len())
	actual := func(k int) string {
		if k < len(c.Args) {
			return a.spaceOf(c.Args[k])
		}
		return ""
	}
	if fn != nil {
		if s := a.e.Summary(fn); s != nil {
			for i := range out {
				if i < len(s.Results) {
					out[i] = a.substitute(s.Results[i], c)
				}
			}
		}
		return out
	}
	if iface != "" {
		if is, ok := a.e.Iface[iface]; ok {
			for r, pidx := range is.ResultLike {
				if r < len(out) {
					out[r] = actual(pidx)
				}
			}
		}
	}
	return out
}

// substitute maps a callee-relative space to the caller's.
func (a *idxAnalysis) substitute(sp string, c *ast.CallExpr) string {
	if sp == "" {
		return ""
	}
	var k int
	if n, _ := fmt.Sscanf(sp, "P%d", &k); n == 1 && fmt.Sprintf("P%d", k) == sp {
		if k < len(c.Args) {
			return a.spaceOf(c.Args[k])
		}
		return ""
	}
	if n, _ := fmt.Sscanf(sp, "duty(P%d)", &k); n == 1 && fmt.Sprintf("duty(P%d)", k) == sp {
		if k < len(c.Args) {
			if id, ok := c.Args[k].(*ast.Ident); ok {
				if obj := a.info.ObjectOf(id); obj != nil {
					if pk, ok := a.params[obj]; ok {
						return fmt.Sprintf("duty(P%d)", pk)
					}
					return "duty(" + a.localName(obj) + ")"
				}
			}
		}
		return ""
	}
	return sp // filter(...) / coll(...) of the callee: opaque spaces
}

// callee resolves a call to a module function with syntax, or to an interface method name.
func (a *idxAnalysis) callee(c *ast.CallExpr) (*types.Func, string) {
	var id *ast.Ident
	switch f := c.Fun.(type) {
	case *ast.Ident:
		id = f
	case *ast.SelectorExpr:
		id = f.Sel
		if sel, ok := a.info.Selections[f]; ok {
			if fn, ok := sel.Obj().(*types.Func); ok {
				if types.IsInterface(sel.Recv()) {
					// qualified by the interface's type name when there is a table entry for it
					tn := sel.Recv().String()
					if i := strings.LastIndex(tn, "."); i >= 0 {
						tn = tn[i+1:]
					}
					if _, ok := a.e.Iface[tn+"."+fn.Name()]; ok {
						return nil, tn + "." + fn.Name()
					}
					return nil, fn.Name()
				}
				if _, ok := a.e.decls[fn]; ok {
					return fn, ""
				}
				return nil, ""
			}
		}
	}
	if id != nil {
		if fn, ok := a.info.ObjectOf(id).(*types.Func); ok {
			if _, ok := a.e.decls[fn]; ok {
				return fn, ""
			}
		}
	}
	return nil, ""
}

func (a *idxAnalysis) spaceOfVar(obj types.Object) string {
	if sp, ok := a.varSpace[obj]; ok {
		return sp
	}
	if a.resolving[obj] {
		return ""
	}
	a.resolving[obj] = true
	defer delete(a.resolving, obj)
	sp := a.computeVarSpace(obj)
	a.varSpace[obj] = sp
	return sp
}

func (a *idxAnalysis) computeVarSpace(obj types.Object) string {
	if !isCollType(obj.Type()) {
		return ""
	}
	if _, isMap := obj.Type().Underlying().(*types.Map); isMap {
		// a map variable: its own space unless it is a plain alias
		as := a.assigns[obj]
		if len(as) == 1 {
			if rhs := a.rhsFor(as[0], obj); rhs != nil {
				if id, ok := rhs.(*ast.Ident); ok {
					if sp := a.spaceOf(id); sp != "" {
						return sp
					}
				}
			}
		}
		return "coll(" + a.localName(obj) + ")"
	}
	as := a.assigns[obj]
	var inits []ast.Expr
	var appends []*ast.AssignStmt
	for _, n := range as {
		switch s := n.(type) {
		case *ast.AssignStmt:
			rhs := a.rhsFor(s, obj)
			if call, ok := rhs.(*ast.CallExpr); ok {
				if f, ok := call.Fun.(*ast.Ident); ok && f.Name == "append" && len(call.Args) >= 1 {
					if a.varOf(call.Args[0]) == obj {
						appends = append(appends, s)
						continue
					}
				}
			}
			if rhs == nil {
				return "" // multi-value assignment we cannot attribute
			}
			inits = append(inits, rhs)
		case *ast.ValueSpec:
			if len(s.Values) == 0 {
				inits = append(inits, nil)
			} else {
				rhs := a.rhsFor(s, obj)
				if rhs == nil {
					return ""
				}
				inits = append(inits, rhs)
			}
		case *ast.KeyValueExpr:
			inits = append(inits, s.Value)
		case *ast.RangeStmt:
			return "" // range value variable holding a collection
		default:
			return ""
		}
	}
	if v, isVar := obj.(*types.Var); isVar && v.IsField() && len(inits) == 0 {
		if a.e.fieldSetElsewhere(a.fs, v) {
			return "" // the field is given its value in another function (a record handed over, e.g. through a channel): not known here
		}
		inits = append(inits, nil) // a field never set in a literal starts empty
	}
	if len(inits) != 1 {
		return ""
	}
	init := inits[0]
	empty := false
	if init == nil {
		empty = true
	} else if call, ok := init.(*ast.CallExpr); ok {
		if f, ok := call.Fun.(*ast.Ident); ok && f.Name == "make" && len(call.Args) >= 2 {
			if lit, ok := call.Args[1].(*ast.BasicLit); ok && lit.Value == "0" {
				empty = true
			} else if sp := a.lenSpace(call.Args[1]); sp != "" {
				if len(appends) == 0 {
					return sp
				}
				return ""
			} else {
				return ""
			}
		} else if len(appends) == 0 {
			// result of a call (possibly one of several results)
			return a.resultSpaceFor(as[0], obj, call)
		}
	} else if cl, ok := init.(*ast.CompositeLit); ok && len(cl.Elts) == 0 {
		empty = true
	} else if len(appends) == 0 {
		return a.spaceOf(init)
	}
	if !empty {
		return ""
	}
	if len(appends) == 0 {
		return "coll(" + a.localName(obj) + ")"
	}
	// a field of a helper struct: several objects share the field, each receives a part of what is appended — always a
	// filter space, named after the fields that are appended side by side wherever this one is
	if v, isVar := obj.(*types.Var); isVar && v.IsField() {
		return a.fieldCoAppendSpace(appends, obj)
	}
	// a single conditional append: slices appended side by side in the same block share one filter space
	if len(appends) == 1 {
		if l := a.enclosingLoop(appends[0]); l != nil && !a.unconditionalIn(appends[0], l) {
			return a.coAppendSpace(appends[0], obj)
		}
	}
	// all appends unconditional, exactly one per iteration of one loop
	var loop ast.Node
	for _, ap := range appends {
		l := a.enclosingLoop(ap)
		if l == nil {
			return "filter(" + a.localName(obj) + ")"
		}
		if loop != nil && l != loop {
			return "filter(" + a.localName(obj) + ")"
		}
		loop = l
		if !a.unconditionalIn(ap, l) {
			return "filter(" + a.localName(obj) + ")"
		}
	}
	if len(appends) != 1 {
		return "filter(" + a.localName(obj) + ")"
	}
	if call := appends[0].Rhs[0].(*ast.CallExpr); call.Ellipsis.IsValid() || len(call.Args) != 2 {
		return "filter(" + a.localName(obj) + ")"
	}
	// the loop is itself inside a loop: the slice collects the elements of every trip of the inner loop, its positions
	// are not those of what one inner loop ranges over; the slices appended side by side still grow in lock-step
	if a.enclosingLoop(loop) != nil {
		return a.coAppendSpace(appends[0], obj)
	}
	if rs, ok := loop.(*ast.RangeStmt); ok {
		if sp := a.spaceOf(rs.X); sp != "" {
			return sp
		}
		return a.coAppendSpace(appends[0], obj)
	}
	if fs, ok := loop.(*ast.ForStmt); ok {
		if sp := a.forLoopSpace(fs); sp != "" {
			return sp
		}
	}
	return "coll(" + a.localName(obj) + ")"
}

// rhsFor returns the right-hand side expression assigned to obj in statement n (nil if not 1:1).
func (a *idxAnalysis) rhsFor(n ast.Node, obj types.Object) ast.Expr {
	switch s := n.(type) {
	case *ast.AssignStmt:
		if len(s.Lhs) == len(s.Rhs) {
			for i, l := range s.Lhs {
				if a.varOf(l) == obj {
					return s.Rhs[i]
				}
			}
		}
		if len(s.Rhs) == 1 {
			return s.Rhs[0] // tuple-valued call
		}
	case *ast.ValueSpec:
		if len(s.Names) == len(s.Values) {
			for i, id := range s.Names {
				if a.info.Defs[id] == obj {
					return s.Values[i]
				}
			}
		}
		if len(s.Values) == 1 {
			return s.Values[0]
		}
	}
	return nil
}

// resultSpaceFor: obj is assigned from a call (possibly the i-th of several results).
func (a *idxAnalysis) resultSpaceFor(n ast.Node, obj types.Object, call *ast.CallExpr) string {
	idx := 0
	if s, ok := n.(*ast.AssignStmt); ok && len(s.Rhs) == 1 && len(s.Lhs) > 1 {
		for i, l := range s.Lhs {
			if id, ok := l.(*ast.Ident); ok && a.info.ObjectOf(id) == obj {
				idx = i
			}
		}
		rs := a.callResults(call)
		if idx < len(rs) {
			return rs[idx]
		}
		return ""
	}
	return a.spaceOf(call)
}

// lenSpace: expression is len(E) -> space(E).
func (a *idxAnalysis) lenSpace(x ast.Expr) string {
	if call, ok := x.(*ast.CallExpr); ok {
		if f, ok := call.Fun.(*ast.Ident); ok && f.Name == "len" && len(call.Args) == 1 {
			return a.spaceOf(call.Args[0])
		}
	}
	if id, ok := x.(*ast.Ident); ok {
		// n := len(E)
		if obj := a.info.ObjectOf(id); obj != nil && len(a.assigns[obj]) == 1 {
			if rhs := a.rhsFor(a.assigns[obj][0], obj); rhs != nil && rhs != x {
				return a.lenSpace(rhs)
			}
		}
	}
	return ""
}

func (a *idxAnalysis) enclosingLoop(n ast.Node) ast.Node {
	for cur := a.parent[n]; cur != nil; cur = a.parent[cur] {
		switch cur.(type) {
		case *ast.RangeStmt, *ast.ForStmt:
			return cur
		case *ast.FuncLit:
			return nil
		}
	}
	return nil
}

// unconditionalIn: stmt is a direct child of the loop body and no earlier statement of the body can skip it.
func (a *idxAnalysis) unconditionalIn(stmt ast.Stmt, loop ast.Node) bool {
	var body *ast.BlockStmt
	switch l := loop.(type) {
	case *ast.RangeStmt:
		body = l.Body
	case *ast.ForStmt:
		body = l.Body
	}
	if body == nil || a.parent[stmt] != ast.Node(body) {
		return false
	}
	for _, s := range body.List {
		if s == stmt {
			return true
		}
		skip := false
		ast.Inspect(s, func(n ast.Node) bool {
			switch b := n.(type) {
			case *ast.FuncLit:
				return false
			case *ast.BranchStmt:
				if b.Tok == token.CONTINUE || b.Tok == token.BREAK || b.Tok == token.GOTO {
					skip = true
				}
			case *ast.ReturnStmt:
				skip = true
			}
			return true
		})
		if skip {
			return false
		}
	}
	return false
}

// forLoopSpace: for i := 0; i < len(E); i++ -> space(E)
func (a *idxAnalysis) forLoopSpace(fs *ast.ForStmt) string {
	be, ok := fs.Cond.(*ast.BinaryExpr)
	if !ok || be.Op != token.LSS {
		return ""
	}
	return a.lenSpace(be.Y)
}

// idxOf returns the index space of an int-valued expression: a space string, "const", or "".
func (a *idxAnalysis) idxOf(x ast.Expr) string {
	switch t := x.(type) {
	case *ast.ParenExpr:
		return a.idxOf(t.X)
	case *ast.BasicLit:
		return "const"
	case *ast.Ident:
		obj := a.info.ObjectOf(t)
		if obj == nil {
			return ""
		}
		if _, isConst := obj.(*types.Const); isConst {
			return "const"
		}
		return a.idxOfVar(obj)
	case *ast.IndexExpr:
		if obj := a.varOf(t.X); obj != nil {
			// a plain alias of another variable (a parameter copy of an inlined helper): the variable behind it
			for k := 0; k < 4; k++ {
				if _, seen := a.mapVal[obj]; seen || len(a.assigns[obj]) != 1 {
					break
				}
				rhs := a.rhsFor(a.assigns[obj][0], obj)
				if rhs == nil {
					break
				}
				o2 := a.varOf(rhs)
				if o2 == nil || o2 == obj || !types.Identical(o2.Type(), obj.Type()) {
					break
				}
				obj = o2
			}
			if _, isMap := obj.Type().Underlying().(*types.Map); isMap {
				return a.mapVal[obj]
			}
			if sl, isSlice := obj.Type().Underlying().(*types.Slice); isSlice && isIntType(sl.Elem()) {
				if v, isVar := obj.(*types.Var); isVar && (v.IsField() || (obj.Parent() != nil && obj.Parent() != obj.Pkg().Scope())) {
					return a.mapVal[obj]
				}
			}
		}
		return ""
	case *ast.CallExpr:
		// conversion int(x)
		if len(t.Args) == 1 {
			if tv, ok := a.info.Types[t.Fun]; ok && tv.IsType() {
				return a.idxOf(t.Args[0])
			}
		}
		return ""
	case *ast.BinaryExpr:
		// len(X) - 1
		if t.Op == token.SUB {
			if lit, ok := t.Y.(*ast.BasicLit); ok && lit.Value == "1" {
				if sp := a.lenSpace(t.X); sp != "" {
					return sp
				}
			}
		}
		return ""
	}
	return ""
}

func (a *idxAnalysis) idxOfVar(obj types.Object) string {
	if sp, ok := a.idxSpace[obj]; ok {
		return sp
	}
	a.idxSpace[obj] = ""
	as := a.assigns[obj]
	sp := ""
	switch {
	case len(as) == 1:
		switch s := as[0].(type) {
		case *ast.RangeStmt:
			if id, ok := s.Key.(*ast.Ident); ok && a.info.ObjectOf(id) == obj {
				if t := a.info.TypeOf(s.X); t != nil {
					if _, isMap := t.Underlying().(*types.Map); !isMap {
						sp = a.spaceOf(s.X)
					}
				}
			}
		case *ast.AssignStmt, *ast.ValueSpec:
			if rhs := a.rhsFor(s, obj); rhs != nil {
				sp = a.idxOf(rhs)
			}
		}
	case len(as) == 2:
		// for i := 0; i < len(E); i++
		var init *ast.AssignStmt
		var inc *ast.IncDecStmt
		for _, n := range as {
			switch s := n.(type) {
			case *ast.AssignStmt:
				init = s
			case *ast.IncDecStmt:
				inc = s
			}
		}
		if init != nil && inc != nil {
			if fs, ok := a.parent[init].(*ast.ForStmt); ok && fs.Init == ast.Stmt(init) && fs.Post == ast.Stmt(inc) {
				sp = a.forLoopSpace(fs)
			}
		}
	}
	a.idxSpace[obj] = sp
	return sp
}

func paramIdx(sp string) (string, bool) {
	var k int
	if n, _ := fmt.Sscanf(sp, "P%d", &k); n == 1 && fmt.Sprintf("P%d", k) == sp {
		return sp, true
	}
	if n, _ := fmt.Sscanf(sp, "duty(P%d)", &k); n == 1 && fmt.Sprintf("duty(P%d)", k) == sp {
		return sp, true
	}
	return "", false
}

func (a *idxAnalysis) addGroup(x, y string) {
	for i, g := range a.sum.Groups {
		hx, hy := false, false
		for _, m := range g {
			if m == x {
				hx = true
			}
			if m == y {
				hy = true
			}
		}
		if hx || hy {
			if !hx {
				a.sum.Groups[i] = append(a.sum.Groups[i], x)
			}
			if !hy {
				a.sum.Groups[i] = append(a.sum.Groups[i], y)
			}
			return
		}
	}
	a.sum.Groups = append(a.sum.Groups, []string{x, y})
}

func (a *idxAnalysis) checkIndex(x *ast.IndexExpr) {
	t := a.info.TypeOf(x.X)
	if t == nil {
		return
	}
	switch t.Underlying().(type) {
	case *types.Slice, *types.Array:
	default:
		return
	}
	if tv, ok := a.info.Types[x.X]; ok && tv.IsType() {
		return // generic instantiation
	}
	sx := a.spaceOf(x.X)
	if sx == "" {
		return
	}
	si := a.idxOf(x.Index)
	expr := types.ExprString(x)
	switch {
	case si == "const":
		// a constant index where a proper per-element index of the same space is in scope
		for l := a.enclosingLoop(x); l != nil; l = a.enclosingLoop(l) {
			var ls string
			switch ll := l.(type) {
			case *ast.RangeStmt:
				if tt := a.info.TypeOf(ll.X); tt != nil {
					if _, isMap := tt.Underlying().(*types.Map); !isMap {
						ls = a.spaceOf(ll.X)
					}
				}
			case *ast.ForStmt:
				ls = a.forLoopSpace(ll)
			}
			if ls != "" && ls == sx {
				a.sum.Findings = append(a.sum.Findings, IdxFinding{"const-in-loop", a.fs.key, x.Pos(), expr, "constant index used inside a loop over the same per-element arrays (every element gets the first element's value)"})
				return
			}
			if px, ok := paramIdx(sx); ok {
				if pl, ok := paramIdx(ls); ok && a.sameGroup(px, pl) {
					a.sum.Findings = append(a.sum.Findings, IdxFinding{"const-in-loop", a.fs.key, x.Pos(), expr, "constant index used inside a loop over a co-indexed array"})
					return
				}
			}
		}
	case si == "":
		a.sum.Unknown++
		// designated arrays (the duty's per-validator arrays): an index of unknown provenance is not accepted
		_, isParam := paramIdx(sx)
		if strings.HasPrefix(sx, "duty(") || (isParam && a.e.Strict[RelPkg(a.fs.pkg.PkgPath)]) {
			a.sum.Findings = append(a.sum.Findings, IdxFinding{"unknown-index", a.fs.key, x.Pos(), expr, "index of unknown provenance on a per-validator array (space " + sx + ")"})
		}
	case si == sx:
		a.sum.Accesses++
	default:
		px, okx := paramIdx(sx)
		pi, oki := paramIdx(si)
		if okx && oki {
			a.addGroup(px, pi)
			a.sum.Accesses++
			return
		}
		a.sum.Findings = append(a.sum.Findings, IdxFinding{"mismatch", a.fs.key, x.Pos(), expr,
			fmt.Sprintf("array of index space %s is indexed with an index of space %s", sx, si)})
	}
}

func (a *idxAnalysis) sameGroup(x, y string) bool {
	if x == y {
		return true
	}
	for _, g := range a.sum.Groups {
		hx, hy := false, false
		for _, m := range g {
			if m == x {
				hx = true
			}
			if m == y {
				hy = true
			}
		}
		if hx && hy {
			return true
		}
	}
	return false
}

func (a *idxAnalysis) checkCall(c *ast.CallExpr) {
	fn, iface := a.callee(c)
	var groups [][]string
	name := ""
	if fn != nil {
		if s := a.e.Summary(fn); s != nil {
			groups = s.Groups
		}
		name = a.e.Key(fn)
	} else if iface != "" {
		if is, ok := a.e.Iface[iface]; ok {
			for _, g := range is.Groups {
				var gs []string
				for _, k := range g {
					gs = append(gs, fmt.Sprintf("P%d", k))
				}
				groups = append(groups, gs)
			}
		}
		name = "iface." + iface
	}
	for _, g := range groups {
		type act struct{ member, space string }
		var acts []act
		for _, m := range g {
			sp := a.substitute(m, c)
			if sp != "" {
				acts = append(acts, act{m, sp})
			}
		}
		if len(acts) < 2 {
			continue
		}
		allSame := true
		for _, x := range acts[1:] {
			if x.space != acts[0].space {
				allSame = false
			}
		}
		if allSame {
			a.sum.Accesses++
			continue
		}
		// all parameter-relative: the constraint moves to our own callers
		allParam := true
		for _, x := range acts {
			if _, ok := paramIdx(x.space); !ok {
				allParam = false
			}
		}
		if allParam {
			for _, x := range acts[1:] {
				a.addGroup(acts[0].space, x.space)
			}
			a.sum.Accesses++
			continue
		}
		var parts []string
		for _, x := range acts {
			parts = append(parts, x.member+"="+x.space)
		}
		a.sum.Findings = append(a.sum.Findings, IdxFinding{"call-mismatch", a.fs.key, c.Pos(), types.ExprString(c.Fun),
			"co-indexed parameters of " + name + " receive arrays of different index spaces: " + strings.Join(parts, ", ")})
	}
}

func (a *idxAnalysis) results() {
	fd := a.fs.decl
	nres := 0
	var named []types.Object
	if fd.Type.Results != nil {
		for _, fl := range fd.Type.Results.List {
			if len(fl.Names) == 0 {
				nres++
			}
			for _, n := range fl.Names {
				nres++
				named = append(named, a.info.Defs[n])
			}
		}
	}
	res := make([]string, nres)
	set := make([]bool, nres)
	ast.Inspect(fd.Body, func(n ast.Node) bool {
		if _, ok := n.(*ast.FuncLit); ok {
			return false
		}
		rs, ok := n.(*ast.ReturnStmt)
		if !ok {
			return true
		}
		exprs := rs.Results
		if len(exprs) == 1 && nres > 1 {
			if call, ok := exprs[0].(*ast.CallExpr); ok {
				sp := a.callResults(call)
				for i := 0; i < nres && i < len(sp); i++ {
					a.mergeResult(res, set, i, sp[i], false)
				}
			}
			return true
		}
		for i, e := range exprs {
			if i >= nres {
				break
			}
			if id, ok := e.(*ast.Ident); ok && id.Name == "nil" {
				continue
			}
			if cl, ok := e.(*ast.CompositeLit); ok && len(cl.Elts) == 0 {
				continue // an empty list returned together with an error
			}
			if !isCollType(a.info.TypeOf(e)) {
				continue
			}
			a.mergeResult(res, set, i, a.spaceOf(e), false)
		}
		return true
	})
	a.sum.Results = res
}

func (a *idxAnalysis) mergeResult(res []string, set []bool, i int, sp string, _ bool) {
	if !set[i] {
		res[i] = sp
		set[i] = true
		return
	}
	if res[i] != sp {
		res[i] = ""
	}
}

// coAppendSpace names the filter space of a slice whose only append is the statement ap: all slices whose only
// append is a sibling statement in the same block get the same name (they grow in lock-step).
func (a *idxAnalysis) coAppendSpace(ap *ast.AssignStmt, obj types.Object) string {
	blk, ok := a.parent[ap].(*ast.BlockStmt)
	if !ok {
		return "filter(" + a.localName(obj) + ")"
	}
	var names []string
	for _, st := range blk.List {
		as, ok := st.(*ast.AssignStmt)
		if !ok || len(as.Lhs) != 1 || len(as.Rhs) != 1 {
			continue
		}
		id, ok := as.Lhs[0].(*ast.Ident)
		if !ok {
			continue
		}
		call, ok := as.Rhs[0].(*ast.CallExpr)
		if !ok || len(call.Args) != 2 || call.Ellipsis.IsValid() {
			continue
		}
		if f, ok := call.Fun.(*ast.Ident); !ok || f.Name != "append" {
			continue
		}
		o := a.info.ObjectOf(id)
		if o == nil {
			continue
		}
		// o's only append must be this one
		n := 0
		for _, x := range a.assigns[o] {
			if xs, ok := x.(*ast.AssignStmt); ok && len(xs.Rhs) == 1 {
				if c, ok := xs.Rhs[0].(*ast.CallExpr); ok {
					if f, ok := c.Fun.(*ast.Ident); ok && f.Name == "append" {
						n++
					}
				}
			}
		}
		if n == 1 {
			names = append(names, o.Name())
		}
	}
	sort.Strings(names)
	if len(names) == 0 {
		return "filter(" + a.localName(obj) + ")"
	}
	return "filter(" + a.fs.key + "." + strings.Join(names, "+") + ")"
}

// SparseFill is an indexed store v[i] = x into a pointer slice created with a non-zero length, where the
// store can be skipped for some index (conditional, or after a continue): the slice then keeps nil entries.
type SparseFill struct {
	Fn   string
	Var  string
	Pos  token.Pos
	Make token.Pos
}

// SparseFills finds such slices in the functions of a package.
func (e *IdxEngine) SparseFills(rel string) []SparseFill {
	var out []SparseFill
	for _, fo := range e.FuncsOfPkg(rel) {
		fs := e.decls[fo]
		a := &idxAnalysis{e: e, fs: fs, info: fs.pkg.TypesInfo, sum: &FuncSummary{}, params: map[types.Object]int{},
			varSpace: map[types.Object]string{}, idxSpace: map[types.Object]string{}, mapVal: map[types.Object]string{}, parent: map[ast.Node]ast.Node{}}
		var stack []ast.Node
		ast.Inspect(fs.decl.Body, func(n ast.Node) bool {
			if n == nil {
				stack = stack[:len(stack)-1]
				return true
			}
			if len(stack) > 0 {
				a.parent[n] = stack[len(stack)-1]
			}
			stack = append(stack, n)
			return true
		})
		// slices made with non-zero length and pointer/interface elements
		made := map[types.Object]token.Pos{}
		ast.Inspect(fs.decl.Body, func(n ast.Node) bool {
			as, ok := n.(*ast.AssignStmt)
			if !ok || len(as.Lhs) != 1 || len(as.Rhs) != 1 {
				return true
			}
			id, ok := as.Lhs[0].(*ast.Ident)
			if !ok {
				return true
			}
			call, ok := as.Rhs[0].(*ast.CallExpr)
			if !ok || len(call.Args) < 2 {
				return true
			}
			if f, ok := call.Fun.(*ast.Ident); !ok || f.Name != "make" {
				return true
			}
			if lit, ok := call.Args[1].(*ast.BasicLit); ok && lit.Value == "0" {
				return true
			}
			t := a.info.TypeOf(call.Args[0])
			sl, ok := t.Underlying().(*types.Slice)
			if !ok {
				return true
			}
			switch sl.Elem().Underlying().(type) {
			case *types.Pointer, *types.Interface:
			default:
				return true
			}
			if obj := a.info.ObjectOf(id); obj != nil {
				made[obj] = as.Pos()
			}
			return true
		})
		if len(made) == 0 {
			continue
		}
		ast.Inspect(fs.decl.Body, func(n ast.Node) bool {
			as, ok := n.(*ast.AssignStmt)
			if !ok || len(as.Lhs) != 1 {
				return true
			}
			ix, ok := as.Lhs[0].(*ast.IndexExpr)
			if !ok {
				return true
			}
			id, ok := ix.X.(*ast.Ident)
			if !ok {
				return true
			}
			obj := a.info.ObjectOf(id)
			mk, isMade := made[obj]
			if !isMade {
				return true
			}
			l := a.enclosingLoop(as)
			if l == nil {
				return true
			}
			if !a.unconditionalIn(as, l) {
				out = append(out, SparseFill{Fn: fs.key, Var: id.Name, Pos: as.Pos(), Make: mk})
			}
			return true
		})
	}
	return out
}

// varOf: the variable an expression names — an identifier's object, or, for x.f with x a local variable of (pointer
// to) a struct type declared in the analysed package, the object of field f. All objects of such a helper type are
// taken together: a space attributed to the field holds only if every object's field is used alike (conflicting
// uses make it unknown).
func (a *idxAnalysis) varOf(e ast.Expr) types.Object {
	switch t := e.(type) {
	case *ast.ParenExpr:
		return a.varOf(t.X)
	case *ast.Ident:
		return a.info.ObjectOf(t)
	case *ast.SelectorExpr:
		sel, ok := a.info.Selections[t]
		if !ok || sel.Kind() != types.FieldVal || len(sel.Index()) != 1 {
			return nil
		}
		base, ok := t.X.(*ast.Ident)
		if !ok {
			return nil
		}
		bo, isVar := a.info.ObjectOf(base).(*types.Var)
		if !isVar || bo.IsField() || bo.Parent() == nil || bo.Pkg() == nil || bo.Parent() == bo.Pkg().Scope() {
			return nil
		}
		if _, isParam := a.params[bo]; isParam {
			return nil
		}
		rt := sel.Recv()
		if pt, ok := rt.(*types.Pointer); ok {
			rt = pt.Elem()
		}
		named, ok := rt.(*types.Named)
		if !ok || named.Obj().Pkg() != bo.Pkg() || named.Obj().Exported() {
			return nil
		}
		return sel.Obj()
	}
	return nil
}

// fieldCoAppendSpace: the filter space of a struct field that is appended to (x.f = append(x.f, v)): the fields that are
// appended side by side, in the same block, at every one of its appends grow in lock-step and share the space.
func (a *idxAnalysis) fieldCoAppendSpace(appends []*ast.AssignStmt, obj types.Object) string {
	own := "filter(" + a.fs.key + ".field:" + obj.Name() + ")"
	var common string
	for k, ap := range appends {
		blk, ok := a.parent[ap].(*ast.BlockStmt)
		if !ok {
			return own
		}
		set := map[string]bool{}
		for _, st := range blk.List {
			as, ok := st.(*ast.AssignStmt)
			if !ok || len(as.Lhs) != 1 || len(as.Rhs) != 1 {
				continue
			}
			call, ok := as.Rhs[0].(*ast.CallExpr)
			if !ok || len(call.Args) != 2 || call.Ellipsis.IsValid() {
				continue
			}
			if f, ok := call.Fun.(*ast.Ident); !ok || f.Name != "append" {
				continue
			}
			o := a.varOf(as.Lhs[0])
			if o == nil || a.varOf(call.Args[0]) != o {
				continue
			}
			if v, isVar := o.(*types.Var); isVar && v.IsField() {
				set[o.Name()] = true
			}
		}
		var names []string
		for n := range set {
			names = append(names, n)
		}
		sort.Strings(names)
		joined := strings.Join(names, "+")
		if k == 0 {
			common = joined
		} else if joined != common {
			return own
		}
	}
	if common == "" {
		return own
	}
	return "filter(" + a.fs.key + ".fields:" + common + ")"
}

// fieldSetElsewhere: a function of the package other than the analysed one sets the field, in a literal of its struct
// type or by assignment.
func (e *IdxEngine) fieldSetElsewhere(fs *funcSyntax, field *types.Var) bool {
	if e.fieldWriters == nil {
		e.fieldWriters = map[*packages.Package]map[*types.Var]map[*ast.FuncDecl]bool{}
	}
	w, ok := e.fieldWriters[fs.pkg]
	if !ok {
		w = map[*types.Var]map[*ast.FuncDecl]bool{}
		add := func(v *types.Var, fd *ast.FuncDecl) {
			if w[v] == nil {
				w[v] = map[*ast.FuncDecl]bool{}
			}
			w[v][fd] = true
		}
		info := fs.pkg.TypesInfo
		for _, f := range fs.pkg.Syntax {
			for _, d := range f.Decls {
				fd, ok := d.(*ast.FuncDecl)
				if !ok || fd.Body == nil {
					continue
				}
				ast.Inspect(fd.Body, func(n ast.Node) bool {
					switch x := n.(type) {
					case *ast.CompositeLit:
						tv, ok := info.Types[x]
						if !ok {
							return true
						}
						t := tv.Type
						if pt, ok := t.Underlying().(*types.Pointer); ok {
							t = pt.Elem()
						}
						st, ok := t.Underlying().(*types.Struct)
						if !ok {
							return true
						}
						for i, el := range x.Elts {
							if kv, ok := el.(*ast.KeyValueExpr); ok {
								if k, ok := kv.Key.(*ast.Ident); ok {
									for j := 0; j < st.NumFields(); j++ {
										if st.Field(j).Name() == k.Name {
											add(st.Field(j), fd)
										}
									}
								}
							} else if i < st.NumFields() {
								add(st.Field(i), fd)
							}
						}
					case *ast.AssignStmt:
						for _, l := range x.Lhs {
							if se, ok := l.(*ast.SelectorExpr); ok {
								if sel, ok := info.Selections[se]; ok && sel.Kind() == types.FieldVal {
									if v, ok := sel.Obj().(*types.Var); ok {
										add(v, fd)
									}
								}
							}
						}
					}
					return true
				})
			}
		}
		e.fieldWriters[fs.pkg] = w
	}
	for fd := range w[field] {
		if fd != fs.decl {
			return true
		}
	}
	return false
}
