package core

import (
	"bytes"
	"fmt"
	"go/ast"
	"go/parser"
	"go/token"
	"go/types"
	"io/fs"
	"os"
	"path/filepath"
	"regexp"
	"sort"
	"strings"

	"golang.org/x/tools/go/packages"
)

// Normalisation: helper functions that did not exist on the tree the rules were written against are
// inlined at their statement-level call sites before the analysis. Extracting part of an anchored
// function into a new helper (or renaming a helper) is the commonest behaviour-preserving edit; the
// rules decide paths, guards and lock sets inside the anchored function, so the helper's body is put
// back where it came from. The transformation is source to source and semantics preserving for the
// forms it accepts (no defer/recover/labels/variadics/generics in the helper; the call is the whole
// right-hand side of an assignment, an expression statement, the operand of a return, the init
// assignment or the (possibly negated) condition of an if). Anything else is left as it is. If the
// normalised tree does not type-check the original tree is analysed.

// FuncDeclKey identifies a declared function independent of position: pkgpath.(Recv).Name.
func FuncDeclKey(pkgPath string, d *ast.FuncDecl) string {
	recv := ""
	if d.Recv != nil && len(d.Recv.List) == 1 {
		t := d.Recv.List[0].Type
		for {
			switch x := t.(type) {
			case *ast.StarExpr:
				t = x.X
				continue
			case *ast.IndexExpr:
				t = x.X
				continue
			case *ast.ParenExpr:
				t = x.X
				continue
			}
			break
		}
		if id, ok := t.(*ast.Ident); ok {
			recv = id.Name
		}
	}
	return pkgPath + "." + recv + "." + d.Name.Name
}

// DeclKeys lists the keys of all function declarations of the module's production packages.
func DeclKeys(pkgs []*packages.Package) []string {
	var out []string
	packages.Visit(pkgs, nil, func(pk *packages.Package) {
		if !IsProd(pk.PkgPath) {
			return
		}
		for _, f := range pk.Syntax {
			for _, d := range f.Decls {
				if fd, ok := d.(*ast.FuncDecl); ok {
					out = append(out, FuncDeclKey(pk.PkgPath, fd))
				}
			}
		}
	})
	sort.Strings(out)
	return out
}

type edit struct {
	start, end int
	text       string
}

type inlineCand struct {
	decl *ast.FuncDecl
	obj  *types.Func
	pk   *packages.Package
	file *ast.File
	sig  *types.Signature // for a function literal (obj is nil)
	lit  bool
}

func loadSyntax(dir string, overlay map[string][]byte, goarch string) ([]*packages.Package, error) {
	env := append(os.Environ(), "GOFLAGS=-mod=mod", "GOPROXY=off", "GOSUMDB=off", "GOWORK=off", "GOTOOLCHAIN=local")
	if goarch != "" {
		env = append(env, "GOARCH="+goarch, "CGO_ENABLED=0")
	}
	cfg := &packages.Config{Mode: packages.LoadSyntax | packages.NeedModule, Dir: dir, Env: env, Overlay: overlay, Tests: false}
	return packages.Load(cfg, "./...")
}

func hasErrors(pkgs []*packages.Package) bool {
	bad := false
	packages.Visit(pkgs, nil, func(p *packages.Package) {
		if strings.HasPrefix(p.PkgPath, ModulePath) && len(p.Errors) > 0 {
			bad = true
		}
	})
	return bad
}

// inlinable reports whether the helper's body is in the accepted fragment.
func inlinable(d *ast.FuncDecl) bool {
	if d.Body == nil || (d.Type.TypeParams != nil && d.Recv != nil) {
		return false
	}
	if d.Recv != nil {
		if len(d.Recv.List) != 1 || len(d.Recv.List[0].Names) > 1 {
			return false
		}
		// generic receiver
		t := d.Recv.List[0].Type
		if s, ok := t.(*ast.StarExpr); ok {
			t = s.X
		}
		if _, ok := t.(*ast.Ident); !ok {
			return false
		}
	}
	for _, f := range d.Type.Params.List {
		if _, ok := f.Type.(*ast.Ellipsis); ok {
			return false
		}
	}
	ok := true
	ast.Inspect(d.Body, func(n ast.Node) bool {
		switch x := n.(type) {
		case *ast.FuncLit:
			return false
		case *ast.LabeledStmt:
			ok = false
		case *ast.DeferStmt:
			// a deferred plain call with side-effect free operands, written at the top level of the body, is
			// executed at every later return instead (the forms differ only when the body panics)
			top := false
			for _, st := range d.Body.List {
				if st == ast.Stmt(x) {
					top = true
				}
			}
			if !top {
				ok = false
				break
			}
			if _, isLit := x.Call.Fun.(*ast.FuncLit); isLit {
				ok = false
				break
			}
			if !simpleExpr(x.Call.Fun) {
				ok = false
			}
			for _, a := range x.Call.Args {
				if !simpleExpr(a) {
					ok = false
				}
			}
		case *ast.BranchStmt:
			if x.Tok == token.GOTO {
				ok = false
			}
		case *ast.CallExpr:
			if id, isId := x.Fun.(*ast.Ident); isId && id.Name == "recover" {
				ok = false
			}
		}
		return ok
	})
	// closures may contain defers of their own; they stay closures. But a closure returning is fine.
	return ok
}

// importsNeeded: every package name used by the helper must resolve, in the caller's file, to the same import.
// Names the caller's file does not import yet are returned (name -> path) so that they can be added; a name
// bound to another path (or to another object of the caller's file) makes the helper incompatible.
func importsNeeded(info *types.Info, helper *ast.FuncDecl, caller *ast.File, pk *packages.Package) (map[string]string, bool) {
	callerImports := map[string]string{} // name -> path
	for _, is := range caller.Imports {
		path := strings.Trim(is.Path.Value, `"`)
		name := ""
		if is.Name != nil {
			name = is.Name.Name
		} else if ip := pk.Imports[path]; ip != nil {
			name = ip.Name
		} else {
			name = path[strings.LastIndex(path, "/")+1:]
		}
		callerImports[name] = path
	}
	missing := map[string]string{}
	ok := true
	ast.Inspect(helper, func(n ast.Node) bool {
		id, isId := n.(*ast.Ident)
		if !isId {
			return true
		}
		if pn, isPkg := info.Uses[id].(*types.PkgName); isPkg {
			have, imported := callerImports[id.Name]
			switch {
			case imported && have == pn.Imported().Path():
			case imported:
				ok = false
			default:
				// the name must not denote something else at package level
				if pk.Types != nil && pk.Types.Scope().Lookup(id.Name) != nil {
					ok = false
				} else {
					missing[id.Name] = pn.Imported().Path()
				}
			}
		}
		return ok
	})
	return missing, ok
}

// Normalize returns an overlay in which new helpers are inlined, and notes describing what was done.
func Normalize(dir string, overlay map[string][]byte, goarch string, baseline map[string]bool, base *Baseline) (map[string][]byte, []string) {
	if len(baseline) == 0 || !anyNewDecl(dir, overlay, baseline) {
		return overlay, nil
	}
	cur := map[string][]byte{}
	for k, v := range overlay {
		cur[k] = v
	}
	var notes []string
	counter := 0
	for round := 0; round < 4; round++ {
		pkgs, err := loadSyntax(dir, cur, goarch)
		if err != nil || hasErrors(pkgs) {
			if round == 0 {
				return overlay, nil // the caller reports the load error
			}
			return overlay, append(notes, "normalised tree does not type-check; analysing the tree as it is")
		}
		var fset *token.FileSet
		cands := map[*types.Func]*inlineCand{}
		goCands := map[*types.Func]*inlineCand{}
		// baseline functions that are still there under another signature are not helpers to be inlined
		var gone map[string]map[string]bool
		if base != nil {
			present := map[string]bool{}
			packages.Visit(pkgs, nil, func(pk *packages.Package) {
				for _, f := range pk.Syntax {
					for _, d := range f.Decls {
						if fd, ok := d.(*ast.FuncDecl); ok {
							present[FuncDeclKey(pk.PkgPath, fd)] = true
						}
					}
				}
			})
			gone = GoneBodies(base, present)
		}
		packages.Visit(pkgs, nil, func(pk *packages.Package) {
			if !IsProd(pk.PkgPath) || pk.TypesInfo == nil {
				return
			}
			fset = pk.Fset
			for _, f := range pk.Syntax {
				for _, d := range f.Decls {
					fd, ok := d.(*ast.FuncDecl)
					if ok && fd.Body != nil && !baseline[FuncDeclKey(pk.PkgPath, fd)] && (gone[pk.PkgPath][BodyHashOf(pk.Fset, fd)] || gone[pk.PkgPath]["alpha:"+AlphaHashOf(pk.TypesInfo, pk.Types, fd)]) {
						if round == 0 {
							notes = append(notes, "kept "+FuncDeclKey(pk.PkgPath, fd)+": a baseline function with another signature")
						}
						continue
					}
					if ok && !baseline[FuncDeclKey(pk.PkgPath, fd)] && fd.Body != nil && fd.Type.TypeParams == nil && fd.Name.Name != "init" && fd.Name.Name != "main" {
						variadic := false
						for _, fl := range fd.Type.Params.List {
							if _, isE := fl.Type.(*ast.Ellipsis); isE {
								variadic = true
							}
						}
						if obj, isF := pk.TypesInfo.Defs[fd.Name].(*types.Func); isF && !variadic {
							goCands[obj] = &inlineCand{decl: fd, obj: obj, pk: pk, file: f}
						}
					}
					if !ok || baseline[FuncDeclKey(pk.PkgPath, fd)] || !inlinable(fd) {
						continue
					}
					if fd.Name.Name == "init" || fd.Name.Name == "main" {
						continue
					}
					if obj, ok := pk.TypesInfo.Defs[fd.Name].(*types.Func); ok {
						// a helper that calls itself cannot be inlined away: it stays a function
						selfRec := false
						ast.Inspect(fd.Body, func(n ast.Node) bool {
							if id, isID := n.(*ast.Ident); isID && pk.TypesInfo.Uses[id] == types.Object(obj) {
								selfRec = true
							}
							return true
						})
						if selfRec {
							continue
						}
						cands[obj] = &inlineCand{decl: fd, obj: obj, pk: pk, file: f}
					}
				}
			}
		})
		if len(cands) == 0 && len(goCands) == 0 {
			break
		}
		edits := map[string][]edit{}
		addImports := map[string]map[string]string{}
		pkgEnd := map[string]int{}
		src := func(name string) []byte {
			if b, ok := cur[name]; ok {
				return b
			}
			b, _ := os.ReadFile(name)
			return b
		}
		n := 0
		packages.Visit(pkgs, nil, func(pk *packages.Package) {
			if !IsProd(pk.PkgPath) || pk.TypesInfo == nil {
				return
			}
			for _, f := range pk.Syntax {
				fname := pk.Fset.Position(f.Pos()).Filename
				text := src(fname)
				for _, d := range f.Decls {
					fd, ok := d.(*ast.FuncDecl)
					if !ok || fd.Body == nil {
						continue
					}
					self, _ := pk.TypesInfo.Defs[fd.Name].(*types.Func)
					visitStmtLists(fd.Body, func(list []ast.Stmt) {
						for _, st := range list {
							// `go f(args)` / `defer f(args)` with a new function f: the function literal it stands for
							var gcall *ast.CallExpr
							switch x := st.(type) {
							case *ast.GoStmt:
								gcall = x.Call
							case *ast.DeferStmt:
								gcall = x.Call
							}
							if gcall != nil {
								gc := goCands[calleeFunc(pk.TypesInfo, gcall)]
								if gc == nil || gc.pk != pk || gc.obj == self {
									continue
								}
								missing, compatible := importsNeeded(pk.TypesInfo, gc.decl, f, pk)
								if !compatible {
									continue
								}
								es, ok := literalAt(pk, text, gcall, gc, src)
								if !ok {
									continue
								}
								overlap := false
								for _, e := range es {
									for _, o := range edits[fname] {
										if e.start < o.end && o.start < e.end {
											overlap = true
										}
									}
								}
								if overlap {
									continue
								}
								edits[fname] = append(edits[fname], es...)
								if len(missing) > 0 {
									if addImports[fname] == nil {
										addImports[fname] = map[string]string{}
									}
									for nm, pth := range missing {
										addImports[fname][nm] = pth
									}
									pkgEnd[fname] = pk.Fset.PositionFor(f.Name.End(), false).Offset
								}
								n++
								notes = append(notes, fmt.Sprintf("replaced the go/defer call of new function %s in %s by its function literal", FuncDeclKey(pk.PkgPath, gc.decl), FuncDeclKey(pk.PkgPath, fd)))
								continue
							}
							call, neg := callOfStmt(st)
							_ = neg
							nested := false
							if rs, isRet := st.(*ast.ReturnStmt); isRet && call == nil && len(rs.Results) > 1 {
								// `return helper(x), nil`: a single-valued candidate call among otherwise simple results
								for _, e := range rs.Results {
									if ic, ok := e.(*ast.CallExpr); ok {
										if cands[calleeFunc(pk.TypesInfo, ic)] != nil && call == nil {
											call, nested = ic, true
											continue
										}
										call = nil
										break
									}
									if !simpleExpr(e) {
										call = nil
										break
									}
								}
								if call == nil {
									nested = false
								}
							}
							if call == nil {
								continue
							}
							callee := calleeFunc(pk.TypesInfo, call)
							c := cands[callee]
							if c == nil {
								// one level of nesting: a candidate call that is a direct argument of the statement's
								// call, with only side-effect free arguments before it
								for _, a := range call.Args {
									if ic, ok := a.(*ast.CallExpr); ok {
										if cc := cands[calleeFunc(pk.TypesInfo, ic)]; cc != nil {
											call, callee, c, nested = ic, calleeFunc(pk.TypesInfo, ic), cc, true
										}
										break
									}
									if !simpleExpr(a) {
										break
									}
								}
							}
							var litExtra []edit
							if c == nil && !nested {
								// a call of a local function variable that stands for one function literal of this function
								// (a callback handed to an inlined helper, a local closure called in several places)
								if lc, extra := literalCandidate(pk, f, fd, call); lc != nil {
									c, callee, litExtra = lc, nil, extra
								}
							}
							if c == nil || (callee == self && !c.lit) || c.pk != pk {
								continue
							}
							if nested && c.obj.Type().(*types.Signature).Results().Len() != 1 {
								continue
							}
							missing, compatible := importsNeeded(pk.TypesInfo, c.decl, f, pk)
							if !compatible {
								continue
							}
							counter++
							es, ok := inlineAt(pk, f, text, st, call, c, src, counter, nested)
							if !ok {
								continue
							}
							// no overlap with edits already planned for this file
							overlap := false
							for _, e := range es {
								for _, o := range edits[fname] {
									if e.start < o.end && o.start < e.end || (e.start == e.end && e.start == o.start && o.start == o.end) {
										overlap = true
									}
								}
							}
							if overlap {
								continue
							}
							edits[fname] = append(edits[fname], es...)
							for _, e := range litExtra {
								dup := false
								for _, o := range edits[fname] {
									if o.start == e.start && o.end == e.end && o.text == e.text {
										dup = true
									}
								}
								if !dup {
									edits[fname] = append(edits[fname], e)
								}
							}
							if len(missing) > 0 {
								if addImports[fname] == nil {
									addImports[fname] = map[string]string{}
								}
								for nm, pth := range missing {
									addImports[fname][nm] = pth
								}
								pkgEnd[fname] = pk.Fset.PositionFor(f.Name.End(), false).Offset
							}
							n++
							if c.lit {
								notes = append(notes, fmt.Sprintf("inlined the call of a local function literal into %s", FuncDeclKey(pk.PkgPath, fd)))
							} else {
								notes = append(notes, fmt.Sprintf("inlined new helper %s into %s", FuncDeclKey(pk.PkgPath, c.decl), FuncDeclKey(pk.PkgPath, fd)))
							}
						}
					})
				}
			}
		})
		if n == 0 {
			break
		}
		for fname, imps := range addImports {
			var names []string
			for nm := range imps {
				names = append(names, nm)
			}
			sort.Strings(names)
			var b strings.Builder
			for _, nm := range names {
				fmt.Fprintf(&b, "; import %s %q", nm, imps[nm])
			}
			edits[fname] = append(edits[fname], edit{pkgEnd[fname], pkgEnd[fname], b.String()})
		}
		for fname, es := range edits {
			text := src(fname)
			sort.Slice(es, func(i, j int) bool {
				if es[i].start != es[j].start {
					return es[i].start > es[j].start
				}
				return es[i].end > es[j].end
			})
			for _, e := range es {
				text = append(append(append([]byte{}, text[:e.start]...), []byte(e.text)...), text[e.end:]...)
			}
			cur[fname] = text
		}
		_ = fset
	}
	if len(notes) == 0 {
		return overlay, nil
	}
	// helpers that are no longer referenced anywhere are removed (blanked, keeping the line structure):
	// their bodies now live in their callers and a second, dead copy would be analysed as code.
	if pkgs0, err0 := loadSyntax(dir, cur, goarch); err0 == nil && !hasErrors(pkgs0) {
		used := map[types.Object]bool{}
		packages.Visit(pkgs0, nil, func(pk *packages.Package) {
			if pk.TypesInfo == nil || !strings.HasPrefix(pk.PkgPath, ModulePath) {
				return
			}
			for _, o := range pk.TypesInfo.Uses {
				used[o] = true
			}
			for _, sel := range pk.TypesInfo.Selections {
				used[sel.Obj()] = true
			}
		})
		packages.Visit(pkgs0, nil, func(pk *packages.Package) {
			if !IsProd(pk.PkgPath) || pk.TypesInfo == nil {
				return
			}
			for _, f := range pk.Syntax {
				fname := pk.Fset.PositionFor(f.Pos(), false).Filename
				var es []edit
				for _, d := range f.Decls {
					fd, ok := d.(*ast.FuncDecl)
					if !ok || baseline[FuncDeclKey(pk.PkgPath, fd)] || fd.Name.Name == "init" || fd.Name.Name == "main" {
						continue
					}
					obj := pk.TypesInfo.Defs[fd.Name]
					if obj == nil || used[obj] || fd.Name.IsExported() {
						continue
					}
					start := pk.Fset.PositionFor(fd.Pos(), false).Offset
					if fd.Doc != nil {
						start = pk.Fset.PositionFor(fd.Doc.Pos(), false).Offset
					}
					es = append(es, edit{start, pk.Fset.PositionFor(fd.End(), false).Offset, ""})
					notes = append(notes, "removed the now unreferenced helper "+FuncDeclKey(pk.PkgPath, fd))
				}
				if len(es) == 0 {
					continue
				}
				text, ok := cur[fname]
				if !ok {
					text, _ = os.ReadFile(fname)
				}
				sort.Slice(es, func(i, j int) bool { return es[i].start > es[j].start })
				for _, e := range es {
					blank := bytes.Map(func(r rune) rune {
						if r == '\n' {
							return r
						}
						return ' '
					}, text[e.start:e.end])
					text = append(append(append([]byte{}, text[:e.start]...), blank...), text[e.end:]...)
				}
				// imports that only the removed helpers used
				for _, is := range f.Imports {
					name := ""
					path := strings.Trim(is.Path.Value, `"`)
					if is.Name != nil {
						name = is.Name.Name
					} else if ip := pk.Imports[path]; ip != nil {
						name = ip.Name
					} else {
						name = path[strings.LastIndex(path, "/")+1:]
					}
					if name == "_" || name == "." {
						continue
					}
					a, b := pk.Fset.PositionFor(is.Pos(), false).Offset, pk.Fset.PositionFor(is.End(), false).Offset
					rest := append(append([]byte{}, text[:a]...), text[b:]...)
					if !regexp.MustCompile(`\b` + regexp.QuoteMeta(name) + `\.`).Match(rest) {
						for i := a; i < b; i++ {
							if text[i] != '\n' {
								text[i] = ' '
							}
						}
					}
				}
				cur[fname] = text
			}
		})
	}
	pkgs, err := loadSyntax(dir, cur, goarch)
	if err != nil || hasErrors(pkgs) {
		var first string
		packages.Visit(pkgs, nil, func(p *packages.Package) {
			if first == "" && len(p.Errors) > 0 {
				first = p.Errors[0].Error()
			}
		})
		return overlay, []string{"normalised tree does not type-check (" + first + "); analysing the tree as it is"}
	}
	return cur, notes
}

// walkProdFiles parses (syntax only) every production file of the module under dir and calls f.
func walkProdFiles(dir string, overlay map[string][]byte, fset *token.FileSet, f func(pkgPath string, file *ast.File)) {
	_ = filepath.WalkDir(dir, func(path string, d fs.DirEntry, err error) error {
		if err != nil {
			return nil
		}
		if d.IsDir() {
			n := d.Name()
			if path != dir && (strings.HasPrefix(n, ".") || n == "testdata" || n == "vendor") {
				return filepath.SkipDir
			}
			return nil
		}
		if !strings.HasSuffix(path, ".go") || strings.HasSuffix(path, "_test.go") {
			return nil
		}
		var srcb any
		if b, ok := overlay[path]; ok {
			srcb = b
		}
		file, perr := parser.ParseFile(fset, path, srcb, parser.SkipObjectResolution)
		if perr != nil || file == nil {
			return nil
		}
		rel, _ := filepath.Rel(dir, filepath.Dir(path))
		pkgPath := ModulePath
		if rel != "." {
			pkgPath = ModulePath + "/" + filepath.ToSlash(rel)
		}
		if !IsProd(pkgPath) {
			return nil
		}
		f(pkgPath, file)
		return nil
	})
}

// anyNewDecl is a cheap syntactic pre-check (no type checking): does any production file declare a
// function whose key is not in the baseline?
func anyNewDecl(dir string, overlay map[string][]byte, baseline map[string]bool) bool {
	found := false
	walkProdFiles(dir, overlay, token.NewFileSet(), func(pkgPath string, file *ast.File) {
		for _, dd := range file.Decls {
			if fd, ok := dd.(*ast.FuncDecl); ok && !baseline[FuncDeclKey(pkgPath, fd)] {
				found = true
			}
		}
	})
	return found
}

// visitStmtLists calls f for every statement list (block, case and comm clause bodies) outside closures' nested
// functions too (closures are included: their bodies are statement lists as well).
func visitStmtLists(body *ast.BlockStmt, f func([]ast.Stmt)) {
	ast.Inspect(body, func(n ast.Node) bool {
		switch x := n.(type) {
		case *ast.BlockStmt:
			f(x.List)
		case *ast.CaseClause:
			f(x.Body)
		case *ast.CommClause:
			f(x.Body)
		}
		return true
	})
}

// callOfStmt recognises the statement forms whose single call can be replaced by result variables.
func callOfStmt(st ast.Stmt) (*ast.CallExpr, bool) {
	asCall := func(e ast.Expr) *ast.CallExpr {
		c, _ := e.(*ast.CallExpr)
		return c
	}
	switch x := st.(type) {
	case *ast.ExprStmt:
		return asCall(x.X), false
	case *ast.AssignStmt:
		if len(x.Rhs) == 1 && (x.Tok == token.ASSIGN || x.Tok == token.DEFINE) {
			return asCall(x.Rhs[0]), false
		}
	case *ast.ReturnStmt:
		if len(x.Results) == 1 {
			return asCall(x.Results[0]), false
		}
	case *ast.IfStmt:
		if x.Init != nil {
			if as, ok := x.Init.(*ast.AssignStmt); ok && len(as.Rhs) == 1 {
				if c := asCall(as.Rhs[0]); c != nil {
					return c, false
				}
			}
			return nil, false
		}
		if c := asCall(x.Cond); c != nil {
			return c, false
		}
		if u, ok := x.Cond.(*ast.UnaryExpr); ok && u.Op == token.NOT {
			return asCall(u.X), true
		}
	}
	return nil, false
}

func calleeFunc(info *types.Info, call *ast.CallExpr) *types.Func {
	switch f := call.Fun.(type) {
	case *ast.IndexExpr: // f[T](…)
		if id, ok := f.X.(*ast.Ident); ok {
			fn, _ := info.Uses[id].(*types.Func)
			return fn
		}
		return nil
	case *ast.IndexListExpr: // f[T, U](…)
		if id, ok := f.X.(*ast.Ident); ok {
			fn, _ := info.Uses[id].(*types.Func)
			return fn
		}
		return nil
	case *ast.Ident:
		fn, _ := info.Uses[f].(*types.Func)
		return fn
	case *ast.SelectorExpr:
		if sel, ok := info.Selections[f]; ok {
			if sel.Kind() != types.MethodVal {
				return nil
			}
			// promoted through embedding or interface: not handled
			if len(sel.Index()) != 1 {
				return nil
			}
			if _, isIface := sel.Recv().Underlying().(*types.Interface); isIface {
				return nil
			}
			fn, _ := sel.Obj().(*types.Func)
			return fn
		}
		fn, _ := info.Uses[f.Sel].(*types.Func)
		return fn
	}
	return nil
}

// simpleExpr: evaluation has no side effects and cannot be affected by hoisting a call before it.
func simpleExpr(e ast.Expr) bool {
	switch x := e.(type) {
	case *ast.Ident, *ast.BasicLit:
		return true
	case *ast.SelectorExpr:
		return simpleExpr(x.X)
	case *ast.ParenExpr:
		return simpleExpr(x.X)
	case *ast.StarExpr:
		return simpleExpr(x.X)
	}
	return false
}

func inlineAt(pk *packages.Package, file *ast.File, text []byte, st ast.Stmt, call *ast.CallExpr, c *inlineCand, src func(string) []byte, id int, nested bool) ([]edit, bool) {
	fset := pk.Fset
	off := func(p token.Pos) int { return fset.PositionFor(p, false).Offset }
	helperFile := fset.PositionFor(c.decl.Pos(), false).Filename
	htext := src(helperFile)
	hsliceRaw := func(a, b token.Pos) string { return string(htext[off(a):off(b)]) }
	var typeSubst func(a, b token.Pos) string // set below, once the substitution is known
	hslice := func(a, b token.Pos) string {
		if typeSubst != nil {
			return typeSubst(a, b)
		}
		return hsliceRaw(a, b)
	}
	cslice := func(a, b token.Pos) string { return string(text[off(a):off(b)]) }
	sig := c.sig
	if sig == nil {
		sig = c.obj.Type().(*types.Signature)
	}
	pfx := fmt.Sprintf("__vn%d_", id)
	// a generic helper: its type parameters are replaced by the type arguments of this call, written as the caller's
	// file can write them (same-package types unqualified, others through an import the file already has)
	tsub := map[types.Object]string{}
	if c.decl.Type.TypeParams != nil {
		var fid *ast.Ident
		switch fx := call.Fun.(type) {
		case *ast.Ident:
			fid = fx
		case *ast.IndexExpr:
			fid, _ = fx.X.(*ast.Ident)
		case *ast.IndexListExpr:
			fid, _ = fx.X.(*ast.Ident)
		}
		if fid == nil {
			return nil, false
		}
		inst, ok := pk.TypesInfo.Instances[fid]
		if !ok || inst.TypeArgs == nil {
			return nil, false
		}
		imports := map[string]string{} // path -> local name in the caller's file
		for _, im := range file.Imports {
			pth := strings.Trim(im.Path.Value, "\"")
			nm := pth[strings.LastIndex(pth, "/")+1:]
			if im.Name != nil {
				nm = im.Name.Name
			} else if ip := pk.Imports[pth]; ip != nil && ip.Name != "" {
				nm = ip.Name
			}
			imports[pth] = nm
		}
		bad := false
		qual := func(p *types.Package) string {
			if p == pk.Types {
				return ""
			}
			if nm, ok := imports[p.Path()]; ok && nm != "_" && nm != "." {
				return nm
			}
			bad = true
			return p.Name()
		}
		k := 0
		for _, fl := range c.decl.Type.TypeParams.List {
			for _, nm := range fl.Names {
				if k >= inst.TypeArgs.Len() {
					return nil, false
				}
				if o := pk.TypesInfo.Defs[nm]; o != nil {
					tsub[o] = types.TypeString(inst.TypeArgs.At(k), qual)
				}
				k++
			}
		}
		if bad {
			return nil, false
		}
	}
	// subst rewrites the source text of a node of the helper with the type parameters replaced
	var substEdits func(n ast.Node) []struct {
		start, end int
		text       string
	}
	substEdits = func(n ast.Node) []struct {
		start, end int
		text       string
	} {
		var out []struct {
			start, end int
			text       string
		}
		if len(tsub) == 0 || n == nil {
			return out
		}
		ast.Inspect(n, func(x ast.Node) bool {
			if idn, ok := x.(*ast.Ident); ok {
				if o := pk.TypesInfo.Uses[idn]; o != nil {
					if t, ok := tsub[o]; ok {
						out = append(out, struct {
							start, end int
							text       string
						}{off(idn.Pos()), off(idn.End()), t})
					}
				}
			}
			return true
		})
		return out
	}
	if len(tsub) > 0 {
		typeSubst = func(a, b token.Pos) string {
			txt := []byte(hsliceRaw(a, b))
			base := off(a)
			// the nodes between a and b: find the smallest enclosing nodes by scanning the declaration
			var eds []struct {
				start, end int
				text       string
			}
			for _, e := range substEdits(c.decl) {
				if e.start >= base && e.end <= off(b) {
					eds = append(eds, e)
				}
			}
			sort.Slice(eds, func(i, j int) bool { return eds[i].start > eds[j].start })
			for _, e := range eds {
				txt = append(append(append([]byte{}, txt[:e.start-base]...), []byte(e.text)...), txt[e.end-base:]...)
			}
			return string(txt)
		}
	}
	var b bytes.Buffer
	// receiver
	type bind struct{ name, typ, val string }
	var binds []bind
	if c.decl.Recv != nil {
		sel, ok := call.Fun.(*ast.SelectorExpr)
		if !ok {
			return nil, false
		}
		rf := c.decl.Recv.List[0]
		rtyp := hslice(rf.Type.Pos(), rf.Type.End())
		rexpr := cslice(sel.X.Pos(), sel.X.End())
		// address / dereference adjustment
		if tv, ok := pk.TypesInfo.Types[sel.X]; ok {
			_, argPtr := tv.Type.Underlying().(*types.Pointer)
			_, recvPtr := sig.Recv().Type().(*types.Pointer)
			if recvPtr && !argPtr {
				rexpr = "&(" + rexpr + ")"
			} else if !recvPtr && argPtr {
				rexpr = "*(" + rexpr + ")"
			}
		}
		name := "_"
		if len(rf.Names) == 1 {
			name = rf.Names[0].Name
		}
		binds = append(binds, bind{name, rtyp, rexpr})
	} else if _, isSel := call.Fun.(*ast.SelectorExpr); isSel {
		return nil, false // package-qualified call to another package's function
	}
	// parameters
	ai := 0
	for _, f := range c.decl.Type.Params.List {
		typ := hslice(f.Type.Pos(), f.Type.End())
		names := f.Names
		if len(names) == 0 {
			names = []*ast.Ident{{Name: "_"}}
		}
		for _, nm := range names {
			if ai >= len(call.Args) {
				return nil, false
			}
			binds = append(binds, bind{nm.Name, typ, cslice(call.Args[ai].Pos(), call.Args[ai].End())})
			ai++
		}
	}
	if ai != len(call.Args) || call.Ellipsis.IsValid() {
		return nil, false
	}
	// results
	var rnames []string
	type res struct{ named, typ string }
	var ress []res
	if c.decl.Type.Results != nil {
		for _, f := range c.decl.Type.Results.List {
			typ := hslice(f.Type.Pos(), f.Type.End())
			if len(f.Names) == 0 {
				ress = append(ress, res{"", typ})
			}
			for _, nm := range f.Names {
				ress = append(ress, res{nm.Name, typ})
			}
		}
	}
	for i := range ress {
		rnames = append(rnames, fmt.Sprintf("%sr%d", pfx, i))
	}
	// the statement must use exactly as many values as the helper returns
	if nested {
		if len(ress) != 1 {
			return nil, false
		}
	} else {
		switch x := st.(type) {
		case *ast.AssignStmt:
			if len(x.Lhs) != len(ress) {
				return nil, false
			}
		case *ast.IfStmt:
			if x.Init != nil {
				if as, ok := x.Init.(*ast.AssignStmt); !ok || len(as.Lhs) != len(ress) {
					return nil, false
				}
			} else if len(ress) != 1 {
				return nil, false
			}
		case *ast.ReturnStmt:
			if len(ress) == 0 {
				return nil, false
			}
		}
	}
	// argument temporaries, evaluated in the caller's scope
	for i, bd := range binds {
		fmt.Fprintf(&b, "var %sa%d %s = %s\n", pfx, i, bd.typ, bd.val)
	}
	for i, r := range ress {
		fmt.Fprintf(&b, "var %s %s\n", rnames[i], r.typ)
	}
	b.WriteString("{\n")
	for i, bd := range binds {
		if bd.name == "_" {
			fmt.Fprintf(&b, "_ = %sa%d\n", pfx, i)
			continue
		}
		fmt.Fprintf(&b, "var %s %s = %sa%d\n_ = %s\n", bd.name, bd.typ, pfx, i, bd.name)
	}
	var namedRes []string
	for _, r := range ress {
		if r.named != "" && r.named != "_" {
			fmt.Fprintf(&b, "var %s %s\n_ = %s\n", r.named, r.typ, r.named)
			namedRes = append(namedRes, r.named)
		} else if r.named == "_" {
			namedRes = append(namedRes, "")
		}
	}
	// deferred calls written at the top level of the helper: run at every return that follows them
	type dfr struct {
		start, end int
		call       string
		pos        token.Pos
	}
	var defers []dfr
	for _, st := range c.decl.Body.List {
		if ds, ok := st.(*ast.DeferStmt); ok {
			defers = append(defers, dfr{off(ds.Pos()), off(ds.End()), hslice(ds.Call.Pos(), ds.Call.End()), ds.Pos()})
		}
	}
	deferredBefore := func(pos token.Pos) string {
		var parts []string
		for i := len(defers) - 1; i >= 0; i-- {
			if defers[i].pos < pos {
				parts = append(parts, defers[i].call)
			}
		}
		if len(parts) == 0 {
			return ""
		}
		return strings.Join(parts, "; ") + "; "
	}
	// body with returns rewritten
	type rr struct {
		start, end int
		text       string
	}
	var rets []rr
	for _, d := range defers {
		rets = append(rets, rr{d.start, d.end, ""})
	}
	label := pfx + "end"
	usedLabel := false
	okBody := true
	ast.Inspect(c.decl.Body, func(n ast.Node) bool {
		switch x := n.(type) {
		case *ast.FuncLit:
			return false
		case *ast.ReturnStmt:
			var t string
			switch {
			case len(ress) == 0:
				t = "{ " + deferredBefore(x.Pos()) + "goto " + label + " }"
			case len(x.Results) == 0:
				// bare return with named results
				if len(namedRes) != len(ress) {
					okBody = false
					return false
				}
				var vals []string
				for i, nm := range namedRes {
					if nm == "" {
						vals = append(vals, rnames[i])
					} else {
						vals = append(vals, nm)
					}
				}
				t = "{ " + strings.Join(rnames, ", ") + " = " + strings.Join(vals, ", ") + "; " + deferredBefore(x.Pos()) + "goto " + label + " }"
			default:
				var vals []string
				for _, e := range x.Results {
					vals = append(vals, hslice(e.Pos(), e.End()))
				}
				t = "{ " + strings.Join(rnames, ", ") + " = " + strings.Join(vals, ", ") + "; " + deferredBefore(x.Pos()) + "goto " + label + " }"
			}
			usedLabel = true
			rets = append(rets, rr{off(x.Pos()), off(x.End()), t})
		}
		return true
	})
	if !okBody {
		return nil, false
	}
	bodyStart, bodyEnd := off(c.decl.Body.Lbrace)+1, off(c.decl.Body.Rbrace)
	for _, e := range substEdits(c.decl.Body) {
		inside := false
		for _, r := range rets {
			if e.start >= r.start && e.end <= r.end {
				inside = true // the return's own text was produced through hslice and is substituted already
			}
		}
		if !inside {
			rets = append(rets, rr{e.start, e.end, e.text})
		}
	}
	body := append([]byte{}, htext[bodyStart:bodyEnd]...)
	sort.Slice(rets, func(i, j int) bool { return rets[i].start > rets[j].start })
	for _, r := range rets {
		s, e := r.start-bodyStart, r.end-bodyStart
		body = append(append(append([]byte{}, body[:s]...), []byte(r.text)...), body[e:]...)
	}
	hpos := fset.PositionFor(c.decl.Body.Lbrace, false)
	fmt.Fprintf(&b, "//line %s:%d\n", hpos.Filename, hpos.Line)
	b.Write(body)
	if len(ress) == 0 && len(defers) > 0 {
		b.WriteString("\n" + strings.TrimSuffix(deferredBefore(c.decl.Body.Rbrace), "; "))
	}
	b.WriteString("\n}\n")
	if usedLabel {
		fmt.Fprintf(&b, "%s:\n{\n}\n", label)
	}
	spos := fset.PositionFor(st.Pos(), false)
	fmt.Fprintf(&b, "//line %s:%d\n", spos.Filename, spos.Line)
	// the original statement with the call replaced
	var es []edit
	es = append(es, edit{off(st.Pos()), off(st.Pos()), b.String()})
	switch st.(type) {
	case *ast.ExprStmt:
		if nested {
			es = append(es, edit{off(call.Pos()), off(call.End()), strings.Join(rnames, ", ")})
			break
		}
		// a single edit replacing the statement
		es = []edit{{off(st.Pos()), off(st.End()), b.String() + "{\n}"}}
	default:
		es = append(es, edit{off(call.Pos()), off(call.End()), strings.Join(rnames, ", ")})
	}
	return es, true
}

// literalAt rewrites the call f(args) of a go/defer statement into func(recv R, p0 T0, ...) results { body }(recv, args):
// the same statement with the function written out as a literal (arguments are still evaluated at the statement).
func literalAt(pk *packages.Package, text []byte, call *ast.CallExpr, c *inlineCand, src func(string) []byte) ([]edit, bool) {
	fset := pk.Fset
	off := func(p token.Pos) int { return fset.PositionFor(p, false).Offset }
	helperFile := fset.PositionFor(c.decl.Pos(), false).Filename
	htext := src(helperFile)
	hslice := func(a, b token.Pos) string { return string(htext[off(a):off(b)]) }
	cslice := func(a, b token.Pos) string { return string(text[off(a):off(b)]) }
	sig := c.obj.Type().(*types.Signature)
	var params, args []string
	if c.decl.Recv != nil {
		sel, ok := call.Fun.(*ast.SelectorExpr)
		if !ok || len(c.decl.Recv.List) != 1 {
			return nil, false
		}
		rf := c.decl.Recv.List[0]
		name := "_"
		if len(rf.Names) == 1 {
			name = rf.Names[0].Name
		}
		rexpr := cslice(sel.X.Pos(), sel.X.End())
		if tv, ok := pk.TypesInfo.Types[sel.X]; ok {
			_, argPtr := tv.Type.Underlying().(*types.Pointer)
			_, recvPtr := sig.Recv().Type().(*types.Pointer)
			if recvPtr && !argPtr {
				rexpr = "&(" + rexpr + ")"
			} else if !recvPtr && argPtr {
				rexpr = "*(" + rexpr + ")"
			}
		}
		params = append(params, name+" "+hslice(rf.Type.Pos(), rf.Type.End()))
		args = append(args, rexpr)
	} else if _, isSel := call.Fun.(*ast.SelectorExpr); isSel {
		return nil, false
	}
	if call.Ellipsis.IsValid() {
		return nil, false
	}
	for _, f := range c.decl.Type.Params.List {
		typ := hslice(f.Type.Pos(), f.Type.End())
		if len(f.Names) == 0 {
			params = append(params, "_ "+typ)
		}
		for _, nm := range f.Names {
			params = append(params, nm.Name+" "+typ)
		}
	}
	for _, a := range call.Args {
		args = append(args, cslice(a.Pos(), a.End()))
	}
	if len(params) != len(args) {
		return nil, false
	}
	results := ""
	if c.decl.Type.Results != nil && len(c.decl.Type.Results.List) > 0 {
		results = " " + hslice(c.decl.Type.Results.Pos(), c.decl.Type.Results.End())
	}
	hpos := fset.PositionFor(c.decl.Body.Lbrace, false)
	cpos := fset.PositionFor(call.End(), false)
	var b strings.Builder
	b.WriteString("func(" + strings.Join(params, ", ") + ")" + results + " {\n")
	fmt.Fprintf(&b, "//line %s:%d\n", hpos.Filename, hpos.Line)
	b.Write(htext[off(c.decl.Body.Lbrace)+1 : off(c.decl.Body.Rbrace)])
	fmt.Fprintf(&b, "\n//line %s:%d\n", cpos.Filename, cpos.Line)
	b.WriteString("}(" + strings.Join(args, ", ") + ")")
	return []edit{{off(call.Pos()), off(call.End()), b.String()}}, true
}

// literalCandidate: call is v(args) with v a local function variable of fd that stands for exactly one function literal
// of fd (v := func…, or a chain of single-assignment copies ending in one), and every variable the literal uses from
// outside itself is, at the call, the same variable or a never-reassigned copy of it. Returns a candidate that lets
// inlineAt treat the literal like a helper, and an edit that keeps a directly defined v used.
func literalCandidate(pk *packages.Package, file *ast.File, fd *ast.FuncDecl, call *ast.CallExpr) (*inlineCand, []edit) {
	info := pk.TypesInfo
	id, ok := call.Fun.(*ast.Ident)
	if !ok {
		return nil, nil
	}
	v, ok := info.Uses[id].(*types.Var)
	if !ok || v.IsField() || v.Parent() == nil || v.Parent() == pk.Types.Scope() {
		return nil, nil
	}
	if _, isSig := v.Type().Underlying().(*types.Signature); !isSig {
		return nil, nil
	}
	// definitions and assignments of every local variable of fd
	type def struct {
		rhs  ast.Expr
		stmt ast.Node
	}
	defs := map[types.Object][]def{}
	bad := map[types.Object]bool{}
	ast.Inspect(fd, func(n ast.Node) bool {
		switch x := n.(type) {
		case *ast.AssignStmt:
			for i, l := range x.Lhs {
				lid, ok := l.(*ast.Ident)
				if !ok {
					continue
				}
				o := info.ObjectOf(lid)
				if o == nil {
					continue
				}
				if len(x.Lhs) == len(x.Rhs) {
					defs[o] = append(defs[o], def{x.Rhs[i], x})
				} else {
					bad[o] = true
				}
			}
		case *ast.ValueSpec:
			for i, nm := range x.Names {
				o := info.Defs[nm]
				if o == nil {
					continue
				}
				if len(x.Values) == len(x.Names) {
					defs[o] = append(defs[o], def{x.Values[i], x})
				} else if len(x.Values) == 0 {
					defs[o] = append(defs[o], def{nil, x})
				} else {
					bad[o] = true
				}
			}
		case *ast.IncDecStmt:
			if lid, ok := x.X.(*ast.Ident); ok {
				bad[info.ObjectOf(lid)] = true
			}
		case *ast.UnaryExpr:
			if x.Op == token.AND {
				if lid, ok := x.X.(*ast.Ident); ok {
					bad[info.ObjectOf(lid)] = true
				}
			}
		case *ast.RangeStmt:
			for _, e := range []ast.Expr{x.Key, x.Value} {
				if lid, ok := e.(*ast.Ident); ok && lid != nil {
					bad[info.ObjectOf(lid)] = true
				}
			}
		}
		return true
	})
	single := func(o types.Object) (ast.Expr, ast.Node, bool) {
		if bad[o] || len(defs[o]) != 1 || defs[o][0].rhs == nil {
			return nil, nil, false
		}
		return defs[o][0].rhs, defs[o][0].stmt, true
	}
	// the literal behind v
	var lit *ast.FuncLit
	var first ast.Node
	cur := types.Object(v)
	for depth := 0; depth < 4 && lit == nil; depth++ {
		rhs, st, ok := single(cur)
		if !ok {
			return nil, nil
		}
		if depth == 0 {
			first = st
		}
		switch r := rhs.(type) {
		case *ast.FuncLit:
			lit = r
		case *ast.Ident:
			nx, ok := info.Uses[r].(*types.Var)
			if !ok || nx.IsField() || nx.Parent() == pk.Types.Scope() {
				return nil, nil
			}
			cur = nx
		default:
			return nil, nil
		}
	}
	if lit == nil || lit.Pos() < fd.Pos() || lit.End() > fd.End() {
		return nil, nil
	}
	if call.Pos() >= lit.Pos() && call.End() <= lit.End() {
		return nil, nil // the literal calling itself
	}
	pseudo := &ast.FuncDecl{Name: ast.NewIdent("__literal"), Type: lit.Type, Body: lit.Body}
	if !inlinable(pseudo) {
		return nil, nil
	}
	// copyOf: o2 holds, unchanged, the value of o (o2 := tmp; tmp := o; none of them assigned again)
	var copyOf func(o2, o types.Object, depth int) bool
	copyOf = func(o2, o types.Object, depth int) bool {
		if o2 == o {
			return true
		}
		if depth > 3 {
			return false
		}
		rhs, _, ok := single(o2)
		if !ok {
			return false
		}
		rid, ok := rhs.(*ast.Ident)
		if !ok {
			return false
		}
		nx := info.Uses[rid]
		if nx == nil {
			return false
		}
		return copyOf(nx, o, depth+1)
	}
	// what the literal uses from the enclosing function must mean the same at the call
	okScope := true
	ast.Inspect(lit.Body, func(n ast.Node) bool {
		uid, ok := n.(*ast.Ident)
		if !ok || !okScope {
			return okScope
		}
		o := info.Uses[uid]
		if o == nil {
			return true
		}
		ov, isVar := o.(*types.Var)
		if !isVar || ov.IsField() || o.Parent() == nil || o.Parent() == pk.Types.Scope() || o.Parent() == types.Universe {
			return true
		}
		if o.Pos() >= lit.Pos() && o.Pos() <= lit.End() {
			return true // the literal's own variable
		}
		inner := pk.Types.Scope().Innermost(call.Pos())
		if inner == nil {
			okScope = false
			return false
		}
		_, at := inner.LookupParent(uid.Name, call.Pos())
		if at == o {
			return true // the very same variable at the call
		}
		// another variable of that name is in scope at the call: acceptable only as an unchanged copy of a variable
		// that itself never changes
		if at == nil || bad[o] || len(defs[o]) > 1 || !copyOf(at, o, 0) {
			okScope = false
		}
		return okScope
	})
	if !okScope {
		return nil, nil
	}
	sig, _ := info.TypeOf(lit).(*types.Signature)
	if sig == nil || sig.Variadic() {
		return nil, nil
	}
	var extra []edit
	// a variable defined directly by `v := func…` at statement level may end up unused: keep it used
	if as, ok := first.(*ast.AssignStmt); ok && as.Tok == token.DEFINE && len(as.Lhs) == 1 {
		off := pk.Fset.PositionFor(as.End(), false).Offset
		extra = append(extra, edit{off, off, "\n_ = " + v.Name() + "\n"})
	}
	return &inlineCand{decl: pseudo, pk: pk, file: file, sig: sig, lit: true}, extra
}
