package core

import (
	"go/token"
	"go/types"
	"sort"
	"strings"

	"golang.org/x/tools/go/ssa"
)

// LockID identifies a lock by the struct field (or local variable) holding the mutex and the mode.
type LockID struct {
	Field FieldID
	Read  bool
}

func (l LockID) String() string {
	if l.Read {
		return "R:" + l.Field.String()
	}
	return l.Field.String()
}

// LockSet is a set of locks.
type LockSet map[LockID]bool

func (s LockSet) clone() LockSet {
	o := LockSet{}
	for k := range s {
		o[k] = true
	}
	return o
}

func (s LockSet) String() string {
	var a []string
	for k := range s {
		a = append(a, k.String())
	}
	sort.Strings(a)
	return "{" + strings.Join(a, ",") + "}"
}

// HasField reports whether the set holds the lock on field f in a mode sufficient for write (if write) or read.
func (s LockSet) HasField(f FieldID, write bool) bool {
	for l := range s {
		if l.Field == f {
			if !write || !l.Read {
				return true
			}
		}
	}
	return false
}

// HasOwner reports whether some held lock is a mutex field of the given owner struct (any name).
func (s LockSet) HasOwner(owner string, write bool) bool {
	for l := range s {
		if l.Field.Owner == owner && (!write || !l.Read) {
			return true
		}
	}
	return false
}

// HasName reports whether some held lock's field has this name (any owner).
func (s LockSet) HasName(name string, write bool) bool {
	for l := range s {
		if l.Field.Name == name && (!write || !l.Read) {
			return true
		}
	}
	return false
}

// LockOp is a lock or unlock operation.
type LockOp struct {
	Lock    LockID
	Acquire bool
	Instr   ssa.Instruction
}

func IsMutexType(t types.Type) bool { return isMutexType(t) }

func isMutexType(t types.Type) bool {
	for {
		if p, ok := t.(*types.Pointer); ok {
			t = p.Elem()
			continue
		}
		break
	}
	nt, ok := t.(*types.Named)
	if !ok || nt.Obj().Pkg() == nil {
		return false
	}
	pk := nt.Obj().Pkg().Path()
	n := nt.Obj().Name()
	if (pk == "sync" || pk == "github.com/sasha-s/go-deadlock") && (n == "Mutex" || n == "RWMutex") {
		return true
	}
	return false
}

// lockTarget resolves the receiver of a mutex method call to a FieldID.
func lockTarget(v ssa.Value) (FieldID, bool) {
	switch x := v.(type) {
	case *ssa.FieldAddr:
		id, _, _ := FieldOfAddr(x)
		return id, true
	case *ssa.Alloc:
		return FieldID{Owner: "local:" + FnKey(x.Parent()), Name: x.Comment}, true
	case *ssa.FreeVar:
		if b := FreeVarBinding(x); b != nil {
			return lockTarget(b)
		}
		return FieldID{Owner: "free:" + FnKey(x.Parent()), Name: x.Name()}, true
	case *ssa.UnOp:
		if x.Op == token.MUL {
			// pointer to mutex loaded from somewhere (e.g. field of pointer type)
			if id, ok := FieldOfValue(x); ok {
				return id, true
			}
			return lockTarget(x.X)
		}
	case *ssa.Global:
		return FieldID{Owner: "global", Name: x.Name()}, true
	case *ssa.Parameter:
		return FieldID{Owner: "param:" + FnKey(x.Parent()), Name: x.Name()}, true
	case *ssa.MakeInterface:
		return lockTarget(x.X)
	}
	return FieldID{}, false
}

// LockOpOf decodes a call as a lock operation.
func LockOpOf(ci ssa.CallInstruction) (LockOp, bool) {
	c := ci.Common()
	name := ""
	var recv ssa.Value
	if c.IsInvoke() {
		// sync.Locker (cond.L.Lock())
		nt, ok := c.Value.Type().(*types.Named)
		if !ok || nt.Obj().Pkg() == nil || nt.Obj().Pkg().Path() != "sync" || nt.Obj().Name() != "Locker" {
			return LockOp{}, false
		}
		name = c.Method.Name()
		recv = c.Value
	} else {
		f := c.StaticCallee()
		if f == nil || f.Signature.Recv() == nil || !isMutexType(f.Signature.Recv().Type()) {
			return LockOp{}, false
		}
		name = f.Name()
		if len(c.Args) == 0 {
			return LockOp{}, false
		}
		recv = c.Args[0]
	}
	var op LockOp
	switch name {
	case "Lock":
		op.Acquire = true
	case "RLock":
		op.Acquire, op.Lock.Read = true, true
	case "Unlock":
	case "RUnlock":
		op.Lock.Read = true
	default:
		return LockOp{}, false
	}
	id, ok := lockTarget(recv)
	if !ok {
		return LockOp{}, false
	}
	op.Lock.Field = id
	op.Instr = ci
	return op, true
}

// LockAnalysis caches per-function lock facts.
type LockAnalysis struct {
	P        *Prog
	must     map[*ssa.Function]map[ssa.Instruction]LockSet
	may      map[*ssa.Function]map[ssa.Instruction]LockSet
	acquires map[*ssa.Function]map[FieldID]bool
	entry    map[*ssa.Function]LockSet
	deferAt  map[ssa.Instruction]LockSet
}

func NewLockAnalysis(p *Prog) *LockAnalysis {
	return &LockAnalysis{P: p, must: map[*ssa.Function]map[ssa.Instruction]LockSet{}, may: map[*ssa.Function]map[ssa.Instruction]LockSet{},
		acquires: map[*ssa.Function]map[FieldID]bool{}, entry: map[*ssa.Function]LockSet{}}
}

type lstate struct {
	held     LockSet
	deferred LockSet
}

func joinState(a, b *lstate, union bool) *lstate {
	if a == nil {
		return &lstate{b.held.clone(), b.deferred.clone()}
	}
	o := &lstate{LockSet{}, LockSet{}}
	if union {
		for k := range a.held {
			o.held[k] = true
		}
		for k := range b.held {
			o.held[k] = true
		}
	} else {
		for k := range a.held {
			if b.held[k] {
				o.held[k] = true
			}
		}
	}
	// deferred releases: must-set (a release is certain only if registered on all paths)
	for k := range a.deferred {
		if b.deferred[k] {
			o.deferred[k] = true
		}
	}
	return o
}

func eqSet(a, b LockSet) bool {
	if len(a) != len(b) {
		return false
	}
	for k := range a {
		if !b[k] {
			return false
		}
	}
	return true
}

// deferredUnlocks returns locks released by a deferred call (direct unlock or a closure that unlocks).
func deferredUnlocks(d *ssa.Defer) []LockID {
	if op, ok := LockOpOf(d); ok && !op.Acquire {
		return []LockID{op.Lock}
	}
	var out []LockID
	var fn *ssa.Function
	switch v := d.Call.Value.(type) {
	case *ssa.MakeClosure:
		fn, _ = v.Fn.(*ssa.Function)
	case *ssa.Function:
		fn = v
	}
	if fn != nil && fn.Parent() != nil {
		EachInstr(fn, func(in ssa.Instruction) {
			if ci, ok := in.(ssa.CallInstruction); ok {
				if op, ok := LockOpOf(ci); ok && !op.Acquire {
					out = append(out, op.Lock)
				}
			}
		})
	}
	return out
}

func (la *LockAnalysis) run(fn *ssa.Function, union bool) map[ssa.Instruction]LockSet {
	cache := la.must
	if union {
		cache = la.may
	}
	if r, ok := cache[fn]; ok {
		return r
	}
	res := map[ssa.Instruction]LockSet{}
	cache[fn] = res
	if len(fn.Blocks) == 0 {
		return res
	}
	in := map[*ssa.BasicBlock]*lstate{}
	in[fn.Blocks[0]] = &lstate{LockSet{}, LockSet{}}
	work := []*ssa.BasicBlock{fn.Blocks[0]}
	inWork := map[*ssa.BasicBlock]bool{fn.Blocks[0]: true}
	for len(work) > 0 {
		b := work[0]
		work = work[1:]
		inWork[b] = false
		st := &lstate{in[b].held.clone(), in[b].deferred.clone()}
		for _, ins := range b.Instrs {
			res[ins] = st.held.clone()
			switch x := ins.(type) {
			case *ssa.Defer:
				for _, l := range deferredUnlocks(x) {
					st.deferred[l] = true
				}
			case *ssa.Go:
			case ssa.CallInstruction:
				if op, ok := LockOpOf(x); ok {
					if op.Acquire {
						st.held[op.Lock] = true
					} else {
						delete(st.held, op.Lock)
					}
				}
			}
		}
		for _, s := range b.Succs {
			old := in[s]
			nw := joinState(old, st, union)
			if old == nil || !eqSet(old.held, nw.held) || !eqSet(old.deferred, nw.deferred) {
				in[s] = nw
				if !inWork[s] {
					inWork[s] = true
					work = append(work, s)
				}
			}
		}
	}
	// record effective held set at returns under a synthetic key: store deferred in a side map
	if la.deferAt == nil {
		la.deferAt = map[ssa.Instruction]LockSet{}
	}
	for _, b := range fn.Blocks {
		if in[b] == nil {
			continue
		}
		st := &lstate{in[b].held.clone(), in[b].deferred.clone()}
		for _, ins := range b.Instrs {
			if d, ok := ins.(*ssa.Defer); ok {
				for _, l := range deferredUnlocks(d) {
					st.deferred[l] = true
				}
			}
			if _, ok := ins.(*ssa.Return); ok {
				la.deferAt[ins] = st.deferred.clone()
			}
		}
	}
	return res
}

// HeldAt returns, for every instruction of fn, the locks that are held on all paths reaching it (within fn).
func (la *LockAnalysis) HeldAt(fn *ssa.Function) map[ssa.Instruction]LockSet {
	return la.run(fn, false)
}

// MayHeldAt returns the locks that may be held on some path.
func (la *LockAnalysis) MayHeldAt(fn *ssa.Function) map[ssa.Instruction]LockSet {
	return la.run(fn, true)
}

// PairingViolation is a lock possibly held at a return.
type PairingViolation struct {
	Lock    string
	Pos     token.Pos
	Witness []string
}

// Pairing reports locks that may be held at a return of fn and are not released by a deferred unlock.
func (la *LockAnalysis) Pairing(fn *ssa.Function) []PairingViolation {
	may := la.MayHeldAt(fn)
	var out []PairingViolation
	for _, ret := range ReturnsOf(fn) {
		held := may[ret]
		def := la.deferAt[ret]
		var ls []LockID
		for l := range held {
			if !def[l] {
				ls = append(ls, l)
			}
		}
		sort.Slice(ls, func(i, j int) bool { return ls[i].String() < ls[j].String() })
		for _, l := range ls {
			// witness: a path from an acquisition of l to this return avoiding releases of l
			var wit []string
			EachInstr(fn, func(in ssa.Instruction) {
				if wit != nil {
					return
				}
				ci, ok := in.(ssa.CallInstruction)
				if !ok {
					return
				}
				op, ok := LockOpOf(ci)
				if !ok || !op.Acquire || op.Lock != l {
					return
				}
				if _, isDefer := in.(*ssa.Defer); isDefer {
					return
				}
				w := PathQuery{Fn: fn, From: in, Target: func(i ssa.Instruction) bool { return i == ret }, Avoid: func(i ssa.Instruction) bool {
					if c, ok := i.(ssa.CallInstruction); ok {
						if _, isDefer := i.(*ssa.Defer); isDefer {
							return false
						}
						if o, ok := LockOpOf(c); ok && !o.Acquire && o.Lock == l {
							return true
						}
					}
					return false
				}}.Find()
				if w != nil {
					wit = append([]string{la.P.Pos(in.Pos()) + "  acquire " + l.String()}, la.P.WitnessText(w)...)
				}
			})
			if wit == nil {
				continue // may-held was an artefact of the join; no concrete path
			}
			out = append(out, PairingViolation{Lock: l.String(), Pos: ret.Pos(), Witness: wit})
		}
	}
	return out
}

// UnlockWithoutLock reports unlock operations executed where the lock is not held on any path (double unlock).
func (la *LockAnalysis) UnlockWithoutLock(fn *ssa.Function) []LockOp {
	may := la.MayHeldAt(fn)
	var out []LockOp
	EachInstr(fn, func(in ssa.Instruction) {
		ci, ok := in.(ssa.CallInstruction)
		if !ok {
			return
		}
		if _, isDefer := in.(*ssa.Defer); isDefer {
			return
		}
		op, ok := LockOpOf(ci)
		if !ok || op.Acquire {
			return
		}
		if fn.Parent() != nil {
			return // closures may unlock for their parent (deferred closures)
		}
		if !may[in][op.Lock] {
			out = append(out, op)
		}
	})
	return out
}

// MayAcquire returns the lock fields fn may acquire, transitively through static callees and
// (module-internal) interface callees resolved by the call graph.
func (la *LockAnalysis) MayAcquire(fn *ssa.Function) map[FieldID]bool {
	if r, ok := la.acquires[fn]; ok {
		return r
	}
	r := map[FieldID]bool{}
	la.acquires[fn] = r
	if fn.Blocks == nil {
		return r
	}
	cg := la.P.CallGraph()
	EachInstr(fn, func(in ssa.Instruction) {
		ci, ok := in.(ssa.CallInstruction)
		if !ok {
			return
		}
		if _, isGo := in.(*ssa.Go); isGo {
			return // a new goroutine does not acquire on behalf of the caller
		}
		if op, ok := LockOpOf(ci); ok {
			if op.Acquire {
				r[op.Lock.Field] = true
			}
			return
		}
	})
	if n := cg.Nodes[fn]; n != nil {
		for _, e := range n.Out {
			if _, isGo := e.Site.(*ssa.Go); isGo {
				continue
			}
			callee := e.Callee.Func
			if callee == nil || callee.Pkg == nil || !strings.HasPrefix(callee.Pkg.Pkg.Path(), ModulePath) {
				continue
			}
			if !IsProd(callee.Pkg.Pkg.Path()) {
				continue
			}
			for f := range la.MayAcquire(callee) {
				r[f] = true
			}
		}
	}
	return r
}

// Reentry is a call made while holding a lock to a callee that may acquire the same lock.
type Reentry struct {
	Lock   LockID
	Site   ssa.CallInstruction
	Callee *ssa.Function
}

// Reentrant reports calls in fn made with a lock held whose callee may acquire that lock again.
func (la *LockAnalysis) Reentrant(fn *ssa.Function) []Reentry {
	may := la.MayHeldAt(fn)
	cg := la.P.CallGraph()
	n := cg.Nodes[fn]
	if n == nil {
		return nil
	}
	var out []Reentry
	seen := map[string]bool{}
	for _, e := range n.Out {
		if e.Site == nil {
			continue
		}
		if _, isGo := e.Site.(*ssa.Go); isGo {
			continue
		}
		if _, isDefer := e.Site.(*ssa.Defer); isDefer {
			continue
		}
		held := may[e.Site]
		if len(held) == 0 {
			continue
		}
		callee := e.Callee.Func
		if callee == nil || callee.Pkg == nil || !IsProd(callee.Pkg.Pkg.Path()) {
			continue
		}
		acq := la.MayAcquire(callee)
		for l := range held {
			if acq[l.Field] {
				k := l.String() + "|" + FnKey(callee) + "|" + la.P.Pos(e.Site.Pos())
				if !seen[k] {
					seen[k] = true
					out = append(out, Reentry{l, e.Site, callee})
				}
			}
		}
	}
	sort.Slice(out, func(i, j int) bool { return out[i].Site.Pos() < out[j].Site.Pos() })
	return out
}

// EntryHeld returns the locks held at every (static, module-internal) call site of fn — the locks a
// lock-free helper may rely on. Functions started with `go`, passed as values or without callers get the empty set.
func (la *LockAnalysis) EntryHeld(fn *ssa.Function) LockSet {
	return la.entryHeld(fn, 0, map[*ssa.Function]bool{})
}

func (la *LockAnalysis) entryHeld(fn *ssa.Function, depth int, busy map[*ssa.Function]bool) LockSet {
	if r, ok := la.entry[fn]; ok {
		return r
	}
	if depth > 3 || busy[fn] {
		return LockSet{}
	}
	busy[fn] = true
	defer delete(busy, fn)
	cg := la.P.CallGraph()
	n := cg.Nodes[fn]
	var acc LockSet
	if n == nil || len(n.In) == 0 {
		acc = LockSet{}
	} else {
		for _, e := range n.In {
			var here LockSet
			if e.Site == nil {
				here = LockSet{}
			} else if _, isGo := e.Site.(*ssa.Go); isGo {
				here = LockSet{}
			} else if _, isDefer := e.Site.(*ssa.Defer); isDefer {
				here = LockSet{}
			} else {
				caller := e.Caller.Func
				here = la.HeldAt(caller)[e.Site].clone()
				for l := range la.entryHeld(caller, depth+1, busy) {
					here[l] = true
				}
			}
			if acc == nil {
				acc = here
			} else {
				for l := range acc {
					if !here[l] {
						delete(acc, l)
					}
				}
			}
		}
	}
	// function values taken (address-taken) count as unknown callers
	if fn.Referrers() != nil {
		for _, ref := range *fn.Referrers() {
			if ci, ok := ref.(ssa.CallInstruction); ok && ci.Common().Value == ssa.Value(fn) {
				continue
			}
			acc = LockSet{}
		}
	}
	if acc == nil {
		acc = LockSet{}
	}
	if depth == 0 {
		la.entry[fn] = acc
	}
	return acc
}
