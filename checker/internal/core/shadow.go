package core

import (
	"go/ast"
	"go/token"
	"go/types"
	"sort"
	"strings"
)

// Shadowed is a short variable declaration in a nested block that hides a variable of the enclosing function
// with the same name and type, where the hidden variable is read again after the nested block has ended: what was
// assigned inside the block does not reach that later read.
type Shadowed struct {
	Pkg     string
	Func    string
	Name    string
	Inner   token.Pos
	UsedAt  token.Pos
	IsError bool
}

// ShadowedResults lists such declarations in the production packages of the module whose relative path has one of
// the prefixes (all when none is given).
func (p *Prog) ShadowedResults(prefixes ...string) []Shadowed {
	var out []Shadowed
	for path, pk := range p.ByPath {
		if !IsProd(path) || pk.TypesInfo == nil {
			continue
		}
		rel := RelPkg(path)
		if len(prefixes) > 0 {
			ok := false
			for _, pre := range prefixes {
				if rel == pre || strings.HasPrefix(rel, pre) {
					ok = true
				}
			}
			if !ok {
				continue
			}
		}
		info := pk.TypesInfo
		for _, file := range pk.Syntax {
			if strings.HasSuffix(p.Fset.Position(file.Pos()).Filename, "_test.go") {
				continue
			}
			for _, decl := range file.Decls {
				fd, ok := decl.(*ast.FuncDecl)
				if !ok || fd.Body == nil {
					continue
				}
				fscope := info.Scopes[fd.Type]
				if fscope == nil {
					continue
				}
				// blocks that are bodies of helpers inlined by the normalisation (core/normalize.go): their variables
				// were declared in another function, so the same name inside and outside is no shadowing in the source
				var inlined []*ast.BlockStmt
				ast.Inspect(fd.Body, func(n ast.Node) bool {
					var list []ast.Stmt
					switch x := n.(type) {
					case *ast.BlockStmt:
						list = x.List
					case *ast.CaseClause:
						list = x.Body
					case *ast.CommClause:
						list = x.Body
					}
					for i, st := range list {
						b, ok := st.(*ast.BlockStmt)
						if !ok {
							continue
						}
						mark := false
						if i > 0 {
							if ds, ok := list[i-1].(*ast.DeclStmt); ok {
								if gd, ok := ds.Decl.(*ast.GenDecl); ok && len(gd.Specs) > 0 {
									if vs, ok := gd.Specs[0].(*ast.ValueSpec); ok && len(vs.Names) > 0 && strings.HasPrefix(vs.Names[0].Name, "__vn") {
										mark = true
									}
								}
							}
						}
						if i+1 < len(list) {
							if ls, ok := list[i+1].(*ast.LabeledStmt); ok && strings.HasPrefix(ls.Label.Name, "__vn") {
								mark = true
							}
						}
						for _, inner := range b.List {
							if ls, ok := inner.(*ast.LabeledStmt); ok && strings.HasPrefix(ls.Label.Name, "__vn") {
								mark = true
							}
						}
						if mark {
							inlined = append(inlined, b)
						}
					}
					return true
				})
				inlinedAt := func(pos token.Pos) *ast.BlockStmt {
					var best *ast.BlockStmt
					for _, b := range inlined {
						if b.Pos() <= pos && pos <= b.End() && (best == nil || b.Pos() >= best.Pos()) {
							best = b
						}
					}
					return best
				}
				// uses of each object, by position
				uses := map[types.Object][]token.Pos{}
				ast.Inspect(fd.Body, func(n ast.Node) bool {
					if id, ok := n.(*ast.Ident); ok {
						if o := info.Uses[id]; o != nil {
							uses[o] = append(uses[o], id.Pos())
						}
					}
					return true
				})
				ast.Inspect(fd.Body, func(n ast.Node) bool {
					as, ok := n.(*ast.AssignStmt)
					if !ok || as.Tok != token.DEFINE {
						return true
					}
					for _, l := range as.Lhs {
						id, ok := l.(*ast.Ident)
						if !ok || id.Name == "_" {
							continue
						}
						inner := info.Defs[id]
						if inner == nil {
							continue
						}
						iscope := inner.Parent()
						if iscope == nil || iscope == fscope {
							continue
						}
						// the same name in an enclosing scope of the same function, declared earlier
						var outer types.Object
						for s := iscope.Parent(); s != nil; s = s.Parent() {
							if o := s.Lookup(id.Name); o != nil && o.Pos() < inner.Pos() && o.Pos() >= fd.Pos() {
								outer = o
								break
							}
							if s == fscope {
								break
							}
						}
						if outer == nil || !types.Identical(outer.Type(), inner.Type()) {
							continue
						}
						if _, isVar := outer.(*types.Var); !isVar {
							continue
						}
						// a logger enriched for the block (`log := log.With()….Logger()`): the narrower logger is meant to end
						// with the block, and a logger carries nothing that a result depends on
						if strings.HasSuffix(strings.TrimPrefix(inner.Type().String(), "*"), "zerolog.Logger") {
							continue
						}
						if inlinedAt(inner.Pos()) != inlinedAt(outer.Pos()) || strings.HasPrefix(id.Name, "__vn") {
							continue
						}
						// is the hidden variable read after the inner scope ends?
						var later token.Pos
						for _, up := range uses[outer] {
							if up > iscope.End() && (later == token.NoPos || up < later) {
								later = up
							}
						}
						if later == token.NoPos {
							continue
						}
						// a closure body is its own flow (goroutines, deferred functions): not judged
						inLit := false
						ast.Inspect(fd.Body, func(m ast.Node) bool {
							if fl, ok := m.(*ast.FuncLit); ok && fl.Pos() <= inner.Pos() && inner.Pos() <= fl.End() && !(fl.Pos() <= outer.Pos() && outer.Pos() <= fl.End()) {
								inLit = true
							}
							return true
						})
						if inLit {
							continue
						}
						// the hidden variable is assigned anew between the end of the block and that read: nothing is lost
						reassigned := false
						ast.Inspect(fd.Body, func(m ast.Node) bool {
							as2, ok := m.(*ast.AssignStmt)
							if !ok || as2.Pos() < iscope.End() || as2.Pos() > later {
								return true
							}
							for _, l2 := range as2.Lhs {
								if id2, ok := l2.(*ast.Ident); ok && (info.Uses[id2] == outer || info.Defs[id2] == outer) {
									reassigned = true
								}
							}
							return true
						})
						if reassigned {
							continue
						}
						out = append(out, Shadowed{Pkg: rel, Func: fd.Name.Name, Name: id.Name, Inner: id.Pos(), UsedAt: later, IsError: IsErrorType(inner.Type())})
					}
					return true
				})
			}
		}
	}
	sort.Slice(out, func(i, j int) bool { return out[i].Inner < out[j].Inner })
	return out
}
