// Package core holds the engines shared by all rule packs: loading the
// repository, SSA/CFG path queries, lock sets, value description, evidence.
package core

import (
	"fmt"
	"go/ast"
	"go/token"
	"go/types"
	"os"
	"sort"
	"strings"

	"golang.org/x/tools/go/callgraph"
	"golang.org/x/tools/go/callgraph/cha"
	"golang.org/x/tools/go/callgraph/vta"
	"golang.org/x/tools/go/packages"
	"golang.org/x/tools/go/ssa"
	"golang.org/x/tools/go/ssa/ssautil"
)

// ModulePath is the module under analysis.
const ModulePath = "github.com/attestantio/vouch"

// Prog is the loaded, type-checked repository with SSA.
type Prog struct {
	Repo    string
	Fset    *token.FileSet
	All     []*packages.Package
	ByPath  map[string]*packages.Package // vouch packages by import path
	SSA     *ssa.Program
	SSAPkg  map[string]*ssa.Package
	cg      *callgraph.Graph
	allFns  map[*ssa.Function]bool
	srcFns  []*ssa.Function // every function (incl. closures) with source in production vouch packages
	GOARCH  string
	NumPkgs int
}

// IsProd reports whether the import path is production code of the module
// (not a mock, not a testing helper).
func IsProd(path string) bool {
	if path != ModulePath && !strings.HasPrefix(path, ModulePath+"/") {
		return false
	}
	rel := strings.TrimPrefix(path, ModulePath)
	if strings.HasPrefix(rel, "/mock") || strings.HasPrefix(rel, "/testing") || strings.HasPrefix(rel, "/testutil") {
		return false
	}
	if strings.HasSuffix(rel, "/mock") || strings.Contains(rel, "/mock/") {
		return false
	}
	return true
}

// Load loads the repository at dir. overlay maps absolute file names to
// replacement contents (used by the mutant self-test).
func Load(dir string, overlay map[string][]byte, goarch string) (*Prog, error) {
	env := append(os.Environ(), "GOFLAGS=-mod=mod", "GOPROXY=off", "GOSUMDB=off", "GOWORK=off", "GOTOOLCHAIN=local")
	if goarch != "" {
		env = append(env, "GOARCH="+goarch, "CGO_ENABLED=0")
	}
	cfg := &packages.Config{
		Mode:    packages.LoadSyntax | packages.NeedModule,
		Dir:     dir,
		Env:     env,
		Overlay: overlay,
		Tests:   false,
	}
	pkgs, err := packages.Load(cfg, "./...")
	if err != nil {
		return nil, fmt.Errorf("packages.Load: %w", err)
	}
	if len(pkgs) == 0 {
		return nil, fmt.Errorf("no packages loaded from %s", dir)
	}
	var errs []string
	packages.Visit(pkgs, nil, func(p *packages.Package) {
		if !strings.HasPrefix(p.PkgPath, ModulePath) {
			return
		}
		for _, e := range p.Errors {
			errs = append(errs, e.Error())
		}
	})
	if len(errs) > 0 {
		sort.Strings(errs)
		if len(errs) > 10 {
			errs = errs[:10]
		}
		return nil, fmt.Errorf("type/load errors in %s:\n  %s", dir, strings.Join(errs, "\n  "))
	}
	p := &Prog{Repo: dir, All: pkgs, ByPath: map[string]*packages.Package{}, SSAPkg: map[string]*ssa.Package{}, GOARCH: goarch}
	for _, pk := range pkgs {
		if pk.Fset != nil {
			p.Fset = pk.Fset
		}
		p.ByPath[pk.PkgPath] = pk
	}
	p.NumPkgs = len(pkgs)
	// SSA with bodies for the module's own packages only; dependencies are created from type information
	// (their bodies are not analysed; with an Overlay go/packages may hand out partially typed syntax for them).
	prog := ssa.NewProgram(p.Fset, ssa.InstantiateGenerics|ssa.GlobalDebug)
	packages.Visit(pkgs, nil, func(pk *packages.Package) {
		if pk.Types == nil || pk.IllTyped && !strings.HasPrefix(pk.PkgPath, ModulePath) {
			if pk.Types == nil {
				return
			}
		}
		if strings.HasPrefix(pk.PkgPath, ModulePath) && pk.TypesInfo != nil && len(pk.Syntax) > 0 {
			p.SSAPkg[pk.PkgPath] = prog.CreatePackage(pk.Types, pk.Syntax, pk.TypesInfo, true)
		} else {
			prog.CreatePackage(pk.Types, nil, nil, true)
		}
	})
	prog.Build()
	p.SSA = prog
	p.allFns = ssautil.AllFunctions(prog)
	for fn := range p.allFns {
		if fn.Pkg == nil || fn.Blocks == nil {
			continue
		}
		if !IsProd(fn.Pkg.Pkg.Path()) {
			continue
		}
		if fn.Synthetic != "" && !strings.HasPrefix(fn.Synthetic, "package initializer") {
			// wrappers, bound methods: skip; they have no source of their own.
			continue
		}
		p.srcFns = append(p.srcFns, fn)
	}
	sort.Slice(p.srcFns, func(i, j int) bool { return FnKey(p.srcFns[i]) < FnKey(p.srcFns[j]) })
	return p, nil
}

// SrcFuncs returns all production functions (including closures) with bodies.
func (p *Prog) SrcFuncs() []*ssa.Function { return p.srcFns }

// FuncsIn returns the production functions of packages whose path has one of the given suffixes
// (relative to the module, e.g. "services/attester/standard").
func (p *Prog) FuncsIn(rels ...string) []*ssa.Function {
	var out []*ssa.Function
	for _, fn := range p.srcFns {
		pp := fn.Pkg.Pkg.Path()
		for _, r := range rels {
			if pp == ModulePath+"/"+r || (r == "" && pp == ModulePath) {
				out = append(out, fn)
				break
			}
		}
	}
	return out
}

// CallGraph returns the VTA-over-CHA call graph (built on first use).
func (p *Prog) CallGraph() *callgraph.Graph {
	if p.cg == nil {
		p.cg = vta.CallGraph(p.allFns, cha.CallGraph(p.SSA))
	}
	return p.cg
}

// Pos renders a position relative to the repository.
func (p *Prog) Pos(pos token.Pos) string {
	if !pos.IsValid() {
		return "?"
	}
	ps := p.Fset.Position(pos)
	f := strings.TrimPrefix(ps.Filename, p.Repo+"/")
	return fmt.Sprintf("%s:%d", f, ps.Line)
}

// RelPkg returns the package path relative to the module.
func RelPkg(path string) string {
	if path == ModulePath {
		return "."
	}
	return strings.TrimPrefix(path, ModulePath+"/")
}

// FnKey is a stable, line-free name of a function: rel-pkg.(Recv).Name[$closure-index].
func FnKey(fn *ssa.Function) string {
	if fn == nil {
		return "<nil>"
	}
	if fn.Parent() != nil {
		// closure: parent key + ordinal among the parent's anonymous functions
		par := fn.Parent()
		for i, a := range par.AnonFuncs {
			if a == fn {
				return fmt.Sprintf("%s$%d", FnKey(par), i+1)
			}
		}
		return FnKey(par) + "$?"
	}
	pk := ""
	if fn.Pkg != nil {
		pk = RelPkg(fn.Pkg.Pkg.Path())
	} else if fn.Object() != nil && fn.Object().Pkg() != nil {
		pk = RelPkg(fn.Object().Pkg().Path())
	}
	if recv := fn.Signature.Recv(); recv != nil {
		t := recv.Type()
		if pt, ok := t.(*types.Pointer); ok {
			t = pt.Elem()
		}
		if nt, ok := t.(*types.Named); ok {
			return fmt.Sprintf("%s.%s.%s", pk, nt.Obj().Name(), fn.Name())
		}
	}
	return pk + "." + fn.Name()
}

// Func finds a package-level function or method by relative package, receiver type name ("" for none) and name.
func (p *Prog) Func(rel, recv, name string) *ssa.Function {
	sp := p.SSAPkg[ModulePath+"/"+rel]
	if rel == "." {
		sp = p.SSAPkg[ModulePath]
	}
	if sp == nil {
		return nil
	}
	if recv == "" {
		return sp.Func(name)
	}
	t := sp.Type(recv)
	if t == nil {
		return nil
	}
	nt := t.Type().(*types.Named)
	for _, typ := range []types.Type{types.NewPointer(nt), nt} {
		ms := p.SSA.MethodSets.MethodSet(typ)
		for i := 0; i < ms.Len(); i++ {
			if ms.At(i).Obj().Name() == name {
				if f := p.SSA.MethodValue(ms.At(i)); f != nil && f.Synthetic == "" {
					return f
				}
			}
		}
	}
	return nil
}

// FileOf returns the syntax file containing pos in a production package.
func (p *Prog) FileOf(pos token.Pos) (*packages.Package, *ast.File) {
	for _, pk := range p.All {
		for _, f := range pk.Syntax {
			if f.Pos() <= pos && pos <= f.End() {
				return pk, f
			}
		}
	}
	return nil, nil
}

// WithClosures returns fn and all anonymous functions nested in it.
func WithClosures(fn *ssa.Function) []*ssa.Function {
	out := []*ssa.Function{fn}
	for _, a := range fn.AnonFuncs {
		out = append(out, WithClosures(a)...)
	}
	return out
}
