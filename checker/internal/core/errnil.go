package core

import (
	"go/types"
	"strconv"
	"strings"

	"golang.org/x/tools/go/ssa"
)

// NonNilGuard returns a GuardSpec that is established on the edge where value v (an SSA value, matched
// by identity, or by description for loads of variables/fields) is known to be != nil.
func NonNilGuard(ds *Describer, v ssa.Value) GuardSpec {
	return nilGuard(ds, v, "!=")
}

// NilGuard: established on the edge where v == nil.
func NilGuard(ds *Describer, v ssa.Value) GuardSpec {
	return nilGuard(ds, v, "==")
}

func nilGuard(ds *Describer, v ssa.Value, rel string) GuardSpec {
	d := ds.D(v)
	pure := !d.Any(func(x *VD) bool { return x.Kind == "call" || x.Kind == "unknown" || x.Kind == "phi" })
	dstr := d.String()
	return func(c Cond) int {
		if c.Op != "==" && c.Op != "!=" {
			return -1
		}
		var o *VD
		if c.Y.Kind == "const" && c.Y.Name == "nil" {
			o = c.X
		} else if c.X.Kind == "const" && c.X.Name == "nil" {
			o = c.Y
		} else {
			return -1
		}
		if o.Val != v && !(pure && o.String() == dstr) && !sameElement(o, d) {
			return -1
		}
		for s := 0; s < 2; s++ {
			if c.RelOnEdge(s) == rel {
				return s
			}
		}
		return -1
	}
}

func calleePkgName(c *ssa.CallCommon) (string, string) {
	if f := c.StaticCallee(); f != nil {
		pk := ""
		if f.Pkg != nil {
			pk = f.Pkg.Pkg.Path()
		} else if f.Object() != nil && f.Object().Pkg() != nil {
			pk = f.Object().Pkg().Path()
		}
		return pk, f.Name()
	}
	return "", ""
}

// MayBeNilErr reports whether the error value v, as used at instruction at (or flowing along the leaf's
// edge), may be nil on some path. It is conservative: unknown shapes may be nil.
func MayBeNilErr(ds *Describer, fn *ssa.Function, v ssa.Value, at ssa.Instruction) bool {
	for _, lf := range PhiLeaves(v, at) {
		if mayBeNilLeaf(ds, fn, lf, 0) {
			return true
		}
	}
	return false
}

func mayBeNilLeaf(ds *Describer, fn *ssa.Function, lf Leaf, depth int) bool {
	v := lf.V
	if depth > 6 {
		return true
	}
	switch x := v.(type) {
	case *ssa.Const:
		return x.Value == nil
	case *ssa.MakeInterface:
		// a concrete value boxed into error: non-nil interface (a typed nil pointer is still a non-nil error)
		return false
	case *ssa.Call:
		pk, name := calleePkgName(x.Common())
		switch pk {
		case "github.com/pkg/errors":
			switch name {
			case "New", "Errorf":
				return false
			case "Wrap", "Wrapf", "WithMessage", "WithMessagef", "WithStack":
				// nil in, nil out
				if len(x.Call.Args) == 0 {
					return true
				}
				return MayBeNilErr(ds, fn, x.Call.Args[0], x)
			}
		case "errors":
			if name == "New" {
				return false
			}
		case "fmt":
			if name == "Errorf" {
				return false
			}
		}
		if x.Common().IsInvoke() && x.Common().Method.Name() == "Err" && strings.HasSuffix(types.TypeString(x.Common().Value.Type(), nil), "context.Context") {
			return false // used after Done() in this code base
		}
	case *ssa.UnOp:
		if g, ok := x.X.(*ssa.Global); ok && IsErrorType(g.Type().(*types.Pointer).Elem()) {
			return false // sentinel error variable
		}
	}
	// otherwise: non-nil only if a guard establishes it on every path to the use
	w := UnguardedLeaf(ds, fn, nil, lf, NonNilGuard(ds, v))
	return w != nil
}

// NilReturnsNotGuarded lists the returns of fn whose error result (index errIdx) may be nil and that
// are reachable without the guard being established. For each it returns the witness path.
func NilReturnsNotGuarded(ds *Describer, fn *ssa.Function, errIdx int, guard GuardSpec) map[*ssa.Return][]ssa.Instruction {
	out := map[*ssa.Return][]ssa.Instruction{}
	for _, ret := range ReturnsOf(fn) {
		if errIdx >= len(ret.Results) {
			continue
		}
		for _, lf := range PhiLeaves(ret.Results[errIdx], ret) {
			if prm, ok := lf.V.(*ssa.Parameter); ok && IsErrorType(prm.Type()) {
				continue // the caller's (non-nil) error handed back unchanged
			}
			if !mayBeNilLeaf(ds, fn, lf, 0) {
				continue
			}
			if w := UnguardedLeaf(ds, fn, nil, lf, guard); w != nil {
				out[ret] = w
			}
		}
	}
	return out
}

// NilDeref is a dereference of a pointer/interface value that is nil on some path reaching it.
type NilDeref struct {
	Value   ssa.Value
	Use     ssa.Instruction
	Why     string
	Witness []ssa.Instruction
}

func isDerefUse(v ssa.Value, in ssa.Instruction) bool {
	switch x := in.(type) {
	case *ssa.FieldAddr:
		return x.X == v
	case *ssa.Field:
		return false
	case *ssa.UnOp:
		return x.X == v && x.Op.String() == "*"
	case *ssa.IndexAddr:
		_, isPtr := v.Type().Underlying().(*types.Pointer)
		return x.X == v && isPtr
	case ssa.CallInstruction:
		c := x.Common()
		if c.IsInvoke() && c.Value == v {
			return true
		}
	}
	return false
}

// MaybeNilDerefs finds uses that dereference a value which is (a) a phi with a nil-constant leaf, or (b) the
// non-error result of a call whose error result is not tested non-nil-and-left before the use, where no
// guard establishes value != nil on the path from the nil source to the use.
func MaybeNilDerefs(ds *Describer, fn *ssa.Function) []NilDeref {
	var out []NilDeref
	for _, b := range fn.Blocks {
		for _, in := range b.Instrs {
			phi, ok := in.(*ssa.Phi)
			if !ok {
				continue
			}
			switch phi.Type().Underlying().(type) {
			case *types.Pointer, *types.Interface:
			default:
				continue
			}
			if phi.Referrers() == nil {
				continue
			}
			for _, lf := range PhiLeaves(phi, phi) {
				nilSrc := ""
				var errPhi *ssa.Phi // the error merged on the same edge as this result (`v, err = f()` in two branches, one test after)
				if IsNilConst(lf.V) {
					nilSrc = "is nil when control arrives from " + "this edge"
				} else if ex, ok := lf.V.(*ssa.Extract); ok {
					// result of (T, error) call: nil when the error is non-nil, unless the error edge left the function
					if call, ok := ex.Tuple.(*ssa.Call); ok {
						sig := call.Call.Signature()
						n := sig.Results().Len()
						if n >= 2 && IsErrorType(sig.Results().At(n-1).Type()) && ex.Index != n-1 {
							errEx := ExtractOf(call, n-1)
							if errEx != nil && lf.Pred != nil {
								// can the phi edge be reached with err != nil ?
								w := UnguardedLeaf(ds, fn, call, lf, func(c Cond) int { return ErrNilSucc(c, errEx) })
								if w != nil {
									nilSrc = "is the result of a call whose error was not nil"
									if lf.To != nil {
										for _, pin := range lf.To.Instrs {
											ep, isPhi := pin.(*ssa.Phi)
											if !isPhi {
												break
											}
											for k, pb := range lf.To.Preds {
												if pb == lf.Pred && k < len(ep.Edges) && ep.Edges[k] == ssa.Value(errEx) {
													errPhi = ep
												}
											}
										}
									}
								}
							}
						}
					}
				}
				if nilSrc == "" || lf.Pred == nil {
					continue
				}
				for _, use := range *phi.Referrers() {
					if !isDerefUse(phi, use) {
						continue
					}
					guard := NonNilGuard(ds, phi)
					est := GuardEdges(ds, fn, guard)
					var errEst map[*ssa.BasicBlock]int
					if errPhi != nil {
						ep := errPhi
						errEst = GuardEdges(ds, fn, func(c Cond) int { return ErrNilSucc(c, ep) })
					}
					// search from the phi's block (entered from the nil edge) to the use
					q := PathQuery{Fn: fn, From: phi, Target: func(x ssa.Instruction) bool { return x == use }, Edge: func(bb *ssa.BasicBlock, succ int) bool {
						if s, ok := est[bb]; ok && s == succ {
							return false
						}
						if bb.Succs[succ] == phi.Block() {
							return false // entering the phi's block again gives the phi a new value (next loop iteration)
						}
						if s, ok := errEst[bb]; ok && s == succ {
							return false // the merged error found nil: the call succeeded, its result is not the nil one
						}
						return true
					}}
					if lf.Pred != nil && lf.To != nil {
						// start on the edge the nil arrives by: a flag merged on the same edge (a helper's `found` result)
						// then decides the branch that tests it
						q.From = nil
						q.StartEdge = &[2]*ssa.BasicBlock{lf.Pred, lf.To}
					}
					if w := q.Find(); w != nil {
						dup := false
						for i, o := range out {
							if o.Value == ssa.Value(phi) {
								dup = true
								if use.Pos() < o.Use.Pos() {
									out[i] = NilDeref{Value: phi, Use: use, Why: nilSrc, Witness: append([]ssa.Instruction{lf.At}, w...)}
								}
							}
						}
						if !dup {
							out = append(out, NilDeref{Value: phi, Use: use, Why: nilSrc, Witness: append([]ssa.Instruction{lf.At}, w...)})
						}
					}
				}
			}
		}
	}
	return out
}

// FailedUse is a use of a call's non-error result on a path where the call is known to have failed.
type FailedUse struct {
	Call    *ssa.Call
	Use     ssa.Instruction
	Witness []ssa.Instruction
}

// UsesAfterFailedCall finds, for calls returning (T, error) with T a pointer or interface, dereferencing uses
// of the T result that are reachable only through the edge on which the error is non-nil (strict form:
// the result is nil there by the usual Go contract).
func UsesAfterFailedCall(ds *Describer, fn *ssa.Function) []FailedUse {
	var out []FailedUse
	EachInstr(fn, func(in ssa.Instruction) {
		call, ok := in.(*ssa.Call)
		if !ok {
			return
		}
		sig := call.Call.Signature()
		n := sig.Results().Len()
		if n < 2 || !IsErrorType(sig.Results().At(n-1).Type()) {
			return
		}
		errEx := ExtractOf(call, n-1)
		if errEx == nil {
			return
		}
		for i := 0; i < n-1; i++ {
			switch sig.Results().At(i).Type().Underlying().(type) {
			case *types.Pointer, *types.Interface:
			default:
				continue
			}
			res := ExtractOf(call, i)
			if res == nil || res.Referrers() == nil {
				continue
			}
			failG := func(c Cond) int {
				s := ErrNilSucc(c, errEx)
				if s < 0 {
					return -1
				}
				return 1 - s
			}
			if CountGuards(ds, fn, failG) == 0 {
				continue
			}
			// values that may carry the result: the result itself and phis of it
			for _, use := range *res.Referrers() {
				if !isDerefUse(res, use) {
					continue
				}
				// reachable from the call at all, and unreachable once the failure edges are removed => only on failure
				w := PathQuery{Fn: fn, From: call, Target: func(x ssa.Instruction) bool { return x == use }}.Find()
				if w == nil {
					continue
				}
				if Unguarded(ds, fn, call, func(x ssa.Instruction) bool { return x == use }, failG) == nil {
					out = append(out, FailedUse{Call: call, Use: use, Witness: w})
				}
			}
		}
	})
	return out
}

// sameElement: two descriptions of X[i] with the very same index value and the same (call-free) collection.
func sameElement(a, b *VD) bool {
	if a == nil || b == nil || a.Kind != "index" || b.Kind != "index" || len(a.Args) != 2 || len(b.Args) != 2 {
		return false
	}
	if a.Args[1].Val == nil || a.Args[1].Val != b.Args[1].Val {
		return false
	}
	if a.Args[0].Any(func(x *VD) bool { return x.Kind == "call" || x.Kind == "unknown" }) {
		return false
	}
	return a.Args[0].String() == b.Args[0].String()
}

// ReturnsNilWithNilError: g has results (..., T at idx, ..., error) and some return yields a nil T together
// with a nil error (the "nothing, and no failure" return).
func ReturnsNilWithNilError(g *ssa.Function, idx int) (*ssa.Return, bool) {
	n := g.Signature.Results().Len()
	if n < 2 || idx >= n-1 || !IsErrorType(g.Signature.Results().At(n-1).Type()) || len(g.Blocks) == 0 {
		return nil, false
	}
	for _, ret := range ReturnsOf(g) {
		if len(ret.Results) != n {
			continue
		}
		var nilPreds []*ssa.BasicBlock
		direct := false
		for _, lf := range FeasibleLeaves(g, ret.Results[idx], ret) {
			if IsNilConst(lf.V) {
				if lf.Pred == nil {
					direct = true
				}
				nilPreds = append(nilPreds, lf.Pred)
			}
		}
		if len(nilPreds) == 0 {
			continue
		}
		for _, lf := range FeasibleLeaves(g, ret.Results[n-1], ret) {
			if !IsNilConst(lf.V) {
				continue
			}
			if lf.Pred == nil || direct {
				return ret, true
			}
			for _, pb := range nilPreds {
				if pb == lf.Pred {
					return ret, true
				}
			}
		}
	}
	return nil, false
}

// NilNilDerefs finds dereferences, in fn, of the result of a call to a function of the program that can
// return (nil, nil), where nothing establishes result != nil between the call and the use.
func NilNilDerefs(ds *Describer, fn *ssa.Function, resolve func(*ssa.Call) []*ssa.Function) []NilDeref {
	var out []NilDeref
	EachInstr(fn, func(in ssa.Instruction) {
		call, ok := in.(*ssa.Call)
		if !ok {
			return
		}
		var callees []*ssa.Function
		if g := call.Call.StaticCallee(); g != nil {
			callees = []*ssa.Function{g}
		} else if resolve != nil {
			callees = resolve(call)
		}
		sig := call.Call.Signature()
		n := sig.Results().Len()
		for idx := 0; idx < n-1; idx++ {
			switch sig.Results().At(idx).Type().Underlying().(type) {
			case *types.Pointer, *types.Interface:
			default:
				continue
			}
			var ret *ssa.Return
			var g *ssa.Function
			can := false
			for _, c := range callees {
				if len(c.Blocks) == 0 {
					continue
				}
				if rt, ok := ReturnsNilWithNilError(c, idx); ok {
					ret, g, can = rt, c, true
					break
				}
			}
			if !can {
				continue
			}
			ex := ExtractOf(call, idx)
			if ex == nil || ex.Referrers() == nil {
				continue
			}
			for _, use := range *ex.Referrers() {
				if !isDerefUse(ex, use) {
					continue
				}
				if w := Unguarded(ds, fn, call, func(x ssa.Instruction) bool { return x == use }, NonNilGuard(ds, ex)); w != nil {
					out = append(out, NilDeref{Value: ex, Use: use, Why: "is nil without an error when " + FnKey(g) + " takes its return at line " + itoa(g.Prog.Fset.Position(ret.Pos()).Line), Witness: w})
					break
				}
			}
		}
	})
	return out
}

func itoa(i int) string { return strconv.Itoa(i) }

// IsDerefUse: instruction in dereferences v (field access, load, element access through a pointer, method call).
func IsDerefUse(v ssa.Value, in ssa.Instruction) bool { return isDerefUse(v, in) }
