package core

import (
	"go/types"
	"strings"

	"golang.org/x/tools/go/ssa"
)

// NonNilGuard returns a GuardSpec that is established on the edge where value v (an SSA value, matched
// by identity, or by description for loads of variables/fields) is known to be != nil.
func NonNilGuard(ds *Describer, v ssa.Value) GuardSpec {
	return nilGuard(ds, v, "!=")
}

// NilGuard: established on the edge where v == nil.
func NilGuard(ds *Describer, v ssa.Value) GuardSpec {
	return nilGuard(ds, v, "==")
}

func nilGuard(ds *Describer, v ssa.Value, rel string) GuardSpec {
	d := ds.D(v)
	pure := !d.Any(func(x *VD) bool { return x.Kind == "call" || x.Kind == "unknown" || x.Kind == "phi" })
	dstr := d.String()
	return func(c Cond) int {
		if c.Op != "==" && c.Op != "!=" {
			return -1
		}
		var o *VD
		if c.Y.Kind == "const" && c.Y.Name == "nil" {
			o = c.X
		} else if c.X.Kind == "const" && c.X.Name == "nil" {
			o = c.Y
		} else {
			return -1
		}
		if o.Val != v && !(pure && o.String() == dstr) {
			return -1
		}
		for s := 0; s < 2; s++ {
			if c.RelOnEdge(s) == rel {
				return s
			}
		}
		return -1
	}
}

func calleePkgName(c *ssa.CallCommon) (string, string) {
	if f := c.StaticCallee(); f != nil {
		pk := ""
		if f.Pkg != nil {
			pk = f.Pkg.Pkg.Path()
		} else if f.Object() != nil && f.Object().Pkg() != nil {
			pk = f.Object().Pkg().Path()
		}
		return pk, f.Name()
	}
	return "", ""
}

// MayBeNilErr reports whether the error value v, as used at instruction at (or flowing along the leaf's
// edge), may be nil on some path. It is conservative: unknown shapes may be nil.
func MayBeNilErr(ds *Describer, fn *ssa.Function, v ssa.Value, at ssa.Instruction) bool {
	for _, lf := range PhiLeaves(v, at) {
		if mayBeNilLeaf(ds, fn, lf, 0) {
			return true
		}
	}
	return false
}

func mayBeNilLeaf(ds *Describer, fn *ssa.Function, lf Leaf, depth int) bool {
	v := lf.V
	if depth > 6 {
		return true
	}
	switch x := v.(type) {
	case *ssa.Const:
		return x.Value == nil
	case *ssa.MakeInterface:
		// a concrete value boxed into error: non-nil interface (a typed nil pointer is still a non-nil error)
		return false
	case *ssa.Call:
		pk, name := calleePkgName(x.Common())
		switch pk {
		case "github.com/pkg/errors":
			switch name {
			case "New", "Errorf":
				return false
			case "Wrap", "Wrapf", "WithMessage", "WithMessagef", "WithStack":
				// nil in, nil out
				if len(x.Call.Args) == 0 {
					return true
				}
				return MayBeNilErr(ds, fn, x.Call.Args[0], x)
			}
		case "errors":
			if name == "New" {
				return false
			}
		case "fmt":
			if name == "Errorf" {
				return false
			}
		}
		if x.Common().IsInvoke() && x.Common().Method.Name() == "Err" && strings.HasSuffix(types.TypeString(x.Common().Value.Type(), nil), "context.Context") {
			return false // used after Done() in this code base
		}
	case *ssa.UnOp:
		if g, ok := x.X.(*ssa.Global); ok && IsErrorType(g.Type().(*types.Pointer).Elem()) {
			return false // sentinel error variable
		}
	}
	// otherwise: non-nil only if a guard establishes it on every path to the use
	w := UnguardedLeaf(ds, fn, nil, lf, NonNilGuard(ds, v))
	return w != nil
}

// NilReturnsNotGuarded lists the returns of fn whose error result (index errIdx) may be nil and that
// are reachable without the guard being established. For each it returns the witness path.
func NilReturnsNotGuarded(ds *Describer, fn *ssa.Function, errIdx int, guard GuardSpec) map[*ssa.Return][]ssa.Instruction {
	out := map[*ssa.Return][]ssa.Instruction{}
	for _, ret := range ReturnsOf(fn) {
		if errIdx >= len(ret.Results) {
			continue
		}
		if !MayBeNilErr(ds, fn, ret.Results[errIdx], ret) {
			continue
		}
		if w := Unguarded(ds, fn, nil, func(in ssa.Instruction) bool { return in == ssa.Instruction(ret) }, guard); w != nil {
			out[ret] = w
		}
	}
	return out
}
