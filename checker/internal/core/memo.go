package core

import (
	"fmt"
	"go/ast"
	"go/parser"
	"go/token"
	"go/types"
	"io/fs"
	"os"
	"path/filepath"
	"sort"
	"strings"
)

// InlineMemo removes memo tables that live inside one call and are keyed by everything the remembered value depends
// on:
//
//	m := make(map[K]V)
//	for … {
//		v, ok := m[key]
//		if !ok {
//			…; v = f(key, invariants); …
//			m[key] = v
//		}
//		… v …
//	}
//
// becomes `var v V; { …; v = f(key, invariants); … }`: the value is computed where it is used, which is what the
// rules are written for. The rewrite is done only when it cannot change a value:
//
//   - the map is a local made in this function and mentioned nowhere else (only the lookups and the stores of such
//     memo sites), so it is empty on entry and nothing else fills it;
//   - the miss branch, apart from occurrences of the key expression itself, mentions no name that is declared or
//     assigned inside the enclosing loop (the loop variables included): what it computes is a function of the key and
//     of values that are the same on every trip. A memo keyed by one field of an object whose other fields enter the
//     computation (`m[x[i].f]` filled from `g(x[i])`) mentions the loop variable outside the key and is left as it is
//     — that is the defect "second object gets the first one's value", and the rules see it.
//
// Purely syntactic; the pinned tree has no such memo.
func InlineMemo(dir string, overlay map[string][]byte) (map[string][]byte, []string) {
	cur := map[string][]byte{}
	for k, v := range overlay {
		cur[k] = v
	}
	var notes []string
	_ = filepath.WalkDir(dir, func(path string, d fs.DirEntry, err error) error {
		if err != nil {
			return nil
		}
		if d.IsDir() {
			n := d.Name()
			if path != dir && (strings.HasPrefix(n, ".") || n == "testdata" || n == "vendor") {
				return filepath.SkipDir
			}
			return nil
		}
		if !strings.HasSuffix(path, ".go") || strings.HasSuffix(path, "_test.go") {
			return nil
		}
		text, ok := cur[path]
		if !ok {
			b, rerr := os.ReadFile(path)
			if rerr != nil {
				return nil
			}
			text = b
		}
		if !strings.Contains(string(text), "map[") {
			return nil
		}
		rel, _ := filepath.Rel(dir, filepath.Dir(path))
		pkgPath := ModulePath
		if rel != "." {
			pkgPath = ModulePath + "/" + filepath.ToSlash(rel)
		}
		if !IsProd(pkgPath) {
			return nil
		}
		fset := token.NewFileSet()
		file, perr := parser.ParseFile(fset, path, text, parser.SkipObjectResolution)
		if perr != nil || file == nil {
			return nil
		}
		var edits []edit
		for _, dd := range file.Decls {
			fd, ok := dd.(*ast.FuncDecl)
			if !ok || fd.Body == nil {
				continue
			}
			es := inlineMemoFunc(fset, text, fd)
			if len(es) > 0 {
				edits = append(edits, es...)
				notes = append(notes, fmt.Sprintf("removed a memo table local to one call of %s (keyed by all that the remembered value depends on)", FuncDeclKey(pkgPath, fd)))
			}
		}
		if len(edits) == 0 {
			return nil
		}
		sort.Slice(edits, func(i, j int) bool { return edits[i].start > edits[j].start })
		out := append([]byte{}, text...)
		for _, e := range edits {
			out = append(out[:e.start], append([]byte(e.text), out[e.end:]...)...)
		}
		cur[path] = out
		return nil
	})
	if len(notes) == 0 {
		return overlay, nil
	}
	return cur, notes
}

type memoSite struct {
	lookup   *ast.AssignStmt
	miss     *ast.IfStmt
	store    *ast.AssignStmt
	m, v     string
	loop     ast.Node // the innermost enclosing loop, or the function literal the site sits in (called repeatedly, the map made outside it)
	key      string
	culprits []string
}

type memoMade struct {
	decl  *ast.AssignStmt
	vtype string
}

// findMemoSites: the memo sites of a function (lookup with presence flag, miss branch ending in the store under the
// same key, on a map made in the function), each with the names that make its miss branch more than a function of the
// key (none: the memo is exact).
func findMemoSites(fd *ast.FuncDecl, src func(ast.Node) string) ([]*memoSite, map[string]*memoMade) {
	makes := map[string]*memoMade{}
	dup := map[string]bool{}
	ast.Inspect(fd.Body, func(n ast.Node) bool {
		as, ok := n.(*ast.AssignStmt)
		if !ok || as.Tok != token.DEFINE || len(as.Lhs) != 1 || len(as.Rhs) != 1 {
			return true
		}
		id, ok := as.Lhs[0].(*ast.Ident)
		if !ok {
			return true
		}
		if cl, isLit := as.Rhs[0].(*ast.CompositeLit); isLit && len(cl.Elts) == 0 {
			// `m := map[K]V{}`
			if mt, ok := cl.Type.(*ast.MapType); ok {
				if makes[id.Name] != nil {
					dup[id.Name] = true
				}
				makes[id.Name] = &memoMade{as, src(mt.Value)}
			}
			return true
		}
		c, ok := as.Rhs[0].(*ast.CallExpr)
		if !ok || len(c.Args) == 0 {
			return true
		}
		if fn, ok := c.Fun.(*ast.Ident); !ok || fn.Name != "make" {
			return true
		}
		mt, ok := c.Args[0].(*ast.MapType)
		if !ok {
			return true
		}
		if makes[id.Name] != nil {
			dup[id.Name] = true
		}
		makes[id.Name] = &memoMade{as, src(mt.Value)}
		return true
	})
	if len(makes) == 0 {
		return nil, makes
	}
	// memo sites, with the innermost enclosing loop
	var sites []*memoSite
	var walk func(n ast.Node, loop ast.Node)
	lists := func(list []ast.Stmt, loop ast.Node) {
		for i := 0; i+1 < len(list); i++ {
			as, ok := list[i].(*ast.AssignStmt)
			if !ok || as.Tok != token.DEFINE || len(as.Lhs) != 2 || len(as.Rhs) != 1 {
				continue
			}
			ix, ok := as.Rhs[0].(*ast.IndexExpr)
			if !ok {
				continue
			}
			mid, ok := ix.X.(*ast.Ident)
			if !ok || makes[mid.Name] == nil || dup[mid.Name] {
				continue
			}
			vid, ok1 := as.Lhs[0].(*ast.Ident)
			okid, ok2 := as.Lhs[1].(*ast.Ident)
			if !ok1 || !ok2 || vid.Name == "_" || okid.Name == "_" {
				continue
			}
			iff, ok := list[i+1].(*ast.IfStmt)
			if !ok || iff.Init != nil || iff.Else != nil || len(iff.Body.List) == 0 {
				continue
			}
			un, ok := iff.Cond.(*ast.UnaryExpr)
			if !ok || un.Op != token.NOT {
				continue
			}
			if c, ok := un.X.(*ast.Ident); !ok || c.Name != okid.Name {
				continue
			}
			st, ok := iff.Body.List[len(iff.Body.List)-1].(*ast.AssignStmt)
			if !ok || st.Tok != token.ASSIGN || len(st.Lhs) != 1 || len(st.Rhs) != 1 {
				continue
			}
			six, ok := st.Lhs[0].(*ast.IndexExpr)
			if !ok {
				continue
			}
			if sm, ok := six.X.(*ast.Ident); !ok || sm.Name != mid.Name {
				continue
			}
			if sv, ok := st.Rhs[0].(*ast.Ident); !ok || sv.Name != vid.Name {
				continue
			}
			key := src(ix.Index)
			if src(six.Index) != key {
				continue
			}
			// the presence flag is not used again in this list
			used := false
			for _, rest := range list[i+2:] {
				ast.Inspect(rest, func(n ast.Node) bool {
					if id, ok := n.(*ast.Ident); ok && id.Name == okid.Name {
						used = true
					}
					return !used
				})
			}
			if used {
				continue
			}
			scope := loop
			if lit, isLit := scope.(*ast.FuncLit); isLit {
				if d := makes[mid.Name].decl; d.Pos() >= lit.Pos() && d.End() <= lit.End() {
					scope = nil // the table is made anew by every call of the literal
				}
			}
			culprits := memoMissCulprits(src, iff, st, key, vid.Name, scope)
			sites = append(sites, &memoSite{lookup: as, miss: iff, store: st, m: mid.Name, v: vid.Name, loop: scope, key: key, culprits: culprits})
		}
	}
	walk = func(n ast.Node, loop ast.Node) {
		ast.Inspect(n, func(y ast.Node) bool {
			if y == nil || y == n {
				return true
			}
			switch z := y.(type) {
			case *ast.FuncLit:
				walk(z.Body, z)
				lists(z.Body.List, z)
				return false
			case *ast.ForStmt:
				walk(z.Body, z)
				lists(z.Body.List, z)
				return false
			case *ast.RangeStmt:
				walk(z.Body, z)
				lists(z.Body.List, z)
				return false
			case *ast.BlockStmt:
				lists(z.List, loop)
			case *ast.CaseClause:
				lists(z.Body, loop)
			case *ast.CommClause:
				lists(z.Body, loop)
			}
			return true
		})
	}
	lists(fd.Body.List, nil)
	walk(fd.Body, nil)
	return sites, makes
}

func inlineMemoFunc(fset *token.FileSet, text []byte, fd *ast.FuncDecl) []edit {
	off := func(p token.Pos) int { return fset.PositionFor(p, false).Offset }
	src := func(n ast.Node) string { return string(text[off(n.Pos()):off(n.End())]) }
	all, makes := findMemoSites(fd, src)
	var sites []*memoSite
	for _, st := range all {
		if len(st.culprits) == 0 {
			sites = append(sites, st)
		}
	}
	if len(sites) == 0 {
		return nil
	}
	// every mention of the map is its making, or a lookup or store of a site
	perMap := map[string]int{}
	for _, s := range sites {
		perMap[s.m] += 2
	}
	mentions := map[string]int{}
	ast.Inspect(fd.Body, func(n ast.Node) bool {
		if id, ok := n.(*ast.Ident); ok && makes[id.Name] != nil {
			mentions[id.Name]++
		}
		return true
	})
	var edits []edit
	for name, n := range perMap {
		if mentions[name] != n+1 {
			continue
		}
		mk := makes[name]
		edits = append(edits, edit{off(mk.decl.Pos()), off(mk.decl.End()), ""})
		for _, s := range sites {
			if s.m != name {
				continue
			}
			edits = append(edits, edit{off(s.lookup.Pos()), off(s.lookup.End()), "var " + s.v + " " + mk.vtype})
			// the miss branch runs always; its last statement (the store) goes
			edits = append(edits, edit{off(s.miss.Pos()), off(s.miss.Body.Lbrace), ""})
			edits = append(edits, edit{off(s.store.Pos()), off(s.store.End()), ""})
		}
	}
	return edits
}

// memoMissCulprits: the names that stand in the way of this — outside occurrences of the key expression, the miss branch mentions no name declared or
// assigned inside the enclosing loop (other than names it declares itself, and the remembered variable).
func memoMissCulprits(src func(ast.Node) string, miss *ast.IfStmt, store *ast.AssignStmt, key, v string, loop ast.Node) []string {
	variant := map[string]bool{}
	addLHS := func(e ast.Expr) {
		for {
			switch x := e.(type) {
			case *ast.Ident:
				variant[x.Name] = true
				return
			case *ast.IndexExpr:
				e = x.X
			case *ast.SelectorExpr:
				e = x.X
			case *ast.StarExpr:
				e = x.X
			case *ast.ParenExpr:
				e = x.X
			default:
				return
			}
		}
	}
	if lit, isLit := loop.(*ast.FuncLit); isLit && lit.Type.Params != nil {
		// a literal that is called again and again: what differs from call to call are its parameters
		for _, fl := range lit.Type.Params.List {
			for _, nm := range fl.Names {
				variant[nm.Name] = true
			}
		}
	}
	if loop != nil {
		ast.Inspect(loop, func(n ast.Node) bool {
			switch x := n.(type) {
			case *ast.RangeStmt:
				if x.Key != nil {
					addLHS(x.Key)
				}
				if x.Value != nil {
					addLHS(x.Value)
				}
			case *ast.AssignStmt:
				for _, l := range x.Lhs {
					addLHS(l)
				}
			case *ast.IncDecStmt:
				addLHS(x.X)
			case *ast.ValueSpec:
				for _, nm := range x.Names {
					variant[nm.Name] = true
				}
			case *ast.UnaryExpr:
				if x.Op == token.AND {
					addLHS(x.X) // address taken: may be written through the pointer
				}
			}
			return true
		})
	}
	// names the miss branch declares itself
	own := map[string]bool{v: true}
	ast.Inspect(miss.Body, func(n ast.Node) bool {
		switch x := n.(type) {
		case *ast.AssignStmt:
			// declared or assigned by the miss branch itself (a name it writes before reading is its own)
			for _, l := range x.Lhs {
				if id, ok := l.(*ast.Ident); ok {
					own[id.Name] = true
				}
			}
		case *ast.ValueSpec:
			for _, nm := range x.Names {
				own[nm.Name] = true
			}
		}
		return true
	})
	okAll := true
	var culprits []string
	seenC := map[string]bool{}
	var visit func(n ast.Node)
	visit = func(n ast.Node) {
		ast.Inspect(n, func(y ast.Node) bool {
			if y == nil {
				return false
			}
			if y == ast.Node(store) {
				return false
			}
			if e, ok := y.(ast.Expr); ok && src(e) == key {
				return false
			}
			switch z := y.(type) {
			case *ast.SelectorExpr:
				visit(z.X)
				return false
			case *ast.KeyValueExpr:
				if _, isID := z.Key.(*ast.Ident); !isID {
					visit(z.Key)
				}
				visit(z.Value)
				return false
			case *ast.FuncLit, *ast.GoStmt, *ast.DeferStmt:
				okAll = false
				if !seenC["a function literal"] {
					seenC["a function literal"] = true
					culprits = append(culprits, "a function literal")
				}
				return false
			case *ast.Ident:
				if variant[z.Name] && !own[z.Name] {
					okAll = false
					if !seenC[z.Name] {
						seenC[z.Name] = true
						culprits = append(culprits, z.Name)
					}
				}
			}
			return true
		})
	}
	visit(miss.Body)
	if okAll {
		return nil
	}
	return culprits
}

// PartialMemo is a memo table local to one call whose remembered value is computed from more than its key.
type PartialMemo struct {
	Pkg, Func string
	Pos       token.Pos
	Map, Key  string
	Culprits  []string
}

// PartialMemos finds them in the production functions of the packages with the given relative-path prefixes.
func (p *Prog) PartialMemos(prefixes ...string) []PartialMemo {
	var out []PartialMemo
	for path, pk := range p.ByPath {
		if !IsProd(path) || pk.TypesInfo == nil {
			continue
		}
		rel := RelPkg(path)
		if len(prefixes) > 0 {
			ok := false
			for _, pre := range prefixes {
				if rel == pre || strings.HasPrefix(rel, pre) {
					ok = true
				}
			}
			if !ok {
				continue
			}
		}
		for _, file := range pk.Syntax {
			if strings.HasSuffix(p.Fset.Position(file.Pos()).Filename, "_test.go") {
				continue
			}
			for _, decl := range file.Decls {
				fd, ok := decl.(*ast.FuncDecl)
				if !ok || fd.Body == nil {
					continue
				}
				src := func(n ast.Node) string {
					if e, ok := n.(ast.Expr); ok {
						return types.ExprString(e)
					}
					return fmt.Sprint(n.Pos())
				}
				sites, _ := findMemoSites(fd, src)
				for _, st := range sites {
					if len(st.culprits) == 0 || st.loop == nil {
						continue
					}
					out = append(out, PartialMemo{Pkg: rel, Func: fd.Name.Name, Pos: st.lookup.Pos(), Map: st.m, Key: st.key, Culprits: st.culprits})
				}
			}
		}
	}
	sort.Slice(out, func(i, j int) bool { return out[i].Pos < out[j].Pos })
	return out
}
