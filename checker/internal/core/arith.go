package core

import (
	"go/constant"
	"go/token"
	"go/types"
	"strings"

	"golang.org/x/tools/go/ssa"
)

// IsSlotOrEpoch reports whether t is phase0.Slot or phase0.Epoch (unsigned chain-time quantities).
func IsSlotOrEpoch(t types.Type) bool {
	nt, ok := t.(*types.Named)
	if !ok || nt.Obj().Pkg() == nil {
		return false
	}
	if !strings.HasSuffix(nt.Obj().Pkg().Path(), "go-eth2-client/spec/phase0") {
		return false
	}
	n := nt.Obj().Name()
	return n == "Slot" || n == "Epoch"
}

// UnsignedSubs lists subtractions x - y on slot/epoch typed values where the result could wrap
// (i.e. not both constant).
func UnsignedSubs(fn *ssa.Function) []*ssa.BinOp {
	var out []*ssa.BinOp
	EachInstr(fn, func(in ssa.Instruction) {
		b, ok := in.(*ssa.BinOp)
		if !ok || b.Op != token.SUB || !IsSlotOrEpoch(b.Type()) {
			return
		}
		if _, ok := b.X.(*ssa.Const); ok {
			if _, ok := b.Y.(*ssa.Const); ok {
				return
			}
		}
		out = append(out, b)
	})
	return out
}

func constUint(v ssa.Value) (uint64, bool) {
	c, ok := v.(*ssa.Const)
	if !ok || c.Value == nil || c.Value.Kind() != constant.Int {
		return 0, false
	}
	return constant.Uint64Val(c.Value)
}

func vdConstUint(d *VD) (uint64, bool) {
	if d == nil || d.Val == nil {
		return 0, false
	}
	return constUint(d.Val)
}

// SubUnguarded returns a witness path to the subtraction on which no guard
// establishes X >= Y (nil if every path is guarded).
func SubUnguarded(ds *Describer, fn *ssa.Function, sub *ssa.BinOp) []ssa.Instruction {
	xs := ds.D(sub.X).String()
	ys := ds.D(sub.Y).String()
	yc, yIsConst := constUint(sub.Y)
	guard := func(c Cond) int {
		if c.Op == "" {
			return -1
		}
		cx, cy := c.X.String(), c.Y.String()
		for s := 0; s < 2; s++ {
			rel := c.RelOnEdge(s)
			l, r := cx, cy
			ld, rd := c.X, c.Y
			_ = ld
			if r == xs { // normalise to x on the left
				l, r = r, l
				rd = c.X
				rel = FlipRel(rel)
			}
			if l != xs {
				continue
			}
			// x rel r
			if r == ys && (rel == ">" || rel == ">=") {
				return s
			}
			if yIsConst {
				if k, ok := vdConstUint(rd); ok {
					if rel == ">" && k+1 >= yc {
						return s
					}
					if rel == ">=" && k >= yc {
						return s
					}
					if rel == "!=" && k == 0 && yc == 1 {
						return s
					}
				}
			}
		}
		return -1
	}
	return Unguarded(ds, fn, nil, func(in ssa.Instruction) bool { return in == ssa.Instruction(sub) }, guard)
}
