package core

import (
	"fmt"
	"go/ast"
	"go/token"
	"go/types"
	"os"
	"sort"
	"strings"

	"golang.org/x/tools/go/packages"
)

// UnbundleParams undoes the "parameter object" refactoring for struct types that are new relative to the baseline:
// a struct type T that is used only
//
//   - as the type (T or *T) of parameters of functions of its own package,
//   - in composite literals that are an argument at such a parameter position, or the initial value of a local
//     variable (x := &T{…}) which is itself used only through x.f selectors and as such an argument,
//
// is replaced by its fields: the parameter v *T becomes one parameter per field (v__f), v.f becomes v__f, the local
// x becomes one variable per field, and the call sites pass the fields. The analyses then see the values flow
// from caller to callee as they did before the bundling (RenameBack afterwards restores the baseline's parameter
// names where the signature is the baseline's again). The rewritten tree must type-check, otherwise nothing is done.
func UnbundleParams(dir string, overlay map[string][]byte, goarch string, base *Baseline) (map[string][]byte, []string) {
	if base == nil {
		return overlay, nil
	}
	pkgs, err := loadSyntax(dir, overlay, goarch)
	if err != nil || hasErrors(pkgs) {
		return overlay, nil
	}
	edits := map[string][]edit{}
	var notes []string
	dbg := func(format string, a ...any) {
		if os.Getenv("VCHECK_DEBUG_UNBUNDLE") != "" {
			fmt.Fprintf(os.Stderr, "unbundle: "+format+"\n", a...)
		}
	}
	src := func(name string) []byte {
		if b, ok := overlay[name]; ok {
			return b
		}
		b, _ := os.ReadFile(name)
		return b
	}
	packages.Visit(pkgs, nil, func(pk *packages.Package) {
		if !IsProd(pk.PkgPath) || pk.TypesInfo == nil {
			return
		}
		info := pk.TypesInfo
		fset := pk.Fset
		off := func(p token.Pos) int { return fset.PositionFor(p, false).Offset }
		fileOf := func(p token.Pos) string { return fset.PositionFor(p, false).Filename }
		text := func(a, b token.Pos) string { return string(src(fileOf(a))[off(a):off(b)]) }
		// candidate types: struct types declared here that the baseline does not know
		type cand struct {
			obj    *types.TypeName
			spec   *ast.TypeSpec
			st     *ast.StructType
			fields []string // names in order
			ftypes []string // source text of the field types
		}
		var cands []*cand
		for _, f := range pk.Syntax {
			if strings.HasSuffix(fileOf(f.Pos()), "_test.go") {
				continue
			}
			for _, d := range f.Decls {
				gd, ok := d.(*ast.GenDecl)
				if !ok || gd.Tok != token.TYPE {
					continue
				}
				for _, sp := range gd.Specs {
					ts := sp.(*ast.TypeSpec)
					st, ok := ts.Type.(*ast.StructType)
					if !ok || ts.TypeParams != nil || ts.Assign.IsValid() {
						continue
					}
					if _, known := base.Fields[pk.PkgPath+"."+ts.Name.Name]; known {
						continue
					}
					obj, _ := info.Defs[ts.Name].(*types.TypeName)
					if obj == nil {
						continue
					}
					c := &cand{obj: obj, spec: ts, st: st}
					okFields := len(st.Fields.List) > 0
					for _, fl := range st.Fields.List {
						if len(fl.Names) == 0 {
							okFields = false // embedded
						}
						for _, nm := range fl.Names {
							c.fields = append(c.fields, nm.Name)
							c.ftypes = append(c.ftypes, text(fl.Type.Pos(), fl.Type.End()))
						}
					}
					if okFields {
						cands = append(cands, c)
					}
				}
			}
		}
		if len(cands) == 0 {
			return
		}
		for _, c := range cands {
			dbg("candidate %s.%s", pk.PkgPath, c.obj.Name())
		}
		// parent map for the package's files
		parent := map[ast.Node]ast.Node{}
		for _, f := range pk.Syntax {
			var stack []ast.Node
			ast.Inspect(f, func(n ast.Node) bool {
				if n == nil {
					stack = stack[:len(stack)-1]
					return true
				}
				if len(stack) > 0 {
					parent[n] = stack[len(stack)-1]
				}
				stack = append(stack, n)
				return true
			})
		}
		for _, c := range cands {
			named, _ := c.obj.Type().(*types.Named)
			if named == nil || named.NumMethods() > 0 {
				continue
			}
			fieldIdx := func(name string) int {
				for i, n := range c.fields {
					if n == name {
						return i
					}
				}
				return -1
			}
			ok := true
			var paramObjs []*types.Var               // parameters of type T / *T
			paramDecl := map[*types.Var]*ast.Field{} // their declaration
			var localObjs []*types.Var               // locals initialised with a literal
			localDef := map[*types.Var]*ast.AssignStmt{}
			localLit := map[*types.Var]*ast.CompositeLit{}
			var argLits []*ast.CompositeLit // literals that are call arguments
			// every use of the type name
			for id, o := range info.Uses {
				if o != types.Object(c.obj) {
					continue
				}
				var n ast.Node = id
				if se, isStar := parent[n].(*ast.StarExpr); isStar {
					n = se
				}
				switch pn := parent[n].(type) {
				case *ast.Field:
					// a parameter of a function declaration (not a result, not a struct field, not a literal's signature)
					fl, _ := parent[pn].(*ast.FieldList)
					ft, _ := parent[fl].(*ast.FuncType)
					fd, _ := parent[ft].(*ast.FuncDecl)
					if fd == nil || ft.Params != fl || len(pn.Names) != 1 {
						ok = false
						break
					}
					v, _ := info.Defs[pn.Names[0]].(*types.Var)
					if v == nil {
						ok = false
						break
					}
					paramObjs = append(paramObjs, v)
					paramDecl[v] = pn
				case *ast.CompositeLit:
					if pn.Type != n.(ast.Expr) && pn.Type != ast.Expr(id) {
						ok = false
						break
					}
					var outer ast.Node = pn
					if ue, isAddr := parent[pn].(*ast.UnaryExpr); isAddr && ue.Op == token.AND {
						outer = ue
					}
					switch gp := parent[outer].(type) {
					case *ast.CallExpr:
						isArg := false
						for _, a := range gp.Args {
							if a == outer.(ast.Expr) {
								isArg = true
							}
						}
						if !isArg {
							ok = false
							break
						}
						argLits = append(argLits, pn)
					case *ast.AssignStmt:
						if gp.Tok != token.DEFINE || len(gp.Lhs) != 1 || len(gp.Rhs) != 1 {
							ok = false
							break
						}
						lid, _ := gp.Lhs[0].(*ast.Ident)
						v, _ := info.Defs[lid].(*types.Var)
						if v == nil {
							ok = false
							break
						}
						if _, inBlock := parent[gp].(*ast.BlockStmt); !inBlock {
							ok = false
							break
						}
						localObjs = append(localObjs, v)
						localDef[v] = gp
						localLit[v] = pn
					default:
						ok = false
					}
				default:
					ok = false
				}
				if !ok {
					break
				}
			}
			if !ok || len(paramObjs) == 0 {
				dbg("%s: type uses not of the accepted kinds (ok=%v, params=%d)", c.obj.Name(), ok, len(paramObjs))
				continue
			}
			// literals: keyed, every key a field, in field order
			litValues := func(cl *ast.CompositeLit) ([]ast.Expr, bool) {
				vals := make([]ast.Expr, len(c.fields))
				last := -1
				for _, e := range cl.Elts {
					kv, isKV := e.(*ast.KeyValueExpr)
					if !isKV {
						return nil, false
					}
					k, _ := kv.Key.(*ast.Ident)
					if k == nil {
						return nil, false
					}
					i := fieldIdx(k.Name)
					if i < 0 || i <= last {
						return nil, false
					}
					last = i
					vals[i] = kv.Value
				}
				return vals, true
			}
			// the objects (parameters and locals) and their uses
			isObj := map[*types.Var]bool{}
			for _, v := range paramObjs {
				isObj[v] = true
			}
			for _, v := range localObjs {
				isObj[v] = true
			}
			paramPos := map[*types.Func][]int{} // function -> positions (flattened parameter index) of T-typed parameters
			for _, v := range paramObjs {
				fl := paramDecl[v]
				ft := parent[parent[fl]].(*ast.FuncType)
				fd := parent[ft].(*ast.FuncDecl)
				fobj, _ := info.Defs[fd.Name].(*types.Func)
				if fobj == nil {
					ok = false
					break
				}
				i := 0
				for _, pf := range ft.Params.List {
					if pf == fl {
						paramPos[fobj] = append(paramPos[fobj], i)
					}
					if len(pf.Names) == 0 {
						i++
					}
					i += len(pf.Names)
				}
				if sig := fobj.Type().(*types.Signature); sig.Variadic() {
					ok = false
				}
			}
			if !ok {
				continue
			}
			isParamPos := func(call *ast.CallExpr, arg ast.Expr) bool {
				fobj := calleeFunc(info, call)
				if fobj == nil {
					return false
				}
				for i, a := range call.Args {
					if a == arg {
						for _, pp := range paramPos[fobj] {
							if pp == i {
								return true
							}
						}
					}
				}
				return false
			}
			type selUse struct {
				sel *ast.SelectorExpr
				v   *types.Var
			}
			type argUse struct {
				id *ast.Ident
				v  *types.Var
			}
			var sels []selUse
			var args []argUse
			for id, o := range info.Uses {
				v, isVar := o.(*types.Var)
				if !isVar || !isObj[v] {
					continue
				}
				switch pn := parent[id].(type) {
				case *ast.SelectorExpr:
					if pn.X != ast.Expr(id) || fieldIdx(pn.Sel.Name) < 0 {
						ok = false
						break
					}
					// v.f = … replaces the caller's slice header through the pointer: not expressible with separate values
					if as, isAs := parent[pn].(*ast.AssignStmt); isAs {
						for _, l := range as.Lhs {
							if l == ast.Expr(pn) {
								if _, isParam := paramDecl[v]; isParam {
									ok = false
								}
							}
						}
					}
					if ue, isAddr := parent[pn].(*ast.UnaryExpr); isAddr && ue.Op == token.AND {
						ok = false
					}
					sels = append(sels, selUse{pn, v})
				case *ast.CallExpr:
					if !isParamPos(pn, id) {
						ok = false
						break
					}
					args = append(args, argUse{id, v})
				default:
					ok = false
				}
				if !ok {
					break
				}
			}
			if !ok {
				dbg("%s: an object is used other than through a field selector or as an argument", c.obj.Name())
				continue
			}
			for _, cl := range argLits {
				var outer ast.Expr = cl
				if ue, isAddr := parent[cl].(*ast.UnaryExpr); isAddr {
					outer = ue
				}
				if !isParamPos(parent[outer].(*ast.CallExpr), outer) {
					ok = false
				}
				if _, good := litValues(cl); !good {
					ok = false
				}
			}
			for _, v := range localObjs {
				if _, good := litValues(localLit[v]); !good {
					ok = false
				}
			}
			if !ok {
				dbg("%s: a literal is not keyed in field order or not at a parameter position", c.obj.Name())
				continue
			}
			// ---- edits ----
			var es []edit
			fname := ""
			add := func(a, b token.Pos, t string) {
				if fname == "" {
					fname = fileOf(a)
				}
				if fileOf(a) != fname {
					ok = false // several files: keep it simple, one file per type
				}
				es = append(es, edit{off(a), off(b), t})
			}
			zero := func(i int) string { return "*new(" + c.ftypes[i] + ")" }
			for _, v := range paramObjs {
				fl := paramDecl[v]
				var parts []string
				for i, fn := range c.fields {
					parts = append(parts, fmt.Sprintf("%s__%s %s", v.Name(), fn, c.ftypes[i]))
				}
				add(fl.Pos(), fl.End(), strings.Join(parts, ", "))
			}
			for _, su := range sels {
				add(su.sel.Pos(), su.sel.End(), su.v.Name()+"__"+su.sel.Sel.Name)
			}
			for _, au := range args {
				var parts []string
				for _, fn := range c.fields {
					parts = append(parts, au.v.Name()+"__"+fn)
				}
				add(au.id.Pos(), au.id.End(), strings.Join(parts, ", "))
			}
			for _, cl := range argLits {
				var outer ast.Expr = cl
				if ue, isAddr := parent[cl].(*ast.UnaryExpr); isAddr {
					outer = ue
				}
				vals, _ := litValues(cl)
				var parts []string
				for i, e := range vals {
					if e == nil {
						parts = append(parts, zero(i))
					} else {
						parts = append(parts, text(e.Pos(), e.End()))
					}
				}
				add(outer.Pos(), outer.End(), strings.Join(parts, ", "))
			}
			for _, v := range localObjs {
				vals, _ := litValues(localLit[v])
				var b strings.Builder
				for i, e := range vals {
					init := zero(i)
					if e != nil {
						init = text(e.Pos(), e.End())
					}
					fmt.Fprintf(&b, "var %s__%s %s = %s\n_ = %s__%s\n", v.Name(), c.fields[i], c.ftypes[i], init, v.Name(), c.fields[i])
				}
				st := localDef[v]
				add(st.Pos(), st.End(), b.String())
			}
			if !ok {
				continue
			}
			// no edit inside another
			sort.Slice(es, func(i, j int) bool { return es[i].start < es[j].start })
			for i := 1; i < len(es); i++ {
				if es[i].start < es[i-1].end {
					ok = false
				}
			}
			for _, o := range edits[fname] {
				for _, e := range es {
					if e.start < o.end && o.start < e.end {
						ok = false
					}
				}
			}
			if !ok {
				dbg("%s: edits overlap or span files", c.obj.Name())
				continue
			}
			edits[fname] = append(edits[fname], es...)
			notes = append(notes, fmt.Sprintf("replaced the new parameter object type %s.%s by its fields (%s)", pk.PkgPath, c.obj.Name(), strings.Join(c.fields, ", ")))
		}
	})
	if len(edits) == 0 {
		return overlay, nil
	}
	cur := map[string][]byte{}
	for k, v := range overlay {
		cur[k] = v
	}
	for fname, es := range edits {
		text := src(fname)
		sort.Slice(es, func(i, j int) bool { return es[i].start > es[j].start })
		for _, e := range es {
			text = append(append(append([]byte{}, text[:e.start]...), []byte(e.text)...), text[e.end:]...)
		}
		cur[fname] = text
	}
	chk, err := loadSyntax(dir, cur, goarch)
	if err != nil || hasErrors(chk) {
		return overlay, []string{"replacing a new parameter object by its fields did not type-check; analysing the tree as it is"}
	}
	return cur, notes
}
