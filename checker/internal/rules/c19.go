package rules

import (
	"fmt"
	"go/constant"
	"go/token"
	"go/types"
	"sort"
	"strings"

	"golang.org/x/tools/go/ssa"

	"vouchcheck/internal/core"
)

func init() {
	register(&Pack{
		ID:  "C19",
		Run: runC19,
		Expl: "Decides that each hierarchical configuration getter in util (the exported functions that call themselves with a prefix of their path parameter: BeaconNodeAddresses, Timeout, LogLevel, ProcessConcurrency, HierarchicalBool) has the shape T(path): " +
			"(1) path == \"\" returns the viper getter of the base key; (2) otherwise key = path + \".\" + K' with K' equal to the base key; (3) the presence test and the returned getter read that same key, and the presence test can tell a set zero value from an unset one where zero is a legitimate setting (bool/int); " +
			"(4) the fallback is strings.LastIndex(path, \".\"): -1 -> self(\"\"), else self(path[0:i]) with exactly that i, and the callee is the function itself; (5) there is no other return. " +
			"By induction on the number of path components (the reader's step, recorded in DESIGN.md) a function of shape T returns the value at the longest prefix that has one, else the base value. " +
			"Added with the third seeding round: (5) no configuration read outside the hierarchical getters names <path>.<hierarchical variable> directly. Added with the fourth seeding round: (6) the global log level is trace; (7) a top-level key with an absence fallback is not a registered flag. Added with the fifth seeding round: (8) one function does not hand the same configuration path to two different component requests on one path, and a path built at run time starts with a literal component. Added with the sixth seeding round and the false-alarm regression: (9) HierarchicalBool is called with (literal variable, path); (10) a function that resolves a setting for its own path does not also read the top-level value of the same setting on the same path; (4) a third getter template: a walk over the prefixes of the split path, least specific first, in which the last hit wins. Added with the seventh seeding round: (3, extended) an order test that decides presence compares with zero. Added with the eighth seeding round: (11) a package-level cache of objects that are configured from Sprintf(\"….%s\", name) paths is keyed by that name. Added with the ninth seeding round: (3, extended) the presence of a list-valued setting is not asked with GetString. Added with the tenth seeding round: (3, extended) presence is not decided by a type assertion on viper.Get(key). NOT decided: viper's own merging of flags/env/file; what 'present' means for a zero duration (visible, not judged).",
		Technique: "template conformance of sibling functions on SSA: constant-format extraction, provenance of getter keys, guard/edge-deletion for the presence and fallback tests, self-call resolution",
		Rule:      "5 clauses per hierarchical getter; the set of getters is discovered by role (self-recursive exported functions of util with a string path parameter)",
	})
}

func constString(v ssa.Value) (string, bool) {
	c, ok := v.(*ssa.Const)
	if !ok || c.Value == nil || c.Value.Kind() != constant.String {
		return "", false
	}
	return constant.StringVal(c.Value), true
}

func isViperGetter(c *ssa.CallCommon) (string, bool) {
	f := c.StaticCallee()
	if f == nil || f.Pkg == nil || !strings.HasSuffix(f.Pkg.Pkg.Path(), "spf13/viper") {
		return "", false
	}
	if strings.HasPrefix(f.Name(), "Get") || f.Name() == "IsSet" {
		return f.Name(), true
	}
	return "", false
}

func runC19(p *core.Prog, r *core.Report, tier string) {
	ds := core.NewDescriber()
	var getters, loopGetters, walkGetters []*ssa.Function
	for _, f := range p.FuncsIn("util") {
		if f.Parent() != nil || f.Object() == nil {
			continue
		}
		// exported getters, and unexported ones an exported getter delegates its lookup to
		if !f.Object().Exported() {
			hasStringParam := false
			for _, prm := range f.Params {
				if b, ok := prm.Type().Underlying().(*types.Basic); ok && b.Kind() == types.String {
					hasStringParam = true
				}
			}
			if !hasStringParam {
				continue
			}
		}
		self := false
		core.EachInstr(f, func(in ssa.Instruction) {
			if c, ok := in.(*ssa.Call); ok && c.Call.StaticCallee() == f {
				self = true
			}
		})
		if self {
			getters = append(getters, f)
		} else if loopPathPhi(f) != nil {
			loopGetters = append(loopGetters, f)
		} else if ph, _ := loopIndexPhi(f); ph != nil {
			loopGetters = append(loopGetters, f)
		} else if j, _ := prefixWalk(f); j != nil {
			walkGetters = append(walkGetters, f)
		}
	}
	for _, f := range walkGetters {
		loopGetters = append(loopGetters, f)
	}
	r.Count("hierarchical getters", len(getters)+len(loopGetters))
	r.Floor("C19 hierarchical getters", len(getters)+len(loopGetters), 5)
	var names []string
	for _, f := range getters {
		names = append(names, f.Name())
		checkHierarchical(p, r, ds, f)
	}
	isWalk := map[*ssa.Function]bool{}
	for _, f := range walkGetters {
		isWalk[f] = true
	}
	for _, f := range loopGetters {
		if isWalk[f] {
			names = append(names, f.Name()+" (prefix walk)")
			checkPrefixWalk(p, r, ds, f)
			continue
		}
		names = append(names, f.Name()+" (iterative)")
		checkHierarchicalLoop(p, r, ds, f)
	}
	r.Tables["getters"] = names

	// ---- (5) the levels below the top are read through the hierarchical getters only: a direct read of
	// "<path>.<variable>" sees that one level and misses what the levels above it configure ----
	isGetter := map[*ssa.Function]bool{}
	for _, f := range append(append([]*ssa.Function{}, getters...), loopGetters...) {
		isGetter[f] = true
	}
	vars := map[string]bool{}
	for f := range isGetter {
		core.EachInstr(f, func(in ssa.Instruction) {
			c, ok := in.(*ssa.Call)
			if !ok {
				return
			}
			if _, ok := isViperGetter(&c.Call); ok && len(c.Call.Args) > 0 {
				if k, ok := constString(c.Call.Args[0]); ok && k != "" {
					vars[k] = true
				}
			}
		})
	}
	for _, f := range p.SrcFuncs() {
		for _, ci := range core.Calls(f, func(c *ssa.CallCommon) bool { return c.StaticCallee() != nil && isGetter[c.StaticCallee()] }) {
			for _, a := range ci.Common().Args {
				if k, ok := constString(a); ok && k != "" && !strings.Contains(k, ".") && len(ci.Common().Args) > 1 {
					// the variable argument of a generic getter (HierarchicalBool(variable, path))
					if ci.Common().StaticCallee().Params[0] != nil && a == ci.Common().Args[0] {
						vars[k] = true
					}
				}
			}
		}
	}
	var vlist []string
	for v := range vars {
		vlist = append(vlist, v)
	}
	sort.Strings(vlist)
	r.Tables["hierarchical-variables"] = vlist
	nDirect, nReads := 0, 0
	for _, f := range p.SrcFuncs() {
		top := f
		for top.Parent() != nil {
			top = top.Parent()
		}
		if isGetter[top] {
			continue
		}
		core.EachInstr(f, func(in ssa.Instruction) {
			c, ok := in.(*ssa.Call)
			if !ok {
				return
			}
			if _, ok := isViperGetter(&c.Call); !ok || len(c.Call.Args) == 0 {
				return
			}
			nReads++
			key := ""
			if k, ok := constString(c.Call.Args[0]); ok {
				key = k
			} else if sp, ok := c.Call.Args[0].(*ssa.Call); ok && strings.HasSuffix(core.CalleeName(&sp.Call), "fmt.Sprintf") {
				if k, ok := constString(sp.Call.Args[0]); ok {
					key = k
				}
			}
			for _, v := range vlist {
				if strings.HasSuffix(key, "."+v) {
					nDirect++
					r.Violate("C19.5", fmt.Sprintf("%s|direct-read|%s", core.FnKey(f), key), p.Pos(c.Pos()), "the hierarchical variable "+v+" is read directly at one level ("+key+") instead of through its hierarchical getter: a value configured at a level between this one and the top is ignored")
				}
			}
		})
	}
	if nDirect == 0 {
		r.Hold("C19.5", "no-direct-level-reads", "", fmt.Sprintf("none of the %d configuration reads outside the hierarchical getters names a lower level of a hierarchical variable (%s)", nReads, strings.Join(vlist, ", ")))
	}
	// ---- (6) a level's own log level takes effect: zerolog drops every event below the global level whatever the
	// logger's own level is, so the global level stays at the most verbose one (a more verbose level configured for
	// a path would otherwise resolve correctly and still not apply) ----
	nGlobal := 0
	for _, f := range p.SrcFuncs() {
		for _, ci := range core.Calls(f, func(c *ssa.CallCommon) bool {
			return strings.HasSuffix(core.CalleeName(c), "rs/zerolog.SetGlobalLevel")
		}) {
			nGlobal++
			a := ci.Common().Args[0]
			c, isConst := a.(*ssa.Const)
			okLvl := isConst && c.Value != nil && c.Value.String() == "-1"
			r.Check(okLvl, "C19.6", fmt.Sprintf("%s|global-log-level#%d", core.FnKey(f), nGlobal), p.Pos(ci.Pos()), "the global log level is the most verbose one (trace)",
				"the global log level is set to "+ds.D(a).String()+" instead of trace: a path whose most specific log-level is more verbose than that ends up logging at the global level, so the value resolved for the path is not the one in effect")
		}
	}
	r.Floor("C19.6 global log level settings", nGlobal, 1)

	// ---- (7) "unset" stays distinguishable: a top-level key whose absence makes the getter fall back to another key
	// (beacon-node-addresses -> beacon-node-address) is not registered as a command-line flag (a registered flag
	// always has a value, an empty non-nil one for slices, so the fallback would never be taken) ----
	optional := map[string]bool{}
	for g := range isGetter {
		keys := map[string]bool{}
		tested := map[string]bool{}
		core.EachInstr(g, func(in ssa.Instruction) {
			c, ok := in.(*ssa.Call)
			if !ok {
				return
			}
			if _, ok := isViperGetter(&c.Call); !ok || len(c.Call.Args) == 0 {
				return
			}
			k, ok := constString(c.Call.Args[0])
			if !ok || k == "" || strings.Contains(k, ".") {
				return
			}
			keys[k] = true
			// used in a branch condition?
			if c.Referrers() != nil {
				for _, ref := range *c.Referrers() {
					if b, ok := ref.(*ssa.BinOp); ok && b.Referrers() != nil {
						for _, r2 := range *b.Referrers() {
							if _, isIf := r2.(*ssa.If); isIf {
								tested[k] = true
							}
						}
					}
				}
			}
		})
		if len(keys) >= 2 {
			for k := range tested {
				optional[k] = true
			}
		}
	}
	nFlags, nBad := 0, 0
	for _, f := range p.SrcFuncs() {
		for _, ci := range core.Calls(f, func(c *ssa.CallCommon) bool {
			callee := c.StaticCallee()
			return callee != nil && callee.Pkg != nil && strings.HasSuffix(callee.Pkg.Pkg.Path(), "spf13/pflag") && callee.Signature.Recv() == nil
		}) {
			if len(ci.Common().Args) == 0 {
				continue
			}
			name, ok := constString(ci.Common().Args[0])
			if !ok {
				continue
			}
			nFlags++
			if optional[name] {
				nBad++
				r.Violate("C19.7", "flag|"+name, p.Pos(ci.Pos()), "the top-level key "+name+" is registered as a command-line flag, but its getter decides by its absence whether to fall back to another key: with the flag registered the key is never absent, so a configuration that only sets the fallback key resolves to nothing at every level that falls through to the top")
			}
		}
	}
	if nBad == 0 {
		var ol []string
		for k := range optional {
			ol = append(ol, k)
		}
		sort.Strings(ol)
		r.Hold("C19.7", "optional-top-level-keys-not-flags", "", fmt.Sprintf("%d flag registrations, none for a key with an absence fallback (%s)", nFlags, strings.Join(ol, ", ")))
	}
	r.Floor("C19.7 flag registrations", nFlags, 5)
	r.Floor("C19.7 top-level keys with an absence fallback", len(optional), 1)

	// ---- (8) every component asks with its own, well-formed path: (a) a path that is built at run time has a literal
	// first component ("eth2client.%s"), so an empty part cannot yield "a.b." or ".x" (which silently skips the most
	// specific level); (b) within one function no two requests of the same kind use the same constant path (the
	// copy-paste slip that configures one component from its sibling's subtree) ----
	takesPath := func(callee *ssa.Function) int {
		if callee == nil {
			return -1
		}
		org := callee
		if o := callee.Origin(); o != nil {
			org = o
		}
		if isGetter[org] {
			for i, prm := range org.Params {
				if prm.Name() == "path" {
					return i
				}
			}
			return -1
		}
		// a function of the program that forwards a string parameter named path to a getter
		for i, prm := range callee.Params {
			if prm.Name() != "path" {
				continue
			}
			fwd := false
			core.EachInstr(callee, func(in ssa.Instruction) {
				if c, ok := in.(*ssa.Call); ok {
					g := c.Call.StaticCallee()
					if g != nil && (isGetter[g] || g.Origin() != nil && isGetter[g.Origin()]) {
						for _, a := range c.Call.Args {
							if a == ssa.Value(prm) {
								fwd = true
							}
						}
					}
				}
			})
			if fwd {
				return i
			}
		}
		return -1
	}
	nPathArgs, nDyn := 0, 0
	for _, f := range p.SrcFuncs() {
		top := f
		for top.Parent() != nil {
			top = top.Parent()
		}
		if isGetter[top] {
			continue
		}
		seen := map[string]token.Pos{}
		seenAt := map[string]ssa.Instruction{}
		core.EachInstr(f, func(in ssa.Instruction) {
			c, ok := in.(*ssa.Call)
			if !ok {
				return
			}
			callee := c.Call.StaticCallee()
			pi := takesPath(callee)
			if pi < 0 || pi >= len(c.Call.Args) {
				return
			}
			nPathArgs++
			a := c.Call.Args[pi]
			org := callee
			if o := callee.Origin(); o != nil {
				org = o
			}
			if k, ok := constString(a); ok {
				if k == "" {
					return
				}
				key := org.String() + "|" + k
				if prev, dup := seen[key]; dup && (core.PathQuery{Fn: f, From: seenAt[key], Target: func(x ssa.Instruction) bool { return x == in }}).Find() != nil {
					r.Violate("C19.8", fmt.Sprintf("%s|same-path-twice|%s|%s", core.FnKey(f), org.Name(), k), p.Pos(c.Pos()), "the path "+k+" is used for two different requests to "+org.Name()+" in one function (first at "+p.Pos(prev)+"): one of the two components is configured from its sibling's subtree and ignores its own")
				}
				seen[key] = c.Pos()
				seenAt[key] = in
				return
			}
			if _, isParam := a.(*ssa.Parameter); isParam {
				return
			}
			nDyn++
			okForm := true
			for _, lf := range core.PhiLeaves(a, c) {
				okLeaf := false
				switch x := lf.V.(type) {
				case *ssa.Const, *ssa.Parameter:
					okLeaf = true
				case *ssa.Call:
					if strings.HasSuffix(core.CalleeName(&x.Call), "fmt.Sprintf") {
						if format, ok := constString(x.Call.Args[0]); ok {
							first := strings.SplitN(format, ".", 2)[0]
							okLeaf = first != "" && !strings.Contains(first, "%") && !strings.HasSuffix(format, ".")
							if !okLeaf && len(x.Call.Args) == 2 && wellFormedPathFormat(format) {
								// "%s.%s" and the like: every part is known to be non-empty where the path is built — a
								// parameter that is a non-empty literal at every call, or a value that control only arrives
								// with after it compared equal to a non-empty literal
								okLeaf = true
								for _, e := range variadicElems(x.Call.Args[1]) {
									if e == nil {
										okLeaf = false
										continue
									}
									if mi, isMI := e.(*ssa.MakeInterface); isMI {
										e = mi.X
									}
									good := false
									if prm, isPrm := e.(*ssa.Parameter); isPrm {
										k := core.ParamIndex(prm.Parent(), prm.Name())
										os := p.ParamOrigins(prm.Parent(), k, 0)
										good = len(os) > 0
										for _, o := range os {
											if lit, isLit := constString(o); !isLit || lit == "" || strings.HasPrefix(lit, ".") || strings.HasSuffix(lit, ".") {
												good = false
											}
										}
									} else {
										good = arrivesOnlyWithNonEmpty(x.Block(), e, 0)
									}
									if !good {
										okLeaf = false
									}
								}
							}
						}
					} else if callee := x.Call.StaticCallee(); callee != nil && len(callee.Blocks) > 0 && callee.Signature.Results().Len() == 1 {
						// a helper that works the path out: every value it can return is a well-formed path (or "")
						okLeaf = true
						for _, ret := range core.ReturnsOf(callee) {
							for _, rl := range core.PhiLeaves(ret.Results[0], ret) {
								good := false
								switch y := rl.V.(type) {
								case *ssa.Const:
									good = true
								case *ssa.Call:
									if strings.HasSuffix(core.CalleeName(&y.Call), "fmt.Sprintf") {
										if format, ok := constString(y.Call.Args[0]); ok {
											first := strings.SplitN(format, ".", 2)[0]
											good = first != "" && !strings.Contains(first, "%") && !strings.HasSuffix(format, ".")
										}
									}
								}
								if !good {
									okLeaf = false
								}
							}
						}
					}
				case *ssa.BinOp:
					// "<literal>." + part, where control only arrives with part equal to a non-empty constant
					if pre, ok := constString(x.X); ok && x.Op == token.ADD && strings.HasSuffix(pre, ".") && pre != "." {
						okLeaf = arrivesOnlyWithNonEmpty(x.Block(), x.Y, 0)
					}
				}
				if !okLeaf {
					okForm = false
				}
			}
			r.Check(okForm, "C19.8", fmt.Sprintf("%s|path-form#%d", core.FnKey(f), nDyn), p.Pos(c.Pos()), "a path built at run time starts with a literal component", "the path handed to "+org.Name()+" is "+ds.D(a).String()+": with an empty part it becomes a path with an empty component (\"a.b.\"), for which the most specific level is silently skipped")
		})
	}
	r.Floor("C19.8 path arguments outside the getters", nPathArgs, 30)

	// ---- (9) the generic getter is asked with (variable, path), in that order: the variable is a literal name ----
	nHB := 0
	for _, f := range p.SrcFuncs() {
		for _, ci := range core.Calls(f, func(c *ssa.CallCommon) bool {
			callee := c.StaticCallee()
			return callee != nil && callee.Name() == "HierarchicalBool" && core.RelPkg(callee.Pkg.Pkg.Path()) == "util"
		}) {
			if f.Name() == "HierarchicalBool" {
				continue
			}
			nHB++
			a := ci.Common().Args
			v, isC := constString(a[0])
			_, pathConst := constString(a[1])
			r.Check(isC && v != "" && !strings.Contains(v, "."), "C19.9", fmt.Sprintf("%s|variable-then-path#%d", core.FnKey(f), nHB), p.Pos(ci.Pos()), "HierarchicalBool(variable, path)",
				fmt.Sprintf("HierarchicalBool is called with %s as the variable (path argument constant: %v): the arguments are transposed, so the setting is looked up under keys that do not exist and always resolves to false", ds.D(a[0]).String(), pathConst))
		}
	}
	r.Floor("C19.9 calls of the generic hierarchical getter", nHB, 1)

	// ---- (10) a component that resolves a setting for its own path does not also decide on the top-level value of the
	// same setting: the same getter is not called with "" and with a path in one function ----
	for _, f := range p.SrcFuncs() {
		if isGetter[f] {
			continue
		}
		type use struct {
			top, specific ssa.CallInstruction
		}
		byGetter := map[*ssa.Function]*use{}
		for _, ci := range core.Calls(f, func(c *ssa.CallCommon) bool { return c.StaticCallee() != nil && isGetter[c.StaticCallee()] }) {
			callee := ci.Common().StaticCallee()
			a := ci.Common().Args
			pa := a[len(a)-1]
			u := byGetter[callee]
			if u == nil {
				u = &use{}
				byGetter[callee] = u
			}
			if cs, isC := constString(pa); isC && cs == "" {
				u.top = ci
			} else {
				u.specific = ci
			}
		}
		for g, u := range byGetter {
			if u.top != nil && u.specific != nil {
				// on one path (exclusive switch arms — one style asks with its path, the default with "" — are fine)
				top, spec := u.top.(ssa.Instruction), u.specific.(ssa.Instruction)
				w1 := core.PathQuery{Fn: f, From: top, Target: func(x ssa.Instruction) bool { return x == spec }}.Find()
				w2 := core.PathQuery{Fn: f, From: spec, Target: func(x ssa.Instruction) bool { return x == top }}.Find()
				if w1 == nil && w2 == nil {
					continue
				}
				r.Violate("C19.10", fmt.Sprintf("%s|top-level-beside-own-path|%s", core.FnKey(f), g.Name()), p.Pos(u.top.Pos()), "the function resolves "+g.Name()+" for its own path (at "+p.Pos(u.specific.Pos())+") and also reads the top-level value: a decision taken on the top level ignores what is configured for the component")
			}
		}
	}

	r.Floor("C19.5 hierarchical variables", len(vlist), 4)
	r.Floor("C19.5 configuration reads swept", nReads, 20)

	// ---- (11) an object that is configured from a path built from a name is cached under that very name: where a
	// function of the main package builds configuration paths with Sprintf("…%s", name) for a string parameter and
	// keeps what it builds in a package-level map, the map's key is that parameter — a coarser key hands a caller the
	// object that was configured for another spelling of the name ----
	nCache := 0
	for _, f := range p.SrcFuncs() {
		rel := core.RelPkg(f.Pkg.Pkg.Path())
		if (rel != "" && rel != ".") || f.Parent() != nil {
			continue
		}
		var names []*ssa.Parameter
		core.EachInstr(f, func(in ssa.Instruction) {
			c, ok := in.(*ssa.Call)
			if !ok || c.Call.StaticCallee() == nil || c.Call.StaticCallee().Name() != "Sprintf" || len(c.Call.Args) != 2 {
				return
			}
			format, ok := constString(c.Call.Args[0])
			if !ok || !strings.Contains(format, ".%s") {
				return
			}
			d := ds.D(c.Call.Args[1])
			if d.Kind != "varargs" || len(d.Args) != 1 {
				return
			}
			var prm *ssa.Parameter
			if d.Args[0].Kind == "param" {
				for _, q := range f.Params {
					if q.Name() == d.Args[0].Name {
						prm = q
					}
				}
			}
			if prm != nil {
				seen := false
				for _, q := range names {
					if q == prm {
						seen = true
					}
				}
				if !seen {
					names = append(names, prm)
				}
			}
		})
		if len(names) != 1 {
			continue
		}
		core.EachInstr(f, func(in ssa.Instruction) {
			var m, key ssa.Value
			switch x := in.(type) {
			case *ssa.MapUpdate:
				m, key = x.Map, x.Key
			case *ssa.Lookup:
				m, key = x.X, x.Index
			default:
				return
			}
			ld, ok := m.(*ssa.UnOp)
			if !ok {
				return
			}
			g, ok := ld.X.(*ssa.Global)
			if !ok {
				return
			}
			if b, ok := key.Type().Underlying().(*types.Basic); !ok || b.Kind() != types.String {
				return
			}
			nCache++
			r.Check(key == ssa.Value(names[0]), "C19.11", fmt.Sprintf("%s|cache %s|keyed-by-configured-name#%d", core.FnKey(f), g.Name(), nCache), p.Pos(in.Pos()), "the cache is keyed by the name the configuration paths are built from",
				"the cache "+g.Name()+" is keyed by "+ds.D(key).String()+" while the object's settings are resolved for the path built from "+names[0].Name()+": two spellings that share a key share one object, configured for whichever was asked for first")
		})
	}
	r.Floor("C19.11 accesses to caches of configured objects", nCache, 2)
}

// loopPathPhi recognises the iterative form of a hierarchical getter: a string variable that starts as a string
// parameter and is replaced, around a loop, by a prefix slice of itself. Returns that loop-carried variable.
// prefixWalk recognises the third form of a hierarchical getter: the path is split at the dots and, in a loop, the key
// is built from strings.Join(components[:k], ".") for a k that depends on the loop index. Returns the Join call and the
// slice of the components.
func prefixWalk(f *ssa.Function) (*ssa.Call, *ssa.Slice) {
	var join *ssa.Call
	var sl *ssa.Slice
	core.EachInstr(f, func(in ssa.Instruction) {
		c, ok := in.(*ssa.Call)
		if !ok || core.CalleeName(&c.Call) != "strings.Join" || !core.InLoop(in) {
			return
		}
		x, ok := c.Call.Args[0].(*ssa.Slice)
		if !ok {
			return
		}
		if sp, ok := x.X.(*ssa.Call); ok && core.CalleeName(&sp.Call) == "strings.Split" {
			join, sl = c, x
		}
	})
	return join, sl
}

// checkPrefixWalk (T_walk): a getter that walks the prefixes of the path. Walking from the least specific prefix
// upwards, the value found last must win (no exit from the loop on a hit); walking from the whole path downwards, the
// first hit must win. Other shapes are left undecided.
func checkPrefixWalk(p *core.Prog, r *core.Report, ds *core.Describer, f *ssa.Function) {
	base := core.FnKey(f)
	join, sl := prefixWalk(f)
	// direction: High == (range index) + 1  → ascending prefixes
	ascending := false
	if b, ok := sl.High.(*ssa.BinOp); ok && b.Op == token.ADD && sl.Low == nil {
		if c, isC := b.Y.(*ssa.Const); isC && c.Value != nil && c.Value.ExactString() == "1" {
			if coll, ok := core.RangeIndex(b.X); ok && coll == sl.X {
				ascending = true
			}
		}
	}
	if !ascending {
		r.Undecide("C19.4", base+"|walk-order", p.Pos(join.Pos()), "a prefix walk whose order is not `for i := range components { … components[:i+1] … }`: "+ds.D(sl).String())
		return
	}
	// the loop: header = the block that dominates the Join and has a back edge; body = blocks dominated by it that reach it
	var header *ssa.BasicBlock
	for _, h := range f.Blocks {
		if !h.Dominates(join.Block()) {
			continue
		}
		for _, pr := range h.Preds {
			if h.Dominates(pr) && (header == nil || header.Dominates(h)) {
				header = h
			}
		}
	}
	if header == nil {
		r.Undecide("C19.4", base+"|walk-order", p.Pos(join.Pos()), "loop of the prefix walk not found")
		return
	}
	inBody := map[*ssa.BasicBlock]bool{}
	var mark func(b *ssa.BasicBlock)
	mark = func(b *ssa.BasicBlock) {
		if inBody[b] || !header.Dominates(b) {
			return
		}
		inBody[b] = true
		for _, pr := range b.Preds {
			mark(pr)
		}
	}
	for _, pr := range header.Preds {
		if header.Dominates(pr) {
			mark(pr)
		}
	}
	inBody[header] = true
	var exit ssa.Instruction
	for b := range inBody {
		if b == header {
			continue
		}
		for _, su := range b.Succs {
			if !inBody[su] {
				exit = b.Instrs[len(b.Instrs)-1]
			}
		}
		if _, isRet := b.Instrs[len(b.Instrs)-1].(*ssa.Return); isRet {
			exit = b.Instrs[len(b.Instrs)-1]
		}
	}
	pos := p.Pos(join.Pos())
	if exit != nil && exit.Pos().IsValid() {
		pos = p.Pos(exit.Pos())
	}
	r.Check(exit == nil, "C19.4", base+"|walk-order|most-specific-wins", pos, "the prefixes are visited from the least specific upwards and every one is looked at: the value found last — the most specific — is the result",
		"the prefixes are visited from the least specific upwards, but the walk stops at the first value it finds: a value configured at a parent level hides the one configured at the component's own level")
}

func loopPathPhi(f *ssa.Function) *ssa.Phi {
	var out *ssa.Phi
	core.EachInstr(f, func(in ssa.Instruction) {
		phi, ok := in.(*ssa.Phi)
		if !ok || out != nil {
			return
		}
		if b, ok := phi.Type().Underlying().(*types.Basic); !ok || b.Kind() != types.String {
			return
		}
		fromParam, fromSlice := false, false
		for _, e := range phi.Edges {
			if _, ok := e.(*ssa.Parameter); ok {
				fromParam = true
			}
			if sl, ok := e.(*ssa.Slice); ok && sl.X == ssa.Value(phi) {
				fromSlice = true
			}
		}
		if fromParam && fromSlice {
			out = phi
		}
	})
	return out
}

// checkHierarchicalLoop decides the iterative template T_loop(path):
//
//	for path != "" { key := path + "." + K; if present(key) { return get(key) }; i := LastIndex(path, "."); if i == -1 { break }; path = path[0:i] }; return get(K)
//
// By induction on the number of components it returns the value at the longest prefix that has one, else the base
// value — the same function as the recursive template.
func checkHierarchicalLoop(p *core.Prog, r *core.Report, ds *core.Describer, f *ssa.Function) {
	base := "util." + f.Name()
	path := loopPathPhi(f)
	// the index-carried form: `for end := len(path); end > 0; end = strings.LastIndex(path[:end], ".")` — the current
	// prefix is path[:end]
	var endPhi *ssa.Phi
	var pathParam *ssa.Parameter
	if path == nil {
		endPhi, pathParam = loopIndexPhi(f)
	}
	isCur := func(v ssa.Value) bool {
		if path != nil {
			return v == ssa.Value(path)
		}
		return isPrefixUpTo(v, pathParam, endPhi)
	}
	curText := ""
	if path != nil {
		curText = ds.D(path).String()
	} else {
		core.EachInstr(f, func(in ssa.Instruction) {
			if sl, ok := in.(*ssa.Slice); ok && isCur(sl) && curText == "" {
				curText = ds.D(sl).String()
			}
		})
	}
	// the only way the variable changes: path[0:LastIndex(path, ".")]
	var lastIndex *ssa.Call
	core.EachInstr(f, func(in ssa.Instruction) {
		if c, ok := in.(*ssa.Call); ok && c.Call.StaticCallee() != nil && c.Call.StaticCallee().Pkg != nil && c.Call.StaticCallee().Pkg.Pkg.Path() == "strings" && c.Call.StaticCallee().Name() == "LastIndex" && isCur(c.Call.Args[0]) {
			if s, ok := constString(c.Call.Args[1]); ok && s == "." {
				lastIndex = c
			}
		}
	})
	r.Check(lastIndex != nil, "C19.4", base+"|last-index", p.Pos(f.Pos()), "the path is shortened at strings.LastIndex(path, \".\")", "the path is not shortened at strings.LastIndex(path, \".\") (levels would be skipped)")
	if lastIndex == nil {
		return
	}
	if endPhi != nil {
		// every value of the index is len(path) (the whole path, at the start) or the position of the last period of
		// the current prefix
		for i, e := range endPhi.Edges {
			okStep := e == ssa.Value(lastIndex)
			if c, isCall := e.(*ssa.Call); isCall {
				if b, isB := c.Call.Value.(*ssa.Builtin); isB && b.Name() == "len" && len(c.Call.Args) == 1 && c.Call.Args[0] == ssa.Value(pathParam) {
					okStep = true
				}
			}
			r.Check(okStep, "C19.4", fmt.Sprintf("%s|step#%d|shortened-path", base, i+1), p.Pos(f.Pos()),
				"each step continues with path[:LastIndex(path[:end], \".\")]", "a step of the loop continues with the prefix up to "+ds.D(e).String()+", expected len(path) at the start and strings.LastIndex(path[:end], \".\") afterwards")
		}
	}
	var pathEdges []ssa.Value
	if path != nil {
		pathEdges = path.Edges
	}
	for i, e := range pathEdges {
		if _, ok := e.(*ssa.Parameter); ok {
			continue
		}
		// `path = ""` when there are no more dots, in a loop that runs while path != "": the same as leaving the loop
		if k, isC := constString(e); isC && k == "" && i < len(path.Block().Preds) {
			pred := path.Block().Preds[i]
			noDots := false
			for _, b := range f.Blocks {
				iff, ok := b.Instrs[len(b.Instrs)-1].(*ssa.If)
				if !ok {
					continue
				}
				if cmp, ok := iff.Cond.(*ssa.BinOp); ok && cmp.Op == token.EQL && cmp.X == ssa.Value(lastIndex) && core.IsIntConst(cmp.Y, -1) && (b.Succs[0] == pred || b.Succs[0].Dominates(pred)) {
					noDots = true
				}
			}
			whileNonEmpty := false
			if iff, ok := path.Block().Instrs[len(path.Block().Instrs)-1].(*ssa.If); ok {
				if cmp, ok := iff.Cond.(*ssa.BinOp); ok && cmp.Op == token.NEQ && cmp.X == ssa.Value(path) {
					if k2, ok := constString(cmp.Y); ok && k2 == "" {
						whileNonEmpty = true
					}
				}
			}
			if noDots && whileNonEmpty {
				r.Hold("C19.4", fmt.Sprintf("%s|step#%d|shortened-path", base, i+1), p.Pos(f.Pos()), "a path without dots continues with \"\", which ends the loop (it runs while path != \"\")")
				continue
			}
		}
		sl, ok := e.(*ssa.Slice)
		lowOK := ok && (sl.Low == nil || func() bool { c0, ok := sl.Low.(*ssa.Const); return ok && c0.Value != nil && c0.Int64() == 0 }())
		r.Check(ok && sl.X == ssa.Value(path) && lowOK && sl.High == ssa.Value(lastIndex), "C19.4", fmt.Sprintf("%s|step#%d|shortened-path", base, i+1), p.Pos(f.Pos()),
			"each step continues with path[0:LastIndex(path, \".\")]", "a step of the loop continues with "+ds.D(e).String()+", expected path[0:i] with i = strings.LastIndex(path, \".\")")
	}
	// key and presence
	var keyCall *ssa.Call
	var suffix string
	var suffixParam *ssa.Parameter
	core.EachInstr(f, func(in ssa.Instruction) {
		c, ok := in.(*ssa.Call)
		if !ok || c.Call.StaticCallee() == nil || c.Call.StaticCallee().Name() != "Sprintf" {
			return
		}
		format, ok := constString(c.Call.Args[0])
		if !ok || !strings.HasPrefix(format, "%s.") {
			return
		}
		d := ds.D(c.Call.Args[1])
		if d.Kind != "varargs" || len(d.Args) == 0 || (!isCur(d.Args[0].Val) && d.Args[0].String() != curText) {
			return
		}
		keyCall = c
		rest := strings.TrimPrefix(format, "%s.")
		if rest == "%s" && len(d.Args) == 2 {
			if d.Args[1].Kind == "param" {
				for _, prm := range f.Params {
					if prm.Name() == d.Args[1].Name {
						suffixParam = prm
					}
				}
			} else if cs, ok := constString(d.Args[1].Val); ok {
				suffix = cs
			}
		} else {
			suffix = rest
		}
	})
	if keyCall == nil {
		r.Violate("C19.2", base+"|key", p.Pos(f.Pos()), "the lookup key is not built as <path>.<name> from the current path")
		return
	}
	usesKey := func(d *core.VD) (string, bool) {
		g, hit := "", false
		d.Walk(func(x *core.VD) bool {
			if x.Kind == "call" && strings.Contains(x.Name, "spf13/viper.") && len(x.Args) == 1 && x.Args[0].Val == ssa.Value(keyCall) {
				hit = true
				g = x.Name[strings.LastIndex(x.Name, ".")+1:]
			}
			return true
		})
		return g, hit
	}
	testGetter := ""
	thresholdNote := ""
	presence := func(c core.Cond) int {
		if c.Op == "" {
			if c.B != nil {
				if g, hit := usesKey(c.B); hit {
					testGetter = g
					if c.BoolOnEdge(0) {
						return 0
					}
					return 1
				}
			}
			return -1
		}
		for _, side := range []*core.VD{c.X, c.Y} {
			if g, hit := usesKey(side); hit {
				testGetter = g
				for s := 0; s < 2; s++ {
					rel := c.RelOnEdge(s)
					if side == c.Y {
						rel = core.FlipRel(rel)
					}
					other := c.Y
					if side == c.Y {
						other = c.X
					}
					if present, note := presenceRel(rel, other); present {
						if note != "" {
							thresholdNote = note
						}
						return s
					}
				}
			}
		}
		return -1
	}
	absent := func(c core.Cond) int {
		s := presence(c)
		if s < 0 {
			return -1
		}
		return 1 - s
	}
	exhausted := func(c core.Cond) int {
		// path == "" or LastIndex == -1
		if c.Op == "" || c.X == nil || c.Y == nil {
			return -1
		}
		if endPhi != nil && c.X.Val == ssa.Value(endPhi) && c.Y.Kind == "const" && c.Y.Name == "0" {
			// the loop runs while end > 0: it is left with end <= 0 (no period left: -1; an empty prefix: 0)
			for e := 0; e < 2; e++ {
				if rel := c.RelOnEdge(e); rel == "<=" {
					return e
				}
			}
		}
		if path != nil && (c.X.Val == ssa.Value(path) || c.Y.Val == ssa.Value(path)) {
			k := c.Y
			if c.Y.Val == ssa.Value(path) {
				k = c.X
			}
			if s, ok := constString(k.Val); ok && s == "" {
				for e := 0; e < 2; e++ {
					if c.RelOnEdge(e) == "==" {
						return e
					}
				}
			}
		}
		if c.X.Val == ssa.Value(lastIndex) && c.Y.Kind == "const" && c.Y.Name == "-1" {
			for e := 0; e < 2; e++ {
				if c.RelOnEdge(e) == "==" {
					return e
				}
			}
		}
		return -1
	}
	nBase, nHit := 0, 0
	var baseKeys []string
	baseParam := false
	for i, ret := range core.ReturnsOf(f) {
		construct := fmt.Sprintf("%s|return#%d", base, i+1)
		if len(ret.Results) != 1 {
			continue
		}
		d := ds.D(ret.Results[0])
		isRet := func(in ssa.Instruction) bool { return in == ssa.Instruction(ret) }
		var keys []*core.VD
		d.Walk(func(x *core.VD) bool {
			if x.Kind == "call" && strings.Contains(x.Name, "spf13/viper.Get") && len(x.Args) == 1 {
				keys = append(keys, x.Args[0])
			}
			return true
		})
		if len(keys) == 0 {
			r.Violate("C19.5", construct, p.Pos(ret.Pos()), "a return that is neither the base value nor a found value: "+d.String())
			continue
		}
		if keys[0].Val == ssa.Value(keyCall) {
			nHit++
			w := core.Unguarded(ds, f, nil, isRet, presence)
			r.Check(w == nil, "C19.3", construct+"|presence-test", p.Pos(ret.Pos()), "the found value is returned only after a presence test on the same key", "the value at <path>.<name> is returned without a presence test on that key", p.WitnessText(w)...)
			if w == nil {
				r.Check(thresholdNote == "", "C19.3", construct+"|presence-threshold", p.Pos(ret.Pos()), "an order test that decides presence compares with zero", "presence is decided by "+thresholdNote+": a more specific value that is set but does not exceed that threshold is ignored in favour of a less specific level")
			}
			rt := f.Signature.Results().At(0).Type().Underlying()
			if b, ok := rt.(*types.Basic); ok && (b.Info()&types.IsBoolean != 0 || b.Info()&types.IsInteger != 0) && !strings.HasSuffix(types.TypeString(f.Signature.Results().At(0).Type(), nil), "time.Duration") && w == nil {
				okGetter := testGetter == "GetString" || testGetter == "IsSet" || testGetter == "Get" || testGetter == "InConfig"
				r.Check(okGetter, "C19.3", construct+"|presence-distinguishes-zero", p.Pos(ret.Pos()), "presence is tested with "+testGetter, "presence is tested with "+testGetter+": an explicitly configured zero value at the more specific level is treated as unset")
			}
			continue
		}
		// base return
		nBase++
		for _, k := range keys {
			if s, ok := constString(k.Val); ok {
				baseKeys = append(baseKeys, s)
			} else if k.Kind == "param" && suffixParam != nil && k.Name == suffixParam.Name() {
				baseParam = true
			} else {
				r.Violate("C19.1", construct+"|base-key", p.Pos(ret.Pos()), "the top-level value is read from a computed key: "+k.String())
			}
		}
		w := core.Unguarded(ds, f, nil, isRet, exhausted)
		r.Check(w == nil, "C19.1", construct+"|base", p.Pos(ret.Pos()), "the top-level value is returned only when the path is used up (empty, or no more dots)", "the top-level value can be returned although more specific levels remain", p.WitnessText(w)...)
	}
	if suffixParam != nil {
		r.Check(baseParam, "C19.2", base+"|suffix-equals-base", p.Pos(keyCall.Pos()), "the per-level key uses the same variable name as the top-level lookup", "the per-level key uses the variable parameter but the top-level lookup does not")
	} else {
		ok := false
		for _, k := range baseKeys {
			if k == suffix {
				ok = true
			}
		}
		r.Check(ok, "C19.2", base+"|suffix-equals-base", p.Pos(keyCall.Pos()), fmt.Sprintf("per-level key suffix %q is the base key", suffix), fmt.Sprintf("per-level key suffix %q differs from the top-level key(s) %v", suffix, baseKeys))
	}
	r.Check(nBase >= 1, "C19.1", base+"|has-base-return", p.Pos(f.Pos()), "has a top-level return", "no top-level return")
	r.Check(nHit >= 1, "C19.3", base+"|has-hit-return", p.Pos(f.Pos()), "has a found-value return", "no return of the value found at <path>.<name>")
	// a level is left (shortened, or given up for the top level) only after its own key was found absent
	wStep := core.Unguarded(ds, f, nil, func(in ssa.Instruction) bool { return in == ssa.Instruction(lastIndex) }, absent)
	r.Check(wStep == nil, "C19.4", base+"|only-after-absent", p.Pos(lastIndex.Pos()), "a level is left only after its presence test failed", "a level can be left without its own key having been tested: a value configured at that level is skipped", p.WitnessText(wStep)...)
}

func checkHierarchical(p *core.Prog, r *core.Report, ds *core.Describer, f *ssa.Function) {
	base := "util." + f.Name()
	// the path parameter: the string parameter that is sliced / compared with ""
	var path *ssa.Parameter
	for _, prm := range f.Params {
		if b, ok := prm.Type().Underlying().(*types.Basic); ok && b.Kind() == types.String {
			if prm.Referrers() != nil {
				for _, ref := range *prm.Referrers() {
					if _, ok := ref.(*ssa.Slice); ok {
						path = prm
					}
					if c, ok := ref.(*ssa.Call); ok && c.Call.StaticCallee() != nil && (c.Call.StaticCallee().Name() == "LastIndex" || c.Call.StaticCallee().Name() == "LastIndexByte") {
						path = prm
					}
				}
			}
		}
	}
	if path == nil {
		// fall back to a parameter named path
		for _, prm := range f.Params {
			if prm.Name() == "path" {
				path = prm
			}
		}
	}
	if path == nil {
		r.Violate("C19.4", base+"|path-parameter", p.Pos(f.Pos()), "no string parameter of the getter is shortened for the fallback lookup")
		return
	}
	// the key-resolver form: the function returns the KEY of the most specific level that is present — presence being
	// asked of a callback — and its callers read the value at that key
	var presentParam *ssa.Parameter
	if rb, ok := f.Signature.Results().At(0).Type().Underlying().(*types.Basic); ok && rb.Kind() == types.String {
		for _, prm := range f.Params {
			if sg, ok := prm.Type().Underlying().(*types.Signature); ok && sg.Params().Len() == 1 && sg.Results().Len() == 1 {
				if b, ok := sg.Results().At(0).Type().Underlying().(*types.Basic); ok && b.Kind() == types.Bool {
					presentParam = prm
				}
			}
		}
	}
	keyForm := presentParam != nil
	emptyG := func(c core.Cond) int {
		if c.Op != "==" && c.Op != "!=" {
			return -1
		}
		var o, k *core.VD
		if c.X.Val == ssa.Value(path) {
			o, k = c.X, c.Y
		} else if c.Y.Val == ssa.Value(path) {
			o, k = c.Y, c.X
		} else {
			return -1
		}
		_ = o
		if s, ok := constString(k.Val); !ok || s != "" {
			return -1
		}
		for s := 0; s < 2; s++ {
			if c.RelOnEdge(s) == "==" {
				return s
			}
		}
		return -1
	}
	nonEmptyG := func(c core.Cond) int {
		s := emptyG(c)
		if s < 0 {
			return -1
		}
		return 1 - s
	}

	// the key: Sprintf("%s.<K'>", path) or Sprintf("%s.%s", path, variable)
	var keyCall *ssa.Call
	var suffix string
	var suffixParam *ssa.Parameter
	core.EachInstr(f, func(in ssa.Instruction) {
		c, ok := in.(*ssa.Call)
		if !ok || c.Call.StaticCallee() == nil || c.Call.StaticCallee().Name() != "Sprintf" {
			return
		}
		format, ok := constString(c.Call.Args[0])
		if !ok || !strings.HasPrefix(format, "%s.") {
			return
		}
		d := ds.D(c.Call.Args[1])
		if d.Kind != "varargs" || len(d.Args) == 0 || d.Args[0].Kind != "param" || d.Args[0].Name != path.Name() {
			return
		}
		keyCall = c
		rest := strings.TrimPrefix(format, "%s.")
		if rest == "%s" && len(d.Args) == 2 {
			if d.Args[1].Kind == "param" {
				for _, prm := range f.Params {
					if prm.Name() == d.Args[1].Name {
						suffixParam = prm
					}
				}
			} else if cs, ok := constString(d.Args[1].Val); ok {
				suffix = cs // a named constant as the second operand
			} else if d.Args[1].Kind == "const" {
				suffix = strings.Trim(d.Args[1].Name, "\"")
			}
		} else {
			suffix = rest
		}
	})
	// string concatenation form: path + ".K'"
	var keyVal ssa.Value
	if keyCall == nil {
		core.EachInstr(f, func(in ssa.Instruction) {
			bo, ok := in.(*ssa.BinOp)
			if !ok || bo.Op != token.ADD || bo.X != ssa.Value(path) {
				return
			}
			if cs, ok := constString(bo.Y); ok && strings.HasPrefix(cs, ".") {
				keyVal = bo
				suffix = strings.TrimPrefix(cs, ".")
			}
		})
	}
	var keyV ssa.Value = keyVal
	if keyCall != nil {
		keyV = keyCall
	}
	if keyV == nil {
		r.Violate("C19.2", base+"|key", p.Pos(f.Pos()), "the lookup key is not built as <path>.<name> from the path parameter")
		return
	}

	// classify returns
	var baseKeys []string
	baseParam := false
	nBase, nHit, nRec := 0, 0, 0
	sawTop, sawShort := false, false
	var lastIndex *ssa.Call
	core.EachInstr(f, func(in ssa.Instruction) {
		if c, ok := in.(*ssa.Call); ok && c.Call.StaticCallee() != nil && c.Call.StaticCallee().Pkg != nil && c.Call.StaticCallee().Pkg.Pkg.Path() == "strings" {
			if c.Call.StaticCallee().Name() == "LastIndex" && c.Call.Args[0] == ssa.Value(path) {
				if s, ok := constString(c.Call.Args[1]); ok && s == "." {
					lastIndex = c
				}
			}
			// the byte form of the same search
			if c.Call.StaticCallee().Name() == "LastIndexByte" && c.Call.Args[0] == ssa.Value(path) && core.IsIntConst(c.Call.Args[1], '.') {
				lastIndex = c
			}
		}
	})
	// presence test on the same key
	var testGetter string
	thresholdNote := ""
	assertedPresence := false
	presence := func(c core.Cond) int {
		if keyForm {
			if c.Op == "" && c.B != nil {
				if call, ok := c.B.Val.(*ssa.Call); ok && call.Call.Value == ssa.Value(presentParam) && len(call.Call.Args) == 1 && call.Call.Args[0] == keyV {
					testGetter = "callback"
					if c.BoolOnEdge(0) {
						return 0
					}
					return 1
				}
			}
			return -1
		}
		if c.Op == "" {
			// boolean getter used directly as the test
			if c.B != nil {
				var g string
				hit := false
				// presence asked by a type assertion on viper.Get(key): a value that reaches viper as a string (an
				// environment variable, a quoted scalar) fails the assertion and counts as unset
				if ex, isEx := c.B.Val.(*ssa.Extract); isEx {
					if _, isTA := ex.Tuple.(*ssa.TypeAssert); isTA {
						assertedPresence = true
					}
				}
				c.B.Walk(func(x *core.VD) bool {
					if x.Kind == "call" && strings.Contains(x.Name, "spf13/viper.") && len(x.Args) == 1 && x.Args[0].Val == keyV {
						hit = true
						g = x.Name[strings.LastIndex(x.Name, ".")+1:]
					}
					return true
				})
				if hit {
					testGetter = g
					if c.BoolOnEdge(0) {
						return 0
					}
					return 1
				}
			}
			return -1
		}
		for _, side := range []*core.VD{c.X, c.Y} {
			hit := false
			g := ""
			side.Walk(func(x *core.VD) bool {
				if x.Kind == "call" && strings.Contains(x.Name, "spf13/viper.") && len(x.Args) == 1 && x.Args[0].Val == keyV {
					hit = true
					g = x.Name[strings.LastIndex(x.Name, ".")+1:]
				}
				return true
			})
			if hit {
				testGetter = g
				// the edge on which the value is "present": != zero / > 0
				for s := 0; s < 2; s++ {
					rel := c.RelOnEdge(s)
					if side == c.Y {
						rel = core.FlipRel(rel)
					}
					other := c.Y
					if side == c.Y {
						other = c.X
					}
					if present, note := presenceRel(rel, other); present {
						if note != "" {
							thresholdNote = note
						}
						return s
					}
				}
			}
		}
		return -1
	}
	for i, ret := range core.ReturnsOf(f) {
		construct := fmt.Sprintf("%s|return#%d", base, i+1)
		if len(ret.Results) != 1 {
			continue
		}
		d := ds.D(ret.Results[0])
		isRet := func(in ssa.Instruction) bool { return in == ssa.Instruction(ret) }
		// recursive?
		if c, ok := ret.Results[0].(*ssa.Call); ok && c.Call.StaticCallee() == f {
			nRec++
			checkRecursion(p, r, ds, f, c, path, lastIndex, construct, &sawTop, &sawShort, presence)
			continue
		}
		if d.MentionsCall(core.FnKey(f)) {
			r.Violate("C19.4", construct+"|recursive-result", p.Pos(ret.Pos()), "the result of the fallback lookup is not returned as is: "+d.String())
			continue
		}
		// viper getter keys used by this return
		var keys []*core.VD
		d.Walk(func(x *core.VD) bool {
			if x.Kind == "call" && strings.Contains(x.Name, "spf13/viper.Get") && len(x.Args) == 1 {
				keys = append(keys, x.Args[0])
			}
			return true
		})
		if keyForm {
			keys = []*core.VD{d} // what is returned is the key itself
		}
		if len(keys) == 0 {
			r.Violate("C19.5", construct, p.Pos(ret.Pos()), "a return that is neither the base value, a found value nor the fallback lookup: "+d.String())
			continue
		}
		onEmpty := core.Unguarded(ds, f, nil, isRet, emptyG) == nil
		onNonEmpty := core.Unguarded(ds, f, nil, isRet, nonEmptyG) == nil
		switch {
		case onEmpty:
			nBase++
			for _, k := range keys {
				if s, ok := constString(k.Val); ok {
					baseKeys = append(baseKeys, s)
				} else if k.Kind == "param" && suffixParam != nil && k.Name == suffixParam.Name() {
					baseParam = true
				} else {
					r.Violate("C19.1", construct+"|base-key", p.Pos(ret.Pos()), "the top-level value is read from a computed key: "+k.String())
				}
			}
			r.Hold("C19.1", construct+"|base", p.Pos(ret.Pos()), "path == \"\" returns the getter of the base key")
		case onNonEmpty:
			nHit++
			for _, k := range keys {
				r.Check(k.Val == keyV, "C19.3", construct+"|returned-key", p.Pos(ret.Pos()), "the value returned is read from <path>.<name>", "the value returned is read from "+k.String()+", not from the key that was tested")
			}
			w := core.Unguarded(ds, f, nil, isRet, presence)
			r.Check(w == nil, "C19.3", construct+"|presence-test", p.Pos(ret.Pos()), "the found value is returned only after a presence test on the same key", "the value at <path>.<name> is returned without a presence test on that key", p.WitnessText(w)...)
			if w == nil {
				r.Check(thresholdNote == "", "C19.3", construct+"|presence-threshold", p.Pos(ret.Pos()), "an order test that decides presence compares with zero", "presence is decided by "+thresholdNote+": a more specific value that is set but does not exceed that threshold is ignored in favour of a less specific level")
				// a list (or map) value read as a string is "": presence of a non-scalar setting is not asked with GetString
				valueGetter := ""
				d.Walk(func(x *core.VD) bool {
					if x.Kind == "call" && strings.Contains(x.Name, "spf13/viper.Get") && len(x.Args) == 1 {
						valueGetter = x.Name[strings.LastIndex(x.Name, ".")+1:]
					}
					return true
				})
				r.Check(!assertedPresence, "C19.3", construct+"|presence-not-by-type-assertion", p.Pos(ret.Pos()), "presence is asked of a viper getter, not of the dynamic type of the stored value", "presence is decided by a type assertion on viper.Get(key): a value that reaches viper as a string (an environment variable, a quoted scalar in the file) has another dynamic type, so a more specific setting given that way counts as unset")
				nonScalar := strings.HasPrefix(valueGetter, "GetStringSlice") || strings.HasPrefix(valueGetter, "GetStringMap") || strings.HasPrefix(valueGetter, "GetIntSlice")
				r.Check(!(nonScalar && testGetter == "GetString"), "C19.3", construct+"|presence-getter-fits-value", p.Pos(ret.Pos()), "presence is asked with a getter that sees the kind of value that is returned", "the value is read with "+valueGetter+" but its presence is tested with GetString: a list given as a list in the configuration file reads as the empty string, so the more specific level counts as unset")
			}
			if w == nil {
				rt := f.Signature.Results().At(0).Type().Underlying()
				zeroOK := false
				if b, ok := rt.(*types.Basic); ok && (b.Info()&types.IsBoolean != 0 || b.Info()&types.IsInteger != 0) {
					zeroOK = true // false / 0 are legitimate explicit settings
				}
				if strings.HasSuffix(types.TypeString(f.Signature.Results().At(0).Type(), nil), "time.Duration") {
					zeroOK = false // a zero timeout is not a usable setting; treated as absent by design (visible, not judged)
				}
				if zeroOK {
					okGetter := testGetter == "GetString" || testGetter == "IsSet" || testGetter == "Get" || testGetter == "InConfig"
					r.Check(okGetter, "C19.3", construct+"|presence-distinguishes-zero", p.Pos(ret.Pos()), "presence is tested with "+testGetter+", which distinguishes an explicit zero value from an unset key",
						"presence is tested with "+testGetter+": an explicitly configured zero value (false / 0) at the more specific level is treated as unset and overridden by a less specific level")
				}
			}
		default:
			r.Violate("C19.5", construct, p.Pos(ret.Pos()), "a viper value is returned on a path that is neither the path == \"\" case nor a found more-specific key")
		}
	}
	// (2) suffix equals base key
	if suffixParam != nil {
		r.Check(baseParam, "C19.2", base+"|suffix-equals-base", p.Pos(keyV.Pos()), "the per-level key uses the same variable name as the top-level lookup", "the per-level key uses the variable parameter but the top-level lookup does not")
	} else {
		ok := false
		for _, k := range baseKeys {
			if k == suffix {
				ok = true
			}
		}
		r.Check(ok, "C19.2", base+"|suffix-equals-base", p.Pos(keyV.Pos()), fmt.Sprintf("per-level key suffix %q is the base key", suffix), fmt.Sprintf("per-level key suffix %q differs from the top-level key(s) %v", suffix, baseKeys))
	}
	if keyForm {
		// the callers: presence is asked of viper for the key handed to the callback, and the value is read at the key
		// that comes back
		nCallers := 0
		if n := p.CallGraph().Nodes[f]; n != nil {
			for _, e := range n.In {
				if e.Caller.Func == f || e.Site == nil {
					continue
				}
				call, ok := e.Site.(*ssa.Call)
				if !ok {
					continue
				}
				nCallers++
				cbase := fmt.Sprintf("%s|caller %s", base, core.FnKey(e.Caller.Func))
				readsAtKey := call.Referrers() != nil && len(*call.Referrers()) > 0
				if call.Referrers() != nil {
					for _, ref := range *call.Referrers() {
						if _, isDbg := ref.(*ssa.DebugRef); isDbg {
							continue
						}
						g, isCall := ref.(*ssa.Call)
						if !isCall || !strings.Contains(core.CalleeName(&g.Call), "spf13/viper.Get") || len(g.Call.Args) != 1 || g.Call.Args[0] != ssa.Value(call) {
							readsAtKey = false
						}
					}
				}
				r.Check(readsAtKey, "C19.3", cbase+"|value-read-at-resolved-key", p.Pos(call.Pos()), "the value is read at the key the resolver returned", "the key returned by the resolver is not (only) handed to a viper getter")
				var cb *ssa.Function
				for i, prm := range f.Params {
					if prm == presentParam && i < len(call.Call.Args) {
						switch x := call.Call.Args[i].(type) {
						case *ssa.MakeClosure:
							cb, _ = x.Fn.(*ssa.Function)
						case *ssa.Function:
							cb = x
						}
					}
				}
				okCb := false
				if cb != nil && len(cb.Params) == 1 {
					for _, ret := range core.ReturnsOf(cb) {
						if len(ret.Results) == 1 {
							okCb = ds.D(ret.Results[0]).Any(func(x *core.VD) bool {
								return x.Kind == "call" && strings.Contains(x.Name, "spf13/viper.") && len(x.Args) == 1 && x.Args[0].Kind == "param" && x.Args[0].Name == cb.Params[0].Name()
							})
						}
					}
				}
				r.Check(okCb, "C19.3", cbase+"|presence-callback", p.Pos(call.Pos()), "presence is asked of viper for the key handed to the callback", "the presence callback does not test the key it is handed")
			}
		}
		r.Check(nCallers >= 1, "C19.3", base+"|has-callers", p.Pos(f.Pos()), "the key resolver is used", "the key resolver has no caller")
	}
	r.Check(nBase >= 1, "C19.1", base+"|has-base-return", p.Pos(f.Pos()), "has a top-level return", "no return for path == \"\"")
	r.Check(nHit >= 1, "C19.3", base+"|has-hit-return", p.Pos(f.Pos()), "has a found-value return", "no return of the value found at <path>.<name>")
	r.Check(nRec >= 1 && sawTop && sawShort, "C19.4", base+"|fallback-returns", p.Pos(f.Pos()), "the fallback lookup is made both with \"\" (no more dots) and with the shortened path", fmt.Sprintf("%d fallback returns; expected the fallbacks self(\"\") and self(path[0:i]) (top level reached: %v, shortened path: %v)", nRec, sawTop, sawShort))
	r.Check(lastIndex != nil, "C19.4", base+"|last-index", p.Pos(f.Pos()), "the path is shortened at strings.LastIndex(path, \".\")", "the path is not shortened at strings.LastIndex(path, \".\") (levels would be skipped)")
}

func checkRecursion(p *core.Prog, r *core.Report, ds *core.Describer, f *ssa.Function, c *ssa.Call, path *ssa.Parameter, lastIndex *ssa.Call, construct string, sawTop, sawShort *bool, presence core.GuardSpec) {
	// which argument is the path
	k := -1
	for i, prm := range f.Params {
		if prm == path {
			k = i
		}
	}
	if k < 0 || k >= len(c.Call.Args) {
		return
	}
	// other arguments are passed through unchanged
	for i, a := range c.Call.Args {
		if i != k {
			r.Check(a == ssa.Value(f.Params[i]), "C19.4", fmt.Sprintf("%s|other-arg#%d", construct, i), p.Pos(c.Pos()), "other arguments passed through", "the fallback lookup changes argument "+f.Params[i].Name())
		}
	}
	// the less specific level is consulted only after this level was found to have no value
	wAbs := core.Unguarded(ds, f, nil, func(in ssa.Instruction) bool { return in == ssa.Instruction(c) }, func(cd core.Cond) int {
		s := presence(cd)
		if s < 0 {
			return -1
		}
		return 1 - s
	})
	r.Check(wAbs == nil, "C19.4", construct+"|only-after-absent", p.Pos(c.Pos()), "the fallback lookup is made only after the presence test at this level failed",
		"the fallback lookup is reachable without this level's own key having been tested: a value configured at this level is skipped", p.WitnessText(wAbs)...)
	arg := c.Call.Args[k]
	leaves := core.FeasibleLeaves(f, arg, c)
	if len(leaves) == 0 {
		r.Violate("C19.4", construct+"|shortened-path", p.Pos(c.Pos()), "the fallback lookup is not made with a prefix of the path: "+ds.D(arg).String())
		return
	}
	for li, lf := range leaves {
		lc := construct
		if len(leaves) > 1 {
			lc = fmt.Sprintf("%s|alt#%d", construct, li+1)
		}
		if s, ok := constString(lf.V); ok {
			r.Check(s == "", "C19.4", lc+"|top-level-fallback", p.Pos(c.Pos()), "falls back to the top level", fmt.Sprintf("falls back to the constant path %q", s))
			if lastIndex != nil {
				// only when LastIndex == -1
				w := core.UnguardedLeaf(ds, f, nil, lf, func(cd core.Cond) int {
					if cd.Op == "" || cd.X.Val != ssa.Value(lastIndex) {
						return -1
					}
					if cd.Y.Kind != "const" || (cd.Y.Name != "-1" && cd.Y.Name != "0") {
						return -1
					}
					for s := 0; s < 2; s++ {
						// == -1, or < 0 (the index is -1 or a position)
						if (cd.Y.Name == "-1" && cd.RelOnEdge(s) == "==") || (cd.Y.Name == "0" && cd.RelOnEdge(s) == "<") {
							return s
						}
					}
					return -1
				})
				r.Check(w == nil, "C19.4", lc+"|top-level-only-without-dot", p.Pos(c.Pos()), "the top level is consulted only when the path has no more dots", "the top level can be consulted although the path still has parent levels", p.WitnessText(w)...)
			}
			*sawTop = true
			continue
		}
		// strings.TrimSuffix(path, path[i:]) is path[:i] (TrimRight, which takes a set of characters, is not)
		if tc, isCall := lf.V.(*ssa.Call); isCall && core.CalleeName(tc.Common()) == "strings.TrimSuffix" && len(tc.Call.Args) == 2 && tc.Call.Args[0] == ssa.Value(path) {
			if suf, isSl := tc.Call.Args[1].(*ssa.Slice); isSl && suf.X == ssa.Value(path) && suf.High == nil && lastIndex != nil && suf.Low == ssa.Value(lastIndex) {
				r.Hold("C19.4", lc+"|shortened-path", p.Pos(c.Pos()), "fallback with path minus its last component (TrimSuffix(path, path[i:]))")
				*sawShort = true
				continue
			}
		}
		sl, ok := lf.V.(*ssa.Slice)
		if !ok || sl.X != ssa.Value(path) {
			r.Violate("C19.4", lc+"|shortened-path", p.Pos(c.Pos()), "the fallback lookup is not made with a prefix of the path: "+ds.D(lf.V).String())
			continue
		}
		lowOK := sl.Low == nil
		if c0, ok := sl.Low.(*ssa.Const); ok && c0.Value != nil && c0.Int64() == 0 {
			lowOK = true
		}
		highOK := lastIndex != nil && sl.High == ssa.Value(lastIndex)
		r.Check(lowOK && highOK, "C19.4", lc+"|shortened-path", p.Pos(c.Pos()), "fallback with path[0:LastIndex(path, \".\")]", "the fallback path is "+ds.D(lf.V).String()+", expected path[0:i] with i = strings.LastIndex(path, \".\")")
		*sawShort = true
	}
}

// arrivesOnlyWithNonEmpty: every way into b is the true edge of a test `v == "<non-empty constant>"` (a switch case
// on v), possibly through blocks that only jump.
func arrivesOnlyWithNonEmpty(b *ssa.BasicBlock, v ssa.Value, depth int) bool {
	if depth > 4 || len(b.Preds) == 0 {
		return false
	}
	for _, pr := range b.Preds {
		last := pr.Instrs[len(pr.Instrs)-1]
		if iff, ok := last.(*ssa.If); ok {
			cmp, ok := iff.Cond.(*ssa.BinOp)
			if !ok || cmp.Op != token.EQL || pr.Succs[0] != b {
				return false
			}
			var c ssa.Value
			switch {
			case cmp.X == v:
				c = cmp.Y
			case cmp.Y == v:
				c = cmp.X
			default:
				return false
			}
			if k, ok := constString(c); !ok || k == "" {
				return false
			}
			continue
		}
		if _, ok := last.(*ssa.Jump); ok && len(pr.Instrs) == 1 {
			if !arrivesOnlyWithNonEmpty(pr, v, depth+1) {
				return false
			}
			continue
		}
		return false
	}
	return true
}

// presenceRel: does `value rel other` say "the value is present"?  != anything, > 0, >= 1; an order test against another
// constant still guards the found value, but with a threshold (note) that is not presence.
func presenceRel(rel string, other *core.VD) (bool, string) {
	switch rel {
	case "!=":
		return true, ""
	case ">", ">=":
		want := int64(0)
		if rel == ">=" {
			want = 1
		}
		if other != nil && other.Val != nil && core.IsIntConst(other.Val, want) {
			return true, ""
		}
		if other != nil && other.Val != nil {
			if _, isC := other.Val.(*ssa.Const); isC {
				return true, "`" + rel + " " + other.String() + "`"
			}
		}
		if rel == ">" {
			return true, ""
		}
	}
	return false, ""
}

// wellFormedPathFormat: the format is made of %s verbs and literal text only, joined so that no component is empty by
// construction ("%s.%s", "%s.style", "a.%s"): no leading or trailing period, no two periods in a row.
func wellFormedPathFormat(format string) bool {
	if format == "" || strings.HasPrefix(format, ".") || strings.HasSuffix(format, ".") || strings.Contains(format, "..") {
		return false
	}
	rest := strings.ReplaceAll(format, "%s", "x")
	return !strings.Contains(rest, "%")
}

// loopIndexPhi recognises the index-carried iterative getter: an integer variable that starts as len(P) for a string
// parameter P and is replaced, around a loop, by strings.LastIndex(P[:end], "."). Returns the variable and P.
func loopIndexPhi(f *ssa.Function) (*ssa.Phi, *ssa.Parameter) {
	var out *ssa.Phi
	var prm *ssa.Parameter
	core.EachInstr(f, func(in ssa.Instruction) {
		phi, ok := in.(*ssa.Phi)
		if !ok || out != nil {
			return
		}
		if b, ok := phi.Type().Underlying().(*types.Basic); !ok || b.Info()&types.IsInteger == 0 {
			return
		}
		var fromLen *ssa.Parameter
		fromLast := false
		for _, e := range phi.Edges {
			c, ok := e.(*ssa.Call)
			if !ok {
				continue
			}
			if b, isB := c.Call.Value.(*ssa.Builtin); isB && b.Name() == "len" && len(c.Call.Args) == 1 {
				if q, ok := c.Call.Args[0].(*ssa.Parameter); ok {
					if bt, ok := q.Type().Underlying().(*types.Basic); ok && bt.Kind() == types.String {
						fromLen = q
					}
				}
			}
		}
		if fromLen == nil {
			return
		}
		for _, e := range phi.Edges {
			c, ok := e.(*ssa.Call)
			if !ok || c.Call.StaticCallee() == nil || c.Call.StaticCallee().Pkg == nil || c.Call.StaticCallee().Pkg.Pkg.Path() != "strings" || c.Call.StaticCallee().Name() != "LastIndex" {
				continue
			}
			if isPrefixUpTo(c.Call.Args[0], fromLen, phi) {
				fromLast = true
			}
		}
		if fromLast {
			out, prm = phi, fromLen
		}
	})
	return out, prm
}

// isPrefixUpTo: v is P[:end] (or P[0:end]).
func isPrefixUpTo(v ssa.Value, prm *ssa.Parameter, end *ssa.Phi) bool {
	sl, ok := v.(*ssa.Slice)
	if !ok || prm == nil || end == nil || sl.X != ssa.Value(prm) || sl.High != ssa.Value(end) {
		return false
	}
	if sl.Low != nil {
		c, ok := sl.Low.(*ssa.Const)
		if !ok || c.Value == nil || c.Int64() != 0 {
			return false
		}
	}
	return true
}
