package rules

import (
	"fmt"
	"go/token"
	"go/types"
	"golang.org/x/tools/go/ssa"
	"strings"

	"vouchcheck/internal/core"
)

// level is one function on the way to an effect: site is the call in fn that leads towards it.
type level struct {
	fn   *ssa.Function
	site ssa.Instruction
}

// callChain returns [fn, caller, caller's caller, ...] following unique static callers inside the package.
func callChain(p *core.Prog, fn *ssa.Function, site ssa.Instruction, max int) []level {
	chain := []level{{fn, site}}
	for cur := fn; len(chain) < max; {
		n := p.CallGraph().Nodes[cur]
		var callers []level
		if n != nil {
			for _, e := range n.In {
				if e.Site != nil && e.Site.Common().StaticCallee() == cur && e.Caller.Func.Pkg == cur.Pkg {
					if _, isGo := e.Site.(*ssa.Go); isGo {
						continue
					}
					callers = append(callers, level{e.Caller.Func, e.Site.(ssa.Instruction)})
				}
			}
		}
		if len(callers) != 1 {
			break
		}
		chain = append(chain, callers[0])
		cur = callers[0].fn
	}
	return chain
}

// guardOnChain: is the guard established (directly or via an error-returning helper) at some level of the chain?
func guardOnChain(p *core.Prog, ds *core.Describer, chain []level, g core.GuardSpec) (bool, []ssa.Instruction, string) {
	var wit []ssa.Instruction
	for _, l := range chain {
		good, w, via := guardEstablishedBefore(p, ds, l.fn, l.site, g)
		if good {
			return true, nil, via
		}
		if w != nil {
			wit = w
		}
	}
	return false, wit, ""
}

// guardEstablishedBefore decides whether, in fn, every path to target passes the guard either directly or through a
// helper call whose error is tested nil and whose nil returns are guarded.
func guardEstablishedBefore(p *core.Prog, ds *core.Describer, fn *ssa.Function, target ssa.Instruction, g core.GuardSpec) (bool, []ssa.Instruction, string) {
	isT := func(in ssa.Instruction) bool { return in == target }
	if w := core.Unguarded(ds, fn, nil, isT, g); w == nil {
		if core.CountGuards(ds, fn, g) > 0 {
			return true, nil, "direct test in " + core.FnKey(fn)
		}
	}
	// helpers: static calls to module functions returning error
	var lastW []ssa.Instruction
	for _, ci := range core.Calls(fn, func(c *ssa.CallCommon) bool {
		f := c.StaticCallee()
		return f != nil && f.Pkg != nil && core.IsProd(f.Pkg.Pkg.Path()) && f.Blocks != nil
	}) {
		call, ok := ci.(*ssa.Call)
		if !ok {
			continue
		}
		h := call.Call.StaticCallee()
		res := h.Signature.Results()
		errIdx := -1
		for i := 0; i < res.Len(); i++ {
			if core.IsErrorType(res.At(i).Type()) {
				errIdx = i
			}
		}
		if errIdx < 0 || core.CountGuards(ds, h, g) == 0 {
			continue
		}
		// inside the helper: nil returns are guarded
		bad := core.NilReturnsNotGuarded(ds, h, errIdx, g)
		if len(bad) > 0 {
			for _, w := range bad {
				lastW = w
			}
			continue
		}
		// at the call site: the target is reachable only when the helper's error is nil
		var errVal ssa.Value = call
		if res.Len() > 1 {
			if ex := core.ExtractOf(call, errIdx); ex != nil {
				errVal = ex
			}
		}
		w := core.Unguarded(ds, fn, call, isT, func(c core.Cond) int { return core.ErrNilSucc(c, errVal) })
		// also the helper call must be on every path to the target
		w0 := core.PathQuery{Fn: fn, Target: isT, Avoid: func(in ssa.Instruction) bool { return in == ssa.Instruction(call) }}.Find()
		if w == nil && w0 == nil {
			return true, nil, "helper " + core.FnKey(h)
		}
		if w != nil {
			lastW = w
		} else {
			lastW = w0
		}
	}
	if lastW == nil {
		lastW = core.Unguarded(ds, fn, nil, isT, g)
	}
	return false, lastW, ""
}

// guardOf infers, by majority over every access in the program, which mutex field of the owner struct
// protects the given field (so that a renamed mutex is still recognised by its role). "" if no access
// holds a mutex of the owner.
var guardCache = map[core.FieldID]string{}

func guardOf(p *core.Prog, la *core.LockAnalysis, field core.FieldID) string {
	if g, ok := guardCache[field]; ok {
		return g
	}
	count := map[string]int{}
	for _, fn := range p.SrcFuncs() {
		var held map[ssa.Instruction]core.LockSet
		for _, a := range core.FieldAccesses(fn) {
			if a.Field != field {
				continue
			}
			if held == nil {
				held = la.HeldAt(fn)
			}
			for l := range held[a.Instr] {
				if l.Field.Owner == field.Owner {
					count[l.Field.Name]++
				}
			}
			for l := range la.EntryHeld(fn) {
				if l.Field.Owner == field.Owner {
					count[l.Field.Name]++
				}
			}
		}
	}
	best, bn := "", -1
	for n, c := range count {
		if c > bn || (c == bn && n < best) {
			best, bn = n, c
		}
	}
	guardCache[field] = best
	return best
}

// heldGuard reports whether the inferred guard of field is held (in write mode if write) in ls.
func heldGuard(p *core.Prog, la *core.LockAnalysis, ls core.LockSet, field core.FieldID, write bool) bool {
	g := guardOf(p, la, field)
	if g == "" {
		return false
	}
	return ls.HasField(core.FieldID{Owner: field.Owner, Name: g}, write)
}

// effectSites lists the instructions of fn that perform the effect: instructions satisfying pred, and calls to
// module functions every path of which performs it (a helper extracted around the effect, e.g. one that takes the
// lock with a deferred unlock and therefore cannot be normalised away).
func effectSites(fn *ssa.Function, pred func(ssa.Instruction) bool, depth int) []ssa.Instruction {
	var out []ssa.Instruction
	core.EachInstr(fn, func(in ssa.Instruction) {
		if pred(in) {
			out = append(out, in)
			return
		}
		if depth <= 0 {
			return
		}
		c, ok := in.(*ssa.Call)
		if !ok {
			return
		}
		callee := c.Call.StaticCallee()
		if callee == nil || len(callee.Blocks) == 0 || callee == fn {
			return
		}
		inner := effectSites(callee, pred, depth-1)
		if len(inner) == 0 {
			return
		}
		w := core.PathQuery{Fn: callee, Target: core.IsReturn, Avoid: func(x ssa.Instruction) bool {
			for _, e := range inner {
				if x == e {
					return true
				}
			}
			return false
		}}.Find()
		if w == nil {
			out = append(out, in)
		}
	})
	return out
}

// checkTestAndSetAtomic: in fn, a presence test (comma-ok lookup) on the map held in field and an insert into that
// map are one critical section: on no path from the test to the insert is a lock of the owner released. Returns the
// number of test/insert pairs examined.
func checkTestAndSetAtomic(p *core.Prog, r *core.Report, la *core.LockAnalysis, rule string, fn *ssa.Function, field core.FieldID, what string, requireTest bool) int {
	var tests []*ssa.Lookup
	var inserts []*ssa.MapUpdate
	core.EachInstr(fn, func(in ssa.Instruction) {
		switch x := in.(type) {
		case *ssa.Lookup:
			if id, ok := core.FieldOfValue(x.X); ok && id == field && x.CommaOk {
				tests = append(tests, x)
			}
		case *ssa.MapUpdate:
			if id, ok := core.FieldOfValue(x.Map); ok && id == field {
				inserts = append(inserts, x)
			}
		}
	})
	n := 0
	for i, ins := range inserts {
		tested := false
		for _, t := range tests {
			if reachableAfter(t, ins) {
				tested = true
			}
		}
		if !tested && requireTest {
			n++
			r.Violate(rule, fmt.Sprintf("%s|insert#%d|test-and-insert-atomic", core.FnKey(fn), i+1), p.Pos(ins.Pos()), "the insert is not preceded by a presence test on the map in this function (a test made through another function releases the lock before the insert): "+what)
		}
		for _, t := range tests {
			if !reachableAfter(t, ins) {
				continue
			}
			n++
			var wit []string
			bad := false
			core.EachInstr(fn, func(in ssa.Instruction) {
				ci, ok := in.(ssa.CallInstruction)
				if !ok || bad {
					return
				}
				op, ok := core.LockOpOf(ci)
				if !ok || op.Acquire || op.Lock.Field.Owner != field.Owner {
					return
				}
				if _, isDefer := in.(*ssa.Defer); isDefer {
					return
				}
				isT := func(x ssa.Instruction) bool { return x == ssa.Instruction(t) }
				w1 := core.PathQuery{Fn: fn, From: t, Target: func(x ssa.Instruction) bool { return x == in }, Avoid: isT}.Find()
				w2 := core.PathQuery{Fn: fn, From: in, Target: func(x ssa.Instruction) bool { return x == ssa.Instruction(ins) }, Avoid: isT}.Find()
				if w1 != nil && w2 != nil {
					bad = true
					wit = append(p.WitnessText(w1), p.WitnessText(w2)...)
				}
			})
			r.Check(!bad, rule, fmt.Sprintf("%s|insert#%d|test-and-insert-atomic", core.FnKey(fn), i+1), p.Pos(ins.Pos()),
				"the presence test and the insert are one critical section", what, wit...)
		}
	}
	return n
}

// checkNestedInitOnlyWhenAbsent: a fresh inner collection is stored into a map held in a struct field
// (outer[k] = make(...) / = map[...]...{...}) only on the edge on which outer[k] was found absent. Replacing an
// existing inner collection drops what earlier calls accumulated in it. Returns the number of such stores.
func checkNestedInitOnlyWhenAbsent(p *core.Prog, r *core.Report, ds *core.Describer, rule string, fns []*ssa.Function, consequence string) int {
	n := 0
	for _, f := range fns {
		core.EachInstr(f, func(in ssa.Instruction) {
			mu, ok := in.(*ssa.MapUpdate)
			if !ok {
				return
			}
			fid, ok := core.FieldOfValue(mu.Map)
			if !ok {
				return
			}
			switch mu.Value.Type().Underlying().(type) {
			case *types.Map:
			default:
				return
			}
			if _, fresh := mu.Value.(*ssa.MakeMap); !fresh {
				return
			}
			n++
			keyS := ds.D(mu.Key).String()
			absent := func(c core.Cond) int {
				if c.B == nil {
					return -1
				}
				ex, ok := c.B.Val.(*ssa.Extract)
				if !ok || ex.Index != 1 {
					return -1
				}
				lk, ok := ex.Tuple.(*ssa.Lookup)
				if !ok {
					return -1
				}
				if id, ok := core.FieldOfValue(lk.X); !ok || id != fid || ds.D(lk.Index).String() != keyS {
					return -1
				}
				if c.BoolOnEdge(0) {
					return 1 // present on the true edge: absent on the false edge
				}
				return 0
			}
			w := core.Unguarded(ds, f, nil, func(x ssa.Instruction) bool { return x == in }, absent)
			r.Check(w == nil, rule, fmt.Sprintf("%s|%s|inner-created-only-when-absent", core.FnKey(f), fid.Name), p.Pos(mu.Pos()),
				"the inner collection is created only when "+fid.Name+"[key] is absent", "a fresh inner collection is stored into "+fid.String()+"[key] although one may already exist: "+consequence, p.WitnessText(w)...)
		})
	}
	return n
}

// checkNestedMapWrites: an insert into a map that is itself an entry of another map (outer[k][k2] = v) panics
// when outer[k] was never created. Every path to such an insert passes either the creation of outer[k] (a
// store of a fresh map under the same key), or the edge on which the key was found present — in outer itself
// or in a map that is always filled together with it (an insert under the same key in the creating block).
// Returns the number of nested inserts examined.
func checkNestedMapWrites(p *core.Prog, r *core.Report, ds *core.Describer, rule string, fns []*ssa.Function) int {
	n := 0
	for _, f := range fns {
		core.EachInstr(f, func(in ssa.Instruction) {
			mu, ok := in.(*ssa.MapUpdate)
			if !ok {
				return
			}
			lk, ok := mu.Map.(*ssa.Lookup)
			if !ok {
				// v, ok := outer[k]; v[k2] = ...: the extract of a comma-ok lookup
				if ex, isEx := mu.Map.(*ssa.Extract); isEx && ex.Index == 0 {
					lk, ok = ex.Tuple.(*ssa.Lookup)
				}
				if !ok {
					return
				}
			}
			if _, isMap := lk.X.Type().Underlying().(*types.Map); !isMap {
				return
			}
			n++
			outer, key := lk.X, lk.Index
			sameMap := func(a, b ssa.Value) bool { return a == b || sameExpr(a, b, 0) }
			// creating blocks, and the maps filled together with outer there
			creating := map[*ssa.BasicBlock]bool{}
			core.EachInstr(f, func(x ssa.Instruction) {
				if m2, ok := x.(*ssa.MapUpdate); ok && sameMap(m2.Map, outer) && sameExpr(m2.Key, key, 0) {
					if _, fresh := m2.Value.(*ssa.MakeMap); fresh {
						creating[m2.Block()] = true
					}
				}
			})
			var siblings []ssa.Value
			core.EachInstr(f, func(x ssa.Instruction) {
				if m2, ok := x.(*ssa.MapUpdate); ok && creating[m2.Block()] && sameExpr(m2.Key, key, 0) {
					siblings = append(siblings, m2.Map)
				}
			})
			// siblings are only ever inserted into in the creating blocks or under the same presence discipline: keep it
			// simple and require that every insert into a sibling under this key that creates its entry lies in a creating block
			present := func(c core.Cond) int {
				if c.B == nil || c.B.Val == nil {
					return -1
				}
				ex, ok := c.B.Val.(*ssa.Extract)
				if !ok || ex.Index != 1 {
					return -1
				}
				l2, ok := ex.Tuple.(*ssa.Lookup)
				if !ok || !sameExpr(l2.Index, key, 0) {
					return -1
				}
				okMap := sameMap(l2.X, outer)
				for _, sb := range siblings {
					if sameMap(l2.X, sb) {
						okMap = true
					}
				}
				if !okMap {
					return -1
				}
				if c.BoolOnEdge(0) {
					return 0
				}
				return 1
			}
			// a field-held outer map whose entries are created elsewhere (another method) cannot be decided here
			if len(creating) == 0 {
				if core.CountGuards(ds, f, present) == 0 {
					r.Hold(rule, fmt.Sprintf("%s|nested-insert#%d|created-elsewhere", core.FnKey(f), n), p.Pos(mu.Pos()), "the entry written into is neither created nor tested in this function (out of this rule's reach)")
					return
				}
			}
			est := core.GuardEdges(ds, f, present)
			w := core.PathQuery{Fn: f, Target: func(x ssa.Instruction) bool { return x == in }, Avoid: func(x ssa.Instruction) bool {
				m2, ok := x.(*ssa.MapUpdate)
				if !ok || !sameMap(m2.Map, outer) || !sameExpr(m2.Key, key, 0) {
					return false
				}
				_, fresh := m2.Value.(*ssa.MakeMap)
				return fresh
			}, Edge: func(b *ssa.BasicBlock, succ int) bool {
				if s, ok := est[b]; ok && s == succ {
					return false
				}
				return true
			}}.Find()
			r.Check(w == nil, rule, fmt.Sprintf("%s|nested-insert#%d|entry-exists", core.FnKey(f), n), p.Pos(mu.Pos()), "the inner map written into was created, or found present, on every path",
				"an insert into "+ds.D(lk).String()+"[...] can be reached without that entry having been created or found present for this key (e.g. its creation hangs on a different condition): assignment to entry in nil map panics", p.WitnessText(w)...)
		})
	}
	return n
}

// collectionMutations lists the instructions of fn that change the contents of a collection (map insert/delete,
// slice element store, in-place sort/shuffle/reverse, copy into) whose collection operand traces back — through
// phis, re-slicing, conversions and interface wrapping — to a value accepted by isSource.
func collectionMutations(fn *ssa.Function, isSource func(v ssa.Value) bool) []ssa.Instruction {
	var traces func(v ssa.Value, seen map[ssa.Value]bool) bool
	traces = func(v ssa.Value, seen map[ssa.Value]bool) bool {
		if v == nil || seen[v] {
			return false
		}
		seen[v] = true
		if isSource(v) {
			return true
		}
		switch x := v.(type) {
		case *ssa.Phi:
			for _, e := range x.Edges {
				if traces(e, seen) {
					return true
				}
			}
		case *ssa.ChangeType:
			return traces(x.X, seen)
		case *ssa.Convert:
			return traces(x.X, seen)
		case *ssa.Slice:
			return traces(x.X, seen)
		case *ssa.MakeInterface:
			return traces(x.X, seen)
		case *ssa.UnOp:
			// a local variable holding the collection (captured by a closure): follow its stores
			if a, ok := x.X.(*ssa.Alloc); ok && a.Referrers() != nil {
				for _, ref := range *a.Referrers() {
					if st, ok := ref.(*ssa.Store); ok && st.Addr == ssa.Value(a) && traces(st.Val, seen) {
						return true
					}
				}
			}
		}
		return false
	}
	tr := func(v ssa.Value) bool { return traces(v, map[ssa.Value]bool{}) }
	var out []ssa.Instruction
	core.EachInstr(fn, func(in ssa.Instruction) {
		switch x := in.(type) {
		case *ssa.MapUpdate:
			if tr(x.Map) {
				out = append(out, in)
			}
		case *ssa.Store:
			if ia, ok := x.Addr.(*ssa.IndexAddr); ok {
				if _, isSlice := ia.X.Type().Underlying().(*types.Slice); isSlice && tr(ia.X) {
					out = append(out, in)
				}
			}
		case *ssa.Call:
			if b, ok := x.Call.Value.(*ssa.Builtin); ok {
				switch b.Name() {
				case "delete", "copy", "clear":
					if len(x.Call.Args) > 0 && tr(x.Call.Args[0]) {
						out = append(out, in)
					}
				}
				return
			}
			callee := x.Call.StaticCallee()
			if callee == nil || callee.Pkg == nil || len(x.Call.Args) == 0 {
				return
			}
			pk := callee.Pkg.Pkg.Path()
			inPlace := false
			switch pk {
			case "sort":
				switch callee.Name() {
				case "Slice", "SliceStable", "Sort", "Stable", "Ints", "Strings", "Float64s":
					inPlace = true
				}
			case "slices":
				n := callee.Name()
				if strings.HasPrefix(n, "Sort") || n == "Reverse" {
					inPlace = true
				}
			case "math/rand", "math/rand/v2":
				inPlace = callee.Name() == "Shuffle"
			}
			if inPlace && tr(x.Call.Args[0]) {
				out = append(out, in)
			}
		}
	})
	return out
}

// dutyGetterResult: v is the result of calling a field getter (return recv.field) of a type named Duty.
func dutyGetterResult(v ssa.Value) (*ssa.Function, bool) {
	c, ok := v.(*ssa.Call)
	if !ok || c.Call.IsInvoke() {
		return nil, false
	}
	g := c.Call.StaticCallee()
	if g == nil || g.Signature.Recv() == nil || !isFieldGetter(g) {
		return nil, false
	}
	if !strings.HasSuffix(typeName(g.Signature.Recv().Type()), ".Duty") {
		return nil, false
	}
	return g, true
}

// checkWaitGroupBalance: every (*sync.WaitGroup).Add in fn is followed, on every path to the next Add, to Wait or
// to a return, by the start of a goroutine (or a deferred/direct call) that calls Done on a wait group — an Add
// that can be left without its Done makes Wait block for ever. Returns the number of Add sites examined.
func checkWaitGroupBalance(p *core.Prog, r *core.Report, rule string, fns []*ssa.Function, consequence string) int {
	isWG := func(c *ssa.CallCommon, name string) bool {
		callee := c.StaticCallee()
		return callee != nil && callee.Name() == name && callee.Signature.Recv() != nil && strings.HasSuffix(callee.Signature.Recv().Type().String(), "sync.WaitGroup")
	}
	var callsDoneDepth func(f *ssa.Function, depth int) bool
	callsDoneDepth = func(f *ssa.Function, depth int) bool {
		found := false
		for _, wf := range core.WithClosures(f) {
			core.EachInstr(wf, func(in ssa.Instruction) {
				ci, ok := in.(ssa.CallInstruction)
				if !ok || found {
					return
				}
				if isWG(ci.Common(), "Done") {
					found = true
					return
				}
				// a helper that is handed the wait group and calls Done itself
				if depth < 2 {
					if g := ci.Common().StaticCallee(); g != nil && len(g.Blocks) > 0 {
						for _, a := range ci.Common().Args {
							if strings.HasSuffix(a.Type().String(), "sync.WaitGroup") && callsDoneDepth(g, depth+1) {
								found = true
							}
						}
					}
				}
			})
		}
		return found
	}
	callsDone := func(f *ssa.Function) bool { return callsDoneDepth(f, 0) }
	n := 0
	for _, f := range fns {
		var adds []ssa.Instruction
		core.EachInstr(f, func(in ssa.Instruction) {
			if ci, ok := in.(ssa.CallInstruction); ok && isWG(ci.Common(), "Add") {
				adds = append(adds, in)
			}
		})
		// an errgroup.Group used only to wait pairs the Add and the Done itself (that it carries no fail-fast context
		// is decided by the fan-out rule)
		eg := 0
		core.EachInstr(f, func(in ssa.Instruction) {
			if ci, ok := in.(ssa.CallInstruction); ok {
				if callee := ci.Common().StaticCallee(); callee != nil && callee.Name() == "Go" && callee.Signature.Recv() != nil && strings.HasSuffix(callee.Signature.Recv().Type().String(), "errgroup.Group") {
					eg++
					n++
					r.Hold(rule, fmt.Sprintf("%s|errgroup-go#%d|paired-by-construction", core.FnKey(f), eg), p.Pos(in.Pos()), "errgroup.Group.Go counts the goroutine in and out itself")
				}
			}
		})
		for i, a := range adds {
			n++
			if args := a.(ssa.CallInstruction).Common().Args; len(args) == 2 {
				if _, isConst := args[1].(*ssa.Const); !isConst {
					r.Hold(rule, fmt.Sprintf("%s|wait-group-add#%d|counted", core.FnKey(f), i+1), p.Pos(a.Pos()), "Add of a computed count (one Add for a whole fan-out): not decided by this rule")
					continue
				}
			}
			matched := func(x ssa.Instruction) bool {
				switch y := x.(type) {
				case *ssa.Go:
					switch cv := y.Call.Value.(type) {
					case *ssa.MakeClosure:
						if fn, ok := cv.Fn.(*ssa.Function); ok {
							return callsDone(fn)
						}
					case *ssa.Function:
						return callsDone(cv)
					}
					if c := y.Call.StaticCallee(); c != nil {
						return callsDone(c)
					}
				case ssa.CallInstruction:
					return isWG(y.Common(), "Done")
				}
				return false
			}
			w := core.PathQuery{Fn: f, From: a, Target: func(x ssa.Instruction) bool {
				if core.IsReturn(x) {
					return true
				}
				ci, ok := x.(ssa.CallInstruction)
				return ok && (isWG(ci.Common(), "Add") || isWG(ci.Common(), "Wait"))
			}, Avoid: matched}.Find()
			r.Check(w == nil, rule, fmt.Sprintf("%s|wait-group-add#%d|matched-by-done", core.FnKey(f), i+1), p.Pos(a.Pos()), "every Add is followed by the start of the goroutine that calls Done",
				"after this Add the function can reach the next Add, Wait or a return without having started the goroutine that calls Done (e.g. a `continue` between the two): Wait never returns — "+consequence, p.WitnessText(w)...)
		}
	}
	return n
}

// checkFieldsUnderMutex: in the package rel, outside constructors, every access to one of the named fields of
// Service — the field word and the collection held in it — happens with the named mutex of the same Service held
// (read lock suffices for reads). Returns the number of accesses examined.
func checkFieldsUnderMutex(p *core.Prog, r *core.Report, la *core.LockAnalysis, rule, rel string, fields []string, mutex, consequence string) int {
	ctor := p.ConstructorPhase()
	owner := rel + ".Service"
	mu := core.FieldID{Owner: owner, Name: mutex}
	want := map[string]bool{}
	for _, f := range fields {
		want[f] = true
	}
	n := 0
	for _, fn := range p.FuncsIn(rel) {
		if ctor[fn] {
			continue
		}
		held := la.HeldAt(fn)
		entry := la.EntryHeld(fn)
		for _, a := range core.FieldAccesses(fn) {
			if a.Field.Owner != owner || !want[a.Field.Name] {
				continue
			}
			n++
			ok := held[a.Instr].HasField(mu, a.Write) || entry.HasField(mu, a.Write)
			r.Check(ok, rule, fmt.Sprintf("%s|%s|%s#%d|under-%s", core.FnKey(fn), a.Field.Name, a.Kind, n, mutex), p.Pos(a.Instr.Pos()), a.Kind+" of "+a.Field.Name+" under "+mutex,
				fmt.Sprintf("%s of %s in %s without %s held: %s", a.Kind, a.Field.String(), core.FnKey(fn), mutex, consequence))
		}
	}
	return n
}

// specKeyOf traces a value back to the chain-specification key it was read under: spec["KEY"] (through the type
// assertion and conversions), or helper(spec, "KEY") for a helper that takes the spec map and a constant name.
func specKeyOf(v ssa.Value, depth int) (string, bool) {
	if depth > 8 || v == nil {
		return "", false
	}
	isSpecMap := func(t types.Type) bool {
		m, ok := t.Underlying().(*types.Map)
		if !ok {
			return false
		}
		b, ok := m.Key().Underlying().(*types.Basic)
		if !ok || b.Kind() != types.String {
			return false
		}
		_, isIface := m.Elem().Underlying().(*types.Interface)
		return isIface
	}
	switch x := v.(type) {
	case *ssa.Extract:
		return specKeyOf(x.Tuple, depth+1)
	case *ssa.TypeAssert:
		return specKeyOf(x.X, depth+1)
	case *ssa.Convert:
		return specKeyOf(x.X, depth+1)
	case *ssa.ChangeType:
		return specKeyOf(x.X, depth+1)
	case *ssa.BinOp:
		if k, ok := specKeyOf(x.X, depth+1); ok {
			return k, true
		}
		return specKeyOf(x.Y, depth+1)
	case *ssa.Lookup:
		if isSpecMap(x.X.Type()) {
			if k, ok := constString(x.Index); ok {
				return k, true
			}
			// the key held in a local (an inlined helper's parameter)
			if ph, ok := x.Index.(*ssa.Phi); ok {
				key := ""
				for _, e := range ph.Edges {
					if k, ok := constString(e); ok {
						if key != "" && key != k {
							return "", false
						}
						key = k
					}
				}
				return key, key != ""
			}
		}
	case *ssa.Phi:
		key := ""
		for _, e := range x.Edges {
			if c, isConst := e.(*ssa.Const); isConst && c.Value != nil && c.Value.String() == "0" || core.IsNilConst(e) {
				continue
			}
			k, ok := specKeyOf(e, depth+1)
			if !ok || key != "" && key != k {
				return "", false
			}
			key = k
		}
		return key, key != ""
	case *ssa.UnOp:
		// a local variable assigned once
		if a, ok := x.X.(*ssa.Alloc); ok && a.Referrers() != nil {
			var stored ssa.Value
			n := 0
			for _, ref := range *a.Referrers() {
				if st, ok := ref.(*ssa.Store); ok && st.Addr == ssa.Value(a) {
					stored = st.Val
					n++
				}
			}
			if n == 1 {
				return specKeyOf(stored, depth+1)
			}
		}
	case *ssa.Call:
		hasSpec := false
		key := ""
		for _, a := range x.Call.Args {
			if isSpecMap(a.Type()) {
				hasSpec = true
			}
			if k, ok := constString(a); ok && k == strings.ToUpper(k) && strings.Contains(k, "_") {
				key = k
			}
		}
		if hasSpec && key != "" {
			return key, true
		}
	}
	return "", false
}

func normName(s string) string { return strings.ToLower(strings.ReplaceAll(s, "_", "")) }

// localClosureOf: the function literal a called value stands for when the value is a local closure variable —
// directly, through the variable's cell (written once), or captured from the enclosing function.
func localClosureOf(v ssa.Value) *ssa.Function {
	for depth := 0; depth < 6 && v != nil; depth++ {
		switch x := v.(type) {
		case *ssa.MakeClosure:
			fn, _ := x.Fn.(*ssa.Function)
			return fn
		case *ssa.Function:
			if x.Parent() != nil {
				return x
			}
			return nil
		case *ssa.UnOp:
			if x.Op != token.MUL {
				return nil
			}
			v = x.X
		case *ssa.Alloc:
			var stored ssa.Value
			n := 0
			if x.Referrers() != nil {
				for _, ref := range *x.Referrers() {
					if st, ok := ref.(*ssa.Store); ok && st.Addr == ssa.Value(x) {
						stored = st.Val
						n++
					}
				}
			}
			if n != 1 {
				return nil
			}
			v = stored
		case *ssa.FreeVar:
			v = core.FreeVarBinding(x)
		default:
			return nil
		}
	}
	return nil
}

// throughLocalClosures widens an instruction predicate to calls of a local closure whose body performs the effect
// exactly once on every path (`run := func() { …; jobFunc(ctx); … }` … `run()`).
func throughLocalClosures(pred core.InstrPred) core.InstrPred {
	return func(in ssa.Instruction) bool {
		if pred(in) {
			return true
		}
		c, ok := in.(*ssa.Call)
		if !ok || c.Call.IsInvoke() || c.Call.StaticCallee() != nil && c.Call.StaticCallee().Parent() == nil {
			return false
		}
		cl := localClosureOf(c.Call.Value)
		if cl == nil || len(cl.Blocks) == 0 {
			return false
		}
		mn, mx, ok := core.CountOnPaths(cl.Blocks[0], pred, nil)
		return ok && mn == 1 && mx == 1
	}
}

// sprintfExpanded: the constant format of a fmt.Sprintf call with every %s whose argument is a string constant
// replaced by that constant (`Sprintf("^%s/%s$", name, ".*")` reads "^%s/.*$"). ok is false when v is no such call.
func sprintfExpanded(v ssa.Value) (string, bool) {
	call, ok := v.(*ssa.Call)
	if !ok || !strings.HasSuffix(core.CalleeName(&call.Call), "fmt.Sprintf") || len(call.Call.Args) < 1 {
		return "", false
	}
	format, ok := constString(call.Call.Args[0])
	if !ok {
		return "", false
	}
	var elems []ssa.Value
	if len(call.Call.Args) > 1 {
		elems = variadicElems(call.Call.Args[1])
	}
	var out strings.Builder
	k := 0
	for i := 0; i < len(format); i++ {
		if format[i] == '%' && i+1 < len(format) {
			if format[i+1] == '%' {
				out.WriteString("%%")
				i++
				continue
			}
			if format[i+1] == 's' && k < len(elems) && elems[k] != nil {
				e := elems[k]
				if mi, isMI := e.(*ssa.MakeInterface); isMI {
					e = mi.X
				}
				if cs, isC := constString(e); isC && !strings.Contains(cs, "%") {
					out.WriteString(cs)
					k++
					i++
					continue
				}
			}
			k++
		}
		out.WriteByte(format[i])
	}
	return out.String(), true
}

// checkRequestContextOutlivesCollectors: in a strategy, the context under which the requests are issued (the one handed
// to the function or goroutines that produce the response channels) is not cancelled by the strategy while it still
// collects: after a (non-deferred) call of that context's cancel function nothing takes the response channels any
// more. Issuing under the soft context makes every answer of the second half of the time limit an error.
func checkRequestContextOutlivesCollectors(p *core.Prog, r *core.Report, ds *core.Describer, rule string, fns []*ssa.Function) int {
	n := 0
	for _, f := range fns {
		// channels of the function: made here, or results of a callee that is handed a context
		type issue struct {
			chans []ssa.Value
			ctx   ssa.Value
			at    ssa.Instruction
		}
		var issues []issue
		core.EachInstr(f, func(in ssa.Instruction) {
			call, ok := in.(*ssa.Call)
			if !ok || call.Call.StaticCallee() == nil || call.Call.StaticCallee().Pkg != f.Pkg {
				return
			}
			var ctx ssa.Value
			for _, a := range call.Call.Args {
				if strings.HasSuffix(a.Type().String(), "context.Context") {
					ctx = a
				}
			}
			if ctx == nil {
				return
			}
			var chans []ssa.Value
			res := call.Call.Signature().Results()
			for i := 0; i < res.Len(); i++ {
				if _, isChan := res.At(i).Type().Underlying().(*types.Chan); isChan {
					if res.Len() == 1 {
						chans = append(chans, call)
					} else if ex := core.ExtractOf(call, i); ex != nil {
						chans = append(chans, ex)
					}
				}
			}
			if len(chans) > 0 {
				issues = append(issues, issue{chans, ctx, in})
			}
		})
		for _, is := range issues {
			// the WithTimeout/WithDeadline call the context comes from, and its cancel function
			ex, ok := is.ctx.(*ssa.Extract)
			if !ok || ex.Index != 0 {
				continue
			}
			w, ok := ex.Tuple.(*ssa.Call)
			if !ok || !(strings.HasSuffix(core.CalleeName(&w.Call), "context.WithTimeout") || strings.HasSuffix(core.CalleeName(&w.Call), "context.WithDeadline")) {
				continue
			}
			cancel := core.ExtractOf(w, 1)
			if cancel == nil || cancel.Referrers() == nil {
				continue
			}
			usesChan := func(x ssa.Instruction) bool {
				ci, ok := x.(ssa.CallInstruction)
				if ok {
					for _, a := range ci.Common().Args {
						for _, c := range is.chans {
							if a == c {
								return true
							}
						}
					}
				}
				if sel, ok := x.(*ssa.Select); ok {
					for _, st := range sel.States {
						for _, c := range is.chans {
							if st.Chan == c {
								return true
							}
						}
					}
				}
				return false
			}
			for _, ref := range *cancel.Referrers() {
				k, ok := ref.(*ssa.Call)
				if !ok || k.Call.Value != ssa.Value(cancel) {
					continue
				}
				n++
				wit := core.PathQuery{Fn: f, From: k, Target: usesChan}.Find()
				r.Check(wit == nil, rule, fmt.Sprintf("%s|request-context-cancelled-last#%d", core.FnKey(f), n), p.Pos(k.Pos()), "the context of the requests is cancelled only after the last collector",
					"the context under which the requests were issued is cancelled here although the strategy goes on collecting answers: requests still outstanding are aborted and counted as errors, so an eligible answer arriving later in the time limit can no longer be used", p.WitnessText(wit)...)
			}
		}
	}
	return n
}
