package rules

import (
	"golang.org/x/tools/go/ssa"

	"vouchcheck/internal/core"
)

// level is one function on the way to an effect: site is the call in fn that leads towards it.
type level struct {
	fn   *ssa.Function
	site ssa.Instruction
}

// callChain returns [fn, caller, caller's caller, ...] following unique static callers inside the package.
func callChain(p *core.Prog, fn *ssa.Function, site ssa.Instruction, max int) []level {
	chain := []level{{fn, site}}
	for cur := fn; len(chain) < max; {
		n := p.CallGraph().Nodes[cur]
		var callers []level
		if n != nil {
			for _, e := range n.In {
				if e.Site != nil && e.Site.Common().StaticCallee() == cur && e.Caller.Func.Pkg == cur.Pkg {
					if _, isGo := e.Site.(*ssa.Go); isGo {
						continue
					}
					callers = append(callers, level{e.Caller.Func, e.Site.(ssa.Instruction)})
				}
			}
		}
		if len(callers) != 1 {
			break
		}
		chain = append(chain, callers[0])
		cur = callers[0].fn
	}
	return chain
}

// guardOnChain: is the guard established (directly or via an error-returning helper) at some level of the chain?
func guardOnChain(p *core.Prog, ds *core.Describer, chain []level, g core.GuardSpec) (bool, []ssa.Instruction, string) {
	var wit []ssa.Instruction
	for _, l := range chain {
		good, w, via := guardEstablishedBefore(p, ds, l.fn, l.site, g)
		if good {
			return true, nil, via
		}
		if w != nil {
			wit = w
		}
	}
	return false, wit, ""
}

// guardEstablishedBefore decides whether, in fn, every path to target passes the guard either directly or through a
// helper call whose error is tested nil and whose nil returns are guarded.
func guardEstablishedBefore(p *core.Prog, ds *core.Describer, fn *ssa.Function, target ssa.Instruction, g core.GuardSpec) (bool, []ssa.Instruction, string) {
	isT := func(in ssa.Instruction) bool { return in == target }
	if w := core.Unguarded(ds, fn, nil, isT, g); w == nil {
		if core.CountGuards(ds, fn, g) > 0 {
			return true, nil, "direct test in " + core.FnKey(fn)
		}
	}
	// helpers: static calls to module functions returning error
	var lastW []ssa.Instruction
	for _, ci := range core.Calls(fn, func(c *ssa.CallCommon) bool {
		f := c.StaticCallee()
		return f != nil && f.Pkg != nil && core.IsProd(f.Pkg.Pkg.Path()) && f.Blocks != nil
	}) {
		call, ok := ci.(*ssa.Call)
		if !ok {
			continue
		}
		h := call.Call.StaticCallee()
		res := h.Signature.Results()
		errIdx := -1
		for i := 0; i < res.Len(); i++ {
			if core.IsErrorType(res.At(i).Type()) {
				errIdx = i
			}
		}
		if errIdx < 0 || core.CountGuards(ds, h, g) == 0 {
			continue
		}
		// inside the helper: nil returns are guarded
		bad := core.NilReturnsNotGuarded(ds, h, errIdx, g)
		if len(bad) > 0 {
			for _, w := range bad {
				lastW = w
			}
			continue
		}
		// at the call site: the target is reachable only when the helper's error is nil
		var errVal ssa.Value = call
		if res.Len() > 1 {
			if ex := core.ExtractOf(call, errIdx); ex != nil {
				errVal = ex
			}
		}
		w := core.Unguarded(ds, fn, call, isT, func(c core.Cond) int { return core.ErrNilSucc(c, errVal) })
		// also the helper call must be on every path to the target
		w0 := core.PathQuery{Fn: fn, Target: isT, Avoid: func(in ssa.Instruction) bool { return in == ssa.Instruction(call) }}.Find()
		if w == nil && w0 == nil {
			return true, nil, "helper " + core.FnKey(h)
		}
		if w != nil {
			lastW = w
		} else {
			lastW = w0
		}
	}
	if lastW == nil {
		lastW = core.Unguarded(ds, fn, nil, isT, g)
	}
	return false, lastW, ""
}

// guardOf infers, by majority over every access in the program, which mutex field of the owner struct
// protects the given field (so that a renamed mutex is still recognised by its role). "" if no access
// holds a mutex of the owner.
var guardCache = map[core.FieldID]string{}

func guardOf(p *core.Prog, la *core.LockAnalysis, field core.FieldID) string {
	if g, ok := guardCache[field]; ok {
		return g
	}
	count := map[string]int{}
	for _, fn := range p.SrcFuncs() {
		var held map[ssa.Instruction]core.LockSet
		for _, a := range core.FieldAccesses(fn) {
			if a.Field != field {
				continue
			}
			if held == nil {
				held = la.HeldAt(fn)
			}
			for l := range held[a.Instr] {
				if l.Field.Owner == field.Owner {
					count[l.Field.Name]++
				}
			}
			for l := range la.EntryHeld(fn) {
				if l.Field.Owner == field.Owner {
					count[l.Field.Name]++
				}
			}
		}
	}
	best, bn := "", -1
	for n, c := range count {
		if c > bn || (c == bn && n < best) {
			best, bn = n, c
		}
	}
	guardCache[field] = best
	return best
}

// heldGuard reports whether the inferred guard of field is held (in write mode if write) in ls.
func heldGuard(p *core.Prog, la *core.LockAnalysis, ls core.LockSet, field core.FieldID, write bool) bool {
	g := guardOf(p, la, field)
	if g == "" {
		return false
	}
	return ls.HasField(core.FieldID{Owner: field.Owner, Name: g}, write)
}

// effectSites lists the instructions of fn that perform the effect: instructions satisfying pred, and calls to
// module functions every path of which performs it (a helper extracted around the effect, e.g. one that takes the
// lock with a deferred unlock and therefore cannot be normalised away).
func effectSites(fn *ssa.Function, pred func(ssa.Instruction) bool, depth int) []ssa.Instruction {
	var out []ssa.Instruction
	core.EachInstr(fn, func(in ssa.Instruction) {
		if pred(in) {
			out = append(out, in)
			return
		}
		if depth <= 0 {
			return
		}
		c, ok := in.(*ssa.Call)
		if !ok {
			return
		}
		callee := c.Call.StaticCallee()
		if callee == nil || len(callee.Blocks) == 0 || callee == fn {
			return
		}
		inner := effectSites(callee, pred, depth-1)
		if len(inner) == 0 {
			return
		}
		w := core.PathQuery{Fn: callee, Target: core.IsReturn, Avoid: func(x ssa.Instruction) bool {
			for _, e := range inner {
				if x == e {
					return true
				}
			}
			return false
		}}.Find()
		if w == nil {
			out = append(out, in)
		}
	})
	return out
}
