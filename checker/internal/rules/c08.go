package rules

import (
	"fmt"
	"go/token"
	"go/types"
	"os"
	"sort"
	"strings"

	"golang.org/x/tools/go/ssa"

	"vouchcheck/internal/core"
)

func init() {
	register(&Pack{
		ID:  "C08",
		Run: runC08,
		Expl: "Decides, for all sibling submitters of services/submitter/multinode (template conformance, no sibling is compared textually with another), structural necessary conditions of 'a submission reaches every configured node and succeeds iff one accepts': " +
			"(a) an empty payload is rejected before anything is started; (b) one worker goroutine per entry of the submitter map, in a range loop without early exit, passing the entry's payload parameter itself; " +
			"(c) a timeout goroutine sleeps s.timeout and signals the condition variable the entry waits on; the wait is bracketed by L.Lock/L.Unlock; the context handed to the workers is not one that is cancelled when the entry returns; the semaphore is created per call; " +
			"(d) the entry returns nil iff the completed flag is set; (e) in the worker the flag is set only after the node's submit call (or its classification helper) left a nil error, and the condition variable is signalled after the flag is set; " +
			"(f) the node is offered the worker's whole payload, directly or as the sub-slices [offset:offset+entries] of Scatter's own callback parameters; (g) the semaphore is released by defer after a successful Acquire; " +
			"(h) classification helpers return nil only on arms guarded by a server-type test (the tolerated (server, message) pairs are extracted and reported, not frozen); " +
			"(i) util.Scatter starts `workers` goroutines, its channels have capacity `workers` and its collector performs `workers` receives without early exit. " +
			"Added with the third seeding round: (f, extended) once the semaphore is held every path of a worker calls its node; (i, extended) Scatter's worker count is ceil(inputLen/extent). Added with the fourth seeding round: (k) no errgroup context in the submitter; (l) case-folded texts are searched for constants of the same case. Added with the fifth seeding round: (m) the fields of the structure that decodes a node's indexed-failure answer have the JSON types the node sends. Added with the sixth seeding round and the false-alarm regression: (n) an entry and its worker name one <kind>Submitters field; (y) C19.8 (one path per component request) is taken over; (g, restated) a successful Acquire is followed by a Release (deferred or explicit) on every path. Added with the seventh seeding round: (o) a classification helper cannot return nil after one of its own calls (decoding the node's reply) failed; (p) a worker acquires and releases exactly one permit. Added with the ninth seeding round: (m, extended) the status code of an error body has the JSON type the client sends (Lighthouse a number, Teku a string). NOT decided: lost-wakeup timing of the condition variable, extent arithmetic of Scatter, behaviour when concurrency < nodes, wall-clock bounds.",
		Technique: "template conformance of sibling implementations on SSA (roles bound by types and call resolution), AST loop-exit analysis, guard/edge-deletion queries, error-nilness analysis of classification helpers, provenance of goroutine arguments",
		Rule:      "obligations (a)-(g) per submitter entry/worker pair, (h) per classification helper, (i) for Scatter",
	})
}

const mnRel = "services/submitter/multinode"

func runC08(p *core.Prog, r *core.Report, tier string) {
	ds := core.NewDescriber()
	fns := p.FuncsIn(mnRel)
	type pair struct {
		entry, worker *ssa.Function
		goInstr       *ssa.Go
	}
	var pairs []pair
	for _, f := range fns {
		if f.Parent() != nil || f.Signature.Recv() == nil {
			continue
		}
		core.EachInstr(f, func(in ssa.Instruction) {
			g, ok := in.(*ssa.Go)
			if !ok {
				return
			}
			w := g.Call.StaticCallee()
			if w == nil || w.Parent() != nil || w.Pkg != f.Pkg {
				return
			}
			pairs = append(pairs, pair{f, w, g})
		})
	}
	sort.Slice(pairs, func(i, j int) bool { return core.FnKey(pairs[i].entry) < core.FnKey(pairs[j].entry) })
	r.Count("submitter entries", len(pairs))
	r.Floor("C08 submitter entry/worker pairs", len(pairs), 8)
	var names []string
	tolerated := []string{}
	helpersSeen := map[*ssa.Function]bool{}

	for _, pr := range pairs {
		E, W, g := pr.entry, pr.worker, pr.goInstr
		names = append(names, E.Name())
		base := core.FnKey(E)
		// (n) one kind of submission talks about one set of nodes: the entry and its worker name a single
		// <kind>Submitters field of the service (counting the nodes of a sibling kind gives a wrong "all answered")
		{
			seen := map[string]bool{}
			for _, f := range []*ssa.Function{E, W} {
				for _, wf := range core.WithClosures(f) {
					core.EachInstr(wf, func(in ssa.Instruction) {
						if fa, ok := in.(*ssa.FieldAddr); ok {
							if id, _, ok := core.FieldOfAddr(fa); ok && strings.HasSuffix(id.Name, "Submitters") && strings.HasSuffix(id.Owner, ".Service") {
								seen[id.Name] = true
							}
						}
					})
				}
			}
			var fl []string
			for k := range seen {
				fl = append(fl, k)
			}
			sort.Strings(fl)
			r.Check(len(fl) <= 1, "C08.n", base+"|one-node-set", p.Pos(E.Pos()), "the submission refers to one set of nodes: "+strings.Join(fl, ","), "the submission refers to the node sets of several kinds ("+strings.Join(fl, ", ")+"): a count or range over a sibling's nodes decides about this kind's submission")
		}
		// payload parameter: the entry parameter (not ctx) that is passed to the worker
		var payload *ssa.Parameter
		payloadArgIdx := -1
		for i, a := range g.Call.Args {
			if prm, ok := a.(*ssa.Parameter); ok && prm.Parent() == E && !strings.HasSuffix(prm.Type().String(), "context.Context") && i > 0 {
				payload = prm
				payloadArgIdx = i
			}
		}
		// ---- (b) fan-out ----
		if payload == nil {
			// which worker parameter looks like the payload? the last slice/pointer parameter before the submitter
			r.Violate("C08.b", base+"|payload-passed", p.Pos(g.Pos()), "the worker is not given the entry's payload parameter itself (a copy or sub-slice is passed)")
		} else {
			r.Hold("C08.b", base+"|payload-passed", p.Pos(g.Pos()), "worker receives the entry's payload parameter "+payload.Name())
		}
		loops := loopsContainingPos(p, E, g.Pos())
		if len(loops) == 0 {
			r.Violate("C08.b", base+"|fan-out-loop", p.Pos(g.Pos()), "the worker is not started in a loop over the configured nodes")
		}
		for _, l := range loops {
			noEarlyExit(p, r, "C08.b", l, "fan-out over the configured nodes")
			t := l.RangeType()
			isMap := false
			if t != nil {
				_, isMap = t.Underlying().(*types.Map)
			}
			okField := false
			if x := l.RangeExpr(); x != nil {
				okField = strings.HasPrefix(types.ExprString(x), "s.")
			}
			r.Check(isMap && okField, "C08.b", base+"|ranges-over-submitters", p.Pos(l.Stmt.Pos()), "the loop ranges over the service's submitter map", "the fan-out does not range over the service's map of configured submitters: "+l.Describe())
		}
		// ---- (a) empty payload rejected first ----
		if payload != nil {
			guard := func(c core.Cond) int {
				if c.Op == "" {
					return -1
				}
				for _, side := range [][2]*core.VD{{c.X, c.Y}, {c.Y, c.X}} {
					x, y := side[0], side[1]
					isLen := x.Kind == "len" && x.Args[0].Kind == "param" && x.Args[0].Name == payload.Name()
					isPtr := x.Kind == "param" && x.Name == payload.Name() && y.Kind == "const" && y.Name == "nil"
					if !isLen && !isPtr {
						continue
					}
					for s := 0; s < 2; s++ {
						rel := c.RelOnEdge(s)
						if side[0] == c.Y {
							rel = core.FlipRel(rel)
						}
						if isLen && (rel == "!=" || rel == ">") && y.Kind == "const" && y.Name == "0" {
							return s
						}
						if isPtr && rel == "!=" {
							return s
						}
					}
				}
				return -1
			}
			w := core.Unguarded(ds, E, nil, func(in ssa.Instruction) bool { _, ok := in.(*ssa.Go); return ok }, guard)
			r.Check(w == nil, "C08.a", base+"|empty-payload-rejected", p.Pos(E.Pos()), "nothing is started for an empty payload", "workers can be started without the payload having been tested non-empty", p.WitnessText(w)...)
		}
		// ---- (c) timeout signaller, wait bracket, ctx, semaphore ----
		var waitCall ssa.Instruction
		for _, ci := range core.CallsNamed(E, "Wait") {
			if f := ci.Common().StaticCallee(); f != nil && strings.HasSuffix(core.FnKey(f), "sync.Cond.Wait") {
				waitCall = ci.(ssa.Instruction)
			}
		}
		if waitCall == nil {
			r.Violate("C08.c", base+"|waits-on-cond", p.Pos(E.Pos()), "the entry does not wait on a condition variable")
		} else {
			condV := waitCall.(ssa.CallInstruction).Common().Args[0]
			signaller := false
			for _, cl := range E.AnonFuncs {
				sleeps := false
				for _, sc := range core.CallsNamed(cl, "Sleep") {
					if ds.D(sc.Common().Args[0]).HasFieldSuffix("timeout") {
						sleeps = true
					}
				}
				signals := len(core.CallsNamed(cl, "Signal"))+len(core.CallsNamed(cl, "Broadcast")) > 0
				started := false
				core.EachInstr(E, func(in ssa.Instruction) {
					if gg, ok := in.(*ssa.Go); ok {
						mc, isMC := gg.Call.Value.(*ssa.MakeClosure)
						fv, isFn := gg.Call.Value.(*ssa.Function)
						if (isMC && mc.Fn == cl) || (isFn && fv == cl) {
							started = true
							// the cond passed is the one waited on
							for _, a := range gg.Call.Args {
								if sameCell(E, a, condV) {
									signaller = signaller || (sleeps && signals)
								}
							}
							// … or captured
							if isMC {
								for _, b := range mc.Bindings {
									if sameCell(E, b, condV) {
										signaller = signaller || (sleeps && signals)
									}
								}
							}
						}
						if fn, ok := gg.Call.Value.(*ssa.Function); ok && fn == cl {
							started = true
							for _, a := range gg.Call.Args {
								if sameCell(E, a, condV) {
									signaller = signaller || (sleeps && signals)
								}
							}
						}
					}
				})
				_ = started
			}
			// the same with the library's one-shot timer: time.AfterFunc(s.timeout, w.Signal)
			for _, ac := range core.CallsNamed(E, "AfterFunc") {
				c := ac.Common()
				if callee := c.StaticCallee(); callee == nil || callee.Pkg == nil || callee.Pkg.Pkg.Path() != "time" || len(c.Args) != 2 {
					continue
				}
				if !ds.D(c.Args[0]).HasFieldSuffix("timeout") {
					continue
				}
				if mc, ok := c.Args[1].(*ssa.MakeClosure); ok && len(mc.Bindings) == 1 {
					if fn, ok := mc.Fn.(*ssa.Function); ok && strings.Contains(fn.Synthetic, "bound method wrapper") && (strings.HasPrefix(fn.Name(), "Signal") || strings.HasPrefix(fn.Name(), "Broadcast")) && sameCell(E, mc.Bindings[0], condV) {
						signaller = true
					}
				}
			}
			r.Check(signaller, "C08.c", base+"|timeout-signaller", p.Pos(waitCall.Pos()), "a goroutine sleeps s.timeout and then signals the waited condition", "no goroutine sleeps the configured timeout and then signals the condition variable the entry waits on (the entry can wait forever)")
			// the worker gets the same cond
			sameCond := sharedWithWorker(E, g.Call.Args, condV)
			r.Check(sameCond, "C08.c", base+"|worker-shares-cond", p.Pos(g.Pos()), "the workers signal the condition the entry waits on", "the workers are given another condition variable than the one the entry waits on")
			// Lock before, Unlock after
			la := core.NewLockAnalysis(p)
			held := la.MayHeldAt(E)
			hasL := false
			for l := range held[waitCall] {
				if l.Field.Name == "L" {
					hasL = true
				}
			}
			r.Check(hasL, "C08.c", base+"|wait-locked", p.Pos(waitCall.Pos()), "Wait is called with the condition's lock held", "Wait is called without the condition's lock held (panics)")
			for _, v := range la.Pairing(E) {
				r.Violate("C08.c", base+"|lock-pairing|"+v.Lock, p.Pos(v.Pos), "the condition's lock may be held at return", v.Witness...)
			}
		}
		// ctx passed to the workers
		if len(g.Call.Args) > 1 {
			ctxArg := g.Call.Args[1]
			if W.Signature.Recv() == nil {
				ctxArg = g.Call.Args[0]
			}
			cd := ds.D(ctxArg)
			bad := cd.MentionsCall("context.WithTimeout") || cd.MentionsCall("context.WithCancel") || cd.MentionsCall("context.WithDeadline")
			r.Check(!bad, "C08.c", base+"|worker-context", p.Pos(g.Pos()), "the workers' context is not cancelled by the entry", "the workers run under a context the entry cancels when it returns: delivery to the slower nodes is aborted after the first success")
		}
		// semaphore per call
		for i, a := range g.Call.Args {
			if strings.HasSuffix(a.Type().String(), "semaphore.Weighted") {
				sd := ds.D(a)
				r.Check(sd.IsCall("semaphore.NewWeighted"), "C08.g", fmt.Sprintf("%s|semaphore-per-call#%d", base, i), p.Pos(g.Pos()), "the semaphore is created for this submission", "the workers share a long-lived semaphore ("+sd.String()+"): permits held by workers stuck on a hung node are lost to later submissions")
			}
			// the semaphore carried in a per-call state object
			if al, ok := a.(*ssa.Alloc); ok {
				for _, sl := range core.StructLits(E, "") {
					if sl.Alloc != al {
						continue
					}
					for fname, v := range sl.Fields {
						if strings.HasSuffix(v.Type().String(), "semaphore.Weighted") {
							sd := ds.D(v)
							r.Check(sd.IsCall("semaphore.NewWeighted"), "C08.g", fmt.Sprintf("%s|semaphore-per-call#%d.%s", base, i, fname), p.Pos(g.Pos()), "the semaphore is created for this submission", "the workers share a long-lived semaphore ("+sd.String()+"): permits held by workers stuck on a hung node are lost to later submissions")
						}
					}
				}
			}
		}
		// ---- (d) success iff flag ----
		var flagLoad ssa.Value
		for _, ci := range core.CallsNamed(E, "Load") {
			if c, ok := ci.(*ssa.Call); ok && strings.Contains(core.CalleeName(c.Common()), "atomic.Bool.Load") {
				flagLoad = c
			}
		}
		if flagLoad == nil {
			r.Violate("C08.d", base+"|reads-flag", p.Pos(E.Pos()), "the entry does not read the completed flag")
		} else {
			flagTrue := func(c core.Cond) int {
				if c.B != nil && c.B.Val == flagLoad {
					if c.BoolOnEdge(0) {
						return 0
					}
					return 1
				}
				return -1
			}
			flagFalse := func(c core.Cond) int {
				s := flagTrue(c)
				if s < 0 {
					return -1
				}
				return 1 - s
			}
			for i, ret := range core.ReturnsOf(E) {
				if len(ret.Results) != 1 {
					continue
				}
				// only returns after the wait
				if waitCall != nil {
					if w := (core.PathQuery{Fn: E, From: waitCall, Target: func(in ssa.Instruction) bool { return in == ssa.Instruction(ret) }}).Find(); w == nil {
						continue
					}
				}
				for j, lf := range core.PhiLeaves(ret.Results[0], ret) {
					construct := fmt.Sprintf("%s|return#%d|leaf#%d", base, i+1, j+1)
					if core.IsNilConst(lf.V) {
						w := core.UnguardedLeaf(ds, E, flagLoad.(ssa.Instruction), lf, flagTrue)
						r.Check(w == nil, "C08.d", construct, p.Pos(ret.Pos()), "nil is returned only when the completed flag is set", "success can be reported although no node accepted the submission (completed flag not set)", p.WitnessText(w)...)
					} else {
						w := core.UnguardedLeaf(ds, E, flagLoad.(ssa.Instruction), lf, flagFalse)
						r.Check(w == nil, "C08.d", construct, p.Pos(ret.Pos()), "an error is returned only when the completed flag is not set", "an error can be reported although a node accepted the submission", p.WitnessText(w)...)
					}
				}
			}
			// the flag read happens after the wait
			if waitCall != nil {
				w := core.PathQuery{Fn: E, Target: func(in ssa.Instruction) bool { return in == flagLoad.(ssa.Instruction) }, Avoid: func(in ssa.Instruction) bool { return in == waitCall }}.Find()
				r.Check(w == nil, "C08.d", base+"|flag-read-after-wait", p.Pos(flagLoad.Pos()), "the flag is read after the wait", "the completed flag is read before waiting for the workers")
			}
			// the worker gets the same flag
			same := sharedWithWorker(E, g.Call.Args, flagLoad.(*ssa.Call).Call.Args[0])
			r.Check(same, "C08.d", base+"|worker-shares-flag", p.Pos(g.Pos()), "the workers set the flag the entry reads", "the workers are given another flag than the one the entry reads")
		}

		// ---- worker ----
		wbase := core.FnKey(W)
		var payloadW *ssa.Parameter
		if payloadArgIdx >= 0 && payloadArgIdx < len(W.Params) {
			payloadW = W.Params[payloadArgIdx]
		}
		// submit calls: invokes on an interface of go-eth2-client whose method name starts with Submit (in W or its closures)
		var submits []ssa.CallInstruction
		var submitFns []*ssa.Function
		for _, wf := range core.WithClosures(W) {
			for _, ci := range core.Calls(wf, func(c *ssa.CallCommon) bool { return c.IsInvoke() && strings.HasPrefix(c.Method.Name(), "Submit") }) {
				submits = append(submits, ci)
				submitFns = append(submitFns, wf)
			}
		}
		if len(submits) == 0 {
			r.Violate("C08.f", wbase+"|submits", p.Pos(W.Pos()), "the worker never calls the node's submit method")
			continue
		}
		for i, sc := range submits {
			args := sc.Common().Args
			last := args[len(args)-1]
			d := ds.D(last)
			ok := false
			how := ""
			if payloadW != nil {
				if d.Kind == "param" && d.Name == payloadW.Name() {
					ok, how = true, "whole payload"
				}
				// opts struct carrying the payload
				if a, isAlloc := last.(*ssa.Alloc); isAlloc {
					for _, sl := range core.StructLits(submitFns[i], "") {
						if sl.Alloc == a {
							for _, v := range sl.Fields {
								vd := ds.D(v)
								if vd.Kind == "param" && vd.Name == payloadW.Name() {
									ok, how = true, "whole payload in options"
								}
							}
						}
					}
				}
				// Scatter sub-slice: payload[offset:offset+entries] with the closure's own parameters
				if sl, isSlice := last.(*ssa.Slice); isSlice {
					xd := ds.D(sl.X)
					cf := submitFns[i]
					if xd.Kind == "param" && xd.Name == payloadW.Name() && cf.Parent() != nil && len(cf.Params) >= 2 && sl.Low != nil && sl.High != nil {
						lo, hi := ds.D(sl.Low), ds.D(sl.High)
						okLo := lo.Kind == "param" && lo.Name == cf.Params[0].Name()
						okHi := hi.Kind == "binop" && hi.Name == "+" && ((hi.Args[0].Kind == "param" && hi.Args[0].Name == cf.Params[0].Name() && hi.Args[1].Kind == "param" && hi.Args[1].Name == cf.Params[1].Name()) ||
							(hi.Args[1].Kind == "param" && hi.Args[1].Name == cf.Params[0].Name() && hi.Args[0].Kind == "param" && hi.Args[0].Name == cf.Params[1].Name()))
						if okLo && okHi {
							// and the closure is the work function of Scatter over len(payload)
							for _, sc2 := range core.CallsNamed(W, "Scatter") {
								sa := sc2.Common().Args
								ld := ds.D(sa[0])
								if ld.Kind == "len" && ld.Args[0].Kind == "param" && ld.Args[0].Name == payloadW.Name() {
									ok, how = true, "payload[offset:offset+entries] over Scatter(len(payload))"
								}
							}
						}
					}
				}
			}
			r.Check(ok, "C08.f", fmt.Sprintf("%s|offers-whole-payload#%d", wbase, i+1), p.Pos(sc.Pos()), "node is offered the "+how, "the node is not offered the worker's whole payload: "+d.String())
		}
		// every path of the worker on which the semaphore was obtained offers the payload to the node
		{
			isOffer := func(in ssa.Instruction) bool {
				ci, ok := in.(ssa.CallInstruction)
				if !ok {
					return false
				}
				for _, sc := range submits {
					if sc.Parent() == W && in == sc.(ssa.Instruction) {
						return true
					}
				}
				// a call that runs a closure of W containing the submit call (util.Scatter(len, concurrency, func...))
				for _, a := range ci.Common().Args {
					if mc, ok := a.(*ssa.MakeClosure); ok {
						for _, sf := range submitFns {
							if mc.Fn == ssa.Value(sf) {
								return true
							}
						}
					}
				}
				return false
			}
			var failed map[*ssa.BasicBlock]int
			var fromAcq ssa.Instruction
			if acq := core.CallsNamed(W, "Acquire"); len(acq) > 0 {
				if call, ok := acq[0].(*ssa.Call); ok {
					fromAcq = call
					failed = guardEdges(ds, W, func(c core.Cond) int {
						sx := core.ErrNilSucc(c, call)
						if sx < 0 {
							return -1
						}
						return 1 - sx
					})
				}
			}
			w := core.PathQuery{Fn: W, From: fromAcq, Target: core.IsReturn, Avoid: isOffer, Edge: func(b *ssa.BasicBlock, succ int) bool {
				if sx, ok := failed[b]; ok && sx == succ {
					return false
				}
				return true
			}}.Find()
			r.Check(w == nil, "C08.f", wbase+"|always-offers", p.Pos(W.Pos()), "every path of the worker (semaphore obtained) calls the node",
				"the worker can return without offering the payload to its node although the semaphore was obtained (a node is skipped, e.g. once another node has accepted): not every configured node is offered the submission", p.WitnessText(w)...)
		}
		// (e) flag iff accepted
		var store ssa.Instruction
		for _, ci := range core.CallsNamed(W, "Store") {
			if strings.Contains(core.CalleeName(ci.Common()), "atomic.Bool.Store") && ds.D(ci.Common().Args[1]).String() == "true" {
				store = ci.(ssa.Instruction)
			}
		}
		if store == nil {
			r.Violate("C08.e", wbase+"|sets-flag", p.Pos(W.Pos()), "the worker never sets the completed flag: the submission can only time out")
		} else {
			// the error tested: an error value that derives from the submit call (directly, via Scatter, via the helper)
			errNil := func(c core.Cond) int {
				if c.Op != "==" && c.Op != "!=" {
					return -1
				}
				var e *core.VD
				if c.Y.Kind == "const" && c.Y.Name == "nil" {
					e = c.X
				} else if c.X.Kind == "const" && c.X.Name == "nil" {
					e = c.Y
				} else {
					return -1
				}
				if e.Val == nil || !core.IsErrorType(e.Val.Type()) {
					return -1
				}
				derives := e.Any(func(x *core.VD) bool {
					if x.Kind != "call" {
						return false
					}
					return strings.Contains(x.Name, ".Submit") || strings.HasSuffix(x.Name, "util.Scatter") || strings.Contains(x.Name, mnRel+".Service.handle")
				})
				if !derives {
					return -1
				}
				for s := 0; s < 2; s++ {
					if c.RelOnEdge(s) == "==" {
						return s
					}
				}
				return -1
			}
			w := core.Unguarded(ds, W, nil, func(in ssa.Instruction) bool { return in == store }, errNil)
			r.Check(w == nil, "C08.e", wbase+"|flag-only-after-acceptance", p.Pos(store.Pos()), "the completed flag is set only after the submission error was tested nil", "the completed flag can be set although the node's submission failed (or before it was made)", p.WitnessText(w)...)
			// the tested error is the final one: no classification after the test — covered by derivation; the submit call precedes the store
			for _, sc := range submits {
				if sc.Parent() == W {
					w := core.PathQuery{Fn: W, Target: func(in ssa.Instruction) bool { return in == store }, Avoid: func(in ssa.Instruction) bool { return in == sc.(ssa.Instruction) }}.Find()
					r.Check(w == nil, "C08.e", wbase+"|flag-after-submit", p.Pos(store.Pos()), "the flag is set after the node was called", "the flag can be set on a path that does not call the node")
				}
			}
			sig := core.CallsNamed(W, "Signal")
			sig = append(sig, core.CallsNamed(W, "Broadcast")...)
			w2 := core.PathQuery{Fn: W, From: store, Target: core.IsReturn, Avoid: func(in ssa.Instruction) bool {
				for _, s := range sig {
					if in == s.(ssa.Instruction) {
						return true
					}
				}
				return false
			}}.Find()
			r.Check(w2 == nil && len(sig) > 0, "C08.e", wbase+"|signals-after-flag", p.Pos(store.Pos()), "the entry is signalled after the flag is set", "the worker sets the flag without signalling the waiting entry (success is only noticed at the timeout)")
		}
		// (g) semaphore release deferred after acquire
		acq := core.CallsNamed(W, "Acquire")
		if len(acq) == 0 {
			r.Hold("C08.g", wbase+"|no-semaphore", p.Pos(W.Pos()), "worker does not use a semaphore")
		}
		for _, a := range acq {
			call, ok := a.(*ssa.Call)
			if !ok {
				continue
			}
			// on the err == nil edge a deferred Release follows on every path to return
			var deferred []ssa.Instruction
			core.EachInstr(W, func(in ssa.Instruction) {
				if d, ok := in.(*ssa.Defer); ok && core.MethodName(d.Common()) == "Release" {
					deferred = append(deferred, in)
				}
				// an explicit Release counts as well: what is decided is that no path from the successful Acquire to a
				// return misses the release
				if c, ok := in.(*ssa.Call); ok && core.MethodName(c.Common()) == "Release" {
					// … provided the permit is given back after the node was called, not before: no submit call of this
					// worker is reachable from the release
					early := false
					for k, sc := range submits {
						if submitFns[k] == W && (core.PathQuery{Fn: W, From: in, Target: func(x ssa.Instruction) bool { return x == sc.(ssa.Instruction) }}).Find() != nil {
							early = true
						}
					}
					if !early {
						deferred = append(deferred, in)
					}
				}
			})
			isDef := func(in ssa.Instruction) bool {
				for _, d := range deferred {
					if in == d {
						return true
					}
				}
				return false
			}
			est := guardEdges(ds, W, func(c core.Cond) int {
				s := core.ErrNilSucc(c, call)
				if s < 0 {
					return -1
				}
				return 1 - s // the edge on which Acquire failed: nothing to release there
			})
			w := core.PathQuery{Fn: W, From: call, Target: core.IsReturn, Avoid: isDef, Edge: func(b *ssa.BasicBlock, succ int) bool {
				if s, ok := est[b]; ok && s == succ {
					return false
				}
				return true
			}}.Find()
			r.Check(w == nil && len(deferred) > 0, "C08.g", wbase+"|release-deferred", p.Pos(a.Pos()), "a successful Acquire is followed by a Release on every path to a return", "the semaphore is not released on some path after a successful Acquire (an early-returning worker keeps the permit, and the next submission waits for it)", p.WitnessText(w)...)
			// (p) one worker holds one permit: the semaphore was created with the configured concurrency as its weight, so
			// a worker that acquires more than 1 lowers the number of nodes that are offered the payload at the same time
			weights := []ssa.Value{call.Call.Args[len(call.Call.Args)-1]}
			for _, d := range deferred {
				if cc, ok := d.(ssa.CallInstruction); ok && len(cc.Common().Args) > 0 {
					weights = append(weights, cc.Common().Args[len(cc.Common().Args)-1])
				}
			}
			one := true
			for _, wv := range weights {
				if !core.IsIntConst(wv, 1) {
					one = false
				}
			}
			r.Check(one, "C08.p", wbase+"|one-permit-per-worker", p.Pos(a.Pos()), "the worker acquires and releases exactly one permit", "the worker acquires or releases a weight other than the constant 1: with the semaphore sized to the configured concurrency, the workers no longer run side by side (a slow node delays the offer to every other node)")
		}
		// (h) classification helpers
		for _, hc := range core.Calls(W, func(c *ssa.CallCommon) bool {
			f := c.StaticCallee()
			return f != nil && f.Pkg == W.Pkg && f.Signature.Results().Len() == 1 && core.IsErrorType(f.Signature.Results().At(0).Type()) && strings.HasPrefix(f.Name(), "handle")
		}) {
			h := hc.Common().StaticCallee()
			if helpersSeen[h] {
				continue
			}
			helpersSeen[h] = true
			serverTest := func(c core.Cond) int {
				if c.Op != "==" && c.Op != "!=" {
					return -1
				}
				// no error was handed in: returning nil clears nothing
				for _, side := range [][2]*core.VD{{c.X, c.Y}, {c.Y, c.X}} {
					if prm, ok := side[0].Val.(*ssa.Parameter); ok && core.IsErrorType(prm.Type()) && side[1].Kind == "const" && side[1].Name == "nil" {
						for e := 0; e < 2; e++ {
							if c.RelOnEdge(e) == "==" {
								return e
							}
						}
					}
				}
				for _, side := range [][2]*core.VD{{c.X, c.Y}, {c.Y, c.X}} {
					if s, ok := constString(side[1].Val); ok && side[0].MentionsCall("serviceInfo") {
						_ = s
						for e := 0; e < 2; e++ {
							if c.RelOnEdge(e) == "==" {
								return e
							}
						}
					}
				}
				return -1
			}
			bad := core.NilReturnsNotGuarded(ds, h, 0, serverTest)
			if len(bad) == 0 {
				r.Hold("C08.h", core.FnKey(h)+"|clears-only-under-server-test", p.Pos(h.Pos()), "the helper returns nil only on arms guarded by a server-type test")
			}
			for ret, w := range bad {
				r.Violate("C08.h", core.FnKey(h)+"|clears-only-under-server-test", p.Pos(ret.Pos()), "the classification helper can turn an error into success without a server-type test (any rejection would count as accepted)", p.WitnessText(w)...)
			}
			// (o) a reply that cannot be decoded is not an allowable reply: where a call inside the helper fails, the
			// helper does not go on to return nil
			ordinal := map[string]int{}
			for _, ec := range core.Calls(h, func(c *ssa.CallCommon) bool {
				sg := c.Signature()
				return sg.Results().Len() > 0 && core.IsErrorType(sg.Results().At(sg.Results().Len()-1).Type())
			}) {
				ecall, ok := ec.(*ssa.Call)
				if !ok {
					continue
				}
				ordinal[core.CalleeName(ecall.Common())]++
				okKey := fmt.Sprintf("%s|decode-failure-not-cleared|%s#%d", core.FnKey(h), core.CalleeName(ecall.Common()), ordinal[core.CalleeName(ecall.Common())])
				var wit []ssa.Instruction
				tested := false
				for _, b := range h.Blocks {
					iff, ok := b.Instrs[len(b.Instrs)-1].(*ssa.If)
					if !ok {
						continue
					}
					sn := core.ErrNilSucc(core.DecodeCond(ds, iff), ecall)
					if sn < 0 {
						continue
					}
					tested = true
					w := core.PathQuery{Fn: h, StartEdge: &[2]*ssa.BasicBlock{b, b.Succs[1-sn]}, Target: func(in ssa.Instruction) bool {
						rt, ok := in.(*ssa.Return)
						return ok && len(rt.Results) == 1 && core.IsNilConst(rt.Results[0])
					}}.Find()
					if w != nil {
						wit = w
					}
				}
				if !tested {
					continue
				}
				r.Check(wit == nil, "C08.o", okKey, p.Pos(ecall.Pos()), "after the call failed the helper cannot return nil", "the helper goes on after "+core.CalleeName(ecall.Common())+" failed and can return nil: a reply that could not be decoded (its failure list is empty) counts as accepted", p.WitnessText(wit)...)
			}
			// extract tolerated pairs for the evidence
			core.EachInstr(h, func(in ssa.Instruction) {
				c, ok := in.(*ssa.Call)
				if !ok || c.Call.StaticCallee() == nil {
					return
				}
				n := c.Call.StaticCallee().Name()
				if (n == "Contains" || n == "HasPrefix") && len(c.Call.Args) == 2 {
					if s, ok := constString(c.Call.Args[1]); ok {
						tolerated = append(tolerated, h.Name()+": "+n+" "+fmt.Sprintf("%q", s))
					}
				}
			})
		}
	}
	sort.Strings(tolerated)
	r.Tables["entries"] = names
	r.Tables["tolerated-rejections"] = tolerated

	// ---- (j) the node's type is looked up, never remembered from a failed lookup ----
	// The tolerated-rejection tables are keyed by the node's client type; a classification stored in the
	// service (map, sync.Map) when the version lookup failed would turn every later tolerated rejection
	// of that node into a failure (or, stored wrongly, a failure into a success) for the life of the process.
	nJ := 0
	for _, f := range p.FuncsIn("services/submitter/multinode") {
		for _, nv := range core.CallsNamed(f, "NodeVersion") {
			call, ok := nv.(*ssa.Call)
			if !ok || !nv.Common().IsInvoke() {
				continue
			}
			nJ++
			errV := core.ExtractOf(call, 1)
			bad := false
			core.EachInstr(f, func(in ssa.Instruction) {
				isStore := false
				switch x := in.(type) {
				case *ssa.MapUpdate:
					if _, ok := core.FieldOfValue(x.Map); ok {
						isStore = true
					}
				case *ssa.Call:
					if c := x.Call.StaticCallee(); c != nil && c.Signature.Recv() != nil && strings.HasSuffix(c.Signature.Recv().Type().String(), "sync.Map") && (c.Name() == "Store" || c.Name() == "LoadOrStore" || c.Name() == "Swap") {
						isStore = true
					}
				case *ssa.Store:
					if _, _, ok := core.FieldOfAddr(x.Addr); ok {
						if _, fresh := x.Addr.(*ssa.FieldAddr).X.(*ssa.Alloc); !fresh {
							isStore = true
						}
					}
				}
				if !isStore || errV == nil {
					return
				}
				// reachable without the lookup having succeeded?
				w := core.Unguarded(ds, f, nil, func(x ssa.Instruction) bool { return x == in }, func(c core.Cond) int { return core.ErrNilSucc(c, errV) })
				if w != nil {
					bad = true
					r.Violate("C08.j", core.FnKey(f)+"|remembers-failed-lookup", p.Pos(in.Pos()), "the node's client type is stored in the service on a path where the version lookup did not succeed: the failed classification outlives the failure, and the node's tolerated rejections are then counted as failures", p.WitnessText(w)...)
				}
			})
			if !bad {
				r.Hold("C08.j", core.FnKey(f)+"|remembers-failed-lookup", p.Pos(call.Pos()), "nothing is stored in the service unless the version lookup succeeded")
			}
		}
	}
	r.Floor("C08.j node version lookups", nJ, 1)

	// ---- (l) the tolerated rejections can match: a text that was lower-cased (or upper-cased) is not searched for a
	// constant that contains a letter of the other case (the tolerated rejection would never be recognised, and a
	// node's harmless refusal turns the whole submission into a failure) ----
	nNeedle := 0
	for _, f := range p.FuncsIn("services/submitter/multinode") {
		core.EachInstr(f, func(in ssa.Instruction) {
			c, ok := in.(*ssa.Call)
			if !ok || c.Call.StaticCallee() == nil || c.Call.StaticCallee().Pkg == nil || c.Call.StaticCallee().Pkg.Pkg.Path() != "strings" || len(c.Call.Args) != 2 {
				return
			}
			switch c.Call.StaticCallee().Name() {
			case "Contains", "HasPrefix", "HasSuffix", "Index":
			default:
				return
			}
			needle, ok := constString(c.Call.Args[1])
			if !ok {
				return
			}
			nNeedle++
			hd := ds.D(c.Call.Args[0])
			lowered, uppered := hd.MentionsCall("strings.ToLower"), hd.MentionsCall("strings.ToUpper")
			bad := lowered && needle != strings.ToLower(needle) || uppered && needle != strings.ToUpper(needle)
			r.Check(!bad, "C08.l", fmt.Sprintf("%s|needle-can-match#%d", core.FnKey(f), nNeedle), p.Pos(c.Pos()), "the text searched and the constant searched for agree in case",
				fmt.Sprintf("a case-folded text is searched for %q, which contains letters of the other case and therefore never matches: the rejection it stands for is no longer tolerated", needle))
		})
	}
	r.Floor("C08.l constant needles in the classification helpers", nNeedle, 4)

	// ---- (m) the error bodies of the beacon nodes are decoded into the types the nodes send: Teku reports the index
	// of a failed item as a JSON string, Lighthouse as a number; with the wrong Go type the whole body fails to decode
	// and the tolerated rejection is never recognised ----
	{
		want := map[string]types.BasicKind{"teku": types.String, "lighthouse": types.Int}
		nWire := 0
		if pk := p.ByPath[core.ModulePath+"/services/submitter/multinode"]; pk != nil && pk.Types != nil {
			sc := pk.Types.Scope()
			for _, name := range sc.Names() {
				tn, ok := sc.Lookup(name).(*types.TypeName)
				if !ok {
					continue
				}
				st, ok := tn.Type().Underlying().(*types.Struct)
				if !ok {
					continue
				}
				lower := strings.ToLower(name)
				// the status code at the top of the body: a number from Lighthouse, a string from Teku
				for client, kind := range want {
					if !(strings.HasPrefix(lower, client) || client == "lighthouse" && strings.HasPrefix(lower, "lh")) || strings.Contains(lower, "failure") || !strings.Contains(lower, "response") {
						continue
					}
					for i := 0; i < st.NumFields(); i++ {
						if !strings.Contains(st.Tag(i), "json:\"code\"") {
							continue
						}
						nWire++
						b, isBasic := st.Field(i).Type().Underlying().(*types.Basic)
						r.Check(isBasic && b.Kind() == kind, "C08.m", "wire-type|"+name+"."+st.Field(i).Name(), p.Pos(st.Field(i).Pos()), "the status code has the JSON type the client sends",
							"the status code of "+name+" is declared as "+st.Field(i).Type().String()+", but "+client+" sends it as a JSON "+map[types.BasicKind]string{types.String: "string", types.Int: "number"}[kind]+": the error body no longer decodes, so this client's tolerated rejections count as failures")
					}
				}
				for client, kind := range want {
					if !(strings.HasPrefix(lower, client) || client == "lighthouse" && strings.HasPrefix(lower, "lh")) || !strings.Contains(lower, "failure") {
						continue
					}
					for i := 0; i < st.NumFields(); i++ {
						if !strings.Contains(st.Tag(i), "json:\"index\"") {
							continue
						}
						nWire++
						b, isBasic := st.Field(i).Type().Underlying().(*types.Basic)
						r.Check(isBasic && b.Kind() == kind, "C08.m", "wire-type|"+name+"."+st.Field(i).Name(), p.Pos(st.Field(i).Pos()), "the failure index has the JSON type the client sends",
							"the failure index of "+name+" is declared as "+st.Field(i).Type().String()+", but "+client+" sends it as a JSON "+map[types.BasicKind]string{types.String: "string", types.Int: "number"}[kind]+": the error body no longer decodes, so this client's tolerated rejections count as failures")
					}
				}
			}
		}
		r.Floor("C08.m failure index fields of the classified error bodies", nWire, 2)
	}

	// ---- (k) one failing node does not abort the submissions to the others ----
	checkNoFailFastContext(p, r, "C08.k", []string{"services/submitter/"}, "a node that rejects the submission aborts the deliveries still in flight to the other nodes")

	// ---- (i) Scatter ----
	if sc := p.Func("util", "", "Scatter"); sc != nil {
		checkScatter(p, r, ds, sc)
	} else {
		r.Undecide("C08.i", "util.Scatter", "", "anchor not found")
	}
}

// sameCell: the two values are the same value, or two loads of one field of one object built in fn
// whose field is written once (its initialisation).
func sameCell(fn *ssa.Function, a, b ssa.Value) bool {
	if a == b {
		return true
	}
	// a local that lives in a cell because a literal captures it, written once: every read of the cell, and the value
	// that was stored, are the same thing
	through := func(v ssa.Value) ssa.Value {
		if l, ok := v.(*ssa.UnOp); ok && l.Op == token.MUL {
			if al, ok := l.X.(*ssa.Alloc); ok {
				if sv := singleStoreOf(l); sv != nil {
					_ = al
					return sv
				}
			}
		}
		if al, ok := v.(*ssa.Alloc); ok && al.Referrers() != nil {
			var stored ssa.Value
			n := 0
			for _, ref := range *al.Referrers() {
				if st, ok := ref.(*ssa.Store); ok && st.Addr == ssa.Value(al) {
					stored = st.Val
					n++
				}
			}
			if n == 1 {
				return stored
			}
		}
		return v
	}
	if ta, tb := through(a), through(b); ta == tb {
		return true
	}
	la, ok1 := a.(*ssa.UnOp)
	lb, ok2 := b.(*ssa.UnOp)
	if !ok1 || !ok2 || la.Op != token.MUL || lb.Op != token.MUL {
		return false
	}
	fa, ok1 := la.X.(*ssa.FieldAddr)
	fb, ok2 := lb.X.(*ssa.FieldAddr)
	if !ok1 || !ok2 || fa.Field != fb.Field || fa.X != fb.X {
		return false
	}
	if _, fresh := fa.X.(*ssa.Alloc); !fresh {
		return false
	}
	stores := 0
	core.EachInstr(fn, func(in ssa.Instruction) {
		if st, ok := in.(*ssa.Store); ok {
			if x, ok := st.Addr.(*ssa.FieldAddr); ok && x.X == fa.X && x.Field == fa.Field {
				stores++
			}
		}
	})
	return stores <= 1
}

// sharedWithWorker: the worker is handed v itself, or the per-call state object built in fn of which v
// is a field (the value, or the address of an embedded field).
func sharedWithWorker(fn *ssa.Function, args []ssa.Value, v ssa.Value) bool {
	for _, a := range args {
		if sameCell(fn, a, v) {
			return true
		}
		x := v
		if l, ok := x.(*ssa.UnOp); ok && l.Op == token.MUL {
			x = l.X
		}
		if fa, ok := x.(*ssa.FieldAddr); ok && fa.X == a {
			if _, fresh := a.(*ssa.Alloc); fresh {
				if l, isLoad := v.(*ssa.UnOp); isLoad {
					return sameCell(fn, l, l)
				}
				return true
			}
		}
	}
	return false
}

func checkScatter(p *core.Prog, r *core.Report, ds *core.Describer, f *ssa.Function) {
	base := "util.Scatter"
	var chans []*ssa.MakeChan
	core.EachInstr(f, func(in ssa.Instruction) {
		if mc, ok := in.(*ssa.MakeChan); ok {
			chans = append(chans, mc)
		}
	})
	var goLoops, recvLoops []*core.Loop
	for _, l := range p.Loops(f) {
		hasGo, hasSel := false, false
		core.EachInstr(f, func(in ssa.Instruction) {
			if !l.Contains(in.Pos()) {
				return
			}
			switch in.(type) {
			case *ssa.Go:
				hasGo = true
			case *ssa.Select:
				hasSel = true
			case *ssa.UnOp:
				// a plain receive from one of the function's own channels (results and errors sent as one message)
				if u := in.(*ssa.UnOp); u.Op == token.ARROW {
					x := u.X
					if st := singleStoreOf(x); st != nil {
						x = st
					}
					if _, own := x.(*ssa.MakeChan); own {
						hasSel = true
					}
				}
			}
		})
		if hasGo {
			goLoops = append(goLoops, l)
		}
		if hasSel {
			recvLoops = append(recvLoops, l)
		}
	}
	if len(goLoops) != 1 || len(recvLoops) != 1 || len(chans) < 1 {
		r.Violate("C08.i", base+"|shape", p.Pos(f.Pos()), fmt.Sprintf("Scatter is not of the shape one start loop / one collect loop / result+error channels (%d/%d/%d)", len(goLoops), len(recvLoops), len(chans)))
		return
	}
	gl, rl := goLoops[0], recvLoops[0]
	same := gl.RangeExpr() != nil && rl.RangeExpr() != nil && types.ExprString(gl.RangeExpr()) == types.ExprString(rl.RangeExpr())
	if !same && collectsUntilClosed(p, f, gl, rl, chans) {
		// the other complete form: the collector receives with `v, ok` until the channels are closed, and they are
		// closed by a goroutine that has waited for every worker (each worker is counted and calls Done when it returns)
		same = true
	}
	r.Check(same, "C08.i", base+"|starts-equals-receives", p.Pos(rl.Stmt.Pos()), "as many receives as goroutines (both loops range over the same worker count)", "the collector does not perform as many receives as goroutines were started: "+gl.Describe()+" vs "+rl.Describe())
	noEarlyExit(p, r, "C08.i", gl, "worker start loop")
	noEarlyExit(p, r, "C08.i", rl, "collector loop")
	// the number of workers covers the input: workers = ceil(inputLen / extent), i.e. every leaf of the worker
	// count is inputLen/extent (+1), the bare quotient only where inputLen % extent == 0
	{
		var bound ssa.Value
		core.EachInstr(f, func(in ssa.Instruction) {
			b, ok := in.(*ssa.BinOp)
			if !ok || b.Op != token.LSS || !(gl.Contains(b.Pos()) || !b.Pos().IsValid()) {
				return
			}
			if _, isPhi := b.X.(*ssa.Phi); isPhi || core.InLoop(b) {
				if bound == nil {
					bound = b.Y
				}
			}
		})
		if len(chans) > 0 {
			bound = chans[0].Size
		}
		if bound == nil || len(f.Params) == 0 {
			r.Undecide("C08.i", base+"|workers-cover-input", p.Pos(f.Pos()), "worker count not found")
		} else {
			inputLen := f.Params[0]
			isQuot := func(v ssa.Value) (ssa.Value, bool) {
				b, ok := v.(*ssa.BinOp)
				if !ok || b.Op != token.QUO || b.X != ssa.Value(inputLen) {
					return nil, false
				}
				return b.Y, true
			}
			okAll := true
			why := ""
			// a worker count written as one expression of the input length and the extent (1 + (n-1)/e, (n+e-1)/e, …) is
			// decided by evaluating it: it must be ceil(n/e) for every n >= 1 and 1 <= e <= n
			leaves := core.PhiLeaves(bound, gl0(f, bound))
			if len(leaves) == 1 {
				if ls, _ := arithLeaves(leaves[0].V); len(ls) == 2 && (ls[0] == ssa.Value(inputLen) || ls[1] == ssa.Value(inputLen)) {
					ext := ls[0]
					if ext == ssa.Value(inputLen) {
						ext = ls[1]
					}
					evaluable, agrees := true, true
					for n := int64(1); n <= 40 && evaluable; n++ {
						for e := int64(1); e <= n; e++ {
							v, ok := evalArith(leaves[0].V, map[ssa.Value]int64{ssa.Value(inputLen): n, ext: e})
							if !ok {
								evaluable = false
								break
							}
							if v != (n+e-1)/e {
								agrees = false
							}
						}
					}
					if evaluable {
						if !agrees {
							okAll, why = false, "the worker count "+ds.D(leaves[0].V).String()+" is not ceil(inputLen/extent) for every input length and extent"
						}
						leaves = nil
					}
				}
			}
			for _, lf := range leaves {
				if ext, ok := isQuot(lf.V); ok {
					// bare quotient: only where the remainder is zero
					g := func(c core.Cond) int {
						if c.Op != "==" && c.Op != "!=" {
							return -1
						}
						for _, side := range [][2]*core.VD{{c.X, c.Y}, {c.Y, c.X}} {
							rem, ok := side[0].Val.(*ssa.BinOp)
							if !ok || rem.Op != token.REM || rem.X != ssa.Value(inputLen) || rem.Y != ext {
								continue
							}
							if side[1].Kind != "const" || side[1].Name != "0" {
								continue
							}
							for e := 0; e < 2; e++ {
								if c.RelOnEdge(e) == "==" {
									return e
								}
							}
						}
						return -1
					}
					if w := core.UnguardedLeaf(ds, f, nil, lf, g); w != nil {
						okAll, why = false, "the bare quotient inputLen/extent is used although a remainder may be left"
					}
					continue
				}
				if b, ok := lf.V.(*ssa.BinOp); ok && b.Op == token.ADD {
					if _, ok := isQuot(b.X); ok {
						if c, isC := b.Y.(*ssa.Const); isC && c.Value != nil && c.Value.String() == "1" {
							continue
						}
					}
				}
				okAll, why = false, "the worker count can be "+ds.D(lf.V).String()
			}
			r.Check(okAll, "C08.i", base+"|workers-cover-input", p.Pos(f.Pos()), "the worker count is ceil(inputLen/extent): every extent of the input is handed to a worker",
				"the number of workers is not always ceil(inputLen/extent) ("+why+"): trailing entries of the payload are handed to no worker, so they reach no node although the submission reports success")
		}
	}
	for i, mc := range chans {
		sd := ds.D(mc.Size)
		okCap := gl.RangeExpr() != nil && strings.Contains(sd.String(), "") && sizeIsLoopBound(p, f, mc, gl)
		r.Check(okCap, "C08.i", fmt.Sprintf("%s|chan-capacity#%d", base, i+1), p.Pos(mc.Pos()), "channel capacity is the worker count", "channel capacity ("+sd.String()+") is not the number of workers: a worker can block for ever / the deferred close can race a send")
	}
}

// gl0: an instruction at which the value is used (for phi-leaf expansion).
func gl0(f *ssa.Function, v ssa.Value) ssa.Instruction {
	if v.Referrers() != nil {
		for _, ref := range *v.Referrers() {
			return ref
		}
	}
	return f.Blocks[0].Instrs[0]
}

// sizeIsLoopBound: the channel's size value is the same SSA value the loop ranges over.
func sizeIsLoopBound(p *core.Prog, f *ssa.Function, mc *ssa.MakeChan, l *core.Loop) bool {
	// `for worker := range workers` is lowered to a counted loop comparing with the value of `workers`.
	found := false
	core.EachInstr(f, func(in ssa.Instruction) {
		b, ok := in.(*ssa.BinOp)
		if !ok || !l.Contains(b.Pos()) && b.Pos().IsValid() {
			return
		}
		if b.Op.String() == "<" && b.Y == mc.Size {
			found = true
		}
	})
	if !found {
		// compare through the description
		ds := core.NewDescriber()
		want := ds.D(mc.Size).String()
		core.EachInstr(f, func(in ssa.Instruction) {
			if b, ok := in.(*ssa.BinOp); ok && b.Op.String() == "<" && ds.D(b.Y).String() == want {
				found = true
			}
		})
	}
	return found
}

// collectsUntilClosed: the collector's select receives in the two-value form; every channel made by the function is
// closed, in a goroutine, after a WaitGroup.Wait; every goroutine started in the start loop defers Done; and the group
// is given one count per start (Add(1) in the start loop, or one Add of the start loop's bound ahead of it).
func collectsUntilClosed(p *core.Prog, f *ssa.Function, gl, rl *core.Loop, chans []*ssa.MakeChan) bool {
	// two-value receives
	okForm := false
	core.EachInstr(f, func(in ssa.Instruction) {
		sel, ok := in.(*ssa.Select)
		if !ok || !rl.Contains(sel.Pos()) || sel.Referrers() == nil {
			return
		}
		for _, ref := range *sel.Referrers() {
			if ex, ok := ref.(*ssa.Extract); ok && ex.Index == 1 && ex.Referrers() != nil && len(*ex.Referrers()) > 0 {
				okForm = true
			}
		}
	})
	if !okForm {
		return false
	}
	isWG := func(c *ssa.CallCommon, name string) bool {
		callee := c.StaticCallee()
		return callee != nil && callee.Name() == name && callee.Pkg != nil && callee.Pkg.Pkg.Path() == "sync" && callee.Signature.Recv() != nil && strings.HasSuffix(callee.Signature.Recv().Type().String(), "sync.WaitGroup")
	}
	// closures started with `go`, by where
	closed := map[*ssa.MakeChan]bool{}
	workersDone := 0
	workers := 0
	core.EachInstr(f, func(in ssa.Instruction) {
		g, ok := in.(*ssa.Go)
		if !ok {
			return
		}
		mc, ok := g.Call.Value.(*ssa.MakeClosure)
		if !ok {
			return
		}
		fn, ok := mc.Fn.(*ssa.Function)
		if !ok {
			return
		}
		if gl.Contains(g.Pos()) {
			workers++
			hasDone := false
			core.EachInstr(fn, func(in2 ssa.Instruction) {
				if d, ok := in2.(*ssa.Defer); ok && isWG(&d.Call, "Done") {
					hasDone = true
				}
			})
			if hasDone {
				workersDone++
			}
			return
		}
		// the closer: Wait, then close of captured channels
		var wait ssa.Instruction
		core.EachInstr(fn, func(in2 ssa.Instruction) {
			if c, ok := in2.(*ssa.Call); ok && isWG(&c.Call, "Wait") && wait == nil {
				wait = c
			}
		})
		if wait == nil || !addsPrecede(p, f, g, isWG) {
			return
		}
		core.EachInstr(fn, func(in2 ssa.Instruction) {
			c, ok := in2.(*ssa.Call)
			if !ok {
				return
			}
			b, ok := c.Call.Value.(*ssa.Builtin)
			if !ok || b.Name() != "close" || len(c.Call.Args) != 1 || !core.InstrDominates(wait, c) {
				return
			}
			ld, ok := c.Call.Args[0].(*ssa.UnOp)
			if !ok || ld.Op != token.MUL {
				return
			}
			fv, ok := ld.X.(*ssa.FreeVar)
			if !ok {
				return
			}
			for i, x := range fn.FreeVars {
				if x != fv || i >= len(mc.Bindings) {
					continue
				}
				a, ok := mc.Bindings[i].(*ssa.Alloc)
				if !ok || a.Referrers() == nil {
					continue
				}
				for _, ref := range *a.Referrers() {
					if st, ok := ref.(*ssa.Store); ok && st.Addr == ssa.Value(a) {
						if m, ok := st.Val.(*ssa.MakeChan); ok {
							closed[m] = true
						}
					}
				}
			}
		})
	})
	if os.Getenv("VCHECK_DEBUG08") != "" {
		fmt.Fprintln(os.Stderr, "collectsUntilClosed", okForm, workers, workersDone, len(closed), len(chans))
	}
	if workers == 0 || workersDone != workers {
		return false
	}
	for _, m := range chans {
		if !closed[m] {
			return false
		}
	}
	// one count per start
	counted := false
	core.EachInstr(f, func(in ssa.Instruction) {
		c, ok := in.(*ssa.Call)
		if !ok || !isWG(&c.Call, "Add") || len(c.Call.Args) != 2 {
			return
		}
		arg := c.Call.Args[1]
		if k, isC := arg.(*ssa.Const); isC && k.Value != nil && k.Value.String() == "1" && gl.Contains(c.Pos()) {
			counted = true
			return
		}
		if gl.Contains(c.Pos()) {
			return
		}
		// Add(n) ahead of the loop: n is what the start loop counts up to
		core.EachInstr(f, func(in2 ssa.Instruction) {
			b, ok := in2.(*ssa.BinOp)
			if !ok || b.Op != token.LSS || b.Y != arg {
				return
			}
			x := b.X
			if inc, ok := x.(*ssa.BinOp); ok && inc.Op == token.ADD {
				x = inc.X // the rotated form of `for i := range n` tests i+1 < n at the foot of the body
			}
			if _, isPhi := x.(*ssa.Phi); isPhi && (gl.Contains(b.Pos()) || !b.Pos().IsValid() || core.InLoop(b)) {
				counted = true
			}
		})
	})
	return counted
}
