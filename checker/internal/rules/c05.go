package rules

import (
	"fmt"
	"go/token"
	"go/types"
	"strings"

	"golang.org/x/tools/go/ssa"

	"vouchcheck/internal/core"
)

func init() {
	register(&Pack{
		ID:  "C05",
		Run: runC05,
		Expl: "Decides structural necessary conditions of 'a proposal signs only the selected block of the duty slot and submits it intact' in services/beaconblockproposer/standard: " +
			"(a) the block signer is reachable only through a guard proposal.Slot() == duty.Slot() (a helper's nil-error returns are checked; errors.Wrap of a nil error counts as nil); " +
			"(b) the signer receives duty.Account()/Slot()/ValidatorIndex() and the ParentRoot()/StateRoot()/BodyRoot() of the same proposal value that was checked; the RANDAO signer receives the account looked up for duty.ValidatorIndex() at the duty's epoch and duty.Slot(); " +
			"(c) each signed container takes Message from the obtained proposal and Signature from the signer's result, Version/Blinded are copied from the proposal, every data version up to Deneb has an arm and the default arm is an error; " +
			"(d) the relay is sent exactly the signed blinded block (Version and the *Blinded fields of the signed proposal); " +
			"(e) on the blinded edge SubmitProposal is reachable only through a nil error of the unblinding call, whose nil returns occur only on the arm that received a relay response and where the proposal's content is replaced by that response; " +
			"(f) a graffiti failure still reaches proposeBlock and an auction failure still reaches the beacon node's Proposal call; (g) what is submitted is the value returned by the signing helper; " +
			"(h) the auction results pointer is not dereferenced on a path where it may be nil. " +
			"Added with the third seeding round: (h, extended) results of the package's own (T, error) helpers that can be nil without an error are dereferenced only behind a nil test. Added with the fourth seeding round: (b, extended) every value reaching SetRandaoReveal is the result of SignRANDAOReveal; (e, extended) a tested TryAcquire that succeeded is released on every path. Added with the fifth seeding round: (e, extended) the unblinding goroutines never wait for the semaphore with a blocking Acquire; (x) the cross-cutting rules (shadowed results, wrap of nil, nil without error, wait-group balance) inside the proposer and signer. Added with the sixth seeding round and the false-alarm regression: (y) C09.e (the collector waits under the strategy's deadline) is taken over; (x) no dereference of a call's result on a path that continues after its error was found non-nil. Added with the seventh seeding round: (k) in the signer a parameter that is passed on under a name the signer has a parameter for (a field of a literal, a named parameter of the callee) is that parameter. Added after the tenth seeding round: (e, extended) a shared atomic counter that the unblinding goroutines bump and that is compared with the length of a collection is bumped on no cycle of a goroutine's body (it counts workers, not attempts). NOT decided: that the relay's full block corresponds to the blinded header (the relay is trusted), BLS validity (C06), retry timing.",
		Technique: "SSA guard/edge-deletion queries with guard-helper summaries (error-nilness), provenance of call arguments and composite-literal fields, select-arm guards, maybe-nil dereference analysis",
		Rule:      "one obligation per guarded effect, per signer argument, per signed-container literal field, per nil-able return, per dereference; non-trivial = the construct exists and a path/provenance query was evaluated",
	})
}

const propRel = "services/beaconblockproposer/standard"

func isDutyAcc(d *core.VD, m string) bool { return d.IsCall("services/beaconblockproposer.Duty." + m) }

func runC05(p *core.Prog, r *core.Report, tier string) {
	ds := core.NewDescriber()
	fns := p.FuncsIn(propRel)
	var signFn *ssa.Function
	var signSite *ssa.Call
	for _, f := range fns {
		for _, ci := range core.CallsNamed(f, "SignBeaconBlockProposal") {
			if c, ok := ci.(*ssa.Call); ok && c.Call.IsInvoke() {
				signFn, signSite = f, c
			}
		}
	}
	if signSite == nil {
		r.Undecide("C05.anchor", "block sign call", "", "no call of SignBeaconBlockProposal in "+propRel)
		return
	}
	chain := callChain(p, signFn, signSite, 4)
	var names []string
	for _, l := range chain {
		names = append(names, core.FnKey(l.fn))
	}
	r.Tables["sign-chain"] = names

	// who may sign blocks
	for _, f := range p.SrcFuncs() {
		for _, ci := range core.CallsNamed(f, "SignBeaconBlockProposal") {
			rel := core.RelPkg(f.Pkg.Pkg.Path())
			r.Check(rel == propRel || rel == "services/signer/standard", "C05.a", "who-may-sign-blocks|"+core.FnKey(f), p.Pos(ci.Pos()), "block signer called from "+rel, "block signer called from "+rel)
		}
	}

	// ---- (a) slot check ⊳ sign ----
	slotG := relGuard(func(d *core.VD) bool { return d.MentionsCall("api.VersionedProposal.Slot") }, func(d *core.VD) bool { return isDutyAcc(d, "Slot") }, map[string]bool{"==": true})
	ok, wit, how := guardOnChain(p, ds, chain, slotG)
	r.Check(ok, "C05.a", "slot-check-before-sign", p.Pos(signSite.Pos()), "proposal.Slot() == duty.Slot() is established on every path to the block signer ("+how+")",
		"the block signer is reachable without proposal.Slot() == duty.Slot() having been established (a block for another slot would be signed)", p.WitnessText(wit)...)

	// ---- (b) what is signed ----
	a := signSite.Call.Args
	if len(a) >= 7 {
		chk := func(i int, name string, ok bool) {
			r.Check(ok, "C05.b", "sign-arg|"+name, p.Pos(signSite.Pos()), name+" <- "+ds.D(a[i]).String(), name+" is "+ds.D(a[i]).String())
		}
		chk(1, "account=duty.Account()", isDutyAcc(ds.D(a[1]), "Account"))
		chk(2, "slot=duty.Slot()", isDutyAcc(ds.D(a[2]), "Slot"))
		chk(3, "index=duty.ValidatorIndex()", isDutyAcc(ds.D(a[3]), "ValidatorIndex"))
		var roots []string
		for i, m := range []string{"ParentRoot", "StateRoot", "BodyRoot"} {
			d := ds.D(core.ThroughLocalStruct(signFn, a[4+i], signSite))
			okm := d.Kind == "extract" && d.Name == "0" && d.Args[0].IsCall("api.VersionedProposal."+m)
			chk(4+i, strings.ToLower(m[:1])+m[1:]+"=proposal."+m+"()", okm)
			if okm && len(d.Args[0].Args) > 0 {
				roots = append(roots, d.Args[0].Args[0].String())
			}
		}
		same := len(roots) == 3 && roots[0] == roots[1] && roots[1] == roots[2]
		r.Check(same, "C05.b", "sign-arg|roots-of-one-proposal", p.Pos(signSite.Pos()), "the three roots come from one proposal value", "the roots come from different proposal values: "+strings.Join(roots, " / "))
		// the proposal whose roots are signed is the one that was slot-checked: at the level where the check is made
		if same && len(chain) > 1 {
			if k := paramIndexOfValueName(signFn, roots[0]); k >= 0 {
				for _, o := range p.ParamOrigins(signFn, k, 0) {
					checked := false
					for _, l := range chain[1:] {
						for _, ci := range core.Calls(l.fn, func(c *ssa.CallCommon) bool {
							f := c.StaticCallee()
							return f != nil && core.CountGuards(ds, f, slotG) > 0
						}) {
							for _, arg := range ci.Common().Args {
								if arg == o {
									checked = true
								}
							}
						}
						if core.CountGuards(ds, l.fn, slotG) > 0 {
							checked = true
						}
					}
					r.Check(checked, "C05.b", "checked-is-signed", p.Pos(signSite.Pos()), "the proposal handed to the signing helper is the one whose slot was checked", "the proposal handed to the signing helper ("+ds.D(o).String()+") is not the value whose slot was checked")
				}
			}
		}
	}
	// RANDAO
	nR := 0
	for _, f := range fns {
		for _, ci := range core.CallsNamed(f, "SignRANDAOReveal") {
			if !ci.Common().IsInvoke() {
				continue
			}
			nR++
			ra := ci.Common().Args
			sd := ds.D(ra[len(ra)-1])
			r.Check(isDutyAcc(sd, "Slot"), "C05.b", "randao|slot", p.Pos(ci.Pos()), "RANDAO reveal requested for duty.Slot()", "RANDAO reveal requested for "+sd.String())
			ad := ds.D(ra[len(ra)-2])
			okAcc := ad.Kind == "lookup" && isDutyAcc(ad.Args[1], "ValidatorIndex") && ad.Args[0].MentionsCall("ValidatingAccountsForEpochByIndex")
			r.Check(okAcc, "C05.b", "randao|account", p.Pos(ci.Pos()), "RANDAO account is the validating account looked up for duty.ValidatorIndex()", "RANDAO account is "+ad.String())
			if okAcc {
				// requested for the duty's epoch and exactly that index
				var call *core.VD
				ad.Args[0].Walk(func(x *core.VD) bool {
					if x.IsCall("ValidatingAccountsForEpochByIndex") {
						call = x
					}
					return true
				})
				if call != nil && len(call.Args) >= 3 {
					ed := call.Args[len(call.Args)-2]
					r.Check(ed.MentionsCall("SlotToEpoch") && ed.MentionsCall("beaconblockproposer.Duty.Slot"), "C05.b", "randao|epoch", p.Pos(ci.Pos()), "account requested for SlotToEpoch(duty.Slot())", "account requested for epoch "+ed.String())
				}
			}
		}
	}
	r.Floor("C05.b RANDAO sign sites", nR, 1)
	// the reveal a duty carries is the one signed for that duty in this call: every value that can reach
	// SetRandaoReveal is the result of SignRANDAOReveal (not a remembered signature of another validator)
	nSet := 0
	for _, f := range fns {
		for _, ci := range core.CallsNamed(f, "SetRandaoReveal") {
			args := ci.Common().Args
			v := args[len(args)-1]
			for li, lf := range core.PhiLeaves(v, ci.(ssa.Instruction)) {
				nSet++
				d := ds.D(lf.V)
				ok := d.MentionsCall("SignRANDAOReveal")
				r.Check(ok, "C05.b", fmt.Sprintf("randao|reveal-signed-for-this-duty#%d", li+1), p.Pos(ci.Pos()), "the reveal set on the duty is the result of SignRANDAOReveal in this call",
					"the RANDAO reveal set on the duty can be "+d.String()+", which is not the signature obtained for this duty's validator in this call (e.g. a reveal remembered per epoch): the proposal carries another validator's reveal")
			}
		}
	}
	r.Floor("C05.b RANDAO reveal assignments", nSet, 1)

	// ---- (c) signed containers ----
	nLit := 0
	for _, sfx := range []string{"SignedBeaconBlock", "SignedBlindedBeaconBlock"} {
		for _, sl := range core.StructLits(signFn, sfx) {
			nLit++
			tn := typeName(sl.Alloc.Type())
			if v := sl.Fields["Signature"]; v != nil {
				r.Check(ds.D(v).MentionsValue(signSite), "C05.c", "container|"+tn+"|Signature", p.Pos(sl.Alloc.Pos()), "Signature is the signer's result", "Signature is not the signer's result: "+ds.D(v).String())
			} else {
				r.Violate("C05.c", "container|"+tn+"|Signature", p.Pos(sl.Alloc.Pos()), "Signature is not set")
			}
			if v := sl.Fields["Message"]; v != nil {
				d := ds.D(v)
				root := d
				for root.Kind == "field" {
					root = root.Args[0]
				}
				r.Check(root.Kind == "param" && d.Kind == "field", "C05.c", "container|"+tn+"|Message", p.Pos(sl.Alloc.Pos()), "Message <- "+d.String(), "Message is not a field of the obtained proposal: "+d.String())
			} else {
				r.Violate("C05.c", "container|"+tn+"|Message", p.Pos(sl.Alloc.Pos()), "Message is not set")
			}
		}
	}
	r.Floor("C05.c signed container literals", nLit, 8)
	for _, sl := range core.StructLits(signFn, "api.VersionedSignedProposal") {
		for _, fld := range []string{"Version", "Blinded"} {
			v := sl.Fields[fld]
			if v == nil {
				r.Violate("C05.c", "signed-proposal|"+fld, p.Pos(sl.Alloc.Pos()), fld+" is not set")
				continue
			}
			d := ds.D(v)
			root, path := d.FieldPath()
			r.Check(root.Kind == "param" && len(path) == 1 && path[0] == fld, "C05.c", "signed-proposal|"+fld, p.Pos(sl.Alloc.Pos()), fld+" copied from the proposal", fld+" is "+d.String()+", not the proposal's")
		}
	}
	// exhaustiveness over data versions
	versions := map[string]bool{}
	core.EachInstr(signFn, func(in ssa.Instruction) {
		ifi, ok := in.(*ssa.If)
		if !ok {
			return
		}
		c := core.DecodeCond(ds, ifi)
		if c.Op != "==" {
			return
		}
		for _, pair := range [][2]*core.VD{{c.X, c.Y}, {c.Y, c.X}} {
			if pair[0].HasFieldSuffix("Version") && pair[1].Kind == "const" && strings.HasSuffix(types.TypeString(pair[1].Val.Type(), nil), "spec.DataVersion") {
				versions[pair[1].Name] = true
			}
		}
	})
	r.Check(len(versions) >= 5, "C05.c", "version-arms", p.Pos(signFn.Pos()), fmt.Sprintf("%d data versions have an arm", len(versions)), fmt.Sprintf("only %d data versions have an arm (phase0..deneb = 5 expected)", len(versions)))

	// ---- (d) the relay gets the signed blinded block ----
	nD := 0
	for _, f := range fns {
		for _, sl := range core.StructLits(f, "api.VersionedSignedBlindedProposal") {
			nD++
			for fld, src := range map[string]string{"Version": "Version", "Bellatrix": "BellatrixBlinded", "Capella": "CapellaBlinded", "Deneb": "DenebBlinded"} {
				v := sl.Fields[fld]
				if v == nil {
					r.Violate("C05.d", core.FnKey(f)+"|unblind-request|"+fld, p.Pos(sl.Alloc.Pos()), fld+" of the unblinding request is not set")
					continue
				}
				d := ds.D(v)
				_, path := d.FieldPath()
				okf := len(path) >= 1 && path[len(path)-1] == src && strings.HasSuffix(typeOfRoot(d), "api.VersionedSignedProposal")
				r.Check(okf, "C05.d", core.FnKey(f)+"|unblind-request|"+fld, p.Pos(sl.Alloc.Pos()), fld+" <- signedProposal."+src, fld+" of the unblinding request is "+d.String()+", expected the signed proposal's "+src)
			}
		}
	}
	r.Floor("C05.d unblinding requests", nD, 1)

	// ---- (e) nothing submitted without an unblinded block ----
	for _, f := range fns {
		for _, sub := range core.CallsNamed(f, "SubmitProposal") {
			if !sub.Common().IsInvoke() {
				continue
			}
			isSub := func(in ssa.Instruction) bool { return in == sub.(ssa.Instruction) }
			// (g) what is submitted is what the signing helper returned
			sd := ds.D(sub.Common().Args[len(sub.Common().Args)-1])
			signedFrom := false
			var signCall *ssa.Call
			for _, ci := range core.Calls(f, func(c *ssa.CallCommon) bool { return c.StaticCallee() == signFn }) {
				if c, ok := ci.(*ssa.Call); ok && sd.MentionsValue(c) {
					signedFrom, signCall = true, c
				}
			}
			if f == signFn {
				signedFrom = true
			}
			r.Check(signedFrom, "C05.g", core.FnKey(f)+"|submitted-is-signed", p.Pos(sub.Pos()), "the submitted value is the result of the signing helper", "the submitted value ("+sd.String()+") is not the result of the signing helper")
			_ = signCall
			// unblind calls in f
			var unblind []*ssa.Call
			for _, ci := range core.Calls(f, func(c *ssa.CallCommon) bool {
				cf := c.StaticCallee()
				return cf != nil && cf.Pkg == f.Pkg && len(withClosureCalls(cf, "UnblindProposal")) > 0
			}) {
				if c, ok := ci.(*ssa.Call); ok {
					unblind = append(unblind, c)
				}
			}
			if len(unblind) == 0 {
				r.Violate("C05.e", core.FnKey(f)+"|submit-after-unblind", p.Pos(sub.Pos()), "no unblinding step precedes SubmitProposal")
				continue
			}
			blindedFalse := func(c core.Cond) int {
				if c.B != nil && c.B.HasFieldSuffix("Blinded") && strings.HasSuffix(typeOfRoot(c.B), "api.VersionedSignedProposal") {
					if c.BoolOnEdge(0) {
						return 1
					}
					return 0
				}
				return -1
			}
			// paths that avoid the unblinding call must have passed Blinded == false
			est := guardEdges(ds, f, blindedFalse)
			w := core.PathQuery{Fn: f, Target: isSub, Avoid: func(in ssa.Instruction) bool {
				for _, u := range unblind {
					if in == ssa.Instruction(u) {
						return true
					}
				}
				return false
			}, Edge: func(b *ssa.BasicBlock, succ int) bool {
				if s, ok := est[b]; ok && s == succ {
					return false
				}
				return true
			}}.Find()
			r.Check(w == nil && len(est) > 0, "C05.e", core.FnKey(f)+"|blinded-needs-unblind", p.Pos(sub.Pos()), "a blinded proposal reaches SubmitProposal only through the unblinding step", "SubmitProposal is reachable for a blinded proposal without the unblinding step", p.WitnessText(w)...)
			for _, u := range unblind {
				w := core.Unguarded(ds, f, u, isSub, func(c core.Cond) int { return core.ErrNilSucc(c, u) })
				r.Check(w == nil, "C05.e", core.FnKey(f)+"|unblind-error-stops", p.Pos(u.Pos()), "a failed unblinding does not reach SubmitProposal", "SubmitProposal is reachable after the unblinding step without its error having been tested nil", p.WitnessText(w)...)
				checkUnblinder(p, r, ds, u.Call.StaticCallee())
			}
		}
	}

	// ---- (f) degradation, not skipping ----
	for _, f := range fns {
		for _, g := range core.Calls(f, func(c *ssa.CallCommon) bool {
			cf := c.StaticCallee()
			return cf != nil && cf.Pkg == f.Pkg && len(core.CallsNamed(cf, "Graffiti")) > 0
		}) {
			var next []ssa.CallInstruction
			for _, l := range chain {
				if l.fn == f {
					next = append(next, l.site.(ssa.CallInstruction))
				}
			}
			if len(next) == 0 {
				continue
			}
			w := core.PathQuery{Fn: f, From: g.(ssa.Instruction), Target: core.IsExit, Avoid: func(in ssa.Instruction) bool { return in == next[0].(ssa.Instruction) }}.Find()
			r.Check(w == nil, "C05.f", core.FnKey(f)+"|graffiti-failure-degrades", p.Pos(g.Pos()), "every path after the graffiti lookup continues to the proposal", "the proposal is skipped on some path after the graffiti lookup (failure must degrade to empty graffiti)", p.WitnessText(w)...)
		}
		for _, au := range core.Calls(f, func(c *ssa.CallCommon) bool {
			cf := c.StaticCallee()
			return cf != nil && cf.Pkg == f.Pkg && len(core.CallsNamed(cf, "AuctionBlock")) > 0
		}) {
			props := core.Calls(f, func(c *ssa.CallCommon) bool { return c.IsInvoke() && c.Method.Name() == "Proposal" })
			if len(props) == 0 {
				continue
			}
			w := core.PathQuery{Fn: f, From: au.(ssa.Instruction), Target: core.IsExit, Avoid: func(in ssa.Instruction) bool { return in == props[0].(ssa.Instruction) }}.Find()
			r.Check(w == nil, "C05.f", core.FnKey(f)+"|auction-failure-degrades", p.Pos(au.Pos()), "every path after the auction continues to the beacon node's Proposal call", "the proposal is skipped on some path after the auction (failure must degrade to a locally built block)", p.WitnessText(w)...)
		}
	}

	// ---- (i) the proposal's steps run on the duty's context, not on one bounded for an optional step ----
	// a context narrowed with a timeout/deadline for a degradable step (graffiti, auction) and then handed on makes
	// the failure of the optional step fatal: every later step sees an expired context and the proposal is skipped
	nCtx := 0
	for _, f := range fns {
		if f.Parent() != nil {
			continue
		}
		for _, l := range chain {
			if l.fn != f {
				continue
			}
			ci, ok := l.site.(ssa.CallInstruction)
			if !ok || len(ci.Common().Args) == 0 {
				continue
			}
			for _, a := range ci.Common().Args {
				if !strings.HasSuffix(a.Type().String(), "context.Context") {
					continue
				}
				nCtx++
				d := ds.D(a)
				bad := d.MentionsCall("context.WithTimeout") || d.MentionsCall("context.WithDeadline")
				r.Check(!bad, "C05.i", core.FnKey(f)+"|step-context|"+core.CalleeName(ci.Common()), p.Pos(ci.Pos()), "the next step of the proposal runs on the caller's context",
					"the context handed to the next step of the proposal was narrowed by a timeout in this function ("+d.String()+"): when the bounded step uses up its time the proposal itself is abandoned")
			}
		}
	}
	r.Floor("C05.i step contexts on the way to signing", nCtx, 2)

	// ---- (k) what is signed is assembled field for field: in the signer, a parameter that is passed on under a name
	// the signer itself has a parameter for (a field of a literal, a named parameter of the callee) is that parameter ----
	nPass := 0
	for _, f := range p.FuncsIn("services/signer/standard") {
		if f.Parent() != nil {
			continue
		}
		byName := map[string]*ssa.Parameter{}
		for _, prm := range f.Params {
			byName[strings.ToLower(prm.Name())] = prm
		}
		check := func(slot string, v ssa.Value, pos token.Pos, what string) {
			prm := passedParameter(v)
			want := byName[strings.ToLower(slot)]
			if prm == nil || want == nil || byName[strings.ToLower(prm.Name())] != prm || strings.HasSuffix(prm.Type().String(), "context.Context") {
				return
			}
			nPass++
			r.Check(prm == want, "C05.k", fmt.Sprintf("%s|%s|%s", core.FnKey(f), what, slot), p.Pos(pos), "the signer's parameter of the same name is passed on",
				fmt.Sprintf("%s %s receives the signer's parameter %q although the signer has a parameter %q: what is signed is not the object the caller described (the signature will not verify against the block that is published)", what, slot, prm.Name(), want.Name()))
		}
		core.EachInstr(f, func(in ssa.Instruction) {
			if a, ok := in.(*ssa.Alloc); ok {
				pt, _ := a.Type().(*types.Pointer)
				if pt == nil {
					return
				}
				nt, _ := pt.Elem().(*types.Named)
				if nt == nil {
					return
				}
				if _, isStruct := nt.Underlying().(*types.Struct); !isStruct {
					return
				}
				for _, sl := range core.StructLits(f, nt.Obj().Name()) {
					if sl.Alloc != a {
						continue
					}
					for name, v := range sl.Fields {
						pos := a.Pos()
						if st := sl.Stores[name]; st != nil {
							pos = st.Pos()
						}
						check(name, v, pos, "field "+nt.Obj().Name()+".")
					}
				}
				return
			}
			ci, ok := in.(ssa.CallInstruction)
			if !ok {
				return
			}
			sig := ci.Common().Signature()
			args := ci.Common().Args
			off := 0
			if !ci.Common().IsInvoke() && sig.Recv() != nil {
				off = 1
			}
			for i := 0; i < sig.Params().Len() && i+off < len(args); i++ {
				if n := sig.Params().At(i).Name(); n != "" && n != "_" {
					check(n, args[i+off], ci.Pos(), "parameter of "+core.CalleeName(ci.Common())+":")
				}
			}
		})
	}
	r.Floor("C05.k same-named parameters passed on in the signer", nPass, 20)

	// ---- (h) maybe-nil dereferences in the package ----
	nDeref := 0
	for _, f := range fns {
		for _, nd := range core.MaybeNilDerefs(ds, f) {
			nDeref++
			name := "?"
			if phi, ok := nd.Value.(*ssa.Phi); ok {
				name = phi.Comment
			}
			r.Violate("C05.h", core.FnKey(f)+"|nil-deref|"+name, p.Pos(nd.Use.Pos()), "dereference of "+name+", a pointer that "+nd.Why, p.WitnessText(nd.Witness)...)
		}
	}
	if nDeref == 0 {
		r.Hold("C05.h", "no-maybe-nil-deref", "", "no dereference of a possibly-nil merged pointer in the package")
	}
	// results of the package's own (T, error) helpers: a helper that can return (nil, nil) obliges its callers
	// to test the result before using it (a failed auction must not take the proposal down with it)
	nHelpers := 0
	for _, f := range fns {
		n := f.Signature.Results().Len()
		if n >= 2 && core.IsErrorType(f.Signature.Results().At(n-1).Type()) {
			nHelpers++
		}
		for _, nd := range core.NilNilDerefs(ds, f, func(c *ssa.Call) []*ssa.Function { return p.CalleesAt(f, c) }) {
			r.Violate("C05.h", core.FnKey(f)+"|nil-result-deref|"+ds.D(nd.Value).String(), p.Pos(nd.Use.Pos()), "dereference of a call result that "+nd.Why+", without a nil test: the proposal panics instead of carrying on", p.WitnessText(nd.Witness)...)
			nDeref++
		}
	}
	r.Count("functions returning (T, error) swept for nil-without-error results", nHelpers)
}

func withClosureCalls(f *ssa.Function, name string) []ssa.CallInstruction {
	var out []ssa.CallInstruction
	for _, g := range core.WithClosures(f) {
		out = append(out, core.CallsNamed(g, name)...)
	}
	return out
}

func guardEdges(ds *core.Describer, fn *ssa.Function, g core.GuardSpec) map[*ssa.BasicBlock]int {
	return core.GuardEdges(ds, fn, g)
}

func typeName(t types.Type) string {
	for {
		if pt, ok := t.(*types.Pointer); ok {
			t = pt.Elem()
			continue
		}
		break
	}
	return types.TypeString(t, func(p *types.Package) string { return p.Name() })
}

func typeOfRoot(d *core.VD) string {
	cur := d
	for cur.Kind == "field" {
		cur = cur.Args[0]
	}
	if cur.Val == nil {
		return ""
	}
	return strings.TrimPrefix(types.TypeString(cur.Val.Type(), func(p *types.Package) string { return p.Name() }), "*")
}

func paramIndexOfValueName(f *ssa.Function, name string) int {
	for i, prm := range f.Params {
		if prm.Name() == name {
			return i
		}
	}
	return -1
}

// checkUnblinder: the unblinding helper returns a nil error only on the select arm that received a relay
// response; Blinded is cleared and the content replaced only there, from the received value.
// checkSemaphoreProbes: a tested TryAcquire ("has anybody else finished yet?") is a probe: on the edge on which it
// succeeded the permit is given back before the goroutine probes again, claims the semaphore for good, or ends.
// A probe that keeps the permit on an error path makes every later probe of every goroutine read "somebody has
// already responded", and the full block that then arrives is thrown away.
func checkSemaphoreProbes(p *core.Prog, r *core.Report, ds *core.Describer, rule string, f *ssa.Function) int {
	n := 0
	for _, wf := range core.WithClosures(f) {
		var tries, releases []ssa.Instruction
		core.EachInstr(wf, func(in ssa.Instruction) {
			ci, ok := in.(ssa.CallInstruction)
			if !ok {
				return
			}
			callee := ci.Common().StaticCallee()
			if callee == nil || callee.Signature.Recv() == nil || !strings.HasSuffix(callee.Signature.Recv().Type().String(), "semaphore.Weighted") {
				return
			}
			switch callee.Name() {
			case "TryAcquire":
				tries = append(tries, in)
			case "Release":
				releases = append(releases, in)
			}
		})
		for _, t := range tries {
			call, ok := t.(*ssa.Call)
			if !ok || call.Referrers() == nil {
				continue
			}
			tested := false
			for _, ref := range *call.Referrers() {
				switch ref.(type) {
				case *ssa.If, *ssa.UnOp:
					tested = true
				}
			}
			if !tested {
				continue // the final claim
			}
			n++
			failed := guardEdges(ds, wf, func(c core.Cond) int {
				if c.B == nil || c.B.Val != ssa.Value(call) {
					return -1
				}
				if c.BoolOnEdge(0) {
					return 1
				}
				return 0
			})
			w := core.PathQuery{Fn: wf, From: t, Target: func(x ssa.Instruction) bool {
				if core.IsReturn(x) {
					return true
				}
				for _, o := range tries {
					if x == o {
						return true
					}
				}
				return false
			}, Avoid: func(x ssa.Instruction) bool {
				for _, rl := range releases {
					if x == rl {
						return true
					}
				}
				return false
			}, Edge: func(b *ssa.BasicBlock, succ int) bool {
				if sx, ok := failed[b]; ok && sx == succ {
					return false
				}
				return true
			}}.Find()
			r.Check(w == nil, rule, fmt.Sprintf("%s|probe#%d|permit-returned", core.FnKey(wf), n), p.Pos(t.Pos()), "a successful probe of the semaphore gives the permit back on every path",
				"after this probe succeeded the goroutine can probe again, claim the semaphore or end without having released the permit: from then on every relay's probe reads 'another relay has already responded' and the full block is discarded", p.WitnessText(w)...)
		}
	}
	return n
}

// checkNoBlockingAcquire: the goroutines of an unblinding fan-out never wait for the semaphore (Acquire): the context
// they run under is deliberately not cancelled when a block has been obtained, so a goroutine that arrives second
// would wait for ever, holding the block.
func checkNoBlockingAcquire(p *core.Prog, r *core.Report, rule string, f *ssa.Function) int {
	n := 0
	for _, wf := range core.WithClosures(f) {
		if wf == f {
			continue
		}
		for _, ci := range core.Calls(wf, func(c *ssa.CallCommon) bool {
			callee := c.StaticCallee()
			return callee != nil && callee.Signature.Recv() != nil && strings.HasSuffix(callee.Signature.Recv().Type().String(), "semaphore.Weighted")
		}) {
			n++
			if ci.Common().StaticCallee().Name() == "Acquire" {
				r.Violate(rule, core.FnKey(wf)+"|blocking-acquire", p.Pos(ci.Pos()), "a relay's goroutine waits for the semaphore (Acquire) instead of trying it: when two relays deliver the block together the second waits for ever (the context is not cancelled on completion) — one goroutine, holding the block, leaks per such proposal")
			}
		}
	}
	return n
}

func checkUnblinder(p *core.Prog, r *core.Report, ds *core.Describer, f *ssa.Function) {
	checkPerWorkerCounter(p, r, ds, "C05.e", f)
	checkSemaphoreProbes(p, r, ds, "C05.e", f)
	checkNoBlockingAcquire(p, r, "C05.e", f)
	var sel *ssa.Select
	core.EachInstr(f, func(in ssa.Instruction) {
		if s, ok := in.(*ssa.Select); ok && s.Blocking {
			sel = s
		}
	})
	base := core.FnKey(f)
	if sel == nil {
		r.Undecide("C05.e", base+"|select", p.Pos(f.Pos()), "no blocking select found in the unblinding helper")
		return
	}
	recvIdx := -1
	for i, st := range sel.States {
		if !isDoneOrTimer(ds.D(st.Chan)) {
			recvIdx = i
		}
	}
	if recvIdx < 0 {
		r.Undecide("C05.e", base+"|select", p.Pos(sel.Pos()), "no response arm in the select")
		return
	}
	idxVal := core.ExtractOf(sel, 0)
	recvArm := func(c core.Cond) int {
		if c.Op != "==" || idxVal == nil {
			return -1
		}
		if c.X.Val == idxVal && c.Y.Kind == "const" && c.Y.Name == fmt.Sprint(recvIdx) {
			for s := 0; s < 2; s++ {
				if c.RelOnEdge(s) == "==" {
					return s
				}
			}
		}
		return -1
	}
	// the select lowering tests arms in order: index == 0, else index == 1 ...; the last arm is reached by the false edges.
	// Treat "not any other arm" as the response arm as well.
	other := func(c core.Cond) int {
		if c.Op != "==" || idxVal == nil || c.X.Val != idxVal || c.Y.Kind != "const" {
			return -1
		}
		if c.Y.Name == fmt.Sprint(recvIdx) {
			return recvArm(c)
		}
		if len(sel.States) == 2 {
			// index == other: the response arm is the false edge
			for s := 0; s < 2; s++ {
				if c.RelOnEdge(s) == "!=" {
					return s
				}
			}
		}
		return -1
	}
	bad := core.NilReturnsNotGuarded(ds, f, f.Signature.Results().Len()-1, other)
	if len(bad) == 0 {
		r.Hold("C05.e", base+"|success-only-with-response", p.Pos(sel.Pos()), "the helper returns a nil error only on the arm that received a relay response")
	}
	for ret, w := range bad {
		r.Violate("C05.e", base+"|success-only-with-response", p.Pos(ret.Pos()), "the unblinding helper can return a nil error without having received a relay response (the still-blinded block would be submitted)", p.WitnessText(w)...)
	}
	// Blinded = false only on the response arm
	core.EachInstr(f, func(in ssa.Instruction) {
		st, ok := in.(*ssa.Store)
		if !ok {
			return
		}
		id, _, ok := core.FieldOfAddr(st.Addr)
		if !ok || !strings.HasSuffix(id.Owner, "api.VersionedSignedProposal") {
			return
		}
		w := core.Unguarded(ds, f, nil, func(x ssa.Instruction) bool { return x == in }, other)
		r.Check(w == nil, "C05.e", base+"|store-"+id.Name+"|on-response-arm", p.Pos(st.Pos()), "proposal."+id.Name+" is changed only after a relay response", "proposal."+id.Name+" is changed on a path without a relay response", p.WitnessText(w)...)
		switch id.Name {
		case "Bellatrix", "Capella", "Deneb":
			d := ds.D(st.Val)
			_, path := d.FieldPath()
			okv := len(path) >= 1 && path[len(path)-1] == id.Name && d.MentionsValue(sel)
			r.Check(okv, "C05.e", base+"|store-"+id.Name+"|from-response", p.Pos(st.Pos()), "proposal."+id.Name+" <- the relay response's "+id.Name, "proposal."+id.Name+" is not taken from the relay response: "+d.String())
		}
	})
}

// passedParameter: v is a parameter of the enclosing function, possibly converted, sliced or spilled to a local that
// is written once.
func passedParameter(v ssa.Value) *ssa.Parameter {
	for depth := 0; depth < 6; depth++ {
		switch x := v.(type) {
		case *ssa.Parameter:
			return x
		case *ssa.Convert:
			v = x.X
		case *ssa.ChangeType:
			v = x.X
		case *ssa.Slice:
			v = x.X
		case *ssa.UnOp:
			if x.Op != token.MUL {
				return nil
			}
			v = x.X
		case *ssa.Alloc:
			var only ssa.Value
			n := 0
			if x.Referrers() != nil {
				for _, ref := range *x.Referrers() {
					if st, ok := ref.(*ssa.Store); ok && st.Addr == ssa.Value(x) {
						n++
						only = st.Val
					}
				}
			}
			if n != 1 {
				return nil
			}
			v = only
		default:
			return nil
		}
	}
	return nil
}

// checkPerWorkerCounter: a shared atomic counter that the goroutines of f bump and that is measured against the length
// of a collection (`failures.Load() >= len(providers)`: "every relay has failed") counts workers, not attempts — no
// increment sits on a cycle of the goroutine's body. An increment inside the retry loop reaches the number of relays
// while relays are still trying, and the waiter gives up although a relay would have returned the block.
func checkPerWorkerCounter(p *core.Prog, r *core.Report, ds *core.Describer, rule string, f *ssa.Function) {
	cellOf := func(v ssa.Value) ssa.Value {
		switch x := v.(type) {
		case *ssa.FreeVar:
			return core.FreeVarBinding(x)
		case *ssa.Alloc:
			return x
		}
		return nil
	}
	atomicMethod := func(c *ssa.CallCommon, name string) ssa.Value {
		callee := c.StaticCallee()
		if callee == nil || callee.Pkg == nil || callee.Pkg.Pkg.Path() != "sync/atomic" || callee.Name() != name || len(c.Args) == 0 {
			return nil
		}
		return cellOf(c.Args[0])
	}
	fns := append([]*ssa.Function{f}, f.AnonFuncs...)
	// counters measured against a length
	measured := map[ssa.Value]string{}
	for _, fn := range fns {
		core.EachInstr(fn, func(in ssa.Instruction) {
			b, ok := in.(*ssa.BinOp)
			if !ok {
				return
			}
			switch b.Op {
			case token.EQL, token.NEQ, token.LSS, token.LEQ, token.GTR, token.GEQ:
			default:
				return
			}
			for _, side := range [][2]ssa.Value{{b.X, b.Y}, {b.Y, b.X}} {
				ld := ds.D(side[1])
				if ld.Kind != "len" {
					continue
				}
				v := side[0]
				for i := 0; i < 3; i++ {
					if cv, ok := v.(*ssa.Convert); ok {
						v = cv.X
					}
				}
				call, ok := v.(*ssa.Call)
				if !ok {
					continue
				}
				if cell := atomicMethod(&call.Call, "Load"); cell != nil {
					measured[cell] = ld.String()
				}
			}
		})
	}
	n := 0
	for _, fn := range f.AnonFuncs {
		core.EachInstr(fn, func(in ssa.Instruction) {
			call, ok := in.(*ssa.Call)
			if !ok {
				return
			}
			cell := atomicMethod(&call.Call, "Add")
			if cell == nil {
				return
			}
			what, ok := measured[cell]
			if !ok {
				return
			}
			n++
			r.Check(!core.InLoop(call), rule, fmt.Sprintf("%s|counter-measured-against-%s|once-per-worker#%d", core.FnKey(f), what, n), p.Pos(call.Pos()),
				"the counter compared with "+what+" is bumped at most once per goroutine",
				"a counter that is compared with "+what+" is incremented inside a loop of the goroutine (once per attempt, not once per worker): it reaches the number of workers while some are still trying, and the waiter gives up although one of them would have delivered")
		})
	}
}
