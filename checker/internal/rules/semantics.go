package rules

import (
	"fmt"
	"go/constant"
	"go/token"
	"go/types"
	"sort"
	"strings"

	"golang.org/x/tools/go/ssa"

	"vouchcheck/internal/core"
)

// checkLanguageSemantics: cross-cutting rules (Cnn.x) about the meaning of a construct rather than its place in the
// control flow — aliasing of backing arrays, in-place arithmetic on shared big numbers, conversions that panic or
// truncate, library contracts (pkg/errors.Wrap(nil) is nil, a weighted semaphore never grants more than its size).
// Each is an instance of "the shape stayed, the meaning changed" (ninth, adversarial, seeding round).
func checkLanguageSemantics(id string, p *core.Prog, r *core.Report, fns []*ssa.Function) {
	ds := core.NewDescriber()
	for _, f := range fns {
		if len(f.Blocks) == 0 {
			continue
		}
		var loops map[*ssa.BasicBlock]map[*ssa.BasicBlock]bool
		getLoops := func() map[*ssa.BasicBlock]map[*ssa.BasicBlock]bool {
			if loops == nil {
				loops = naturalLoops(f)
			}
			return loops
		}
		// the loops (headers) a block sits in
		loopsOf := func(b *ssa.BasicBlock) []*ssa.BasicBlock {
			var out []*ssa.BasicBlock
			for h, body := range getLoops() {
				if body[b] {
					out = append(out, h)
				}
			}
			return out
		}
		inLoopNotContaining := func(use, def *ssa.BasicBlock) bool {
			for _, h := range loopsOf(use) {
				if !getLoops()[h][def] {
					return true
				}
			}
			return false
		}
		nth := map[string]int{}
		key := func(kind string) string {
			nth[kind]++
			return fmt.Sprintf("%s|%s#%d", core.FnKey(f), kind, nth[kind])
		}
		core.EachInstr(f, func(in ssa.Instruction) {
			switch x := in.(type) {
			case *ssa.MakeSlice:
				// (1a) one empty slice with spare capacity handed out several times: a slice made once, outside a loop, with
				// length 0 and a capacity, and stored (as a map value, an element, a field) inside the loop — every holder
				// appends into the same backing array
				if !core.IsIntConst(x.Len, 0) || x.Cap == nil || core.IsIntConst(x.Cap, 0) || x.Referrers() == nil {
					return
				}
				for _, ref := range *x.Referrers() {
					var stored bool
					switch y := ref.(type) {
					case *ssa.MapUpdate:
						stored = y.Value == ssa.Value(x)
					case *ssa.Store:
						_, toLocal := y.Addr.(*ssa.Alloc)
						stored = y.Val == ssa.Value(x) && !toLocal
					}
					if stored && inLoopNotContaining(ref.Block(), x.Block()) {
						r.Violate(id+".x", key("shared-backing-array"), p.Pos(ref.Pos()), "the empty slice made at "+p.Pos(x.Pos())+" (length 0, spare capacity) is stored anew on every trip round this loop: all holders append into one backing array and overwrite each other's elements")
					}
				}
			case *ssa.Slice:
				// (1b) b := a[:0] and then both a and b are appended to
				if x.High != nil && core.IsIntConst(x.High, 0) && x.Low == nil {
					if _, isSlice := x.X.Type().Underlying().(*types.Slice); isSlice {
						if appendedFromAfter(f, x.X, x, x) && appendedFrom(f, x, nil) {
							r.Violate(id+".x", key("shared-backing-array"), p.Pos(x.Pos()), "this slice is cut from "+ds.D(x.X).String()+" with length 0 and both are appended to afterwards: they share one backing array, so the elements of the one overwrite the elements of the other")
						}
					}
				}
				// (2) a view of an array variable that lives outside the loop, taken and kept on every trip: all the views
				// are the same memory and end up showing the last value
				if al, ok := x.X.(*ssa.Alloc); ok {
					if _, isArr := al.Type().(*types.Pointer).Elem().Underlying().(*types.Array); isArr && inLoopNotContaining(x.Block(), al.Block()) {
						reassigned := false
						if al.Referrers() != nil {
							for _, ref := range *al.Referrers() {
								if st, ok := ref.(*ssa.Store); ok && st.Addr == ssa.Value(al) && inLoopNotContaining(st.Block(), al.Block()) {
									reassigned = true
								}
							}
						}
						kept := false
						if x.Referrers() != nil {
							for _, ref := range *x.Referrers() {
								switch y := ref.(type) {
								case *ssa.Store:
									if _, toLocal := y.Addr.(*ssa.Alloc); !toLocal && y.Val == ssa.Value(x) {
										kept = true
									}
								case *ssa.MapUpdate:
									kept = kept || y.Value == ssa.Value(x)
								}
							}
						}
						if reassigned && kept {
							r.Violate(id+".x", key("array-view-kept-across-iterations"), p.Pos(x.Pos()), "a slice of the array variable "+al.Comment+" (declared outside the loop, assigned on every trip) is kept on every trip: all kept slices are views of the same array and show the value of the last trip")
						}
					}
				}
			case *ssa.BinOp:
				// (8) an order comparison of two unsigned quantities that were re-typed as signed: a value of 2^63 or more
				// (the far-future epoch sentinel 2^64-1) compares as negative
				switch x.Op {
				case token.LSS, token.LEQ, token.GTR, token.GEQ:
					unsignedAsSigned := func(v ssa.Value) bool {
						cv, ok := v.(*ssa.Convert)
						if !ok {
							return false
						}
						to, ok1 := cv.Type().Underlying().(*types.Basic)
						from, ok2 := cv.X.Type().Underlying().(*types.Basic)
						return ok1 && ok2 && to.Info()&types.IsInteger != 0 && to.Info()&types.IsUnsigned == 0 && from.Info()&types.IsUnsigned != 0
					}
					if unsignedAsSigned(x.X) && unsignedAsSigned(x.Y) {
						r.Violate(id+".x", key("signed-comparison-of-unsigned"), p.Pos(x.Pos()), "two unsigned quantities ("+ds.D(x.X.(*ssa.Convert).X).String()+", "+ds.D(x.Y.(*ssa.Convert).X).String()+") are compared after conversion to a signed type: a value of 2^63 or more (the far-future sentinel) compares as negative and passes an upper-bound test")
					}
				}
			case *ssa.MakeMap:
				// (14) a map keyed by a pointer to a plain value (a root, a hash, a number): the key is the address, so two
				// equal values are two entries — a tally by such a key never counts past 1
				if mt, ok := x.Type().Underlying().(*types.Map); ok {
					if pt, ok := mt.Key().Underlying().(*types.Pointer); ok {
						switch pt.Elem().Underlying().(type) {
						case *types.Array, *types.Basic:
							r.Violate(id+".x", key("map-keyed-by-pointer-to-value"), p.Pos(x.Pos()), "this map is keyed by "+mt.Key().String()+", a pointer to a plain value: entries are told apart by address, not by content, so equal values are counted separately")
						}
					}
				}
			case *ssa.SliceToArrayPointer:
				at := x.Pos()
				if !at.IsValid() {
					at = x.X.Pos()
				}
				r.Violate(id+".x", key("slice-to-array-conversion"), p.Pos(at), "conversion of the slice "+ds.D(x.X).String()+" to an array: it panics when the slice is shorter than the array (a copy pads instead)")
			case *ssa.Call:
				callee := x.Call.StaticCallee()
				if callee == nil {
					return
				}
				name := core.CalleeName(x.Common())
				// (3) in-place arithmetic on a big number that belongs to someone else
				if callee.Signature.Recv() != nil && len(x.Call.Args) >= 2 {
					rt := callee.Signature.Recv().Type().String()
					if rt == "*math/big.Int" || strings.HasSuffix(rt, "holiman/uint256.Int") {
						switch callee.Name() {
						case "Add", "Sub", "Mul", "Div", "Quo", "Rem", "Mod", "Neg", "Abs", "Lsh", "Rsh", "Exp", "And", "Or", "Xor", "Not", "Set", "SetUint64", "SetInt64", "AddUint64", "SubUint64", "MulDivOverflow", "SDiv", "SMod":
							if who := foreignNumber(x.Call.Args[0]); who != "" {
								r.Violate(id+".x", key("in-place-arithmetic-on-shared-number"), p.Pos(x.Pos()), "the result of "+callee.Name()+" is written into "+who+", a number this function did not allocate: the object it came from (a bid's value, a configured amount) is changed under its other readers")
							}
						}
					}
				}
				// (5) pkg/errors.Wrap & co. of errors.Unwrap(err) / errors.Cause-less unwrapping: nil when err wraps nothing, and Wrap(nil) is nil
				if strings.HasSuffix(name, "pkg/errors.Wrap") || strings.HasSuffix(name, "pkg/errors.Wrapf") || strings.HasSuffix(name, "pkg/errors.WithMessage") || strings.HasSuffix(name, "pkg/errors.WithStack") {
					if inner, ok := x.Call.Args[0].(*ssa.Call); ok {
						in := core.CalleeName(inner.Common())
						if in == "errors.Unwrap" || strings.HasSuffix(in, "pkg/errors.Unwrap") {
							r.Violate(id+".x", key("wrap-of-unwrapped-error"), p.Pos(x.Pos()), "the error is unwrapped before it is wrapped again: errors.Unwrap returns nil for an error that wraps nothing, and Wrap of nil is nil — the failure is reported as success")
						}
					}
				}
				// (9) strings.TrimLeft/TrimRight take a SET of characters: with a constant of two or more characters that reads
				// like a prefix or suffix ("0x") every leading character of the set goes, including the payload's own
				if name == "strings.TrimLeft" || name == "strings.TrimRight" {
					if cs, ok := constString(x.Call.Args[1]); ok && len(cs) >= 2 && !strings.ContainsAny(cs, " \t\n\r") {
						r.Violate(id+".x", key("trim-cutset-for-prefix"), p.Pos(x.Pos()), fmt.Sprintf("%s is given %q, which it treats as a set of characters, not as a prefix/suffix: leading characters of the value that happen to be in the set are stripped with it (0x00a1… loses its zeros)", name, cs))
					}
				}
				// (10) a 64-bit accessor of an arbitrary-precision amount, outside the accessor's own range test
				if callee.Signature.Recv() != nil && (callee.Name() == "Uint64" || callee.Name() == "Int64") {
					rt := callee.Signature.Recv().Type().String()
					if strings.HasSuffix(rt, "math/big.Int") || strings.HasSuffix(rt, "holiman/uint256.Int") {
						guarded := core.Unguarded(ds, f, nil, func(y ssa.Instruction) bool { return y == in }, func(cd core.Cond) int {
							if cd.B == nil || (!cd.B.MentionsCall("IsUint64") && !cd.B.MentionsCall("IsInt64") && !cd.B.MentionsCall("BitLen")) {
								return -1
							}
							if cd.BoolOnEdge(0) {
								return 0
							}
							return 1
						}) == nil
						reporting := strings.HasPrefix(strings.ToLower(outermost(f).Name()), "log") || strings.HasPrefix(strings.ToLower(outermost(f).Name()), "monitor")
						if !guarded && !reporting && !onlyFeedsObservability(x) {
							r.Violate(id+".x", key("64-bit-accessor-of-big-number"), p.Pos(x.Pos()), callee.Name()+"() of an arbitrary-precision amount keeps only the low 64 bits: an amount of 2^64 wei (18.4 ETH) or more becomes a small one — it loses against cheaper ones and passes minimum tests it should fail")
						}
					}
				}
				// (12) a numeric setting is read in base 10: base 0 lets a leading zero turn it into octal
				if (name == "strconv.ParseUint" || name == "strconv.ParseInt") && len(x.Call.Args) == 3 && core.IsIntConst(x.Call.Args[1], 0) {
					r.Violate(id+".x", key("parse-base-0"), p.Pos(x.Pos()), name+" with base 0: a zero-padded decimal (\"030000000\") is read as octal, one with an 8 or 9 in it is refused")
				}
				// (13) one hash state for several messages: a hasher made outside the loop and summed inside it without a
				// Reset hashes the concatenation of everything written so far
				if callee.Signature.Recv() == nil && callee.Signature.Results().Len() == 1 && strings.HasSuffix(callee.Signature.Results().At(0).Type().String(), "hash.Hash") && x.Referrers() != nil {
					summed, reset := false, false
					for _, ref := range *x.Referrers() {
						ci, ok := ref.(ssa.CallInstruction)
						if !ok || !ci.Common().IsInvoke() || ci.Common().Value != ssa.Value(x) {
							continue
						}
						if !inLoopNotContaining(ref.Block(), x.Block()) {
							continue
						}
						switch ci.Common().Method.Name() {
						case "Sum":
							summed = true
						case "Reset":
							reset = true
						}
					}
					if summed && !reset {
						r.Violate(id+".x", key("hash-state-shared-across-iterations"), p.Pos(x.Pos()), "the hash state is created once and summed on every trip round a loop without being reset: from the second trip on the digest is that of everything written so far, not of this trip's message")
					}
				}
				// (7) a weighted semaphore is taken one permit at a time
				if callee.Signature.Recv() != nil && strings.HasSuffix(callee.Signature.Recv().Type().String(), "semaphore.Weighted") && (callee.Name() == "Acquire" || callee.Name() == "Release" || callee.Name() == "TryAcquire") {
					w := x.Call.Args[len(x.Call.Args)-1]
					if c, ok := w.(*ssa.Const); !ok || c.Value == nil || c.Value.Kind() != constant.Int || !core.IsIntConst(w, 1) {
						r.Violate(id+".x", key("semaphore-weight"), p.Pos(x.Pos()), "the semaphore is asked for "+ds.D(w).String()+" permits at once: a request above the semaphore's size is never granted (the caller waits until its context ends), and one equal to it serialises the workers")
					}
				}
			case *ssa.Defer:
				// (11) a defer inside a loop runs when the function returns, not at the end of the trip: what it gives back
				// (a permit, a lock) stays taken while the loop goes on (sleeps, retries)
				if len(loopsOf(x.Block())) > 0 {
					n := core.MethodName(x.Common())
					if n == "Release" || n == "Unlock" || n == "RUnlock" {
						r.Violate(id+".x", key("defer-in-loop"), p.Pos(x.Pos()), "the "+n+" is deferred inside a loop: it runs when the function returns, not at the end of the trip, so the permit/lock stays held while the loop waits and retries")
					}
				}
				if callee := x.Call.StaticCallee(); callee != nil && callee.Signature.Recv() != nil && strings.HasSuffix(callee.Signature.Recv().Type().String(), "semaphore.Weighted") && callee.Name() == "Release" {
					w := x.Call.Args[len(x.Call.Args)-1]
					if !core.IsIntConst(w, 1) {
						r.Violate(id+".x", key("semaphore-weight"), p.Pos(x.Pos()), "the semaphore is given back "+ds.D(w).String()+" permits at once")
					}
				}
			}
		})
	}
	_ = token.NoPos
	checkErrorsAsTargets(id, p, r, fns)
	checkCloseSeenAsResult(id, p, r, fns)
	checkTimerReuse(id, p, r, fns)
}

// checkTimerReuse: a time.Timer that is armed again inside a loop (Reset) has no tick left in its channel — the Reset
// sits on the select arm that received the tick, or a Stop of the same timer comes before it whose false result leads
// to a receive from the timer's channel (stop-and-drain). Otherwise a tick that fired while another arm was taken is
// still buffered, and the next wait on the timer returns at once, whatever duration was asked for.
func checkTimerReuse(id string, p *core.Prog, r *core.Report, fns []*ssa.Function) {
	ds := core.NewDescriber()
	isTimer := func(c *ssa.CallCommon, name string) bool {
		callee := c.StaticCallee()
		return callee != nil && callee.Name() == name && callee.Pkg != nil && callee.Pkg.Pkg.Path() == "time" && callee.Signature.Recv() != nil && strings.HasSuffix(callee.Signature.Recv().Type().String(), "time.Timer") && len(c.Args) > 0
	}
	for _, f := range fns {
		n := 0
		core.EachInstr(f, func(in ssa.Instruction) {
			reset, ok := in.(*ssa.Call)
			if !ok || !isTimer(&reset.Call, "Reset") || !core.InLoop(reset) {
				return
			}
			n++
			who := ds.D(reset.Call.Args[0]).String()
			safe := false
			// (a) stop-and-drain ahead of it
			stopped, drained := false, false
			core.EachInstr(f, func(in2 ssa.Instruction) {
				switch y := in2.(type) {
				case *ssa.Call:
					if isTimer(&y.Call, "Stop") && ds.D(y.Call.Args[0]).String() == who && core.InstrDominates(y, reset) {
						stopped = true
					}
				case *ssa.UnOp:
					if y.Op == token.ARROW && isTimerDrain(y) {
						if ld, ok := y.X.(*ssa.UnOp); ok {
							if fa, ok := ld.X.(*ssa.FieldAddr); ok && ds.D(fa.X).String() == who {
								drained = true
							}
						}
					}
				}
			})
			if stopped && drained {
				safe = true
			}
			// (b) on the arm that took the tick
			if !safe {
				core.EachInstr(f, func(in2 ssa.Instruction) {
					sel, ok := in2.(*ssa.Select)
					if !ok {
						return
					}
					arm := -1
					for k, st := range sel.States {
						if ld, ok := st.Chan.(*ssa.UnOp); ok && ld.Op == token.MUL {
							if fa, ok := ld.X.(*ssa.FieldAddr); ok && ds.D(fa.X).String() == who {
								arm = k
							}
						}
					}
					idx := core.ExtractOf(sel, 0)
					if arm < 0 || idx == nil || idx.Referrers() == nil {
						return
					}
					for _, ref := range *idx.Referrers() {
						b, ok := ref.(*ssa.BinOp)
						if !ok || b.Op != token.EQL || !core.IsIntConst(b.Y, int64(arm)) || b.Referrers() == nil {
							continue
						}
						for _, br := range *b.Referrers() {
							iff, ok := br.(*ssa.If)
							if !ok {
								continue
							}
							t := iff.Block().Succs[0]
							if len(t.Preds) == 1 && (t == reset.Block() || t.Dominates(reset.Block())) {
								safe = true
							}
						}
					}
				})
			}
			if !safe {
				r.Violate(id+".x", fmt.Sprintf("%s|timer-armed-again-without-drain#%d", core.FnKey(f), n), p.Pos(reset.Pos()), "the timer "+who+" is armed again inside a loop without a stop-and-drain before it (and not on the arm that took its tick): a tick that fired while another arm of the select was taken is still in the channel, so the next wait returns at once instead of after the duration asked for")
			}
		})
	}
}

// checkCloseSeenAsResult: a channel of results (pointers, interfaces) that a goroutine closes — "everybody has
// finished" — while the function that started it receives from the channel with a plain, single-valued receive: the
// receive from the closed channel yields nil, and the receiver takes it for a result (and dereferences it).
func checkCloseSeenAsResult(id string, p *core.Prog, r *core.Report, fns []*ssa.Function) {
	chanOf := func(v ssa.Value) *ssa.MakeChan {
		for depth := 0; depth < 6 && v != nil; depth++ {
			switch x := v.(type) {
			case *ssa.MakeChan:
				return x
			case *ssa.ChangeType:
				v = x.X
			case *ssa.FreeVar:
				if cv := core.CapturedValue(x); cv != nil {
					v = cv
				} else {
					v = core.FreeVarBinding(x)
				}
			case *ssa.UnOp:
				if x.Op != token.MUL {
					return nil
				}
				if fv, ok := x.X.(*ssa.FreeVar); ok {
					if cv := core.CapturedValue(fv); cv != nil {
						v = cv
						continue
					}
					return nil
				}
				if al, ok := x.X.(*ssa.Alloc); ok {
					v = core.ReachingStoreAny(al)
					continue
				}
				return nil
			default:
				return nil
			}
		}
		return nil
	}
	nilable := func(t types.Type) bool {
		ct, ok := t.Underlying().(*types.Chan)
		if !ok {
			return false
		}
		switch ct.Elem().Underlying().(type) {
		case *types.Pointer, *types.Interface, *types.Slice, *types.Map:
			return true
		}
		return false
	}
	done := map[*ssa.Function]bool{}
	n := 0
	for _, f0 := range fns {
		top := outermost(f0)
		if done[top] {
			continue
		}
		done[top] = true
		family := core.WithClosures(top)
		// closes made in a function other than the one the channel was made in
		for _, g := range family {
			core.EachInstr(g, func(in ssa.Instruction) {
				ci, ok := in.(ssa.CallInstruction)
				if !ok {
					return
				}
				b, ok := ci.Common().Value.(*ssa.Builtin)
				if !ok || b.Name() != "close" || len(ci.Common().Args) != 1 {
					return
				}
				mk := chanOf(ci.Common().Args[0])
				if mk == nil || !nilable(mk.Type()) || mk.Parent() == g {
					return
				}
				// a single-valued receive of the same channel outside g
				for _, h := range family {
					if h == g {
						continue
					}
					core.EachInstr(h, func(x ssa.Instruction) {
						switch y := x.(type) {
						case *ssa.UnOp:
							if y.Op == token.ARROW && y.CommaOk && chanOf(y.X) == mk {
								if at := zeroValueUsedWhenClosed(y, core.ExtractOf(y, 1), core.ExtractOf(y, 0)); at != nil {
									n++
									r.Violate(id+".x", fmt.Sprintf("%s|close-seen-as-result#%d", core.FnKey(h), n), p.Pos(at.Pos()), "the receive looks at its `ok`, but the path on which the channel was found closed (by the goroutine at "+p.Pos(in.Pos())+", once every sender has finished) goes on to use the received value here: it is nil, and is handed on as if it were a result")
								}
							}
							if y.Op == token.ARROW && !y.CommaOk && chanOf(y.X) == mk {
								n++
								r.Violate(id+".x", fmt.Sprintf("%s|close-seen-as-result#%d", core.FnKey(h), n), p.Pos(y.Pos()), "this receive takes whatever arrives for a result, but the channel is closed by the goroutine at "+p.Pos(in.Pos())+" once every sender has finished: the receive then yields nil, which is dereferenced as if it were a result")
							}
						case *ssa.Select:
							for _, st := range y.States {
								if st.Dir == types.RecvOnly && chanOf(st.Chan) == mk {
									// is the select's recvOk looked at?
									okUsed := false
									if y.Referrers() != nil {
										for _, ref := range *y.Referrers() {
											if ex, isEx := ref.(*ssa.Extract); isEx && ex.Index == 1 && ex.Referrers() != nil && len(*ex.Referrers()) > 0 {
												okUsed = true
											}
										}
									}
									if !okUsed {
										n++
										r.Violate(id+".x", fmt.Sprintf("%s|close-seen-as-result#%d", core.FnKey(h), n), p.Pos(st.Pos), "this select arm takes whatever arrives for a result, but the channel is closed by the goroutine at "+p.Pos(in.Pos())+" once every sender has finished: the arm then fires with nil, which is dereferenced as if it were a result")
									} else {
										// the flag is looked at — but does the not-ok edge still lead to a use of the received value?
										k := 0
										for _, st2 := range y.States {
											if st2 == st {
												break
											}
											if st2.Dir == types.RecvOnly {
												k++
											}
										}
										if at := zeroValueUsedWhenClosed(y, core.ExtractOf(y, 1), core.ExtractOf(y, 2+k)); at != nil {
											n++
											r.Violate(id+".x", fmt.Sprintf("%s|close-seen-as-result#%d", core.FnKey(h), n), p.Pos(at.Pos()), "the select arm looks at the `ok` of its receive, but the path on which the channel was found closed (by the goroutine at "+p.Pos(in.Pos())+", once every sender has finished) goes on to use the received value here: it is nil, and is handed on as if it were a result")
										}
									}
								}
							}
						}
					})
				}
			})
		}
	}
}

// checkErrorsAsTargets: errors.As finds an error of exactly the target's type. Where the module asks for one named
// error type both as T and as *T, one of the two never matches (the library returns one of them): the form used by
// the minority of the sites, in the property's packages, is reported.
func checkErrorsAsTargets(id string, p *core.Prog, r *core.Report, fns []*ssa.Function) {
	type site struct {
		f   *ssa.Function
		pos token.Pos
		ptr bool
	}
	byType := map[string][]site{}
	for _, f := range p.SrcFuncs() {
		core.EachInstr(f, func(in ssa.Instruction) {
			c, ok := in.(*ssa.Call)
			if !ok || len(c.Call.Args) != 2 {
				return
			}
			n := core.CalleeName(c.Common())
			if n != "errors.As" && !strings.HasSuffix(n, "pkg/errors.As") {
				return
			}
			tv := c.Call.Args[1]
			if mi, ok := tv.(*ssa.MakeInterface); ok {
				tv = mi.X
			}
			pt, ok := tv.Type().Underlying().(*types.Pointer)
			if !ok {
				return
			}
			target := pt.Elem()
			isPtr := false
			if tp, ok := target.Underlying().(*types.Pointer); ok {
				target, isPtr = tp.Elem(), true
			}
			nt, ok := target.(*types.Named)
			if !ok {
				return
			}
			if _, isIface := nt.Underlying().(*types.Interface); isIface {
				return
			}
			k := nt.String()
			byType[k] = append(byType[k], site{f, c.Pos(), isPtr})
		})
	}
	inScope := map[*ssa.Function]bool{}
	for _, f := range fns {
		inScope[f] = true
	}
	n := 0
	var keys []string
	for k := range byType {
		keys = append(keys, k)
	}
	sort.Strings(keys)
	for _, k := range keys {
		nPtr, nVal := 0, 0
		for _, s := range byType[k] {
			if s.ptr {
				nPtr++
			} else {
				nVal++
			}
		}
		if nPtr == 0 || nVal == 0 {
			continue
		}
		minorityPtr := nPtr < nVal
		for _, s := range byType[k] {
			if s.ptr == minorityPtr && inScope[s.f] {
				n++
				form := k
				if s.ptr {
					form = "*" + k
				}
				r.Violate(id+".x", fmt.Sprintf("%s|errors-as-target-form#%d", core.FnKey(s.f), n), p.Pos(s.pos), fmt.Sprintf("errors.As is asked for %s here, but for the other form at %d other site(s) of the module: an error is found only under the form it was created in, so one of the two never matches (a rejection that should be classified is passed over)", form, map[bool]int{true: nVal, false: nPtr}[s.ptr]))
			}
		}
	}
}

// appendedFrom: is there an append whose first argument descends from root (through phis and earlier appends)?  When
// stopAt is given, the descent does not pass through that value (the slice cut from root is another line of descent).
func appendedFrom(f *ssa.Function, root ssa.Value, stopAt ssa.Value) bool {
	found := false
	core.EachInstr(f, func(in ssa.Instruction) {
		c, ok := in.(*ssa.Call)
		if !ok || found {
			return
		}
		b, ok := c.Call.Value.(*ssa.Builtin)
		if !ok || b.Name() != "append" || len(c.Call.Args) == 0 {
			return
		}
		seen := map[ssa.Value]bool{}
		var walk func(v ssa.Value, depth int) bool
		walk = func(v ssa.Value, depth int) bool {
			if v == nil || seen[v] || depth > 12 {
				return false
			}
			seen[v] = true
			if stopAt != nil && v == stopAt {
				return false
			}
			if v == root {
				return true
			}
			switch y := v.(type) {
			case *ssa.Phi:
				for _, e := range y.Edges {
					if walk(e, depth+1) {
						return true
					}
				}
			case *ssa.Call:
				if bb, ok := y.Call.Value.(*ssa.Builtin); ok && bb.Name() == "append" && len(y.Call.Args) > 0 {
					return walk(y.Call.Args[0], depth+1)
				}
			}
			return false
		}
		if walk(c.Call.Args[0], 0) {
			found = true
		}
	})
	return found
}

// foreignNumber: the destination of an in-place big-number operation is a number the function was handed (a
// parameter) or obtained from another object's getter — not one it allocated (new, NewInt, a chained operation's
// result, ToBig/Clone copies). Returns a description, or "".
func foreignNumber(v ssa.Value) string {
	for depth := 0; depth < 6; depth++ {
		switch x := v.(type) {
		case *ssa.Parameter:
			return "the parameter " + x.Name()
		case *ssa.Extract:
			v = x.Tuple
		case *ssa.Call:
			callee := x.Call.StaticCallee()
			if callee == nil {
				if x.Call.IsInvoke() {
					return "the result of " + x.Call.Method.Name() + "()"
				}
				return ""
			}
			if callee.Signature.Recv() == nil {
				return "" // a constructor function (big.NewInt, uint256.NewInt, …)
			}
			rt := callee.Signature.Recv().Type().String()
			if rt == "*math/big.Int" || strings.HasSuffix(rt, "holiman/uint256.Int") {
				switch callee.Name() {
				case "ToBig", "Clone":
					return ""
				}
				// a chained operation returns its own destination
				if len(x.Call.Args) > 0 {
					v = x.Call.Args[0]
					continue
				}
				return ""
			}
			switch {
			case strings.HasPrefix(callee.Name(), "New"), strings.HasPrefix(callee.Name(), "To"), strings.HasPrefix(callee.Name(), "Clone"), strings.HasPrefix(callee.Name(), "Copy"):
				return ""
			}
			return "the result of " + callee.Name() + "()"
		default:
			return ""
		}
	}
	return ""
}

// onlyFeedsObservability: every use of v (through conversions, arithmetic and phis) is an argument of a logging,
// tracing or metrics call — the value decides nothing.
func onlyFeedsObservability(v ssa.Value) bool {
	seen := map[ssa.Value]bool{}
	var walk func(x ssa.Value, depth int) bool
	walk = func(x ssa.Value, depth int) bool {
		if seen[x] || depth > 8 {
			return true
		}
		seen[x] = true
		refs := x.Referrers()
		if refs == nil {
			return true
		}
		for _, ref := range *refs {
			switch y := ref.(type) {
			case *ssa.Convert:
				if !walk(y, depth+1) {
					return false
				}
			case *ssa.ChangeType:
				if !walk(y, depth+1) {
					return false
				}
			case *ssa.MakeInterface:
				if !walk(y, depth+1) {
					return false
				}
			case *ssa.BinOp:
				switch y.Op {
				case token.ADD, token.SUB, token.MUL, token.QUO:
					if !walk(y, depth+1) {
						return false
					}
				default:
					return false
				}
			case *ssa.Phi:
				if !walk(y, depth+1) {
					return false
				}
			case ssa.CallInstruction:
				n := core.CalleeName(y.Common())
				if strings.Contains(n, "zerolog") || strings.Contains(n, "prometheus") || strings.Contains(n, "opentelemetry") {
					continue
				}
				if callee := y.Common().StaticCallee(); callee != nil && (strings.HasPrefix(callee.Name(), "monitor") || strings.HasPrefix(callee.Name(), "Monitor")) {
					continue
				}
				return false
			case *ssa.DebugRef:
				continue
			default:
				return false
			}
		}
		return true
	}
	return walk(v, 0)
}

// appendedFromAfter: like appendedFrom, for appends that can run after the instruction `after` (an in-place filter
// `kept := xs[:0]` of a slice that was appended to only while it was being built is fine).
func appendedFromAfter(f *ssa.Function, root ssa.Value, stopAt ssa.Value, after ssa.Instruction) bool {
	found := false
	core.EachInstr(f, func(in ssa.Instruction) {
		c, ok := in.(*ssa.Call)
		if !ok || found {
			return
		}
		b, ok := c.Call.Value.(*ssa.Builtin)
		if !ok || b.Name() != "append" || len(c.Call.Args) == 0 {
			return
		}
		seen := map[ssa.Value]bool{}
		var walk func(v ssa.Value, depth int) bool
		walk = func(v ssa.Value, depth int) bool {
			if v == nil || seen[v] || depth > 12 {
				return false
			}
			seen[v] = true
			if stopAt != nil && v == stopAt {
				return false
			}
			if v == root {
				return true
			}
			switch y := v.(type) {
			case *ssa.Phi:
				for _, e := range y.Edges {
					if walk(e, depth+1) {
						return true
					}
				}
			case *ssa.Call:
				if bb, ok := y.Call.Value.(*ssa.Builtin); ok && bb.Name() == "append" && len(y.Call.Args) > 0 {
					return walk(y.Call.Args[0], depth+1)
				}
			}
			return false
		}
		if walk(c.Call.Args[0], 0) {
			if w := (core.PathQuery{Fn: f, From: after, Target: func(y ssa.Instruction) bool { return y == ssa.Instruction(c) }}).Find(); w != nil {
				found = true
			}
		}
	})
	return found
}

// zeroValueUsedWhenClosed: on an edge where the `ok` of the receive recv is false, an instruction that uses the
// received value can be reached without passing the receive again. Returns that instruction (nil if there is none,
// or if ok/value are not both extracted).
func zeroValueUsedWhenClosed(recv ssa.Instruction, okv, val ssa.Value) ssa.Instruction {
	if okv == nil || val == nil || okv.Referrers() == nil || val.Referrers() == nil {
		return nil
	}
	for _, ref := range *okv.Referrers() {
		iff, ok := ref.(*ssa.If)
		if !ok || len(iff.Block().Succs) != 2 {
			continue
		}
		notOK, isOK := iff.Block().Succs[1], iff.Block().Succs[0]
		if notOK == isOK {
			continue
		}
		seen := map[*ssa.BasicBlock]bool{}
		stack := []*ssa.BasicBlock{notOK}
		for len(stack) > 0 {
			b := stack[len(stack)-1]
			stack = stack[:len(stack)-1]
			if seen[b] || b == recv.Block() {
				continue
			}
			seen[b] = true
			stack = append(stack, b.Succs...)
		}
		var hit ssa.Instruction
		for _, u := range *val.Referrers() {
			if _, isDbg := u.(*ssa.DebugRef); isDbg || !seen[u.Block()] {
				continue
			}
			if phi, isPhi := u.(*ssa.Phi); isPhi {
				carries := false
				for i, e := range phi.Edges {
					if e != val || i >= len(phi.Block().Preds) {
						continue
					}
					pred := phi.Block().Preds[i]
					if seen[pred] || (pred == iff.Block() && phi.Block() == notOK) {
						carries = true
					}
				}
				if !carries {
					continue
				}
			}
			if hit == nil || u.Pos() < hit.Pos() {
				hit = u
			}
		}
		if hit != nil {
			return hit
		}
	}
	return nil
}
