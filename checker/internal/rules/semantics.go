package rules

import (
	"fmt"
	"go/constant"
	"go/token"
	"go/types"
	"strings"

	"golang.org/x/tools/go/ssa"

	"vouchcheck/internal/core"
)

// checkLanguageSemantics: cross-cutting rules (Cnn.x) about the meaning of a construct rather than its place in the
// control flow — aliasing of backing arrays, in-place arithmetic on shared big numbers, conversions that panic or
// truncate, library contracts (pkg/errors.Wrap(nil) is nil, a weighted semaphore never grants more than its size).
// Each is an instance of "the shape stayed, the meaning changed" (ninth, adversarial, seeding round).
func checkLanguageSemantics(id string, p *core.Prog, r *core.Report, fns []*ssa.Function) {
	ds := core.NewDescriber()
	for _, f := range fns {
		if len(f.Blocks) == 0 {
			continue
		}
		var loops map[*ssa.BasicBlock]map[*ssa.BasicBlock]bool
		getLoops := func() map[*ssa.BasicBlock]map[*ssa.BasicBlock]bool {
			if loops == nil {
				loops = naturalLoops(f)
			}
			return loops
		}
		// the loops (headers) a block sits in
		loopsOf := func(b *ssa.BasicBlock) []*ssa.BasicBlock {
			var out []*ssa.BasicBlock
			for h, body := range getLoops() {
				if body[b] {
					out = append(out, h)
				}
			}
			return out
		}
		inLoopNotContaining := func(use, def *ssa.BasicBlock) bool {
			for _, h := range loopsOf(use) {
				if !getLoops()[h][def] {
					return true
				}
			}
			return false
		}
		nth := map[string]int{}
		key := func(kind string) string {
			nth[kind]++
			return fmt.Sprintf("%s|%s#%d", core.FnKey(f), kind, nth[kind])
		}
		core.EachInstr(f, func(in ssa.Instruction) {
			switch x := in.(type) {
			case *ssa.MakeSlice:
				// (1a) one empty slice with spare capacity handed out several times: a slice made once, outside a loop, with
				// length 0 and a capacity, and stored (as a map value, an element, a field) inside the loop — every holder
				// appends into the same backing array
				if !core.IsIntConst(x.Len, 0) || x.Cap == nil || core.IsIntConst(x.Cap, 0) || x.Referrers() == nil {
					return
				}
				for _, ref := range *x.Referrers() {
					var stored bool
					switch y := ref.(type) {
					case *ssa.MapUpdate:
						stored = y.Value == ssa.Value(x)
					case *ssa.Store:
						_, toLocal := y.Addr.(*ssa.Alloc)
						stored = y.Val == ssa.Value(x) && !toLocal
					}
					if stored && inLoopNotContaining(ref.Block(), x.Block()) {
						r.Violate(id+".x", key("shared-backing-array"), p.Pos(ref.Pos()), "the empty slice made at "+p.Pos(x.Pos())+" (length 0, spare capacity) is stored anew on every trip round this loop: all holders append into one backing array and overwrite each other's elements")
					}
				}
			case *ssa.Slice:
				// (1b) b := a[:0] and then both a and b are appended to
				if x.High != nil && core.IsIntConst(x.High, 0) && x.Low == nil {
					if _, isSlice := x.X.Type().Underlying().(*types.Slice); isSlice {
						if appendedFromAfter(f, x.X, x, x) && appendedFrom(f, x, nil) {
							r.Violate(id+".x", key("shared-backing-array"), p.Pos(x.Pos()), "this slice is cut from "+ds.D(x.X).String()+" with length 0 and both are appended to afterwards: they share one backing array, so the elements of the one overwrite the elements of the other")
						}
					}
				}
				// (2) a view of an array variable that lives outside the loop, taken and kept on every trip: all the views
				// are the same memory and end up showing the last value
				if al, ok := x.X.(*ssa.Alloc); ok {
					if _, isArr := al.Type().(*types.Pointer).Elem().Underlying().(*types.Array); isArr && inLoopNotContaining(x.Block(), al.Block()) {
						reassigned := false
						if al.Referrers() != nil {
							for _, ref := range *al.Referrers() {
								if st, ok := ref.(*ssa.Store); ok && st.Addr == ssa.Value(al) && inLoopNotContaining(st.Block(), al.Block()) {
									reassigned = true
								}
							}
						}
						kept := false
						if x.Referrers() != nil {
							for _, ref := range *x.Referrers() {
								switch y := ref.(type) {
								case *ssa.Store:
									if _, toLocal := y.Addr.(*ssa.Alloc); !toLocal && y.Val == ssa.Value(x) {
										kept = true
									}
								case *ssa.MapUpdate:
									kept = kept || y.Value == ssa.Value(x)
								}
							}
						}
						if reassigned && kept {
							r.Violate(id+".x", key("array-view-kept-across-iterations"), p.Pos(x.Pos()), "a slice of the array variable "+al.Comment+" (declared outside the loop, assigned on every trip) is kept on every trip: all kept slices are views of the same array and show the value of the last trip")
						}
					}
				}
			case *ssa.BinOp:
				// (8) an order comparison of two unsigned quantities that were re-typed as signed: a value of 2^63 or more
				// (the far-future epoch sentinel 2^64-1) compares as negative
				switch x.Op {
				case token.LSS, token.LEQ, token.GTR, token.GEQ:
					unsignedAsSigned := func(v ssa.Value) bool {
						cv, ok := v.(*ssa.Convert)
						if !ok {
							return false
						}
						to, ok1 := cv.Type().Underlying().(*types.Basic)
						from, ok2 := cv.X.Type().Underlying().(*types.Basic)
						return ok1 && ok2 && to.Info()&types.IsInteger != 0 && to.Info()&types.IsUnsigned == 0 && from.Info()&types.IsUnsigned != 0
					}
					if unsignedAsSigned(x.X) && unsignedAsSigned(x.Y) {
						r.Violate(id+".x", key("signed-comparison-of-unsigned"), p.Pos(x.Pos()), "two unsigned quantities ("+ds.D(x.X.(*ssa.Convert).X).String()+", "+ds.D(x.Y.(*ssa.Convert).X).String()+") are compared after conversion to a signed type: a value of 2^63 or more (the far-future sentinel) compares as negative and passes an upper-bound test")
					}
				}
			case *ssa.SliceToArrayPointer:
				at := x.Pos()
				if !at.IsValid() {
					at = x.X.Pos()
				}
				r.Violate(id+".x", key("slice-to-array-conversion"), p.Pos(at), "conversion of the slice "+ds.D(x.X).String()+" to an array: it panics when the slice is shorter than the array (a copy pads instead)")
			case *ssa.Call:
				callee := x.Call.StaticCallee()
				if callee == nil {
					return
				}
				name := core.CalleeName(x.Common())
				// (3) in-place arithmetic on a big number that belongs to someone else
				if callee.Signature.Recv() != nil && len(x.Call.Args) >= 2 {
					rt := callee.Signature.Recv().Type().String()
					if rt == "*math/big.Int" || strings.HasSuffix(rt, "holiman/uint256.Int") {
						switch callee.Name() {
						case "Add", "Sub", "Mul", "Div", "Quo", "Rem", "Mod", "Neg", "Abs", "Lsh", "Rsh", "Exp", "And", "Or", "Xor", "Not", "Set", "SetUint64", "SetInt64", "AddUint64", "SubUint64", "MulDivOverflow", "SDiv", "SMod":
							if who := foreignNumber(x.Call.Args[0]); who != "" {
								r.Violate(id+".x", key("in-place-arithmetic-on-shared-number"), p.Pos(x.Pos()), "the result of "+callee.Name()+" is written into "+who+", a number this function did not allocate: the object it came from (a bid's value, a configured amount) is changed under its other readers")
							}
						}
					}
				}
				// (5) pkg/errors.Wrap & co. of errors.Unwrap(err) / errors.Cause-less unwrapping: nil when err wraps nothing, and Wrap(nil) is nil
				if strings.HasSuffix(name, "pkg/errors.Wrap") || strings.HasSuffix(name, "pkg/errors.Wrapf") || strings.HasSuffix(name, "pkg/errors.WithMessage") || strings.HasSuffix(name, "pkg/errors.WithStack") {
					if inner, ok := x.Call.Args[0].(*ssa.Call); ok {
						in := core.CalleeName(inner.Common())
						if in == "errors.Unwrap" || strings.HasSuffix(in, "pkg/errors.Unwrap") {
							r.Violate(id+".x", key("wrap-of-unwrapped-error"), p.Pos(x.Pos()), "the error is unwrapped before it is wrapped again: errors.Unwrap returns nil for an error that wraps nothing, and Wrap of nil is nil — the failure is reported as success")
						}
					}
				}
				// (9) strings.TrimLeft/TrimRight take a SET of characters: with a constant of two or more characters that reads
				// like a prefix or suffix ("0x") every leading character of the set goes, including the payload's own
				if name == "strings.TrimLeft" || name == "strings.TrimRight" {
					if cs, ok := constString(x.Call.Args[1]); ok && len(cs) >= 2 && !strings.ContainsAny(cs, " \t\n\r") {
						r.Violate(id+".x", key("trim-cutset-for-prefix"), p.Pos(x.Pos()), fmt.Sprintf("%s is given %q, which it treats as a set of characters, not as a prefix/suffix: leading characters of the value that happen to be in the set are stripped with it (0x00a1… loses its zeros)", name, cs))
					}
				}
				// (10) a 64-bit accessor of an arbitrary-precision amount, outside the accessor's own range test
				if callee.Signature.Recv() != nil && (callee.Name() == "Uint64" || callee.Name() == "Int64") {
					rt := callee.Signature.Recv().Type().String()
					if strings.HasSuffix(rt, "math/big.Int") || strings.HasSuffix(rt, "holiman/uint256.Int") {
						guarded := core.Unguarded(ds, f, nil, func(y ssa.Instruction) bool { return y == in }, func(cd core.Cond) int {
							if cd.B == nil || (!cd.B.MentionsCall("IsUint64") && !cd.B.MentionsCall("IsInt64") && !cd.B.MentionsCall("BitLen")) {
								return -1
							}
							if cd.BoolOnEdge(0) {
								return 0
							}
							return 1
						}) == nil
						reporting := strings.HasPrefix(strings.ToLower(outermost(f).Name()), "log") || strings.HasPrefix(strings.ToLower(outermost(f).Name()), "monitor")
						if !guarded && !reporting && !onlyFeedsObservability(x) {
							r.Violate(id+".x", key("64-bit-accessor-of-big-number"), p.Pos(x.Pos()), callee.Name()+"() of an arbitrary-precision amount keeps only the low 64 bits: an amount of 2^64 wei (18.4 ETH) or more becomes a small one — it loses against cheaper ones and passes minimum tests it should fail")
						}
					}
				}
				// (12) a numeric setting is read in base 10: base 0 lets a leading zero turn it into octal
				if (name == "strconv.ParseUint" || name == "strconv.ParseInt") && len(x.Call.Args) == 3 && core.IsIntConst(x.Call.Args[1], 0) {
					r.Violate(id+".x", key("parse-base-0"), p.Pos(x.Pos()), name+" with base 0: a zero-padded decimal (\"030000000\") is read as octal, one with an 8 or 9 in it is refused")
				}
				// (13) one hash state for several messages: a hasher made outside the loop and summed inside it without a
				// Reset hashes the concatenation of everything written so far
				if callee.Signature.Recv() == nil && callee.Signature.Results().Len() == 1 && strings.HasSuffix(callee.Signature.Results().At(0).Type().String(), "hash.Hash") && x.Referrers() != nil {
					summed, reset := false, false
					for _, ref := range *x.Referrers() {
						ci, ok := ref.(ssa.CallInstruction)
						if !ok || !ci.Common().IsInvoke() || ci.Common().Value != ssa.Value(x) {
							continue
						}
						if !inLoopNotContaining(ref.Block(), x.Block()) {
							continue
						}
						switch ci.Common().Method.Name() {
						case "Sum":
							summed = true
						case "Reset":
							reset = true
						}
					}
					if summed && !reset {
						r.Violate(id+".x", key("hash-state-shared-across-iterations"), p.Pos(x.Pos()), "the hash state is created once and summed on every trip round a loop without being reset: from the second trip on the digest is that of everything written so far, not of this trip's message")
					}
				}
				// (7) a weighted semaphore is taken one permit at a time
				if callee.Signature.Recv() != nil && strings.HasSuffix(callee.Signature.Recv().Type().String(), "semaphore.Weighted") && (callee.Name() == "Acquire" || callee.Name() == "Release" || callee.Name() == "TryAcquire") {
					w := x.Call.Args[len(x.Call.Args)-1]
					if c, ok := w.(*ssa.Const); !ok || c.Value == nil || c.Value.Kind() != constant.Int || !core.IsIntConst(w, 1) {
						r.Violate(id+".x", key("semaphore-weight"), p.Pos(x.Pos()), "the semaphore is asked for "+ds.D(w).String()+" permits at once: a request above the semaphore's size is never granted (the caller waits until its context ends), and one equal to it serialises the workers")
					}
				}
			case *ssa.Defer:
				// (11) a defer inside a loop runs when the function returns, not at the end of the trip: what it gives back
				// (a permit, a lock) stays taken while the loop goes on (sleeps, retries)
				if len(loopsOf(x.Block())) > 0 {
					n := core.MethodName(x.Common())
					if n == "Release" || n == "Unlock" || n == "RUnlock" {
						r.Violate(id+".x", key("defer-in-loop"), p.Pos(x.Pos()), "the "+n+" is deferred inside a loop: it runs when the function returns, not at the end of the trip, so the permit/lock stays held while the loop waits and retries")
					}
				}
				if callee := x.Call.StaticCallee(); callee != nil && callee.Signature.Recv() != nil && strings.HasSuffix(callee.Signature.Recv().Type().String(), "semaphore.Weighted") && callee.Name() == "Release" {
					w := x.Call.Args[len(x.Call.Args)-1]
					if !core.IsIntConst(w, 1) {
						r.Violate(id+".x", key("semaphore-weight"), p.Pos(x.Pos()), "the semaphore is given back "+ds.D(w).String()+" permits at once")
					}
				}
			}
		})
	}
	_ = token.NoPos
}

// appendedFrom: is there an append whose first argument descends from root (through phis and earlier appends)?  When
// stopAt is given, the descent does not pass through that value (the slice cut from root is another line of descent).
func appendedFrom(f *ssa.Function, root ssa.Value, stopAt ssa.Value) bool {
	found := false
	core.EachInstr(f, func(in ssa.Instruction) {
		c, ok := in.(*ssa.Call)
		if !ok || found {
			return
		}
		b, ok := c.Call.Value.(*ssa.Builtin)
		if !ok || b.Name() != "append" || len(c.Call.Args) == 0 {
			return
		}
		seen := map[ssa.Value]bool{}
		var walk func(v ssa.Value, depth int) bool
		walk = func(v ssa.Value, depth int) bool {
			if v == nil || seen[v] || depth > 12 {
				return false
			}
			seen[v] = true
			if stopAt != nil && v == stopAt {
				return false
			}
			if v == root {
				return true
			}
			switch y := v.(type) {
			case *ssa.Phi:
				for _, e := range y.Edges {
					if walk(e, depth+1) {
						return true
					}
				}
			case *ssa.Call:
				if bb, ok := y.Call.Value.(*ssa.Builtin); ok && bb.Name() == "append" && len(y.Call.Args) > 0 {
					return walk(y.Call.Args[0], depth+1)
				}
			}
			return false
		}
		if walk(c.Call.Args[0], 0) {
			found = true
		}
	})
	return found
}

// foreignNumber: the destination of an in-place big-number operation is a number the function was handed (a
// parameter) or obtained from another object's getter — not one it allocated (new, NewInt, a chained operation's
// result, ToBig/Clone copies). Returns a description, or "".
func foreignNumber(v ssa.Value) string {
	for depth := 0; depth < 6; depth++ {
		switch x := v.(type) {
		case *ssa.Parameter:
			return "the parameter " + x.Name()
		case *ssa.Extract:
			v = x.Tuple
		case *ssa.Call:
			callee := x.Call.StaticCallee()
			if callee == nil {
				if x.Call.IsInvoke() {
					return "the result of " + x.Call.Method.Name() + "()"
				}
				return ""
			}
			if callee.Signature.Recv() == nil {
				return "" // a constructor function (big.NewInt, uint256.NewInt, …)
			}
			rt := callee.Signature.Recv().Type().String()
			if rt == "*math/big.Int" || strings.HasSuffix(rt, "holiman/uint256.Int") {
				switch callee.Name() {
				case "ToBig", "Clone":
					return ""
				}
				// a chained operation returns its own destination
				if len(x.Call.Args) > 0 {
					v = x.Call.Args[0]
					continue
				}
				return ""
			}
			switch {
			case strings.HasPrefix(callee.Name(), "New"), strings.HasPrefix(callee.Name(), "To"), strings.HasPrefix(callee.Name(), "Clone"), strings.HasPrefix(callee.Name(), "Copy"):
				return ""
			}
			return "the result of " + callee.Name() + "()"
		default:
			return ""
		}
	}
	return ""
}

// onlyFeedsObservability: every use of v (through conversions, arithmetic and phis) is an argument of a logging,
// tracing or metrics call — the value decides nothing.
func onlyFeedsObservability(v ssa.Value) bool {
	seen := map[ssa.Value]bool{}
	var walk func(x ssa.Value, depth int) bool
	walk = func(x ssa.Value, depth int) bool {
		if seen[x] || depth > 8 {
			return true
		}
		seen[x] = true
		refs := x.Referrers()
		if refs == nil {
			return true
		}
		for _, ref := range *refs {
			switch y := ref.(type) {
			case *ssa.Convert:
				if !walk(y, depth+1) {
					return false
				}
			case *ssa.ChangeType:
				if !walk(y, depth+1) {
					return false
				}
			case *ssa.MakeInterface:
				if !walk(y, depth+1) {
					return false
				}
			case *ssa.BinOp:
				switch y.Op {
				case token.ADD, token.SUB, token.MUL, token.QUO:
					if !walk(y, depth+1) {
						return false
					}
				default:
					return false
				}
			case *ssa.Phi:
				if !walk(y, depth+1) {
					return false
				}
			case ssa.CallInstruction:
				n := core.CalleeName(y.Common())
				if strings.Contains(n, "zerolog") || strings.Contains(n, "prometheus") || strings.Contains(n, "opentelemetry") {
					continue
				}
				if callee := y.Common().StaticCallee(); callee != nil && (strings.HasPrefix(callee.Name(), "monitor") || strings.HasPrefix(callee.Name(), "Monitor")) {
					continue
				}
				return false
			case *ssa.DebugRef:
				continue
			default:
				return false
			}
		}
		return true
	}
	return walk(v, 0)
}

// appendedFromAfter: like appendedFrom, for appends that can run after the instruction `after` (an in-place filter
// `kept := xs[:0]` of a slice that was appended to only while it was being built is fine).
func appendedFromAfter(f *ssa.Function, root ssa.Value, stopAt ssa.Value, after ssa.Instruction) bool {
	found := false
	core.EachInstr(f, func(in ssa.Instruction) {
		c, ok := in.(*ssa.Call)
		if !ok || found {
			return
		}
		b, ok := c.Call.Value.(*ssa.Builtin)
		if !ok || b.Name() != "append" || len(c.Call.Args) == 0 {
			return
		}
		seen := map[ssa.Value]bool{}
		var walk func(v ssa.Value, depth int) bool
		walk = func(v ssa.Value, depth int) bool {
			if v == nil || seen[v] || depth > 12 {
				return false
			}
			seen[v] = true
			if stopAt != nil && v == stopAt {
				return false
			}
			if v == root {
				return true
			}
			switch y := v.(type) {
			case *ssa.Phi:
				for _, e := range y.Edges {
					if walk(e, depth+1) {
						return true
					}
				}
			case *ssa.Call:
				if bb, ok := y.Call.Value.(*ssa.Builtin); ok && bb.Name() == "append" && len(y.Call.Args) > 0 {
					return walk(y.Call.Args[0], depth+1)
				}
			}
			return false
		}
		if walk(c.Call.Args[0], 0) {
			if w := (core.PathQuery{Fn: f, From: after, Target: func(y ssa.Instruction) bool { return y == ssa.Instruction(c) }}).Find(); w != nil {
				found = true
			}
		}
	})
	return found
}
