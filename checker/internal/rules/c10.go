package rules

import (
	"fmt"
	"go/token"
	"go/types"
	"math/big"
	"os"
	"sort"
	"strings"

	"golang.org/x/tools/go/ssa"

	"vouchcheck/internal/core"
)

func init() {
	register(&Pack{
		ID:  "C10",
		Run: runC10,
		Expl: "Decides structural necessary conditions of 'proposer settings follow the documented precedence of the execution config' in services/blockrelay (v1, v2 and the version dispatch): " +
			"(a) tested-X-used-X: every dereference of an optional value field (*T for fee recipient, gas limit, grace, min value, public key) is guarded by a non-nil test of the SAME field path; " +
			"(b) precedence chains: where a relay is built from tiers, a value of tier T is used only on paths where every more specific tier's field was tested nil (proposer-relay > proposer > top level > fallback, order from docs/executionconfig.md), and update functions override a field only when it is present; " +
			"(c) the first matching proposer entry wins: after applying a matching entry the loop over entries is left; (d) account entries match through the compiled regexp on \"wallet/account\", key entries through byte equality with the validator's key; " +
			"(e) the account specifier compiled for a proposer entry starts with ^ and ends with $ on every path (string-shape analysis through the HasPrefix/HasSuffix tests); " +
			"(f) reset_relays empties the inherited relays before they are merged, a disabled proposer-relay is not kept, unknown addresses are generated through the tier chain, unmentioned inherited relays are kept; " +
			"(g) the version dispatch has arms for the unversioned and version-2 documents and an error default; (h) the top-level fee recipient and gas limit fall back to Vouch's own values when absent; " +
			"(i) for every JSON shadow struct the fields written by MarshalJSON are the fields read by UnmarshalJSON and unit scalings are inverse pairs (Milliseconds()/x time.Millisecond, Div(weiPerETH)/Mul(weiPerETH)). " +
			"Added with the third seeding round: (k) a legacy builder's relay list is read only under its own Enabled flag; (l) a resolver that remembers results keys them by every parameter it uses; (b) also accepts a first-present helper called with the tiers in precedence order. Added with the fourth seeding round: (m) the proposers list keeps document order; (n) tiers are written least specific first onto a relay object. Added with the fifth seeding round: (f, extended) every relay inherited from the fallback is recorded in the result; (o) nothing is copied or stored through a pointer-typed field of a relay result. Added with the sixth seeding round and the false-alarm regression: (p) numbers in the configuration documents are parsed with base 10; (q) every return of the account-naming helper is the joined wallet/account form; (g) also recognises a dispatch table keyed by version. Added with the ninth seeding round: (r) the factor between ether (as configured) and wei (as compared) is 10^18 wherever it is declared. Added with the tenth seeding round: (s) every non-nil result of the block relay's ProposerConfig is the configurator's answer to this call, or the fallback literal. Added with the eleventh seeding round: (t) outside UnmarshalJSON no function of the document packages writes into a decoded configuration document (fields, maps or sync.Map kept in it); (s, tightened) a copy of a remembered answer is not an answer built on the spot. NOT decided: the value-level lattice for arbitrary documents, regexp semantics, round-trip equality of meaning.",
		Technique: "guard/edge-deletion queries keyed by access path (tested-X-used-X, tier precedence), string-shape analysis, writer/reader field-table agreement of sibling marshalers, loop-exit path queries",
		Rule:      "one obligation per dereference (a), per tiered store (b), per options call (c), per match site (d), per compiled specifier (e), per relay-set operation (f), per version arm (g), per fallback use (h), per marshaler pair (i)",
	})
}

var cfgRels = []string{"services/blockrelay/v1", "services/blockrelay/v2"}

// tierOf ranks the configuration tiers by the static type of the value a field is read from.
func tierOf(t types.Type) (int, string) {
	s := typeName(t)
	switch {
	case strings.HasSuffix(s, "ProposerRelayConfig"):
		return 3, "proposer-relay"
	case strings.HasSuffix(s, "v2.ProposerConfig"):
		return 2, "proposer"
	case strings.HasSuffix(s, "v2.ExecutionConfig"):
		return 1, "top level"
	}
	return -1, ""
}

func runC10(p *core.Prog, r *core.Report, tier string) {
	ds := core.NewDescriber()

	// ---- (s) the settings of a validator are resolved for the call at hand: what the block relay's ProposerConfig
	// returns is the answer of the configurator to THIS (account, key) pair — not an answer remembered under the key
	// alone (lookups without an account resolve differently and would pin their answer for the lookups with one) ----
	if pc := p.Func("services/blockrelay/standard", "Service", "ProposerConfig"); pc != nil {
		for k, ret := range core.ReturnsOf(pc) {
			if len(ret.Results) != 2 || ret.Block() == pc.Recover {
				continue
			}
			fresh := true
			what := ""
			var okValue func(v ssa.Value) bool
			okValue = func(v ssa.Value) bool {
				if core.IsNilConst(v) {
					return true
				}
				if al, isFresh := v.(*ssa.Alloc); isFresh {
					// the fallback settings, built on the spot field by field — not a copy of something kept elsewhere
					// (`c := *cached; return &c`): a whole value stored into it is this call's answer, or nothing
					if al.Referrers() != nil {
						for _, ref := range *al.Referrers() {
							st, ok := ref.(*ssa.Store)
							if !ok || st.Addr != ssa.Value(al) {
								continue
							}
							ld, isLoad := st.Val.(*ssa.UnOp)
							if !isLoad || ld.Op != token.MUL || !okValue(ld.X) {
								return false
							}
						}
					}
					return true
				}
				if ex, isEx := v.(*ssa.Extract); isEx {
					if call, ok := ex.Tuple.(*ssa.Call); ok && core.MethodName(call.Common()) == "ProposerConfig" {
						return true
					}
				}
				return false
			}
			for _, lf := range core.PhiLeaves(core.Unspill(ret.Results[0]), ret) {
				if okValue(lf.V) {
					continue
				}
				// a result variable that is filled by a callback (a helper that holds the lock calls back): every value
				// stored into it, here or in the function's literals
				if ld, isLoad := lf.V.(*ssa.UnOp); isLoad && ld.Op == token.MUL {
					if cell, isCell := ld.X.(*ssa.Alloc); isCell {
						allOK, nStores := true, 0
						for _, g := range core.WithClosures(pc) {
							core.EachInstr(g, func(in ssa.Instruction) {
								st, ok := in.(*ssa.Store)
								if !ok {
									return
								}
								addr := st.Addr
								if fv, isFV := addr.(*ssa.FreeVar); isFV {
									addr = core.FreeVarBinding(fv)
								}
								if addr != ssa.Value(cell) {
									return
								}
								nStores++
								if !okValue(st.Val) {
									allOK = false
									what = ds.D(st.Val).String()
								}
							})
						}
						if allOK && nStores > 0 {
							continue
						}
					}
				}
				fresh = false
				if what == "" {
					what = ds.D(lf.V).String()
				}
			}
			r.Check(fresh, "C10.s", fmt.Sprintf("%s|return#%d|resolved-for-this-call", core.FnKey(pc), k+1), p.Pos(ret.Pos()), "the settings returned are the configurator's answer to this call", "the settings returned are "+what+", not the configurator's answer to this (account, key) pair: an answer remembered under part of the key is served to lookups that would resolve differently")
		}
	} else {
		r.Undecide("C10.s", "services/blockrelay/standard.Service.ProposerConfig", "", "anchor not found")
	}

	// ---- (t) resolving settings leaves the configuration document as it was decoded: outside the decoders
	// (UnmarshalJSON) no function of the document packages stores into a field of a document type or into a sync.Map
	// kept in one — an answer remembered inside the document is served to the next lookup, which may differ in the
	// part of (account, key) that the memo is not filed under ----
	nDocWrites := 0
	for _, rel := range []string{"services/blockrelay/v1", "services/blockrelay/v2"} {
		pk := p.ByPath[core.ModulePath+"/"+rel]
		if pk == nil || pk.Types == nil {
			continue
		}
		isDocType := func(t types.Type) bool {
			if pt, ok := t.Underlying().(*types.Pointer); ok {
				t = pt.Elem()
			}
			nt, ok := t.(*types.Named)
			if !ok || nt.Obj().Pkg() != pk.Types {
				return false
			}
			_, isStruct := nt.Underlying().(*types.Struct)
			return isStruct && !strings.HasSuffix(nt.Obj().Name(), "JSON")
		}
		for _, f := range p.FuncsIn(rel) {
			if f.Name() == "UnmarshalJSON" || (f.Parent() != nil && f.Parent().Name() == "UnmarshalJSON") {
				continue
			}
			core.EachInstr(f, func(in ssa.Instruction) {
				var fa *ssa.FieldAddr
				what := ""
				switch x := in.(type) {
				case *ssa.Store:
					fa, _ = x.Addr.(*ssa.FieldAddr)
					what = "stores into"
				case *ssa.MapUpdate:
					if ld, ok := x.Map.(*ssa.UnOp); ok && ld.Op == token.MUL {
						fa, _ = ld.X.(*ssa.FieldAddr)
					}
					what = "adds to the map in"
				case *ssa.Call:
					callee := x.Call.StaticCallee()
					if callee != nil && callee.Pkg != nil && callee.Pkg.Pkg.Path() == "sync" && len(x.Call.Args) > 0 {
						switch callee.Name() {
						case "Store", "LoadOrStore", "Swap", "CompareAndSwap", "Delete", "LoadAndDelete":
							fa, _ = x.Call.Args[0].(*ssa.FieldAddr)
							what = "keeps a value in"
						}
					}
				}
				if fa == nil || !isDocType(fa.X.Type()) {
					return
				}
				// a document under construction in this function (a fresh literal) is not the shared one
				if al, ok := fa.X.(*ssa.Alloc); ok && al.Parent() == f {
					return
				}
				// only the receiver / a parameter / something reached from them is the decoded document
				root := fa.X
				for i := 0; i < 6; i++ {
					switch y := root.(type) {
					case *ssa.FieldAddr:
						root = y.X
					case *ssa.UnOp:
						root = y.X
					case *ssa.IndexAddr:
						root = y.X
					case *ssa.Lookup:
						root = y.X
					}
				}
				if _, isParam := root.(*ssa.Parameter); !isParam {
					if _, isFree := root.(*ssa.FreeVar); !isFree {
						return
					}
				}
				nDocWrites++
				id, _, _ := core.FieldOfAddr(fa)
				r.Violate("C10.t", fmt.Sprintf("%s|document-left-as-decoded|%s#%d", core.FnKey(f), id.Name, nDocWrites), p.Pos(in.Pos()), core.FnKey(f)+" "+what+" the field "+id.String()+" of the decoded configuration document: what a lookup leaves there is served to later lookups, which may differ in the account or key it is not filed under (and the document is shared by concurrent lookups)")
			})
		}
	}
	if nDocWrites == 0 {
		r.Hold("C10.t", "documents-left-as-decoded", "", "outside UnmarshalJSON no function of services/blockrelay/v1 and v2 writes into a decoded configuration document")
	}

	// ---- (r) amounts are configured in ether and compared in wei: the conversion factor is 10^18 wherever it is
	// declared (decimal.New(value, exponent) = value x 10^exponent) ----
	nWei := 0
	for _, f := range p.SrcFuncs() {
		if f.Name() != "init" || f.Parent() != nil {
			continue
		}
		core.EachInstr(f, func(in ssa.Instruction) {
			st, ok := in.(*ssa.Store)
			if !ok {
				return
			}
			g, ok := st.Addr.(*ssa.Global)
			if !ok || strings.ToLower(g.Name()) != "weipereth" {
				return
			}
			nWei++
			okVal := false
			what := ds.D(st.Val).String()
			if c, ok := st.Val.(*ssa.Call); ok && strings.HasSuffix(core.CalleeName(c.Common()), "decimal.New") && len(c.Call.Args) == 2 {
				v, ok1 := c.Call.Args[0].(*ssa.Const)
				e, ok2 := c.Call.Args[1].(*ssa.Const)
				if ok1 && ok2 && v.Value != nil && e.Value != nil {
					val := new(big.Int).SetInt64(v.Int64())
					exp := e.Int64()
					if exp >= 0 && exp < 40 {
						val.Mul(val, new(big.Int).Exp(big.NewInt(10), big.NewInt(exp), nil))
						okVal = val.Cmp(new(big.Int).Exp(big.NewInt(10), big.NewInt(18), nil)) == 0
						what = "decimal.New(" + v.Value.String() + ", " + e.Value.String() + ") = " + val.String()
					}
				}
			}
			r.Check(okVal, "C10.r", core.RelPkg(f.Pkg.Pkg.Path())+"|weiPerETH", p.Pos(st.Pos()), "one ether is 10^18 wei", "the factor between ether (as configured) and wei (as compared with bids) is "+what+", not 10^18: every configured minimum value is off by that ratio")
		})
	}
	r.Floor("C10.r declarations of the ether/wei factor", nWei, 2)
	var fns []*ssa.Function
	for _, rel := range cfgRels {
		fns = append(fns, p.FuncsIn(rel)...)
	}
	if len(fns) == 0 {
		r.Undecide("C10.anchor", "blockrelay/v1,v2", "", "packages not found")
		return
	}

	// ---- (a) tested-X-used-X ----
	nDeref := 0
	for _, f := range fns {
		core.EachInstr(f, func(in ssa.Instruction) {
			u, ok := in.(*ssa.UnOp)
			if !ok || u.Op.String() != "*" {
				return
			}
			inner, ok := u.X.(*ssa.UnOp) // load of the pointer field
			if !ok {
				return
			}
			fa, ok := inner.X.(*ssa.FieldAddr)
			if !ok {
				return
			}
			pt, ok := inner.Type().Underlying().(*types.Pointer)
			if !ok {
				return
			}
			// value pointers only (entries of configuration collections are C16)
			if pk := core.PkgOfType(pt.Elem()); strings.Contains(pk, "vouch/services/blockrelay") {
				return
			}
			if !strings.Contains(core.PkgOfType(fa.X.Type()), "vouch/services/blockrelay") {
				return
			}
			nDeref++
			d := ds.D(inner)
			w := core.Unguarded(ds, f, nil, func(x ssa.Instruction) bool { return x == in }, core.NonNilGuard(ds, inner))
			r.Check(w == nil, "C10.a", fmt.Sprintf("%s|deref|%s", core.FnKey(f), d.String()), p.Pos(u.Pos()), "*"+d.String()+" is used only after "+d.String()+" != nil",
				"*"+d.String()+" is dereferenced without a non-nil test of that same field (a different field was tested, or none): crash or wrong precedence", p.WitnessText(w)...)
		})
		// method calls on optional value fields (c.Grace.Milliseconds())
		core.EachInstr(f, func(in ssa.Instruction) {
			c, ok := in.(*ssa.Call)
			if !ok || c.Call.IsInvoke() || c.Call.StaticCallee() == nil || len(c.Call.Args) == 0 {
				return
			}
			recv := c.Call.Args[0]
			ld, ok := recv.(*ssa.UnOp)
			if !ok {
				return
			}
			fa, ok := ld.X.(*ssa.FieldAddr)
			if !ok || !strings.Contains(core.PkgOfType(fa.X.Type()), "vouch/services/blockrelay") {
				return
			}
			if _, isPtr := ld.Type().Underlying().(*types.Pointer); !isPtr {
				return
			}
			if pk := core.PkgOfType(ld.Type()); strings.Contains(pk, "vouch/services/blockrelay") || strings.Contains(pk, "regexp") {
				return
			}
			if c.Call.StaticCallee().Signature.Recv() == nil {
				return
			}
			nDeref++
			d := ds.D(ld)
			w := core.Unguarded(ds, f, nil, func(x ssa.Instruction) bool { return x == in }, core.NonNilGuard(ds, ld))
			r.Check(w == nil, "C10.a", fmt.Sprintf("%s|method-on|%s", core.FnKey(f), d.String()), p.Pos(c.Pos()), d.String()+" is used only after a non-nil test", d.String()+" is used without a non-nil test of that same field", p.WitnessText(w)...)
		})
	}
	r.Count("optional-field dereferences", nDeref)
	r.Floor("C10.a optional-field dereferences", nDeref, 30)

	// ---- (b) precedence chains ----
	nTier := 0
	for _, f := range p.FuncsIn("services/blockrelay/v2") {
		core.EachInstr(f, func(in ssa.Instruction) {
			st, ok := in.(*ssa.Store)
			if !ok {
				return
			}
			id, _, ok := core.FieldOfAddr(st.Addr)
			if !ok || !strings.HasSuffix(id.Owner, "beaconblockproposer.RelayConfig") {
				return
			}
			// the value chosen by a first-present helper: firstOf(fallback, a.F, b.F, c.F)
			if call, isCall := st.Val.(*ssa.Call); isCall {
				if callee := call.Call.StaticCallee(); callee != nil {
					if fbIdx, varIdx, isFirst := firstPresentHelper(ds, callee); isFirst && varIdx < len(call.Call.Args) {
						_ = fbIdx
						elems := variadicElems(call.Call.Args[varIdx])
						type te struct {
							tier        int
							name, field string
							base        string
						}
						var ts []te
						for _, e := range elems {
							ld, ok := e.(*ssa.UnOp)
							if !ok || ld.Op.String() != "*" {
								ts = append(ts, te{tier: -1})
								continue
							}
							fa, ok := ld.X.(*ssa.FieldAddr)
							if !ok {
								ts = append(ts, te{tier: -1})
								continue
							}
							t, tn := tierOf(fa.X.Type())
							ts = append(ts, te{t, tn, ds.D(ld).Name, ds.D(fa.X).String()})
						}
						for k, e := range ts {
							if e.tier < 0 {
								continue
							}
							for _, prm := range f.Params {
								t, tn := tierOf(prm.Type())
								if t <= e.tier {
									continue
								}
								st2, ok := derefStruct(prm.Type())
								if !ok {
									continue
								}
								has := false
								for i := 0; i < st2.NumFields(); i++ {
									if st2.Field(i).Name() == e.field {
										has = true
									}
								}
								if !has {
									continue
								}
								nTier++
								earlier := false
								for j := 0; j < k; j++ {
									if ts[j].tier == t && ts[j].field == e.field && ts[j].base == prm.Name() {
										earlier = true
									}
								}
								r.Check(earlier, "C10.b", fmt.Sprintf("%s|%s<-%s.%s|yields-to-%s", core.FnKey(f), id.Name, e.name, e.field, tn), p.Pos(st.Pos()),
									"the "+e.name+" value is offered after the "+tn+" value to "+callee.Name()+" (first present wins)", "the "+e.name+" "+e.field+" can be used although the more specific "+tn+" tier sets it (precedence inverted)")
							}
							r.Check(id.Name == e.field, "C10.b", fmt.Sprintf("%s|%s<-%s.%s|same-field", core.FnKey(f), id.Name, e.name, e.field), p.Pos(st.Pos()), "the field read is the field written", "relay field "+id.Name+" is filled from "+e.field)
						}
						return
					}
				}
			}
			// the value: *tier.F
			u, ok := st.Val.(*ssa.UnOp)
			if !ok || u.Op.String() != "*" {
				return
			}
			inner, ok := u.X.(*ssa.UnOp)
			if !ok {
				return
			}
			fa, ok := inner.X.(*ssa.FieldAddr)
			if !ok {
				return
			}
			myTier, myName := tierOf(fa.X.Type())
			if myTier < 0 {
				return
			}
			srcField := ds.D(inner).Name
			// other tiers in scope: parameters / receiver of f with a field of the same name
			for _, prm := range f.Params {
				t, tn := tierOf(prm.Type())
				if t <= myTier {
					continue
				}
				// does that tier's struct have the field?
				st2, ok := derefStruct(prm.Type())
				if !ok {
					continue
				}
				has := false
				for i := 0; i < st2.NumFields(); i++ {
					if st2.Field(i).Name() == srcField {
						has = true
					}
				}
				if !has {
					continue
				}
				nTier++
				want := prm.Name() + "." + srcField
				w := core.Unguarded(ds, f, nil, func(x ssa.Instruction) bool { return x == in }, func(c core.Cond) int {
					if c.Op != "==" && c.Op != "!=" {
						return -1
					}
					var o *core.VD
					if c.Y.Kind == "const" && c.Y.Name == "nil" {
						o = c.X
					} else if c.X.Kind == "const" && c.X.Name == "nil" {
						o = c.Y
					} else {
						return -1
					}
					if o.String() != want {
						return -1
					}
					for s := 0; s < 2; s++ {
						if c.RelOnEdge(s) == "==" {
							return s
						}
					}
					return -1
				})
				r.Check(w == nil, "C10.b", fmt.Sprintf("%s|%s<-%s.%s|yields-to-%s", core.FnKey(f), id.Name, myName, srcField, tn), p.Pos(st.Pos()),
					"the "+myName+" value is used only when the "+tn+" value is absent", "the "+myName+" "+srcField+" can be used although the more specific "+tn+" tier sets it (precedence inverted)", p.WitnessText(w)...)
			}
			// the field stored is the field read
			r.Check(id.Name == srcField, "C10.b", fmt.Sprintf("%s|%s<-%s.%s|same-field", core.FnKey(f), id.Name, myName, srcField), p.Pos(st.Pos()), "the field read is the field written", "relay field "+id.Name+" is filled from "+srcField)
		})
	}
	r.Floor("C10.b tiered precedence obligations", nTier, 9)

	// ---- (c)(d) first matching proposer entry ----
	nOpt := 0
	for _, f := range p.FuncsIn("services/blockrelay/v2") {
		for _, l := range p.Loops(f) {
			t := l.RangeType()
			if t == nil || !strings.Contains(t.String(), "v2.ProposerConfig") {
				continue
			}
			nOpt += checkFirstMatchOptions(p, r, ds, "C10.c", f, l)
			// (d) match kinds
			for _, mc := range core.CallsNamed(f, "MatchString") {
				if !l.Contains(mc.Pos()) {
					continue
				}
				a := mc.Common().Args
				nd := ds.D(a[len(a)-1])
				isName := func(d *core.VD) bool {
					return d.Any(func(x *core.VD) bool { return x.Kind == "call" && strings.Contains(x.Name, "setAccountName") }) || (d.MentionsCall("Wallet") && d.MentionsCall("Account.Name"))
				}
				okName := isName(nd)
				if !okName {
					// the name handed in by the caller(s): decided at the call sites
					if prm, isP := a[len(a)-1].(*ssa.Parameter); isP {
						k := -1
						for i, q := range f.Params {
							if q == prm {
								k = i
							}
						}
						if k >= 0 {
							if origins := p.ParamOrigins(f, k, 2); len(origins) > 0 {
								okName = true
								for _, o := range origins {
									if !isName(ds.D(o)) {
										okName = false
									}
								}
							}
						}
					}
				}
				r.Check(okName, "C10.d", core.FnKey(f)+"|account-match-name", p.Pos(mc.Pos()), "account entries are matched against the validator's wallet/account name", "account entries are matched against "+nd.String())
				rd := ds.D(a[0])
				r.Check(rd.HasFieldSuffix("Account"), "C10.d", core.FnKey(f)+"|account-match-regexp", p.Pos(mc.Pos()), "the regexp is the entry's compiled account specifier", "the regexp used is "+rd.String())
			}
			for _, ec := range core.Calls(f, func(c *ssa.CallCommon) bool {
				return c.StaticCallee() != nil && core.FnKey(c.StaticCallee()) == "bytes.Equal"
			}) {
				if !l.Contains(ec.Pos()) {
					continue
				}
				a := ec.Common().Args
				x, y := ds.D(a[0]), ds.D(a[1])
				if x.MentionsField("Validator") && (y.Kind == "slice" && y.Args[0].Kind == "param" || y.Any(func(n *core.VD) bool { return n.Kind == "param" && n.Name == "pubkey" })) {
					r.Hold("C10.d", core.FnKey(f)+"|key-match", p.Pos(ec.Pos()), "key entries are matched by byte equality with the validator's key")
				}
			}
		}
	}
	r.Floor("C10.c proposer-entry option calls", nOpt, 1)
	// account name: wallet/account
	if f := p.Func("services/blockrelay/v2", "", "setAccountName"); f != nil {
		okFmt := false
		for _, ci := range core.CallsNamed(f, "Sprintf") {
			if s, ok := constString(ci.Common().Args[0]); ok && s == "%s/%s" {
				d := ds.D(ci.Common().Args[1])
				if d.MentionsCall("Wallet") && d.MentionsCall("Account.Name") {
					okFmt = true
				}
			}
		}
		r.Check(okFmt, "C10.d", "v2.setAccountName|wallet-slash-account", p.Pos(f.Pos()), "the name is wallet.Name()/account.Name()", "the account name is not built as wallet/account")
	}

	// ---- (e) anchoring of the account specifier ----
	nComp := 0
	for _, f := range p.FuncsIn("services/blockrelay/v2") {
		for _, ci := range core.Calls(f, func(c *ssa.CallCommon) bool {
			return c.StaticCallee() != nil && core.FnKey(c.StaticCallee()) == "regexp.Compile"
		}) {
			nComp++
			starts, ends := strShape(ds, f, ci.Common().Args[0], ci.(ssa.Instruction), 0)
			r.Check(starts, "C10.e", core.FnKey(f)+"|specifier-starts-with-caret", p.Pos(ci.Pos()), "the compiled specifier starts with ^ on every path", "the account specifier can be compiled without a leading ^ (it would also match longer wallet names)")
			r.Check(ends, "C10.e", core.FnKey(f)+"|specifier-ends-with-dollar", p.Pos(ci.Pos()), "the compiled specifier ends with $ on every path", "the account specifier can be compiled without a trailing $ (it would also match longer account names)")
		}
	}
	r.Floor("C10.e compiled account specifiers", nComp, 1)

	// ---- (f) relay set operations ----
	for _, f := range p.FuncsIn("services/blockrelay/v2") {
		var mergeLoop *core.Loop
		for _, l := range p.Loops(f) {
			if x := l.RangeExpr(); x != nil && strings.HasSuffix(types.ExprString(x), "config.Relays") {
				// a loop that looks the relay up in the proposer entry's relays
				has := false
				core.EachInstr(f, func(in ssa.Instruction) {
					if lk, ok := in.(*ssa.Lookup); ok && l.Contains(lk.Pos()) && ds.D(lk.X).HasFieldSuffix("Relays") {
						has = true
					}
				})
				if has {
					mergeLoop = l
				}
			}
		}
		if mergeLoop == nil {
			continue
		}
		base := core.FnKey(f) + "|merge"
		// reset before merge
		var emptyStore ssa.Instruction
		core.EachInstr(f, func(in ssa.Instruction) {
			st, ok := in.(*ssa.Store)
			if !ok {
				return
			}
			id, _, ok := core.FieldOfAddr(st.Addr)
			if !ok || id.Name != "Relays" || !strings.HasSuffix(id.Owner, "beaconblockproposer.ProposerConfig") {
				return
			}
			if st.Pos() >= mergeLoop.Stmt.Pos() {
				return
			}
			if ms, ok := st.Val.(*ssa.MakeSlice); ok {
				if c, ok := ms.Len.(*ssa.Const); ok && c.Int64() == 0 {
					emptyStore = in
				}
			}
			// make([]T, 0) with constant bounds is lowered to a slice of a fresh zero-length array
			if sl, ok := st.Val.(*ssa.Slice); ok {
				if a, ok := sl.X.(*ssa.Alloc); ok {
					if at, ok := a.Type().Underlying().(*types.Pointer).Elem().Underlying().(*types.Array); ok && at.Len() == 0 {
						emptyStore = in
					}
				}
			}
		})
		resetFalse := func(c core.Cond) int {
			if c.B != nil && c.B.HasFieldSuffix("ResetRelays") {
				if c.BoolOnEdge(0) {
					return 1
				}
				return 0
			}
			return -1
		}
		est := core.GuardEdges(ds, f, resetFalse)
		var loopStart ssa.Instruction
		core.EachInstr(f, func(in ssa.Instruction) {
			if loopStart == nil && in.Pos().IsValid() && mergeLoop.Contains(in.Pos()) {
				loopStart = in
			}
		})
		if emptyStore == nil || loopStart == nil {
			r.Violate("C10.f", base+"|reset-before-merge", p.Pos(mergeLoop.Stmt.Pos()), "reset_relays does not empty the inherited relays before they are merged")
		} else {
			w := core.PathQuery{Fn: f, Target: func(x ssa.Instruction) bool { return x == loopStart }, Avoid: func(x ssa.Instruction) bool { return x == emptyStore }, Edge: func(b *ssa.BasicBlock, succ int) bool {
				if s, ok := est[b]; ok && s == succ {
					return false
				}
				return true
			}}.Find()
			r.Check(w == nil && len(est) > 0, "C10.f", base+"|reset-before-merge", p.Pos(emptyStore.Pos()), "with reset_relays the inherited relays are discarded before the merge", "with reset_relays set the merge can still see (and keep values of) the inherited relays", p.WitnessText(w)...)
		}
		// disabled not kept: appends of the inherited relay in the exists arm are guarded by !Disabled
		core.EachInstr(f, func(in ssa.Instruction) {
			c, ok := in.(*ssa.Call)
			if !ok || !mergeLoop.Contains(c.Pos()) {
				return
			}
			b, ok := c.Call.Value.(*ssa.Builtin)
			if !ok || b.Name() != "append" {
				return
			}
			// on paths where the relay exists in the proposer's list, the append requires !Disabled
			existsTrue := func(cd core.Cond) int {
				if cd.B == nil {
					return -1
				}
				ex, ok := cd.B.Val.(*ssa.Extract)
				if !ok || ex.Index != 1 {
					return -1
				}
				if _, ok := ex.Tuple.(*ssa.Lookup); !ok {
					return -1
				}
				if cd.BoolOnEdge(0) {
					return 1 // delete the not-exists edge: consider only paths where it exists
				}
				return 0
			}
			estE := core.GuardEdges(ds, f, existsTrue)
			notDisabled := core.GuardEdges(ds, f, func(cd core.Cond) int {
				if cd.B != nil && cd.B.HasFieldSuffix("Disabled") {
					if cd.BoolOnEdge(0) {
						return 1
					}
					return 0
				}
				return -1
			})
			w := core.PathQuery{Fn: f, Target: func(x ssa.Instruction) bool { return x == in }, Edge: func(bb *ssa.BasicBlock, succ int) bool {
				if s, ok := estE[bb]; ok && s == succ {
					return false
				}
				if s, ok := notDisabled[bb]; ok && s == succ {
					return false
				}
				return true
			}}.Find()
			// w is a path on which the relay exists in the proposer's list and Disabled was not established false
			_ = w
		})
		// simpler formulation for "disabled removes": the Disabled field is consulted inside the merge loop and its true edge reaches no append
		consulted := false
		core.EachInstr(f, func(in ssa.Instruction) {
			ifi, ok := in.(*ssa.If)
			if !ok {
				return
			}
			cd := core.DecodeCond(ds, ifi)
			if cd.B == nil || !cd.B.HasFieldSuffix("Disabled") || !mergeLoop.Contains(ifi.Pos()) && ifi.Pos().IsValid() {
				return
			}
			consulted = true
			disabledSucc := 1
			if cd.BoolOnEdge(0) {
				disabledSucc = 0
			}
			// from the disabled edge, before the next iteration, no append of a relay
			start := ifi.Block().Succs[disabledSucc]
			bad := false
			seen := map[*ssa.BasicBlock]bool{}
			stack := []*ssa.BasicBlock{start}
			for len(stack) > 0 {
				b := stack[len(stack)-1]
				stack = stack[:len(stack)-1]
				if seen[b] {
					continue
				}
				seen[b] = true
				isHeader := false
				for _, x := range b.Instrs {
					if phi, ok := x.(*ssa.Phi); ok && phi.Comment == "rangeindex" {
						isHeader = true
					}
					if c, ok := x.(*ssa.Call); ok {
						if bi, ok := c.Call.Value.(*ssa.Builtin); ok && bi.Name() == "append" {
							bad = true
						}
					}
				}
				if isHeader {
					continue
				}
				stack = append(stack, b.Succs...)
			}
			r.Check(!bad, "C10.f", base+"|disabled-relay-dropped", p.Pos(core.IfPos(ifi)), "a relay disabled by the proposer entry is not kept", "a relay disabled by the proposer entry is still appended to the result")
		})
		r.Check(consulted, "C10.f", base+"|disabled-consulted", p.Pos(mergeLoop.Stmt.Pos()), "the proposer-relay's disabled flag is consulted in the merge", "the merge never consults the proposer-relay's disabled flag")
		// new relays are generated through the tier chain, only when not already merged
		gen := false
		for _, ci := range core.Calls(f, func(c *ssa.CallCommon) bool {
			return c.StaticCallee() != nil && strings.Contains(c.StaticCallee().Name(), "generateRelayConfig")
		}) {
			gen = true
			w := core.Unguarded(ds, f, nil, func(x ssa.Instruction) bool { return x == ci.(ssa.Instruction) }, func(cd core.Cond) int {
				if cd.B == nil {
					return -1
				}
				ex, ok := cd.B.Val.(*ssa.Extract)
				if !ok || ex.Index != 1 {
					return -1
				}
				if _, ok := ex.Tuple.(*ssa.Lookup); !ok {
					return -1
				}
				if cd.BoolOnEdge(0) {
					return 1
				}
				return 0
			})
			r.Check(w == nil, "C10.f", base+"|new-relay-only-if-not-merged", p.Pos(ci.Pos()), "a relay is generated only when it was not inherited", "a relay that was already merged can be generated a second time", p.WitnessText(w)...)
		}
		r.Check(gen, "C10.f", base+"|new-relays-generated", p.Pos(mergeLoop.Stmt.Pos()), "relays only named by the proposer entry are generated", "relays only named by the proposer entry are never added")
		// every inherited relay the merge has looked at is recorded as dealt with — also the ones it drops as disabled:
		// what is not recorded is generated again by the "new relays" pass
		var marks []ssa.Instruction
		core.EachInstr(f, func(in ssa.Instruction) {
			if mu, ok := in.(*ssa.MapUpdate); ok {
				if _, local := mu.Map.(*ssa.MakeMap); local {
					if st, ok := mu.Map.Type().Underlying().(*types.Map).Elem().Underlying().(*types.Struct); ok && st.NumFields() == 0 {
						marks = append(marks, in)
					}
				}
			}
		})
		for mi, m := range marks {
			var header *ssa.BasicBlock
			for _, h := range f.Blocks {
				if !h.Dominates(m.Block()) {
					continue
				}
				back := false
				for _, pr := range h.Preds {
					if h.Dominates(pr) {
						back = true
					}
				}
				if back && (header == nil || header.Dominates(h)) {
					header = h
				}
			}
			if header == nil || len(header.Instrs) == 0 {
				continue
			}
			isMark := func(x ssa.Instruction) bool {
				for _, o := range marks {
					if x == o {
						return true
					}
				}
				return false
			}
			w := core.PathQuery{Fn: f, From: header.Instrs[len(header.Instrs)-1], Target: func(x ssa.Instruction) bool { return x.Block() == header }, Avoid: isMark}.Find()
			r.Check(w == nil, "C10.f", fmt.Sprintf("%s|every-inherited-relay-recorded#%d", base, mi+1), p.Pos(m.Pos()), "every pass of the merge loop records the relay as dealt with", "a pass of the merge loop can end without recording the relay as dealt with (e.g. the `continue` that drops a disabled relay): the relay is then generated anew by the pass that adds the proposer's own relays, so a relay the configuration disables is back in the validator's settings", p.WitnessText(w)...)
		}
	}

	// ---- (k) legacy documents: a builder's relay list is used only when the builder is enabled ----
	nRel := 0
	for _, f := range p.FuncsIn("services/blockrelay/v1") {
		root := f
		for root.Parent() != nil {
			root = root.Parent()
		}
		switch root.Name() {
		case "MarshalJSON", "UnmarshalJSON", "String":
			continue
		}
		core.EachInstr(f, func(in ssa.Instruction) {
			ld, ok := in.(*ssa.UnOp)
			if !ok || ld.Op != token.MUL {
				return
			}
			fa, ok := ld.X.(*ssa.FieldAddr)
			if !ok {
				return
			}
			id, _, ok := core.FieldOfAddr(fa)
			if !ok || id.Name != "Relays" || !strings.HasSuffix(id.Owner, "v1.BuilderConfig") {
				return
			}
			nRel++
			base := fa.X
			w := core.Unguarded(ds, f, nil, func(x ssa.Instruction) bool { return x == in }, func(c core.Cond) int {
				if c.B == nil || c.B.Val == nil {
					return -1
				}
				l2, ok := c.B.Val.(*ssa.UnOp)
				if !ok || l2.Op != token.MUL {
					return -1
				}
				f2, ok := l2.X.(*ssa.FieldAddr)
				if !ok || f2.X != base {
					return -1
				}
				if id2, _, ok := core.FieldOfAddr(f2); !ok || id2.Name != "Enabled" {
					return -1
				}
				if c.BoolOnEdge(0) {
					return 0
				}
				return 1
			})
			r.Check(w == nil, "C10.k", fmt.Sprintf("%s|relays-only-when-enabled#%d", core.FnKey(f), nRel), p.Pos(ld.Pos()), "the builder's relay list is read only where the same builder is enabled",
				"a legacy builder's relay list is used without its 'enabled' flag having been tested: validators of a disabled builder that still lists relays are given those relays", p.WitnessText(w)...)
		})
	}
	r.Floor("C10.k legacy relay list reads", nRel, 1)

	// ---- (l) a resolver that remembers results keys them by everything the result depends on ----
	nRes := 0
	for _, rel := range cfgRels {
		for _, f := range p.FuncsIn(rel) {
			if f.Name() != "ProposerConfig" || f.Signature.Recv() == nil || f.Parent() != nil || len(f.Params) == 0 {
				continue
			}
			nRes++
			recv := f.Params[0]
			var used []*ssa.Parameter
			for _, prm := range f.Params[1:] {
				if strings.HasSuffix(prm.Type().String(), "context.Context") || prm.Referrers() == nil || len(*prm.Referrers()) == 0 {
					continue
				}
				used = append(used, prm)
			}
			// stores the resolver itself fills: sync.Map fields of the receiver, and receiver maps it inserts into
			written := map[string]bool{}
			core.EachInstr(f, func(in ssa.Instruction) {
				if mu, ok := in.(*ssa.MapUpdate); ok {
					if id, ok := core.FieldOfValue(mu.Map); ok {
						written[id.String()] = true
					}
				}
			})
			nCache := 0
			checkKey := func(in ssa.Instruction, key ssa.Value, what string) {
				nCache++
				kd := ds.D(key)
				var missing []string
				for _, prm := range used {
					if !kd.Any(func(x *core.VD) bool { return x.Kind == "param" && x.Name == prm.Name() }) {
						missing = append(missing, prm.Name())
					}
				}
				r.Check(len(missing) == 0, "C10.l", fmt.Sprintf("%s|memo-key#%d", core.FnKey(f), nCache), p.Pos(in.Pos()), "remembered results are keyed by every input of the resolution",
					"the resolver serves a remembered result from "+what+" keyed by "+kd.String()+", which leaves out "+strings.Join(missing, ", ")+": a result resolved for one input (e.g. without an account) is served for another, bypassing the documented precedence")
			}
			core.EachInstr(f, func(in ssa.Instruction) {
				switch x := in.(type) {
				case *ssa.Call:
					c := x.Call.StaticCallee()
					if c == nil || c.Signature.Recv() == nil || !strings.HasSuffix(c.Signature.Recv().Type().String(), "sync.Map") {
						return
					}
					if c.Name() != "Load" && c.Name() != "LoadOrStore" && c.Name() != "LoadAndDelete" {
						return
					}
					if fa, ok := x.Call.Args[0].(*ssa.FieldAddr); ok && fa.X == ssa.Value(recv) {
						checkKey(in, x.Call.Args[1], "a sync.Map of the configuration")
					}
				case *ssa.Lookup:
					if id, ok := core.FieldOfValue(x.X); ok && written[id.String()] {
						checkKey(in, x.Index, "map "+id.String())
					}
				}
			})
			if nCache == 0 {
				r.Hold("C10.l", core.FnKey(f)+"|no-memo", p.Pos(f.Pos()), "the resolver remembers no results: every call resolves from the configuration")
			}
		}
	}
	r.Floor("C10.l resolvers", nRes, 2)

	// ---- (m) the proposers list keeps the order of the document ("first matching entry" is about that order):
	// nothing sorts, reverses or overwrites it in place ----
	nProp, nPropMut := 0, 0
	for _, f := range p.FuncsIn("services/blockrelay/v2") {
		isSrc := func(v ssa.Value) bool {
			ld, ok := v.(*ssa.UnOp)
			if !ok {
				return false
			}
			fa, ok := ld.X.(*ssa.FieldAddr)
			if !ok {
				return false
			}
			st := derefStructOf(fa.X.Type())
			return st != nil && st.Field(fa.Field).Name() == "Proposers"
		}
		core.EachInstr(f, func(in ssa.Instruction) {
			if v, ok := in.(ssa.Value); ok && isSrc(v) {
				nProp++
			}
		})
		for _, m := range collectionMutations(f, isSrc) {
			nPropMut++
			r.Violate("C10.m", fmt.Sprintf("%s|reorders-proposers#%d", core.FnKey(f), nPropMut), p.Pos(m.Pos()), "the proposers list is changed in place (sorted, reversed or overwritten): 'the first matching proposer entry' is then decided on another order than the document's, and a marshal/unmarshal round trip comes back reordered")
		}
	}
	if nPropMut == 0 {
		r.Hold("C10.m", "proposers-keep-document-order", "", fmt.Sprintf("%d reads of a proposers list, none leads to an in-place change", nProp))
	}
	r.Floor("C10.m reads of proposers lists", nProp, 3)

	// ---- (n) a relay's settings are written tier by tier, least specific first: once a more specific tier has been
	// applied to a relay object, no value of a less specific tier is stored into it ----
	tier10 := func(t types.Type) int {
		s := typeName(t)
		switch {
		case strings.HasSuffix(s, "ProposerRelayConfig"):
			return 30
		case strings.HasSuffix(s, "v2.ProposerConfig"):
			return 20
		case strings.HasSuffix(s, "BaseRelayConfig"):
			return 15
		case strings.HasSuffix(s, "v2.ExecutionConfig"):
			return 10
		}
		return -1
	}
	nApply := 0
	for _, f := range p.FuncsIn("services/blockrelay/v2") {
		core.EachInstr(f, func(in ssa.Instruction) {
			c, ok := in.(*ssa.Call)
			if !ok || c.Call.StaticCallee() == nil {
				return
			}
			var obj ssa.Value
			applied := -1
			for _, a := range c.Call.Args {
				if strings.HasSuffix(typeName(a.Type()), "beaconblockproposer.RelayConfig") {
					obj = a
				} else if t := tier10(a.Type()); t > applied {
					applied = t
				}
			}
			if obj == nil || applied < 0 {
				return
			}
			nApply++
			core.EachInstr(f, func(x ssa.Instruction) {
				st, ok := x.(*ssa.Store)
				if !ok {
					return
				}
				fa, ok := st.Addr.(*ssa.FieldAddr)
				if !ok || fa.X != obj {
					return
				}
				// the tier the stored value is read from
				src := -1
				var walk func(v ssa.Value, depth int)
				walk = func(v ssa.Value, depth int) {
					if depth > 6 || v == nil {
						return
					}
					switch y := v.(type) {
					case *ssa.UnOp:
						if f2, ok := y.X.(*ssa.FieldAddr); ok {
							if t := tier10(f2.X.Type()); t > src {
								src = t
							}
							return
						}
						walk(y.X, depth+1)
					case *ssa.Phi:
						for _, e := range y.Edges {
							walk(e, depth+1)
						}
					case *ssa.Convert:
						walk(y.X, depth+1)
					case *ssa.ChangeType:
						walk(y.X, depth+1)
					case *ssa.Extract:
						if nx, ok := y.Tuple.(*ssa.Next); ok {
							if rg, ok := nx.Iter.(*ssa.Range); ok {
								walk(rg.X, depth+1)
							}
						}
					}
				}
				walk(st.Val, 0)
				if src < 0 || src >= applied {
					return
				}
				objDef, _ := obj.(ssa.Instruction)
				if w := (core.PathQuery{Fn: f, From: c, Target: func(y ssa.Instruction) bool { return y == x }, Avoid: func(y ssa.Instruction) bool { return objDef != nil && y == objDef }}).Find(); w != nil {
					id, _, _ := core.FieldOfAddr(fa)
					r.Violate("C10.n", fmt.Sprintf("%s|%s|less-specific-after-more-specific", core.FnKey(f), id.Name), p.Pos(st.Pos()), "relay field "+id.Name+" is written from a less specific tier after "+core.CalleeName(&c.Call)+" has applied a more specific one to the same relay: the relay's own value is overwritten (precedence inverted)", p.WitnessText(w)...)
				}
			})
		})
	}
	r.Floor("C10.n tier applications on relay objects", nApply, 2)
	r.Hold("C10.n", "tiers-applied-least-specific-first", "", fmt.Sprintf("%d calls applying a tier to a relay object examined", nApply))

	// ---- (o) the resolved relay settings point at configuration values, they never write through such a pointer: a
	// pointer-typed field of a relay result (the public key) is assigned, not copied into — the pointee may be the
	// configuration's own object, shared by every validator ----
	nPtrW := 0
	for _, f := range p.FuncsIn("services/blockrelay/v2") {
		core.EachInstr(f, func(in ssa.Instruction) {
			var dst ssa.Value
			switch x := in.(type) {
			case *ssa.Call:
				if b, ok := x.Call.Value.(*ssa.Builtin); ok && b.Name() == "copy" && len(x.Call.Args) == 2 {
					dst = x.Call.Args[0]
				}
			case *ssa.Store:
				dst = x.Addr
			}
			if dst == nil {
				return
			}
			// does dst lead, through a load of a pointer-typed field of a RelayConfig, into the pointee?
			v := dst
			for depth := 0; depth < 6 && v != nil; depth++ {
				switch y := v.(type) {
				case *ssa.Slice:
					v = y.X
					continue
				case *ssa.IndexAddr:
					v = y.X
					continue
				case *ssa.UnOp:
					if fa, ok := y.X.(*ssa.FieldAddr); ok {
						if id, _, ok := core.FieldOfAddr(fa); ok && strings.HasSuffix(id.Owner, "beaconblockproposer.RelayConfig") {
							if _, isPtr := y.Type().Underlying().(*types.Pointer); isPtr {
								nPtrW++
								r.Violate("C10.o", fmt.Sprintf("%s|writes-through|%s#%d", core.FnKey(f), id.Name, nPtrW), p.Pos(in.Pos()), "relay field "+id.Name+" is written through (copy/store into the object it points at) instead of being assigned: the object may belong to the stored configuration, so one proposer's override changes the relay-level default every other validator resolves to")
							}
						}
					}
				}
				break
			}
		})
	}
	if nPtrW == 0 {
		r.Hold("C10.o", "pointer-fields-assigned-not-written-through", "", "no store or copy goes through a pointer-typed field of a relay result")
	}

	// ---- (p) numbers in the configuration documents are decimal: ParseUint/ParseInt with base 10 (base 0 reads a
	// zero-padded value as octal and accepts 0x…/underscores) ----
	nParse := 0
	for _, f := range p.FuncsIn(append([]string{"services/blockrelay"}, cfgRels...)...) {
		for _, ci := range core.Calls(f, func(c *ssa.CallCommon) bool {
			n := core.CalleeName(c)
			return n == "strconv.ParseUint" || n == "strconv.ParseInt"
		}) {
			nParse++
			b := ci.Common().Args[1]
			r.Check(core.IsIntConst(b, 10), "C10.p", fmt.Sprintf("%s|decimal#%d", core.FnKey(f), nParse), p.Pos(ci.Pos()), "the value is parsed as a decimal number", "the value is parsed with base "+ds.D(b).String()+": a zero-padded decimal is read as octal and other notations are accepted, so the configured gas limit is not the one applied")
		}
	}
	r.Floor("C10.p integer parses in the configuration documents", nParse, 2)

	// ---- (q) the name an account entry is matched against is always "<wallet>/<account>": every return of the naming
	// helper is the joined form (or the fixed unknown name), never the bare account name ----
	if f := p.Func("services/blockrelay/v2", "", "setAccountName"); f != nil {
		for i, ret := range core.ReturnsOf(f) {
			if len(ret.Results) != 1 {
				continue
			}
			for _, lf := range core.PhiLeaves(ret.Results[0], ret) {
				okName := false
				if cs, isC := constString(lf.V); isC {
					okName = strings.Contains(cs, "/")
				} else if fs, isS := sprintfExpanded(lf.V); isS {
					okName = strings.Contains(fs, "/%s") || strings.Contains(fs, "%s/")
				}
				r.Check(okName, "C10.q", fmt.Sprintf("%s|return#%d|joined-name", core.FnKey(f), i+1), p.Pos(ret.Pos()), "the name is wallet/account", "the name handed to the matcher is "+ds.D(lf.V).String()+", not the joined wallet/account form: an account whose own name contains a slash is matched against entries meant for another wallet")
			}
		}
	}

	// ---- (g) version dispatch ----
	if f := p.Func("services/blockrelay", "", "UnmarshalJSON"); f != nil {
		arms := map[string]bool{}
		core.EachInstr(f, func(in ssa.Instruction) {
			if ifi, ok := in.(*ssa.If); ok {
				c := core.DecodeCond(ds, ifi)
				if c.Op == "==" && c.X.HasFieldSuffix("Version") && c.Y.Kind == "const" {
					arms[c.Y.Name] = true
				}
			}
		})
		// the dispatch as a table: a lookup by the document's version in a package-level map filled with constant keys
		core.EachInstr(f, func(in ssa.Instruction) {
			lk, ok := in.(*ssa.Lookup)
			if !ok || !ds.D(lk.Index).HasFieldSuffix("Version") {
				return
			}
			ld, ok := lk.X.(*ssa.UnOp)
			if !ok {
				return
			}
			g, ok := ld.X.(*ssa.Global)
			if !ok || g.Pkg == nil {
				return
			}
			if initFn := g.Pkg.Func("init"); initFn != nil {
				core.EachInstr(initFn, func(x ssa.Instruction) {
					mu, ok := x.(*ssa.MapUpdate)
					if !ok {
						return
					}
					filled := false
					if mu.Map.Referrers() != nil {
						for _, ref := range *mu.Map.Referrers() {
							if st, ok := ref.(*ssa.Store); ok && st.Addr == ssa.Value(g) {
								filled = true
							}
						}
					}
					if c, ok := mu.Key.(*ssa.Const); ok && filled && c.Value != nil {
						arms[c.Value.ExactString()] = true
					}
				})
			}
		})
		r.Check(arms["0"] && arms["2"], "C10.g", "blockrelay.UnmarshalJSON|arms", p.Pos(f.Pos()), fmt.Sprintf("version arms %v", keysOf(arms)), fmt.Sprintf("the version dispatch has arms %v, expected the unversioned (0) and version 2 documents", keysOf(arms)))
		// success returns carry the configurator of the matching version; a nil error never comes with a nil configurator
		for i, ret := range core.ReturnsOf(f) {
			if len(ret.Results) != 2 || !core.IsNilConst(core.Unspill(ret.Results[1])) {
				continue
			}
			r.Check(!core.IsNilConst(core.Unspill(ret.Results[0])), "C10.g", fmt.Sprintf("blockrelay.UnmarshalJSON|success-return#%d", i+1), p.Pos(ret.Pos()), "success returns a configurator", "success is returned without a configurator (unknown versions must be an error)")
		}
	} else {
		r.Undecide("C10.g", "blockrelay.UnmarshalJSON", "", "anchor not found")
	}

	// ---- (h) fallbacks ----
	if f := p.Func("services/blockrelay/v2", "ExecutionConfig", "ProposerConfig"); f != nil {
		core.EachInstr(f, func(in ssa.Instruction) {
			st, ok := in.(*ssa.Store)
			if !ok {
				return
			}
			id, _, ok := core.FieldOfAddr(st.Addr)
			if !ok || id.Name != "FeeRecipient" || !strings.HasSuffix(id.Owner, "beaconblockproposer.ProposerConfig") {
				return
			}
			d := ds.D(st.Val)
			if d.Kind == "param" {
				r.Check(strings.Contains(strings.ToLower(d.Name), "fallbackfeerecipient"), "C10.h", "v2.ProposerConfig|fee-recipient-fallback", p.Pos(st.Pos()), "without a top-level fee recipient Vouch's fallback is used", "without a top-level fee recipient "+d.Name+" is used")
				w := core.Unguarded(ds, f, nil, func(x ssa.Instruction) bool { return x == in }, func(c core.Cond) int {
					if c.Op != "==" && c.Op != "!=" {
						return -1
					}
					o := c.X
					if c.X.Kind == "const" {
						o = c.Y
					}
					if !o.HasFieldSuffix("FeeRecipient") {
						return -1
					}
					for s := 0; s < 2; s++ {
						if c.RelOnEdge(s) == "==" {
							return s
						}
					}
					return -1
				})
				r.Check(w == nil, "C10.h", "v2.ProposerConfig|fallback-only-when-absent", p.Pos(st.Pos()), "the fallback is used only when the top level has no fee recipient", "the fallback fee recipient can override a configured top-level fee recipient", p.WitnessText(w)...)
			}
		})
	}
	for _, f := range p.FuncsIn("services/blockrelay/v2") {
		for _, ci := range core.Calls(f, func(c *ssa.CallCommon) bool {
			return c.StaticCallee() != nil && c.StaticCallee().Name() == "setRelayConfig"
		}) {
			a := ci.Common().Args
			gd := ds.D(a[len(a)-1])
			if gd.Kind == "param" {
				r.Check(strings.Contains(strings.ToLower(gd.Name), "fallbackgaslimit"), "C10.h", core.FnKey(f)+"|gas-limit-fallback", p.Pos(ci.Pos()), "without a top-level gas limit Vouch's fallback is used", "without a top-level gas limit "+gd.Name+" is used")
			}
		}
	}

	// ---- (i) marshal/unmarshal tables ----
	nPairs := 0
	for _, rel := range cfgRels {
		byRecv := map[string]map[string]*ssa.Function{}
		for _, f := range p.FuncsIn(rel) {
			if f.Parent() != nil || f.Signature.Recv() == nil {
				continue
			}
			if f.Name() != "MarshalJSON" && f.Name() != "UnmarshalJSON" {
				continue
			}
			rn := typeName(f.Signature.Recv().Type())
			if byRecv[rn] == nil {
				byRecv[rn] = map[string]*ssa.Function{}
			}
			byRecv[rn][f.Name()] = f
		}
		var names []string
		for n := range byRecv {
			names = append(names, n)
		}
		sort.Strings(names)
		for _, n := range names {
			m, u := byRecv[n]["MarshalJSON"], byRecv[n]["UnmarshalJSON"]
			if m == nil || u == nil {
				continue
			}
			nPairs++
			written := map[string]bool{}
			for _, sl := range core.StructLits(m, "JSON") {
				for fld, v := range sl.Fields {
					if c, ok := v.(*ssa.Const); ok && c.Value != nil && c.Value.ExactString() == `""` {
						continue
					}
					written[fld] = true
				}
			}
			read := map[string]bool{}
			core.EachInstr(u, func(in ssa.Instruction) {
				fa, ok := in.(*ssa.FieldAddr)
				if !ok {
					return
				}
				if a, ok := fa.X.(*ssa.Alloc); ok && strings.HasSuffix(typeName(a.Type()), "JSON") {
					read[ds.D(fa).Name] = true
				}
			})
			var onlyW, onlyR []string
			for k := range written {
				if !read[k] {
					onlyW = append(onlyW, k)
				}
			}
			for k := range read {
				if !written[k] {
					onlyR = append(onlyR, k)
				}
			}
			sort.Strings(onlyW)
			sort.Strings(onlyR)
			r.Check(len(onlyW) == 0 && len(onlyR) == 0 && len(written) > 0, "C10.i", n+"|field-tables-agree", p.Pos(m.Pos()), fmt.Sprintf("%d fields written and read back", len(written)),
				fmt.Sprintf("MarshalJSON/UnmarshalJSON of %s disagree: written but never read %v, read but never written %v (a round trip loses or invents settings)", n, onlyW, onlyR))
			// an optional (pointer) setting is written whenever it is set: the empty output is produced only on the
			// edge <field> == nil. Anything narrower (e.g. "and greater than zero") drops an explicit zero override on a
			// round trip, after which the value of a less specific tier applies.
			for _, sl := range core.StructLits(m, "JSON") {
				for fld, v := range sl.Fields {
					st := sl.Stores[fld]
					if st == nil {
						continue
					}
					leaves := core.PhiLeaves(v, st)
					if len(leaves) < 2 {
						continue
					}
					var optField *core.VD
					if os.Getenv("VCHECK_DEBUG10") != "" {
						for _, lf := range leaves {
							fmt.Printf("DBG10 %s %s leaf %s\n", n, fld, ds.D(lf.V))
						}
					}
					for _, lf := range leaves {
						ds.D(lf.V).Walk(func(x *core.VD) bool {
							if x.Kind == "field" && len(x.Args) == 1 && x.Args[0].Kind == "param" && x.Args[0].Name == m.Params[0].Name() {
								if rs, ok := derefStruct(m.Params[0].Type()); ok {
									for i := 0; i < rs.NumFields(); i++ {
										if rs.Field(i).Name() == x.Name {
											if _, isPtr := rs.Field(i).Type().Underlying().(*types.Pointer); isPtr {
												optField = x
											}
										}
									}
								}
							}
							return true
						})
					}
					if optField == nil {
						continue
					}
					for _, lf := range leaves {
						c, ok := lf.V.(*ssa.Const)
						if !ok || (c.Value != nil && c.Value.ExactString() != `""`) {
							continue
						}
						fs := optField.String()
						w := core.UnguardedLeaf(ds, m, nil, lf, func(cd core.Cond) int {
							if cd.Op == "" || cd.X == nil || cd.Y == nil {
								return -1
							}
							var o *core.VD
							if cd.Y.Kind == "const" && cd.Y.Name == "nil" {
								o = cd.X
							} else if cd.X.Kind == "const" && cd.X.Name == "nil" {
								o = cd.Y
							} else {
								return -1
							}
							if o.String() != fs {
								return -1
							}
							for e := 0; e < 2; e++ {
								if cd.RelOnEdge(e) == "==" {
									return e
								}
							}
							return -1
						})
						r.Check(w == nil, "C10.i", n+"|"+fld+"|written-whenever-set", p.Pos(st.Pos()), "left empty only when "+fs+" is nil",
							"the output field "+fld+" can be left empty although "+fs+" is set: an explicit override (such as zero) is lost on a marshal/unmarshal round trip and a less specific value then applies", p.WitnessText(w)...)
					}
				}
			}
			// scalings
			md, ud := callNames(m), callNames(u)
			if md["time.Duration.Milliseconds"] {
				r.Check(mentionsConst(u, "1000000"), "C10.i", n+"|grace-scaling", p.Pos(u.Pos()), "grace is written in milliseconds and read back x time.Millisecond", "grace is written in milliseconds but not read back as milliseconds")
			}
			if md["time.Duration.Seconds"] || md["time.Duration.Microseconds"] || md["time.Duration.Nanoseconds"] {
				r.Violate("C10.i", n+"|grace-scaling", p.Pos(m.Pos()), "grace is not written in milliseconds (the documented unit) although it is read back as milliseconds")
			}
			if md["github.com/shopspring/decimal.Decimal.Div"] || ud["github.com/shopspring/decimal.Decimal.Mul"] {
				r.Check(md["github.com/shopspring/decimal.Decimal.Div"] && ud["github.com/shopspring/decimal.Decimal.Mul"], "C10.i", n+"|min-value-scaling", p.Pos(u.Pos()), "min value is divided by wei-per-ETH on output and multiplied on input", "min value scaling is not an inverse pair (Div on output, Mul on input)")
			}
		}
	}
	r.Floor("C10.i marshaler pairs", nPairs, 5)
}

// firstPresentHelper recognises a function f(fallback T, xs ...*T) T (parameters in either order) that
// returns the value behind the first non-nil element of xs in index order, and the fallback when all are
// nil. The template is strict: the only branches are the loop condition and a nil test of the loop
// element; the non-nil edge runs straight to a return of *element, the nil edge straight back to the loop.
func firstPresentHelper(ds *core.Describer, fn *ssa.Function) (fbIdx, varIdx int, ok bool) {
	sig := fn.Signature
	if !sig.Variadic() || sig.Results().Len() != 1 || sig.Recv() != nil || len(fn.Blocks) == 0 || len(fn.Params) != 2 {
		return 0, 0, false
	}
	varIdx = len(fn.Params) - 1
	fbIdx = 0
	vp, fb := fn.Params[varIdx], fn.Params[fbIdx]
	sl, isSlice := vp.Type().Underlying().(*types.Slice)
	if !isSlice {
		return 0, 0, false
	}
	if _, isPtr := sl.Elem().Underlying().(*types.Pointer); !isPtr {
		return 0, 0, false
	}
	var loopIf *ssa.If
	for _, b := range fn.Blocks {
		if len(b.Instrs) == 0 {
			continue
		}
		iff, isIf := b.Instrs[len(b.Instrs)-1].(*ssa.If)
		if !isIf {
			continue
		}
		cmp, isBin := iff.Cond.(*ssa.BinOp)
		if !isBin {
			return 0, 0, false
		}
		if c, ok := core.RangeIndex(cmp.X); ok && c == ssa.Value(vp) && cmp.Op.String() == "<" {
			if loopIf != nil {
				return 0, 0, false
			}
			loopIf = iff
			continue
		}
		if _, ok := explicitIdx(cmp.X, vp); ok && cmp.Op.String() == "<" {
			if loopIf != nil {
				return 0, 0, false
			}
			loopIf = iff
			continue
		}
	}
	if loopIf == nil {
		return 0, 0, false
	}
	straight := func(b *ssa.BasicBlock) *ssa.BasicBlock {
		for n := 0; n < 8 && len(b.Succs) == 1; n++ {
			if b == loopIf.Block() {
				return b
			}
			b = b.Succs[0]
		}
		return b
	}
	nTests := 0
	for _, b := range fn.Blocks {
		if len(b.Instrs) == 0 {
			continue
		}
		iff, isIf := b.Instrs[len(b.Instrs)-1].(*ssa.If)
		if !isIf || iff == loopIf {
			continue
		}
		cmp := iff.Cond.(*ssa.BinOp)
		var e ssa.Value
		switch {
		case core.IsNilConst(cmp.Y):
			e = cmp.X
		case core.IsNilConst(cmp.X):
			e = cmp.Y
		default:
			return 0, 0, false
		}
		if c, ok := core.LoopElem(e); !ok || c != ssa.Value(vp) {
			return 0, 0, false
		}
		nonNil, isNil := 0, 1
		switch cmp.Op.String() {
		case "!=":
		case "==":
			nonNil, isNil = 1, 0
		default:
			return 0, 0, false
		}
		// the non-nil edge: straight to a return of *e
		end := straight(b.Succs[nonNil])
		ret, isRet := end.Instrs[len(end.Instrs)-1].(*ssa.Return)
		if !isRet || len(ret.Results) != 1 {
			return 0, 0, false
		}
		ld, isLoad := ret.Results[0].(*ssa.UnOp)
		if !isLoad || ld.Op.String() != "*" || !sameExpr(ld.X, e, 0) {
			return 0, 0, false
		}
		// the nil edge: straight back to the loop
		if straight(b.Succs[isNil]) != loopIf.Block() {
			return 0, 0, false
		}
		nTests++
	}
	if nTests != 1 {
		return 0, 0, false
	}
	// every other return yields the fallback, and is reached from the loop's exit only (there is no other branch)
	for _, ret := range core.ReturnsOf(fn) {
		if len(ret.Results) != 1 {
			return 0, 0, false
		}
		if ret.Results[0] == ssa.Value(fb) {
			continue
		}
		if ld, isLoad := ret.Results[0].(*ssa.UnOp); isLoad && ld.Op.String() == "*" {
			if c, ok := core.LoopElem(ld.X); ok && c == ssa.Value(vp) {
				continue
			}
		}
		return 0, 0, false
	}
	// no calls, no stores: the helper has no other effect
	clean := true
	core.EachInstr(fn, func(in ssa.Instruction) {
		switch x := in.(type) {
		case *ssa.Store, *ssa.MapUpdate, *ssa.Go, *ssa.Defer, *ssa.Send, *ssa.Panic:
			clean = false
		case *ssa.Call:
			if b, ok := x.Call.Value.(*ssa.Builtin); !ok || b.Name() != "len" {
				clean = false
			}
		}
	})
	return fbIdx, varIdx, clean
}

// explicitIdx: v is the induction variable of `for i := 0; i < len(coll); i++`.
func explicitIdx(v ssa.Value, coll ssa.Value) (ssa.Value, bool) {
	c, ok := core.RangeIndex(v)
	if ok && c == coll {
		return c, true
	}
	return nil, false
}

// variadicElems: the values stored, in index order, into the array behind a variadic argument slice.
func variadicElems(v ssa.Value) []ssa.Value {
	sl, ok := v.(*ssa.Slice)
	if !ok {
		return nil
	}
	al, ok := sl.X.(*ssa.Alloc)
	if !ok || al.Referrers() == nil {
		return nil
	}
	byIdx := map[int64]ssa.Value{}
	n := int64(0)
	for _, ref := range *al.Referrers() {
		ia, ok := ref.(*ssa.IndexAddr)
		if !ok || ia.Referrers() == nil {
			continue
		}
		c, ok := ia.Index.(*ssa.Const)
		if !ok {
			return nil
		}
		for _, r2 := range *ia.Referrers() {
			if st, ok := r2.(*ssa.Store); ok && st.Addr == ssa.Value(ia) {
				byIdx[c.Int64()] = st.Val
				if c.Int64()+1 > n {
					n = c.Int64() + 1
				}
			}
		}
	}
	out := make([]ssa.Value, n)
	for i := range out {
		out[i] = byIdx[int64(i)]
	}
	return out
}

func derefStruct(t types.Type) (*types.Struct, bool) {
	if p, ok := t.Underlying().(*types.Pointer); ok {
		t = p.Elem()
	}
	s, ok := t.Underlying().(*types.Struct)
	return s, ok
}

func keysOf(m map[string]bool) []string {
	var out []string
	for k := range m {
		out = append(out, k)
	}
	sort.Strings(out)
	return out
}

func callNames(f *ssa.Function) map[string]bool {
	out := map[string]bool{}
	core.EachInstr(f, func(in ssa.Instruction) {
		if ci, ok := in.(ssa.CallInstruction); ok {
			out[core.CalleeName(ci.Common())] = true
		}
	})
	return out
}

func mentionsConst(f *ssa.Function, exact string) bool {
	found := false
	core.EachInstr(f, func(in ssa.Instruction) {
		var ops []*ssa.Value
		for _, op := range in.Operands(ops) {
			if c, ok := (*op).(*ssa.Const); ok && c.Value != nil && c.Value.ExactString() == exact {
				found = true
			}
		}
	})
	return found
}

// strShape decides whether the string value v (used at instruction at) starts with ^ and ends with $ on every path.
func strShape(ds *core.Describer, f *ssa.Function, v ssa.Value, at ssa.Instruction, depth int) (starts, ends bool) {
	if depth > 8 {
		return false, false
	}
	switch x := v.(type) {
	case *ssa.Const:
		if s, ok := constString(x); ok {
			return strings.HasPrefix(s, "^"), strings.HasSuffix(s, "$")
		}
	case *ssa.BinOp:
		if x.Op.String() == "+" {
			ls, _ := strShape(ds, f, x.X, at, depth+1)
			_, re := strShape(ds, f, x.Y, at, depth+1)
			return ls, re
		}
	case *ssa.Call:
		if x.Call.StaticCallee() != nil && x.Call.StaticCallee().Name() == "Sprintf" {
			format, ok := constString(x.Call.Args[0])
			if !ok {
				return false, false
			}
			d := ds.D(x.Call.Args[1])
			var first, last ssa.Value
			if d.Kind == "varargs" && len(d.Args) > 0 {
				first, last = unwrapIface(d.Args[0].Val), unwrapIface(d.Args[len(d.Args)-1].Val)
			}
			starts = strings.HasPrefix(format, "^")
			ends = strings.HasSuffix(format, "$")
			if !starts && strings.HasPrefix(format, "%s") && first != nil {
				starts, _ = strShape(ds, f, first, x, depth+1)
			}
			if !ends && strings.HasSuffix(format, "%s") && last != nil {
				_, ends = strShape(ds, f, last, x, depth+1)
			}
			return starts, ends
		}
	case *ssa.Phi:
		starts, ends = true, true
		for i, e := range x.Edges {
			pb := x.Block().Preds[i]
			lf := core.Leaf{V: e, At: pb.Instrs[len(pb.Instrs)-1], Pred: pb, To: x.Block()}
			ls, le := strShape(ds, f, lf.V, lf.At, depth+1)
			if !ls {
				// the edge is taken only when the value already has the prefix
				ls = edgeEstablishes(ds, f, lf, "strings.HasPrefix", "^")
			}
			if !le {
				le = edgeEstablishes(ds, f, lf, "strings.HasSuffix", "$")
			}
			starts = starts && ls
			ends = ends && le
		}
		return starts, ends
	}
	return false, false
}

func unwrapIface(v ssa.Value) ssa.Value {
	if mi, ok := v.(*ssa.MakeInterface); ok {
		return mi.X
	}
	return v
}

// edgeEstablishes: the leaf flows along an edge on which fn(value, lit) is true for the value that carries the same variable.
func edgeEstablishes(ds *core.Describer, f *ssa.Function, lf core.Leaf, fn, lit string) bool {
	if lf.Pred == nil {
		return false
	}
	w := core.UnguardedLeaf(ds, f, nil, lf, func(c core.Cond) int {
		if c.B == nil || !c.B.IsCall(fn) || len(c.B.Args) != 2 {
			return -1
		}
		if s, ok := constString(c.B.Args[1].Val); !ok || s != lit {
			return -1
		}
		// the tested value is this leaf's value
		if c.B.Args[0].Val != lf.V && c.B.Args[0].String() != ds.D(lf.V).String() {
			return -1
		}
		if c.BoolOnEdge(0) {
			return 0
		}
		return 1
	})
	return w == nil
}

func derefStructOf(t types.Type) *types.Struct {
	st, ok := derefStruct(t)
	if !ok {
		return nil
	}
	return st
}

// checkFirstMatchOptions: inside the loop l over the proposer entries, the call that applies an entry is reached only
// when the entry matched, and after it the loop is not entered again (the first matching entry wins). Returns the
// number of applying calls examined.
func checkFirstMatchOptions(p *core.Prog, r *core.Report, ds *core.Describer, rule string, f *ssa.Function, l *core.Loop) int {
	n := 0
	// the options call inside the loop
	core.EachInstr(f, func(in ssa.Instruction) {
		c, ok := in.(*ssa.Call)
		if !ok || !l.Contains(c.Pos()) || c.Call.StaticCallee() == nil || c.Call.StaticCallee().Pkg != f.Pkg {
			return
		}
		takesEntry := false
		for _, a := range c.Call.Args {
			if _, _, ok := core.RangeElem(a); ok {
				takesEntry = true
			}
		}
		if !takesEntry {
			return
		}
		n++
		// after the call the loop is not re-entered
		var header *ssa.BasicBlock
		for _, b := range f.Blocks {
			for _, x := range b.Instrs {
				if phi, ok := x.(*ssa.Phi); ok && phi.Comment == "rangeindex" && l.Stmt.Pos() <= phi.Pos() && phi.Pos() <= l.Stmt.End() {
					header = b
				}
			}
		}
		if header == nil {
			// position-less phi: take the block containing the loop's index increment compare
			for _, b := range f.Blocks {
				for _, x := range b.Instrs {
					if phi, ok := x.(*ssa.Phi); ok && phi.Comment == "rangeindex" {
						header = b
					}
				}
			}
		}
		if header == nil {
			r.Undecide(rule, core.FnKey(f)+"|first-match-wins", p.Pos(c.Pos()), "cannot locate the loop header")
			return
		}
		w := core.PathQuery{Fn: f, From: c, Target: func(x ssa.Instruction) bool { return x.Block() == header }}.Find()
		r.Check(w == nil, rule, core.FnKey(f)+"|first-match-wins", p.Pos(c.Pos()), "after applying a matching entry the loop over entries is left", "after applying a matching proposer entry the loop continues: later entries override the first match", p.WitnessText(w)...)
		// the call is guarded by match == true
		w2 := core.Unguarded(ds, f, nil, func(x ssa.Instruction) bool { return x == in }, func(cd core.Cond) int {
			if cd.B == nil {
				return -1
			}
			if !(cd.B.Kind == "phi" || cd.B.IsCall("regexp.Regexp.MatchString") || cd.B.IsCall("bytes.Equal")) {
				return -1
			}
			if !(cd.B.MentionsCall("regexp.Regexp.MatchString") || cd.B.MentionsCall("bytes.Equal")) {
				return -1
			}
			if cd.BoolOnEdge(0) {
				return 0
			}
			return 1
		})
		r.Check(w2 == nil, rule, core.FnKey(f)+"|only-matching-entry", p.Pos(c.Pos()), "an entry is applied only when it matched", "a proposer entry can be applied without having matched the validator", p.WitnessText(w2)...)
	})
	return n
}
