package rules

import (
	"fmt"
	"go/ast"
	"go/constant"
	"go/token"
	"go/types"
	"sort"
	"strings"

	"golang.org/x/tools/go/ssa"

	"vouchcheck/internal/core"
)

func init() {
	register(&Pack{
		ID:  "C07",
		Run: runC07,
		Expl: "Decides, for every data strategy under strategies/ (builder bids are C09), structural necessary conditions of 'multi-node strategies return the right valid answer, in bounded time': " +
			"(a) every blocking select and every bare channel receive has an arm on the Done() channel of a context that derives (through parameters and closures) from context.WithTimeout/WithDeadline with the strategy's timeout; " +
			"(b) inside a collection loop the Done() arm leaves the loop or changes a variable of the loop condition (otherwise the loop spins once the deadline has passed); (c) every cancel function is called or deferred on every path; " +
			"(d) a response is forwarded to the collector only on the nil-error edge of the provider call, attestation data only with target epoch == epoch of the requested slot (C01.h), proposals of bellatrix and later only with a non-zero fee recipient; " +
			"(e) a nil error is returned only with a non-nil selected value; (f) 'best' replaces its candidate only when the new score is greater (or equal), taking value, score and provider from the same response; " +
			"(g) 'majority' succeeds only when the winning count >= threshold (exactly that relation) and counts each response under its own root; (h) what 'first' returns was received from the result channel; " +
			"(i) one request goroutine per configured provider (range over the provider map without early exit) and the expected-response count is len of that map. " +
			"Added with the third seeding round: (k) a received response is passed over in favour of the kept candidate only where a candidate exists (the first acceptable response is adopted); (l) no 64-bit accessor of an arbitrary-precision amount in the scoring code. Added with the fourth seeding round: (m) no strategy fan-out runs under an errgroup context; (n) the head-nearness bonus is withheld only on a failed lookup or head > attestation slot; (o) tallies of the majority strategies are per call. Added with the fifth seeding round: (p) a fan-out worker sends at most one message per request on its result/error channels (no path from one send to another), (q) whether a proposal's fee recipient is examined depends on the proposal's version only. Added with the sixth seeding round and the false-alarm regression: (r) in a selection loop a new leader (tally raised) re-assigns every loop-carried best* variable; (s) the context under which the requests are issued is not cancelled before the last collector; (x) no integer ratio converted to floating point afterwards. Added with the seventh seeding round: (t) a majority collector goes on waiting exactly while the largest tally is below n/2+1 (decided by evaluating the comparison for all small n and counts). Added with the eighth seeding round: (i, extended) every trip round a provider fan-out loop passes the go statement; (t) is restricted to comparisons inside a loop; (y) C19.4 (the timeout getter) is taken over. Added with the ninth seeding round: (w) a collector loops while the sum of its counters differs from the number of requests; an arm that assigns a counter from that total leaves the sum equal to it (decided by evaluating the arm's assignments for arbitrary counter values); (l) also covers the deadline strategy. NOT decided: optimality under latency (which responses have arrived by the decision point), score arithmetic, map-order tie-breaks, wall-clock bounds.",
		Technique: "template conformance over all strategy packages on SSA and typed AST: context provenance through parameters/closures, select-arm analysis, cancel pairing by path queries, guard/edge-deletion with relation sets, loop-exit analysis",
		Rule:      "one obligation per select/receive (a,b), per cancel function (c), per forwarding send (d), per success return (e,h), per score comparison (f), per threshold test (g), per fan-out loop (i)",
	})
}

func strategyFuncs(p *core.Prog, includeBids bool) []*ssa.Function {
	var out []*ssa.Function
	for _, f := range p.SrcFuncs() {
		rel := core.RelPkg(f.Pkg.Pkg.Path())
		if !strings.HasPrefix(rel, "strategies/") {
			continue
		}
		if !includeBids && strings.HasPrefix(rel, "strategies/builderbid") {
			continue
		}
		out = append(out, f)
	}
	return out
}

// ctxHasDeadline: does the context value derive from WithTimeout/WithDeadline (through parameters and captured variables)?
func ctxHasDeadline(p *core.Prog, ds *core.Describer, f *ssa.Function, v ssa.Value, depth int) (bool, string) {
	if depth > 5 {
		return false, "too deep"
	}
	d := ds.D(v)
	if d.MentionsCall("context.WithTimeout") || d.MentionsCall("context.WithDeadline") {
		return true, ""
	}
	// the context may have been wrapped (tracer Start, WithValue, logger WithContext): find the parameter it derives from
	var prm *ssa.Parameter
	var owner *ssa.Function
	d.Walk(func(x *core.VD) bool {
		if pv, ok := x.Val.(*ssa.Parameter); ok && strings.HasSuffix(pv.Type().String(), "context.Context") {
			prm, owner = pv, pv.Parent()
		}
		return true
	})
	if prm == nil {
		return false, "context " + d.String() + " has no deadline"
	}
	k := -1
	for i, q := range owner.Params {
		if q == prm {
			k = i
		}
	}
	// a closure parameter: bound at the go/call statement in the parent
	var origins []ssa.Value
	var originFns []*ssa.Function
	if owner.Parent() != nil {
		par := owner.Parent()
		core.EachInstr(par, func(in ssa.Instruction) {
			ci, ok := in.(ssa.CallInstruction)
			if !ok {
				return
			}
			var fn *ssa.Function
			switch cv := ci.Common().Value.(type) {
			case *ssa.MakeClosure:
				fn, _ = cv.Fn.(*ssa.Function)
			case *ssa.Function:
				fn = cv
			}
			if fn == owner && k < len(ci.Common().Args) {
				origins = append(origins, ci.Common().Args[k])
				originFns = append(originFns, par)
			}
		})
	} else {
		n := p.CallGraph().Nodes[owner]
		if n != nil {
			for _, e := range n.In {
				if e.Site != nil && e.Site.Common().StaticCallee() == owner && k < len(e.Site.Common().Args) {
					origins = append(origins, e.Site.Common().Args[k])
					originFns = append(originFns, e.Caller.Func)
				}
			}
		}
	}
	if len(origins) == 0 {
		return false, "context parameter " + prm.Name() + " of " + core.FnKey(owner) + " is the caller's own context (no strategy deadline)"
	}
	for i, o := range origins {
		if ok, why := ctxHasDeadline(p, ds, originFns[i], o, depth+1); !ok {
			return false, why
		}
	}
	return true, ""
}

func runC07(p *core.Prog, r *core.Report, tier string) {
	ds := core.NewDescriber()
	fns := strategyFuncs(p, false)
	if len(fns) == 0 {
		r.Undecide("C07.anchor", "strategies", "", "no strategy functions found")
		return
	}

	// ---- (s) the requests run under the context that is cancelled last (shared with C09.k) ----
	nReqCtx := checkRequestContextOutlivesCollectors(p, r, ds, "C07.s", fns)
	r.Floor("C07.s cancel calls of request contexts", nReqCtx, 1)

	// ---- (r) a new leader replaces everything that describes the leader: in a selection loop, the variables that are
	// carried round the loop under names starting with "best" are all assigned on every path through the branch that
	// raises the best count (a tie-break datum left over from the former leader decides later ties wrongly) ----
	nLead := 0
	for _, f := range fns {
		loops := naturalLoops(f)
		for header, body := range loops {
			var bests []*ssa.Phi
			for _, in := range header.Instrs {
				phi, ok := in.(*ssa.Phi)
				if !ok {
					break
				}
				if strings.HasPrefix(phi.Comment, "best") {
					bests = append(bests, phi)
				}
			}
			if len(bests) < 2 {
				continue
			}
			// the counting variable and the branch that raises it: `count > bestCount`
			for _, cnt := range bests {
				// the tally: a plain integer (slots and the like are named types and serve to break ties)
				if b, ok := cnt.Type().(*types.Basic); !ok || b.Info()&types.IsInteger == 0 {
					continue
				}
				for blk := range body {
					iff, ok := blk.Instrs[len(blk.Instrs)-1].(*ssa.If)
					if !ok {
						continue
					}
					cmp, ok := iff.Cond.(*ssa.BinOp)
					if !ok || !((cmp.Op == token.GTR && cmp.Y == ssa.Value(cnt)) || (cmp.Op == token.LSS && cmp.X == ssa.Value(cnt))) {
						continue
					}
					lead := blk.Succs[0]
					for _, other := range bests {
						if other == cnt {
							continue
						}
						nLead++
						// can control go from the leader branch round to the header with `other` unchanged?
						unchanged := false
						for i, e := range other.Edges {
							pred := header.Preds[i]
							if !body[pred] {
								continue
							}
							var froms []*ssa.BasicBlock
							if e == ssa.Value(other) {
								froms = append(froms, pred) // handed round unchanged on this edge
							} else if inner, isPhi := e.(*ssa.Phi); isPhi {
								for k, ie := range inner.Edges {
									if ie == ssa.Value(other) {
										froms = append(froms, inner.Block().Preds[k])
									}
								}
							}
							for _, from := range froms {
								if lead == from || (core.PathQuery{Fn: f, From: lead.Instrs[0], Target: func(x ssa.Instruction) bool { return x.Block() == from }, Avoid: func(x ssa.Instruction) bool { return x.Block() == header }}).Find() != nil {
									unchanged = true
								}
							}
						}
						r.Check(!unchanged, "C07.r", fmt.Sprintf("%s|new-leader-sets|%s", core.FnKey(f), other.Comment), p.Pos(core.IfPos(iff)), "a new leader also sets "+other.Comment,
							"when a response takes the lead ("+cnt.Comment+" raised) "+other.Comment+" can keep the value recorded for the former leader: a later tie is then broken against stale data and the wrong response is returned")
					}
				}
			}
		}
	}
	r.Floor("C07.r leader data in selection loops", nLead, 1)

	// ---- (a) every wait can time out ----
	nSel, nRecv := 0, 0
	for _, f := range fns {
		idx := 0
		core.EachInstr(f, func(in ssa.Instruction) {
			switch x := in.(type) {
			case *ssa.Select:
				if !x.Blocking {
					return
				}
				idx++
				nSel++
				construct := fmt.Sprintf("%s|select#%d", core.FnKey(f), idx)
				var doneArms []ssa.Value
				for _, st := range x.States {
					d := ds.D(st.Chan)
					if d.IsCall("context.Context.Done") {
						if c, ok := st.Chan.(*ssa.Call); ok {
							doneArms = append(doneArms, c.Call.Value)
						}
					}
				}
				if len(doneArms) == 0 {
					r.Violate("C07.a", construct, p.Pos(x.Pos()), "blocking select without a context-done arm: the strategy can wait for ever on unresponsive nodes")
					return
				}
				okAny := false
				why := ""
				for _, cv := range doneArms {
					ok, w := ctxHasDeadline(p, ds, f, cv, 0)
					if ok {
						okAny = true
					} else {
						why = w
					}
				}
				r.Check(okAny, "C07.a", construct, p.Pos(x.Pos()), "the select has a Done() arm of a context with the strategy's deadline", "the select's Done() arm belongs to a context without the strategy's deadline: "+why)
			case *ssa.UnOp:
				if x.Op != token.ARROW {
					return
				}
				nRecv++
				d := ds.D(x.X)
				ok := d.IsCall("context.Context.Done") || d.MentionsCall("time.After")
				r.Check(ok, "C07.a", fmt.Sprintf("%s|receive|%s", core.FnKey(f), d.String()), p.Pos(x.Pos()), "bare receive on a done/timer channel", "bare channel receive without timeout alternative: "+d.String())
			}
		})
	}
	r.Count("blocking selects", nSel)
	r.Count("bare receives", nRecv)
	r.Floor("C07.a blocking selects in strategies", nSel, 18)

	// ---- (b) the Done() arm makes progress (AST) ----
	nArms := 0
	for _, f := range fns {
		body := core.FuncBody(f)
		pk := p.PkgOf(f)
		if body == nil || pk == nil {
			continue
		}
		for _, l := range p.Loops(f) {
			fs, ok := l.Stmt.(*ast.ForStmt)
			if !ok {
				continue
			}
			condVars := map[types.Object]bool{}
			if fs.Cond != nil {
				ast.Inspect(fs.Cond, func(n ast.Node) bool {
					if id, ok := n.(*ast.Ident); ok {
						if o := pk.TypesInfo.ObjectOf(id); o != nil {
							condVars[o] = true
						}
					}
					return true
				})
			}
			ast.Inspect(l.Body, func(n ast.Node) bool {
				switch n.(type) {
				case *ast.FuncLit:
					return false
				case *ast.ForStmt, *ast.RangeStmt:
					return n == ast.Node(l.Stmt)
				}
				cc, ok := n.(*ast.CommClause)
				if !ok || cc.Comm == nil {
					return true
				}
				if !strings.Contains(types.ExprString(commExpr(cc.Comm)), ".Done()") {
					return true
				}
				nArms++
				progress := false
				for _, st := range cc.Body {
					ast.Inspect(st, func(m ast.Node) bool {
						switch s := m.(type) {
						case *ast.FuncLit:
							return false
						case *ast.ReturnStmt:
							progress = true
						case *ast.BranchStmt:
							if s.Tok == token.BREAK && s.Label != nil {
								progress = true
							}
							if s.Tok == token.GOTO {
								progress = true
							}
						case *ast.AssignStmt:
							for _, lhs := range s.Lhs {
								if id, ok := lhs.(*ast.Ident); ok && condVars[pk.TypesInfo.ObjectOf(id)] {
									progress = true
								}
							}
						case *ast.IncDecStmt:
							if id, ok := s.X.(*ast.Ident); ok && condVars[pk.TypesInfo.ObjectOf(id)] {
								progress = true
							}
						}
						return true
					})
				}
				r.Check(progress, "C07.b", fmt.Sprintf("%s|done-arm|%s", core.FnKey(f), types.ExprString(commExpr(cc.Comm))), p.Pos(cc.Pos()),
					"the Done() arm leaves the loop or changes a variable of the loop condition", "the Done() arm neither leaves the loop nor changes its condition: once the deadline has passed the loop spins without ever finishing")
				return true
			})
		}
	}
	r.Floor("C07.b Done() arms inside collection loops", nArms, 14)

	// ---- (c) cancel functions are called on every path ----
	nCancel := 0
	for _, f := range fns {
		core.EachInstr(f, func(in ssa.Instruction) {
			c, ok := in.(*ssa.Call)
			if !ok || c.Call.StaticCallee() == nil {
				return
			}
			n := core.FnKey(c.Call.StaticCallee())
			if n != "context.WithTimeout" && n != "context.WithDeadline" && n != "context.WithCancel" {
				return
			}
			cancel := core.ExtractOf(c, 1)
			if cancel == nil {
				r.Violate("C07.c", core.FnKey(f)+"|cancel-discarded", p.Pos(c.Pos()), "the cancel function of a derived context is discarded")
				return
			}
			nCancel++
			isCancelCall := func(x ssa.Instruction) bool {
				ci, ok := x.(ssa.CallInstruction)
				if !ok {
					return false
				}
				if ci.Common().Value == ssa.Value(cancel) {
					return true
				}
				// deferred closure / captured variable calling it
				return false
			}
			// captured by closures that call it (defer func(){cancel()}()) or passed on: accept if the value escapes into a defer
			w := core.PathQuery{Fn: f, From: c, Target: core.IsReturn, Avoid: isCancelCall}.Find()
			name := "cancel"
			if cancel.Referrers() != nil {
				for _, ref := range *cancel.Referrers() {
					if dr, ok := ref.(*ssa.DebugRef); ok {
						if id, ok := dr.Expr.(*ast.Ident); ok {
							name = id.Name
						}
					}
				}
			}
			r.Check(w == nil, "C07.c", core.FnKey(f)+"|"+name+"-called", p.Pos(c.Pos()), "the cancel function is called on every path to a return", "a return is reachable without calling the derived context's cancel function "+name+" (its timer and goroutines live until the deadline)", p.WitnessText(w)...)
		})
	}
	r.Floor("C07.c derived contexts", nCancel, 14)

	// ---- (d) forwarding only valid responses ----
	nSend := 0
	for _, f := range fns {
		var provider *ssa.Call
		core.EachInstr(f, func(in ssa.Instruction) {
			if c, ok := in.(*ssa.Call); ok && c.Call.IsInvoke() && strings.HasSuffix(core.PkgOfType(c.Call.Value.Type()), "attestantio/go-eth2-client") {
				sig := c.Call.Signature()
				if sig.Results().Len() == 2 && core.IsErrorType(sig.Results().At(1).Type()) {
					provider = c
				}
			}
		})
		if provider == nil {
			continue
		}
		errEx := core.ExtractOf(provider, 1)
		core.EachInstr(f, func(in ssa.Instruction) {
			snd, ok := in.(*ssa.Send)
			if !ok {
				return
			}
			vd := ds.D(snd.X)
			// sends that carry (part of) the provider's response — not the failure reports, which carry its error
			if strings.Contains(strings.ToLower(snd.Chan.Type().String()), "error") {
				return
			}
			if !valueCarries(ds, f, snd.X, provider) {
				return
			}
			nSend++
			construct := core.FnKey(f) + "|forward"
			if errEx == nil {
				r.Violate("C07.d", construct+"|error-ignored", p.Pos(snd.Pos()), "the provider's error is never looked at")
				return
			}
			w := core.Unguarded(ds, f, provider, func(x ssa.Instruction) bool { return x == in }, func(c core.Cond) int { return core.ErrNilSucc(c, errEx) })
			r.Check(w == nil, "C07.d", construct+"|only-on-success", p.Pos(snd.Pos()), "a response is forwarded only on the provider call's nil-error edge", "a response can be forwarded although the provider call failed: "+vd.String(), p.WitnessText(w)...)
			// proposals: fee recipient rule
			if strings.HasSuffix(core.RelPkg(f.Pkg.Pkg.Path()), "beaconblockproposal/best") {
				feeOK := false
				core.EachInstr(f, func(y ssa.Instruction) {
					if c, ok := y.(*ssa.Call); ok && core.MethodName(c.Common()) == "FeeRecipient" {
						feeOK = true
					}
				})
				r.Check(feeOK, "C07.d", construct+"|fee-recipient-checked", p.Pos(snd.Pos()), "the proposal's fee recipient is examined before forwarding", "proposals are forwarded without examining the fee recipient")
			}
		})
	}
	r.Floor("C07.d forwarding sends", nSend, 10)
	// attestation data: the strategy's own validity rule (shared with C01.h)
	checkAttestationDataStrategyFilter(p, r, ds, "C07.d")
	// beaconblockproposal/best: zero fee recipient of execution-era blocks is refused
	for _, f := range p.FuncsIn("strategies/beaconblockproposal/best") {
		for _, ci := range core.CallsNamed(f, "IsZero") {
			call, ok := ci.(*ssa.Call)
			if !ok || !ds.D(call).MentionsCall("FeeRecipient") {
				continue
			}
			// after IsZero() == true no response send is reachable
			zeroTrue := func(c core.Cond) int {
				if c.B != nil && c.B.Val == ssa.Value(call) {
					if c.BoolOnEdge(0) {
						return 0
					}
					return 1
				}
				return -1
			}
			est := core.GuardEdges(ds, f, zeroTrue)
			for b, s := range est {
				// with jump threading: the branch may record the refusal in an error variable that is tested after the merge
				isRespSend := func(in ssa.Instruction) bool {
					snd, ok := in.(*ssa.Send)
					return ok && strings.Contains(snd.Chan.Type().String(), "Response") && !strings.Contains(strings.ToLower(snd.Chan.Type().String()), "error")
				}
				bad := core.PathQuery{Fn: f, StartEdge: &[2]*ssa.BasicBlock{b, b.Succs[s]}, Target: isRespSend}.Find() != nil
				r.Check(!bad, "C07.d", core.FnKey(f)+"|zero-fee-recipient-refused", p.Pos(call.Pos()), "a proposal with a zero fee recipient is not forwarded as a response", "a proposal with a zero fee recipient can still be forwarded as a response")
			}
		}
	}

	// ---- (e)(h) success returns ----
	nRet := 0
	for _, f := range fns {
		if f.Parent() != nil || f.Signature.Results().Len() != 2 || !core.IsErrorType(f.Signature.Results().At(1).Type()) {
			continue
		}
		if !strings.Contains(f.Signature.Results().At(0).Type().String(), "api.Response") {
			continue
		}
		hasSelect := false
		for _, g := range append([]*ssa.Function{f}, calleesInPkg(f)...) {
			core.EachInstr(g, func(in ssa.Instruction) {
				if s, ok := in.(*ssa.Select); ok && s.Blocking {
					hasSelect = true
				}
			})
		}
		if !hasSelect {
			continue
		}
		for i, ret := range core.ReturnsOf(f) {
			if len(ret.Results) != 2 {
				continue
			}
			errV := core.Unspill(ret.Results[1])
			if !core.IsNilConst(errV) {
				if core.MayBeNilErr(ds, f, errV, ret) {
					r.Violate("C07.e", fmt.Sprintf("%s|return#%d|maybe-nil-error", core.FnKey(f), i+1), p.Pos(ret.Pos()), "an error return whose error may be nil (reported as success without data)")
				}
				continue
			}
			nRet++
			construct := fmt.Sprintf("%s|success-return#%d", core.FnKey(f), i+1)
			resp := core.Unspill(ret.Results[0])
			a, ok := resp.(*ssa.Alloc)
			if !ok {
				if core.IsNilConst(resp) {
					r.Violate("C07.e", construct, p.Pos(ret.Pos()), "nil response returned with a nil error")
				} else {
					r.Hold("C07.e", construct, p.Pos(ret.Pos()), "response passed through from a callee")
				}
				continue
			}
			var data ssa.Value
			for _, sl := range core.StructLits(f, "") {
				if sl.Alloc == a {
					data = sl.Fields["Data"]
				}
			}
			if data == nil {
				r.Violate("C07.e", construct, p.Pos(ret.Pos()), "the successful response carries no Data")
				continue
			}
			// nil leaves must be guarded away
			bad := false
			var wit []ssa.Instruction
			for _, lf := range core.PhiLeaves(data, ret) {
				if core.IsNilConst(lf.V) {
					if lf.Pred != nil && onlyWhenNeverClosedChannelIsClosed(f, lf.Pred) {
						continue // `v, ok := <-ch; if !ok { v = nil }` on a channel nobody closes: the edge is never taken
					}
					w := core.Unguarded(ds, f, nil, func(x ssa.Instruction) bool { return x == ssa.Instruction(ret) }, core.NonNilGuard(ds, data))
					if w != nil {
						bad, wit = true, w
					}
				}
			}
			r.Check(!bad, "C07.e", construct, p.Pos(ret.Pos()), "success is returned only with a non-nil selected value", "success can be returned with a nil value although no acceptable response arrived", p.WitnessText(wit)...)
			// (h) 'first': the value derives from a receive
			if strings.HasSuffix(core.RelPkg(f.Pkg.Pkg.Path()), "/first") {
				dd := ds.D(data)
				fromRecv := dd.Any(func(x *core.VD) bool { _, isSel := x.Val.(*ssa.Select); return isSel || x.Kind == "recv" })
				r.Check(fromRecv, "C07.h", construct+"|from-result-channel", p.Pos(ret.Pos()), "the value returned was received from the result channel", "the value returned does not come from the result channel: "+dd.String())
			}
		}
	}
	r.Floor("C07.e success returns of strategy entries", nRet, 14)

	// ---- (f) best keeps the maximum ----
	nScore := 0
	for _, f := range fns {
		if !strings.HasSuffix(core.RelPkg(f.Pkg.Pkg.Path()), "/best") {
			continue
		}
		core.EachInstr(f, func(in ssa.Instruction) {
			ifi, ok := in.(*ssa.If)
			if !ok {
				return
			}
			c := core.DecodeCond(ds, ifi)
			if c.Op == "" {
				return
			}
			isScore := func(d *core.VD) bool { return d.Kind == "field" && strings.Contains(strings.ToLower(d.Name), "score") }
			var rel string
			switch {
			case isScore(c.X) && !isScore(c.Y):
				rel = c.RelOnEdge(0)
			case isScore(c.Y) && !isScore(c.X):
				rel = core.FlipRel(c.RelOnEdge(0))
			default:
				return
			}
			nScore++
			// the true edge is the update edge when the block it leads to stores the new best (has the response's fields flowing into phis);
			// we require: on the edge where the candidate is replaced, new score > (or >=) best score.
			upd, okU := updateEdge(f, ifi, ds)
			if !okU {
				r.Undecide("C07.f", fmt.Sprintf("%s|score-comparison#%d", core.FnKey(f), nScore), p.Pos(core.IfPos(ifi)), "cannot tell which edge replaces the best candidate")
				return
			}
			if upd == 1 {
				rel = negRelStr(rel)
			}
			r.Check(rel == ">" || rel == ">=", "C07.f", fmt.Sprintf("%s|score-comparison#%d", core.FnKey(f), nScore), p.Pos(core.IfPos(ifi)), "the candidate is replaced only by a response with a greater (or equal) score", "the best candidate is replaced when the new score is '"+rel+"' the best score: the strategy does not keep the highest-scoring response")
			// the running maximum moves with the candidate: the score compared against (a loop-carried variable) receives
			// the challenger's score somewhere (otherwise later responses are compared with a stale score and a worse one
			// replaces a better one)
			bo, _ := stripNot(ifi.Cond).(*ssa.BinOp)
			if bo != nil {
				challenger, running := bo.X, bo.Y
				if isScore(c.Y) && !isScore(c.X) {
					challenger, running = bo.Y, bo.X
				}
				if _, isPhi := running.(*ssa.Phi); !isPhi && core.InLoop(ifi) {
					// inside a collection loop the responses are compared with something the loop never changes
					r.Violate("C07.f", fmt.Sprintf("%s|score-comparison#%d|running-best-updated", core.FnKey(f), nScore), p.Pos(bo.Pos()),
						"the score the responses of this loop are compared with ("+ds.D(running).String()+") is not changed by the loop: after a better response a worse one that arrives later still replaces it")
				}
				if phi, ok := running.(*ssa.Phi); ok {
					fed := false
					seenP := map[*ssa.Phi]bool{}
					var walk func(ph *ssa.Phi)
					walk = func(ph *ssa.Phi) {
						if seenP[ph] || fed {
							return
						}
						seenP[ph] = true
						for _, e := range ph.Edges {
							if sameExpr(e, challenger, 0) {
								fed = true
							}
							if p2, ok := e.(*ssa.Phi); ok {
								walk(p2)
							}
						}
						// phis that merge this one (the join after the update, the next loop's header)
						if ph.Referrers() != nil {
							for _, ref := range *ph.Referrers() {
								if p2, ok := ref.(*ssa.Phi); ok {
									walk(p2)
								}
							}
						}
					}
					walk(phi)
					r.Check(fed, "C07.f", fmt.Sprintf("%s|score-comparison#%d|running-best-updated", core.FnKey(f), nScore), p.Pos(core.IfPos(ifi)), "the score compared against is replaced by the winner's score",
						"the score the responses are compared with is never replaced by this comparison's winning score: after a better response a worse one that arrives later still compares as greater and replaces it")
				}
			}
		})
	}
	r.Floor("C07.f score comparisons in best strategies", nScore, 6)

	// ---- (k) the first acceptable response is adopted: the candidate is kept (not replaced by the response just
	// received) only where a candidate is known to exist ----
	nKeep := 0
	for _, f := range fns {
		if !strings.HasSuffix(core.RelPkg(f.Pkg.Pkg.Path()), "/best") {
			continue
		}
		perFn := map[string]int{}
		// the block in which the value a response was taken from was received (nil when v does not derive from a receive)
		receivedIn := func(v ssa.Value) *ssa.BasicBlock {
			var blk *ssa.BasicBlock
			ds.D(v).Any(func(x *core.VD) bool {
				switch y := x.Val.(type) {
				case *ssa.Extract:
					if _, isSel := y.Tuple.(*ssa.Select); isSel {
						blk = y.Block()
						return true
					}
				case *ssa.UnOp:
					if y.Op == token.ARROW {
						blk = y.Block()
						return true
					}
				}
				return false
			})
			return blk
		}
		core.EachInstr(f, func(in ssa.Instruction) {
			m, ok := in.(*ssa.Phi)
			if !ok || !core.Nillable(m.Type()) || !core.InLoop(m) {
				return
			}
			var recvBlock *ssa.BasicBlock
			for _, e := range m.Edges {
				if _, isPhi := e.(*ssa.Phi); isPhi {
					continue
				}
				if b := receivedIn(e); b != nil {
					recvBlock = b
				}
			}
			if recvBlock == nil {
				return
			}
			for i, e := range m.Edges {
				old, isPhi := e.(*ssa.Phi)
				if !isPhi {
					continue
				}
				pred := m.Block().Preds[i]
				if !recvBlock.Dominates(pred) {
					continue
				}
				nKeep++
				perFn[m.Comment]++
				pos := m.Pos()
				if ifi, ok := pred.Instrs[len(pred.Instrs)-1].(*ssa.If); ok {
					pos = core.IfPos(ifi)
				}
				lf := core.Leaf{V: old, At: pred.Instrs[len(pred.Instrs)-1], Pred: pred, To: m.Block()}
				w := core.UnguardedLeaf(ds, f, nil, lf, core.NonNilGuard(ds, old))
				r.Check(w == nil, "C07.k", fmt.Sprintf("%s|%s|keep#%d", core.FnKey(f), m.Comment, perFn[m.Comment]), p.Pos(pos), "the candidate is kept in favour of a new response only where a candidate exists",
					"a received response can be passed over while no candidate exists yet (the first acceptable response is not adopted: when no response scores above the initial score the strategy fails although responses arrived)", p.WitnessText(w)...)
			}
		})
	}
	r.Floor("C07.k keep-candidate edges in best strategies", nKeep, 6)

	// ---- (l) the score is monotone in the value: arbitrary-precision amounts are not truncated to 64 bits ----
	nBig, nTrunc := 0, 0
	for _, f := range fns {
		if rp := core.RelPkg(f.Pkg.Pkg.Path()); !strings.HasSuffix(rp, "/best") && !strings.HasSuffix(rp, "/deadline") {
			continue
		}
		core.EachInstr(f, func(in ssa.Instruction) {
			c, ok := in.(*ssa.Call)
			if !ok {
				return
			}
			callee := c.Call.StaticCallee()
			if callee == nil || callee.Signature.Recv() == nil {
				return
			}
			rt := callee.Signature.Recv().Type().String()
			if !strings.HasSuffix(rt, "math/big.Int") && !strings.HasSuffix(rt, "uint256.Int") && !strings.HasSuffix(rt, "math/big.Float") {
				return
			}
			nBig++
			switch callee.Name() {
			case "Uint64", "Int64":
				// tolerated only behind the accessor's own range test
				guarded := core.Unguarded(ds, f, nil, func(x ssa.Instruction) bool { return x == in }, func(cd core.Cond) int {
					if cd.B == nil {
						return -1
					}
					if !cd.B.MentionsCall("IsUint64") && !cd.B.MentionsCall("IsInt64") {
						return -1
					}
					if cd.BoolOnEdge(0) {
						return 0
					}
					return 1
				}) == nil
				nTrunc++
				r.Check(guarded, "C07.l", fmt.Sprintf("%s|no-truncation#%d", core.FnKey(f), nTrunc), p.Pos(c.Pos()), "the 64-bit accessor is used only behind its range test",
					"a score is derived from an arbitrary-precision amount through "+callee.Name()+"(), which is undefined/truncating beyond 64 bits: a response worth more than 2^64 wei scores below a cheaper one, so 'best' does not return the highest-scoring response")
			}
		})
	}
	r.Floor("C07.l arbitrary-precision operations in best strategies", nBig, 1)
	if nTrunc == 0 {
		r.Hold("C07.l", "best|no-truncation", "", "no 64-bit accessor of an arbitrary-precision amount is used in the best strategies")
	}

	// ---- (m) one failing node does not take the requests to the others down ----
	checkNoFailFastContext(p, r, "C07.m", []string{"strategies/"}, "a node that fails fast aborts the requests to the nodes that would have answered")

	// ---- (n) the head-nearness bonus of the attestation data score is given whenever the head's slot is known and
	// not after the attestation slot: the only branches that can withhold it are the lookup's error test and
	// "head slot > attestation slot" (strictly: a head in the attestation slot itself gets the full bonus) ----
	nBonus := 0
	for _, f := range fns {
		if !strings.HasSuffix(core.RelPkg(f.Pkg.Pkg.Path()), "attestationdata/best") || !strings.HasPrefix(strings.ToLower(f.Name()), "score") {
			continue
		}
		core.EachInstr(f, func(in ssa.Instruction) {
			add, ok := in.(*ssa.BinOp)
			if !ok || add.Op != token.ADD {
				return
			}
			if b, ok := add.Type().Underlying().(*types.Basic); !ok || b.Kind() != types.Float64 {
				return
			}
			if !ds.D(add).Any(func(x *core.VD) bool { return x.Kind == "binop" && x.Name == "/" }) {
				return
			}
			nBonus++
			k := 0
			for _, ifi := range decidingIfs(f, in) {
				k++
				c := core.DecodeCond(ds, ifi.If)
				okCond, why := false, "unrecognised condition"
				switch {
				case c.Op != "" && (c.X.Kind == "const" && c.X.Name == "nil" || c.Y.Kind == "const" && c.Y.Name == "nil"):
					okCond = true
				case c.Op != "":
					dataSide := func(d *core.VD) bool { return d.Kind == "field" && d.Name == "Slot" }
					rel := c.RelOnEdge(ifi.SkipEdge) // X rel Y on the edge that skips the bonus
					if dataSide(c.X) && !dataSide(c.Y) {
						rel = core.FlipRel(rel) // express as head rel data
					} else if !(dataSide(c.Y) && !dataSide(c.X)) {
						break
					}
					if rel == ">" {
						okCond = true
					} else {
						why = "the bonus is withheld when the head slot is '" + rel + "' the attestation slot"
					}
				}
				r.Check(okCond, "C07.n", fmt.Sprintf("%s|bonus#%d|withheld-only#%d", core.FnKey(f), nBonus, k), p.Pos(core.IfPos(ifi.If)), "the head-nearness bonus is withheld only on a failed lookup or a head after the attestation slot",
					"the head-nearness bonus can be withheld for a head that is not after the attestation slot ("+why+"): the most timely attestation data scores below data with an older head, so 'best' does not return the highest-scoring response")
			}
		})
	}
	r.Floor("C07.n head-nearness bonuses", nBonus, 1)

	// ---- (o) the tally a majority is taken from belongs to the call: in the majority strategies no map or slice
	// that is written per response is held in the service (two overlapping requests would count each other's votes
	// and wipe each other's tallies) ----
	nTally, nShared := 0, 0
	for _, f := range fns {
		if !strings.HasSuffix(core.RelPkg(f.Pkg.Pkg.Path()), "/majority") {
			continue
		}
		top := f
		for top.Parent() != nil {
			top = top.Parent()
		}
		if top.Name() == "New" {
			continue
		}
		fromService := func(v ssa.Value) (string, bool) {
			for depth := 0; depth < 6 && v != nil; depth++ {
				switch x := v.(type) {
				case *ssa.UnOp:
					if fa, ok := x.X.(*ssa.FieldAddr); ok {
						if id, _, ok := core.FieldOfAddr(fa); ok && strings.HasSuffix(id.Owner, ".Service") {
							return id.String(), true
						}
					}
					if a, ok := x.X.(*ssa.Alloc); ok && a.Referrers() != nil {
						v = nil
						for _, ref := range *a.Referrers() {
							if st, ok := ref.(*ssa.Store); ok && st.Addr == ssa.Value(a) {
								v = st.Val
							}
						}
						continue
					}
					return "", false
				case *ssa.Phi:
					for _, e := range x.Edges {
						if w, ok := e.(*ssa.UnOp); ok {
							v = w
						}
					}
					if v == ssa.Value(x) {
						return "", false
					}
					continue
				case *ssa.FreeVar:
					v = core.FreeVarBinding(x)
					continue
				default:
					return "", false
				}
			}
			return "", false
		}
		core.EachInstr(f, func(in ssa.Instruction) {
			var m ssa.Value
			switch x := in.(type) {
			case *ssa.MapUpdate:
				m = x.Map
			case *ssa.Call:
				if b, ok := x.Call.Value.(*ssa.Builtin); ok && (b.Name() == "clear" || b.Name() == "delete") && len(x.Call.Args) > 0 {
					m = x.Call.Args[0]
				}
			}
			if m == nil {
				return
			}
			nTally++
			// judged: collections that hold what responses said (keyed by a root/hash, or holding responses), and any
			// collection that is wiped per request; a counter or cache with other contents is C17's business
			aboutResponses := false
			if mt, ok := m.Type().Underlying().(*types.Map); ok {
				ks, vs := mt.Key().String(), mt.Elem().String()
				aboutResponses = strings.HasSuffix(ks, "phase0.Root") || strings.HasSuffix(ks, "phase0.Hash32") || strings.Contains(strings.ToLower(vs), "resp")
			}
			if c, ok := in.(*ssa.Call); ok {
				if b, ok := c.Call.Value.(*ssa.Builtin); ok && b.Name() == "clear" {
					aboutResponses = true
				}
			}
			if !aboutResponses {
				return
			}
			if field, shared := fromService(m); shared {
				nShared++
				r.Violate("C07.o", fmt.Sprintf("%s|tally-in-service|%s#%d", core.FnKey(f), field, nShared), p.Pos(in.Pos()), "a collection written while responses are counted ("+field+") is held in the service and so shared by overlapping requests: one request's tally is cleared or polluted by another's, and the root returned can be one no node reported for the block asked about")
			}
		})
	}
	if nShared == 0 {
		r.Hold("C07.o", "majority|tallies-are-per-call", "", fmt.Sprintf("%d collection writes in the majority strategies, none on a collection held in a service", nTally))
	}
	r.Floor("C07.o collection writes in majority strategies", nTally, 1)

	// ---- (p) a request worker reports once: no path leads from one send on a result/error channel parameter to
	// another (a node counted as errored and as responded makes the collector stop one message early) ----
	nWorkers := 0
	for _, f := range fns {
		var sends []ssa.Instruction
		core.EachInstr(f, func(in ssa.Instruction) {
			if sd, ok := in.(*ssa.Send); ok {
				if _, isParam := sd.Chan.(*ssa.Parameter); isParam {
					sends = append(sends, in)
				} else if _, isFree := sd.Chan.(*ssa.FreeVar); isFree {
					sends = append(sends, in)
				}
			}
		})
		if len(sends) < 2 {
			continue
		}
		nWorkers++
		isSend := func(x ssa.Instruction) bool {
			for _, o := range sends {
				if x == o {
					return true
				}
			}
			return false
		}
		var wit []ssa.Instruction
		for _, sd := range sends {
			if w := (core.PathQuery{Fn: f, From: sd, Target: isSend}).Find(); w != nil {
				wit = w
			}
		}
		r.Check(wit == nil, "C07.p", core.FnKey(f)+"|reports-once", p.Pos(f.Pos()), "the worker sends at most one message per request", "after sending on one of its channels the worker can go on to send again (a `return` is missing after a failure report): the node is counted twice, the collector's count reaches the number of requests one message early, and the strategy decides without the last outstanding node", p.WitnessText(wit)...)
	}
	r.Floor("C07.p request workers with several report sites", nWorkers, 5)

	// ---- (q) every proposal that carries an execution payload (or its header) has its fee recipient examined before
	// it is scored: the branches deciding whether the fee-recipient test is reached compare the version only ----
	nFee := 0
	for _, f := range fns {
		if !strings.HasSuffix(core.RelPkg(f.Pkg.Pkg.Path()), "beaconblockproposal/best") {
			continue
		}
		for _, ci := range core.Calls(f, func(c *ssa.CallCommon) bool {
			return strings.HasSuffix(core.CalleeName(c), "VersionedProposal.FeeRecipient")
		}) {
			nFee++
			k := 0
			for _, di := range decidingIfs(f, ci.(ssa.Instruction)) {
				c := core.DecodeCond(ds, di.If)
				mentionsVersion := func(d *core.VD) bool {
					return d != nil && d.Any(func(x *core.VD) bool { return x.Kind == "field" && x.Name == "Version" })
				}
				isErrOrNil := c.Op != "" && (c.X.Kind == "const" && c.X.Name == "nil" || c.Y.Kind == "const" && c.Y.Name == "nil")
				okc := isErrOrNil || c.Op != "" && (mentionsVersion(c.X) || mentionsVersion(c.Y))
				if isErrOrNil {
					continue
				}
				k++
				what := "?"
				if c.B != nil {
					what = c.B.String()
				} else if c.X != nil {
					what = c.X.String() + " " + c.Op + " " + c.Y.String()
				}
				r.Check(okc, "C07.q", fmt.Sprintf("%s|fee-recipient-test#%d|decided-by-version-only#%d", core.FnKey(f), nFee, k), p.Pos(core.IfPos(di.If)), "whether the fee recipient is examined depends on the proposal's version only",
					"whether a proposal's fee recipient is examined also depends on "+what+": proposals of a kind that skips the test (e.g. blinded ones) are scored and can be returned as best with a zero fee recipient")
			}
		}
	}
	r.Floor("C07.q fee recipient tests in the best proposal strategy", nFee, 1)

	// ---- (g) majority threshold ----
	nThr := 0
	for _, f := range fns {
		if !strings.HasSuffix(core.RelPkg(f.Pkg.Pkg.Path()), "/majority") || f.Parent() != nil || f.Signature.Recv() == nil {
			continue
		}
		est := core.GuardEdges(ds, f, func(c core.Cond) int {
			if c.Op == "" {
				return -1
			}
			isThr := func(d *core.VD) bool { return d.HasFieldSuffix("threshold") }
			flip := false
			switch {
			case isThr(c.Y) && !isThr(c.X):
			case isThr(c.X) && !isThr(c.Y):
				flip = true
			default:
				return -1
			}
			for s := 0; s < 2; s++ {
				rel := c.RelOnEdge(s)
				if flip {
					rel = core.FlipRel(rel)
				}
				if rel == ">=" {
					return s
				}
			}
			return -1
		})
		thresholdTests := 0
		core.EachInstr(f, func(in ssa.Instruction) {
			if ifi, ok := in.(*ssa.If); ok {
				c := core.DecodeCond(ds, ifi)
				if c.Op != "" && (c.X.HasFieldSuffix("threshold") || c.Y.HasFieldSuffix("threshold")) {
					thresholdTests++
				}
			}
		})
		if thresholdTests == 0 {
			continue
		}
		nThr++
		r.Check(len(est) == thresholdTests, "C07.g", core.FnKey(f)+"|threshold-relation", p.Pos(f.Pos()), "the winning count is compared with the threshold by >= (success iff count >= threshold)",
			"the comparison with the configured threshold is not 'count >= threshold' on the success edge (a value reported by exactly the threshold number of nodes would be refused, or one below it accepted)")
		for i, ret := range core.ReturnsOf(f) {
			if len(ret.Results) != 2 || !core.IsNilConst(core.Unspill(ret.Results[1])) {
				continue
			}
			w := core.PathQuery{Fn: f, Target: func(x ssa.Instruction) bool { return x == ssa.Instruction(ret) }, Edge: func(b *ssa.BasicBlock, succ int) bool {
				if s, ok := est[b]; ok && s == succ {
					return false
				}
				return true
			}}.Find()
			r.Check(w == nil, "C07.g", fmt.Sprintf("%s|success-needs-threshold#%d", core.FnKey(f), i+1), p.Pos(ret.Pos()), "success is returned only when count >= threshold", "success can be returned without the winning count having reached the threshold", p.WitnessText(w)...)
		}
	}
	r.Floor("C07.g majority strategies with a threshold", nThr, 1)

	// ---- (w) the arm that gives up on the outstanding answers closes the count: a collector loops while
	// responded+errored+timedOut(+…) != requests; where an arm assigns one of these counters from the total
	// (timedOut = requests - responded - errored), the sum must equal the total afterwards — otherwise the loop spins
	// on the expired context for ever. Decided by evaluating the arm's assignments for arbitrary counter values. ----
	nClose := 0
	for _, f := range fns {
		loopsW := naturalLoops(f)
		var heads []*ssa.BasicBlock
		for h := range loopsW {
			heads = append(heads, h)
		}
		sort.Slice(heads, func(i, j int) bool { return heads[i].Index < heads[j].Index })
		loopNo := 0
		for _, h := range heads {
			iff, ok := h.Instrs[len(h.Instrs)-1].(*ssa.If)
			if !ok {
				continue
			}
			cmp, ok := iff.Cond.(*ssa.BinOp)
			if !ok || cmp.Op != token.NEQ {
				continue
			}
			loopNo++
			sumV, totalV := cmp.X, cmp.Y
			isHeaderPhi := func(v ssa.Value) bool {
				phi, ok := v.(*ssa.Phi)
				return ok && phi.Block() == h
			}
			counters, _ := arithLeaves(sumV)
			okShape := len(counters) >= 2 && !isHeaderPhi(totalV)
			for _, c := range counters {
				if !isHeaderPhi(c) {
					okShape = false
				}
			}
			if !okShape {
				counters, _ = arithLeaves(totalV)
				sumV, totalV = totalV, sumV
				okShape = len(counters) >= 2 && !isHeaderPhi(totalV)
				for _, c := range counters {
					if !isHeaderPhi(c) {
						okShape = false
					}
				}
			}
			if !okShape {
				continue
			}
			if tl, _ := arithLeaves(totalV); len(tl) != 1 || tl[0] != totalV {
				continue
			}
			body := loopsW[h]
			for i, pred := range h.Preds {
				if !body[pred] {
					continue
				}
				// inner merge blocks the arm's values pass through
				var merges []*ssa.BasicBlock
				seenB := map[*ssa.BasicBlock]bool{}
				var collect func(v ssa.Value, depth int)
				collect = func(v ssa.Value, depth int) {
					if depth > 10 {
						return
					}
					switch x := v.(type) {
					case *ssa.Phi:
						if x.Block() == h {
							return
						}
						if !seenB[x.Block()] {
							seenB[x.Block()] = true
							merges = append(merges, x.Block())
						}
						for _, e := range x.Edges {
							collect(e, depth+1)
						}
					case *ssa.BinOp:
						collect(x.X, depth+1)
						collect(x.Y, depth+1)
					case *ssa.Convert:
						collect(x.X, depth+1)
					}
				}
				for _, c := range counters {
					collect(c.(*ssa.Phi).Edges[i], 0)
				}
				if len(merges) > 4 {
					continue
				}
				combos := 1
				for _, mb := range merges {
					combos *= len(mb.Preds)
				}
				if combos > 256 {
					continue
				}
				closes, broken := false, ""
				for combo := 0; combo < combos; combo++ {
					choice := map[*ssa.BasicBlock]int{}
					k := combo
					for _, mb := range merges {
						choice[mb] = k % len(mb.Preds)
						k /= len(mb.Preds)
					}
					for trial := int64(0); trial < 3; trial++ {
						env := map[ssa.Value]int64{totalV: 11 + 3*trial}
						for ci, c := range counters {
							env[c] = int64(ci) + 1 + trial
						}
						usedTotal := false
						var ev func(v ssa.Value, depth int) (int64, bool)
						ev = func(v ssa.Value, depth int) (int64, bool) {
							if depth > 14 {
								return 0, false
							}
							if n, ok := env[v]; ok {
								if v == totalV {
									usedTotal = true
								}
								return n, true
							}
							switch x := v.(type) {
							case *ssa.Const:
								if x.Value != nil && x.Value.Kind() == constant.Int {
									n, exact := constant.Int64Val(x.Value)
									return n, exact
								}
							case *ssa.Convert:
								return ev(x.X, depth+1)
							case *ssa.Phi:
								if x.Block() != h {
									if ch, ok := choice[x.Block()]; ok && ch < len(x.Edges) {
										return ev(x.Edges[ch], depth+1)
									}
								}
							case *ssa.BinOp:
								a, ok1 := ev(x.X, depth+1)
								b, ok2 := ev(x.Y, depth+1)
								if !ok1 || !ok2 {
									return 0, false
								}
								switch x.Op {
								case token.ADD:
									return a + b, true
								case token.SUB:
									return a - b, true
								case token.MUL:
									return a * b, true
								}
							}
							return 0, false
						}
						next := map[ssa.Value]int64{}
						evaluable := true
						for _, c := range counters {
							n, ok := ev(c.(*ssa.Phi).Edges[i], 0)
							if !ok {
								evaluable = false
							}
							next[c] = n
						}
						if !evaluable || !usedTotal {
							continue
						}
						closes = true
						env2 := map[ssa.Value]int64{totalV: env[totalV]}
						for c, n := range next {
							env2[c] = n
						}
						if sum, ok := evalArith(sumV, env2); ok && sum != env[totalV] {
							broken = fmt.Sprintf("with %s = %d and the counters at %v the arm leaves the sum at %d", ds.D(totalV).String(), env[totalV], counterValues(counters, env), sum)
						}
					}
				}
				if !closes {
					continue
				}
				nClose++
				r.Check(broken == "", "C07.w", fmt.Sprintf("%s|collector-loop#%d|timeout-arm-closes-the-count", core.FnKey(f), loopNo), p.Pos(core.IfPos(iff)), "after the arm that writes off the outstanding answers the counters add up to the number of requests", "the arm that writes off the outstanding answers does not make the counters add up to the number of requests ("+broken+"): the loop condition stays true, the expired context stays ready, and the collector spins for ever — the strategy never returns")
			}
		}
	}
	r.Floor("C07.w count-closing arms of collector loops", nClose, 4)

	// ---- (t) the early exit of a majority collector: the loop stops waiting for further answers only once the largest
	// tally is a STRICT majority of the requests (count >= n/2+1); any smaller bound lets it settle on a value that the
	// outstanding answers could still outvote. Decided by evaluating the comparison for all small n and counts.
	nEarly := 0
	for _, f := range fns {
		if !strings.HasSuffix(core.RelPkg(f.Pkg.Pkg.Path()), "/majority") {
			continue
		}
		k := 0
		loopsT := naturalLoops(f)
		for _, b := range f.Blocks {
			iff, ok := b.Instrs[len(b.Instrs)-1].(*ssa.If)
			if !ok {
				continue
			}
			if innermostLoop(loopsT, b) == nil {
				continue // the bound of a collector is tested in its loop
			}
			cmp, ok := iff.Cond.(*ssa.BinOp)
			if !ok {
				continue
			}
			switch cmp.Op {
			case token.LSS, token.LEQ, token.GTR, token.GEQ:
			default:
				continue
			}
			lx, hx := arithLeaves(cmp.X)
			ly, hy := arithLeaves(cmp.Y)
			if !(hx || hy) || len(lx) != 1 || len(ly) != 1 || lx[0] == ly[0] {
				continue // not a halving comparison between one count and one total
			}
			k++
			nEarly++
			// which leaf is the total: the one on the side that carries the halving (or, for count*2 <=> n, the other)
			agree, disagree := true, true
			for n := int64(1); n <= 9; n++ {
				for c := int64(0); c <= n+1; c++ {
					env := func(countLeaf, totalLeaf ssa.Value) (bool, bool) {
						vx, okx := evalArith(cmp.X, map[ssa.Value]int64{countLeaf: c, totalLeaf: n})
						vy, oky := evalArith(cmp.Y, map[ssa.Value]int64{countLeaf: c, totalLeaf: n})
						if !okx || !oky {
							return false, false
						}
						var holds bool
						switch cmp.Op {
						case token.LSS:
							holds = vx < vy
						case token.LEQ:
							holds = vx <= vy
						case token.GTR:
							holds = vx > vy
						case token.GEQ:
							holds = vx >= vy
						}
						return holds, true
					}
					countLeaf, totalLeaf := lx[0], ly[0]
					if hx && !hy && !mulSide(cmp.X) || mulSide(cmp.Y) {
						countLeaf, totalLeaf = ly[0], lx[0]
					}
					holds, okE := env(countLeaf, totalLeaf)
					if !okE {
						agree, disagree = false, false
						continue
					}
					below := c < n/2+1
					if holds != below {
						agree = false
					}
					if holds == below {
						disagree = false
					}
				}
			}
			r.Check(agree || disagree, "C07.t", fmt.Sprintf("%s|early-exit-bound#%d|strict-majority", core.FnKey(f), k), p.Pos(core.IfPos(iff)), "the collector goes on waiting exactly while the largest tally is below n/2+1",
				"the bound at which the collector stops waiting ("+ds.D(cmp.X).String()+" "+cmp.Op.String()+" "+ds.D(cmp.Y).String()+") is not the strict majority n/2+1 of the requests: it can settle on a value that holds only half of the answers while the outstanding nodes could still outvote it")
		}
	}
	r.Floor("C07.t early-exit bounds in the majority strategies", nEarly, 2)

	// (g') what is counted is the whole answer: the key under which majority responses are tallied is the hash tree
	// root of the response's data (tallying by one field merges answers that differ elsewhere, and a value reported
	// by fewer nodes than the threshold can then win)
	nKey := 0
	for _, f := range fns {
		rel := core.RelPkg(f.Pkg.Pkg.Path())
		if rel != "strategies/attestationdata/majority" {
			continue
		}
		core.EachInstr(f, func(in ssa.Instruction) {
			mu, ok := in.(*ssa.MapUpdate)
			if !ok {
				return
			}
			if _, isArr := mu.Key.Type().Underlying().(*types.Array); !isArr {
				return
			}
			nKey++
			kd := ds.D(mu.Key)
			r.Check(kd.MentionsCall("HashTreeRoot"), "C07.g", fmt.Sprintf("%s|tally-key#%d", core.FnKey(f), nKey), p.Pos(mu.Pos()), "responses are tallied by the hash tree root of the attestation data",
				"responses are tallied under "+kd.String()+", not under the root of the whole attestation data: responses that differ in the fields left out are counted as one")
		})
	}
	r.Floor("C07.g tally updates in the majority attestation data strategy", nKey, 4)

	// ---- (i) all providers are asked ----
	nFan := 0
	for _, f := range fns {
		core.EachInstr(f, func(in ssa.Instruction) {
			g, ok := in.(*ssa.Go)
			if !ok {
				return
			}
			loops := loopsContainingPos(p, f, g.Pos())
			if len(loops) == 0 {
				return
			}
			l := loops[len(loops)-1]
			t := l.RangeType()
			if t == nil {
				return
			}
			if _, isMap := t.Underlying().(*types.Map); !isMap {
				return
			}
			nFan++
			noEarlyExit(p, r, "C07.i", l, "request fan-out over the configured providers")
			// … and no element is passed over: every trip round the loop passes the go statement
			nl := naturalLoops(f)
			if h := innermostLoop(nl, g.Block()); h != nil {
				if iff, ok := h.Instrs[len(h.Instrs)-1].(*ssa.If); ok {
					_ = iff
					var wit []ssa.Instruction
					for si, succ := range h.Succs {
						if !nl[h][succ] || succ == h {
							continue
						}
						_ = si
						if w := (core.PathQuery{Fn: f, StartEdge: &[2]*ssa.BasicBlock{h, succ}, Target: func(x ssa.Instruction) bool { return x.Block() == h }, Avoid: func(x ssa.Instruction) bool { return x == ssa.Instruction(g) }}).Find(); w != nil {
							wit = w
						}
					}
					r.Check(wit == nil, "C07.i", core.FnKey(f)+"|loop "+l.Describe()+"|every-element-asked", p.Pos(g.Pos()), "every trip round the loop starts the request", "an element of the loop can be passed over without its request being started (a `continue` ahead of the go statement): that provider is never asked", p.WitnessText(wit)...)
				}
			}
		})
	}
	r.Floor("C07.i provider fan-outs", nFan, 14)
	// requests == len(provider map)
	for _, f := range fns {
		core.EachInstr(f, func(in ssa.Instruction) {
			ifi, ok := in.(*ssa.If)
			if !ok {
				return
			}
			_ = ifi
		})
	}
}

func commExpr(s ast.Stmt) ast.Expr {
	switch c := s.(type) {
	case *ast.ExprStmt:
		return c.X
	case *ast.AssignStmt:
		if len(c.Rhs) == 1 {
			return c.Rhs[0]
		}
	}
	return &ast.Ident{Name: "?"}
}

func negRelStr(op string) string {
	switch op {
	case "==":
		return "!="
	case "!=":
		return "=="
	case "<":
		return ">="
	case "<=":
		return ">"
	case ">":
		return "<="
	case ">=":
		return "<"
	}
	return op
}

// updateEdge: which successor of the score comparison leads to the block that replaces the best candidate
// (the block whose values flow into the loop's phis / stores). Heuristic on structure: the successor that is not
// a join block of both successors, i.e. has the If's block as its only predecessor and contains no terminator other than a jump.
func updateEdge(f *ssa.Function, ifi *ssa.If, ds *core.Describer) (int, bool) {
	b := ifi.Block()
	s0, s1 := b.Succs[0], b.Succs[1]
	// the update block is the one from which the other successor is reachable by a single jump (if-then without else)
	if len(s0.Succs) == 1 && s0.Succs[0] == s1 {
		return 0, true
	}
	if len(s1.Succs) == 1 && s1.Succs[0] == s0 {
		return 1, true
	}
	// `a == nil || score > best`: the true edges of both operands lead to the same update block
	if len(s0.Preds) >= 1 && len(s0.Succs) == 1 {
		return 0, true
	}
	return 0, false
}

// valueCarries: does v (a value sent on a channel) contain data obtained from call?
func valueCarries(ds *core.Describer, f *ssa.Function, v ssa.Value, call *ssa.Call) bool {
	resp := core.ExtractOf(call, 0)
	if resp == nil {
		return false
	}
	mentions := func(d *core.VD) bool { return d.MentionsValue(resp) }
	if mentions(ds.D(v)) {
		return true
	}
	if a, ok := v.(*ssa.Alloc); ok {
		for _, sl := range core.StructLits(f, "") {
			if sl.Alloc == a {
				for _, fv := range sl.Fields {
					if mentions(ds.D(fv)) {
						return true
					}
				}
			}
		}
	}
	return false
}

// calleesInPkg returns the static callees of f within its package (one level).
func calleesInPkg(f *ssa.Function) []*ssa.Function {
	var out []*ssa.Function
	core.EachInstr(f, func(in ssa.Instruction) {
		if ci, ok := in.(ssa.CallInstruction); ok {
			if c := ci.Common().StaticCallee(); c != nil && c.Pkg == f.Pkg && c.Blocks != nil {
				out = append(out, c)
			}
		}
	})
	return out
}

func stripNot(v ssa.Value) ssa.Value {
	for {
		if u, ok := v.(*ssa.UnOp); ok && u.Op == token.NOT {
			v = u.X
			continue
		}
		return v
	}
}

// sameExpr: a and b denote the same expression over the same SSA leaves (go/ssa has no CSE: two textual
// occurrences of resp.score are two loads).
func sameExpr(a, b ssa.Value, depth int) bool {
	if a == b {
		return true
	}
	if depth > 4 || a == nil || b == nil {
		return false
	}
	switch x := a.(type) {
	case *ssa.UnOp:
		y, ok := b.(*ssa.UnOp)
		return ok && x.Op == y.Op && sameExpr(x.X, y.X, depth+1)
	case *ssa.FieldAddr:
		y, ok := b.(*ssa.FieldAddr)
		return ok && x.Field == y.Field && sameExpr(x.X, y.X, depth+1)
	case *ssa.Field:
		y, ok := b.(*ssa.Field)
		return ok && x.Field == y.Field && sameExpr(x.X, y.X, depth+1)
	case *ssa.Lookup:
		y, ok := b.(*ssa.Lookup)
		return ok && sameExpr(x.X, y.X, depth+1) && sameExpr(x.Index, y.Index, depth+1)
	case *ssa.Convert:
		y, ok := b.(*ssa.Convert)
		return ok && sameExpr(x.X, y.X, depth+1)
	case *ssa.ChangeType:
		y, ok := b.(*ssa.ChangeType)
		return ok && sameExpr(x.X, y.X, depth+1)
	case *ssa.Extract:
		y, ok := b.(*ssa.Extract)
		return ok && x.Index == y.Index && sameExpr(x.Tuple, y.Tuple, depth+1)
	case *ssa.Call:
		// two calls of one field getter on the same object
		y, ok := b.(*ssa.Call)
		if !ok || x.Call.IsInvoke() || y.Call.IsInvoke() {
			return false
		}
		cx, cy := x.Call.StaticCallee(), y.Call.StaticCallee()
		if cx == nil || cx != cy || len(x.Call.Args) != 1 || len(y.Call.Args) != 1 || !isFieldGetter(cx) {
			return false
		}
		return sameExpr(x.Call.Args[0], y.Call.Args[0], depth+1)
	}
	return false
}

// isFieldGetter: a method whose body is `return recv.field`.
func isFieldGetter(fn *ssa.Function) bool {
	if fn.Signature.Recv() == nil || len(fn.Blocks) != 1 || len(fn.Params) != 1 {
		return false
	}
	ins := fn.Blocks[0].Instrs
	var real []ssa.Instruction
	for _, in := range ins {
		if _, dbg := in.(*ssa.DebugRef); dbg {
			continue
		}
		real = append(real, in)
	}
	if len(real) != 3 {
		return false
	}
	fa, ok1 := real[0].(*ssa.FieldAddr)
	ld, ok2 := real[1].(*ssa.UnOp)
	ret, ok3 := real[2].(*ssa.Return)
	return ok1 && ok2 && ok3 && fa.X == ssa.Value(fn.Params[0]) && ld.X == ssa.Value(fa) && len(ret.Results) == 1 && ret.Results[0] == ssa.Value(ld)
}

// decidingIf is a branch one of whose edges can still reach a target instruction while the other cannot.
type decidingIf struct {
	If       *ssa.If
	SkipEdge int
}

// decidingIfs lists the branches of f that decide whether target is reached.
func decidingIfs(f *ssa.Function, target ssa.Instruction) []decidingIf {
	reach := map[*ssa.BasicBlock]bool{target.Block(): true}
	for changed := true; changed; {
		changed = false
		for _, b := range f.Blocks {
			if reach[b] {
				continue
			}
			for _, s := range b.Succs {
				if reach[s] {
					reach[b] = true
					changed = true
				}
			}
		}
	}
	var out []decidingIf
	for _, b := range f.Blocks {
		if !reach[b] || len(b.Instrs) == 0 || b == target.Block() {
			continue
		}
		ifi, ok := b.Instrs[len(b.Instrs)-1].(*ssa.If)
		if !ok {
			continue
		}
		r0, r1 := reach[b.Succs[0]], reach[b.Succs[1]]
		if r0 == r1 {
			continue
		}
		skip := 0
		if r0 {
			skip = 1
		}
		out = append(out, decidingIf{ifi, skip})
	}
	return out
}

// arithLeaves: the non-constant leaves of an integer expression built from + - * / and conversions, and whether the
// expression multiplies or divides by the constant 2.
func arithLeaves(v ssa.Value) (leaves []ssa.Value, halves bool) {
	seen := map[ssa.Value]bool{}
	var walk func(v ssa.Value, depth int)
	walk = func(v ssa.Value, depth int) {
		switch x := v.(type) {
		case *ssa.Const:
			return
		case *ssa.Convert:
			walk(x.X, depth+1)
			return
		case *ssa.ChangeType:
			walk(x.X, depth+1)
			return
		case *ssa.BinOp:
			switch x.Op {
			case token.ADD, token.SUB, token.MUL, token.QUO:
				if (x.Op == token.QUO && core.IsIntConst(x.Y, 2)) || (x.Op == token.MUL && (core.IsIntConst(x.Y, 2) || core.IsIntConst(x.X, 2))) {
					halves = true
				}
				if depth < 8 {
					walk(x.X, depth+1)
					walk(x.Y, depth+1)
					return
				}
			}
		}
		if !seen[v] {
			seen[v] = true
			leaves = append(leaves, v)
		}
	}
	walk(v, 0)
	return leaves, halves
}

// mulSide: the expression doubles its leaf (count*2 compared with the total).
func mulSide(v ssa.Value) bool {
	found := false
	var walk func(v ssa.Value, depth int)
	walk = func(v ssa.Value, depth int) {
		switch x := v.(type) {
		case *ssa.Convert:
			walk(x.X, depth+1)
		case *ssa.ChangeType:
			walk(x.X, depth+1)
		case *ssa.BinOp:
			if x.Op == token.MUL && (core.IsIntConst(x.Y, 2) || core.IsIntConst(x.X, 2)) {
				found = true
			}
			if depth < 8 {
				walk(x.X, depth+1)
				walk(x.Y, depth+1)
			}
		}
	}
	walk(v, 0)
	return found
}

func evalArith(v ssa.Value, env map[ssa.Value]int64) (int64, bool) {
	if n, ok := env[v]; ok {
		return n, true
	}
	switch x := v.(type) {
	case *ssa.Const:
		if x.Value != nil && x.Value.Kind() == constant.Int {
			n, exact := constant.Int64Val(x.Value)
			return n, exact
		}
	case *ssa.Convert:
		return evalArith(x.X, env)
	case *ssa.ChangeType:
		return evalArith(x.X, env)
	case *ssa.BinOp:
		a, ok1 := evalArith(x.X, env)
		b, ok2 := evalArith(x.Y, env)
		if !ok1 || !ok2 {
			return 0, false
		}
		switch x.Op {
		case token.ADD:
			return a + b, true
		case token.SUB:
			return a - b, true
		case token.MUL:
			return a * b, true
		case token.QUO:
			if b == 0 {
				return 0, false
			}
			return a / b, true
		}
	}
	return 0, false
}

func counterValues(cs []ssa.Value, env map[ssa.Value]int64) []string {
	var out []string
	for _, c := range cs {
		name := "?"
		if phi, ok := c.(*ssa.Phi); ok && phi.Comment != "" {
			name = phi.Comment
		}
		out = append(out, fmt.Sprintf("%s=%d", name, env[c]))
	}
	return out
}

// onlyWhenNeverClosedChannelIsClosed: block b is reached only over the not-ok edge of a two-valued receive from a
// channel that is made in f and closed nowhere in f or its literals.
func onlyWhenNeverClosedChannelIsClosed(f *ssa.Function, b *ssa.BasicBlock) bool {
	closed := map[*ssa.MakeChan]bool{}
	for _, g := range core.WithClosures(f) {
		core.EachInstr(g, func(in ssa.Instruction) {
			ci, ok := in.(ssa.CallInstruction)
			if !ok {
				return
			}
			if bi, ok := ci.Common().Value.(*ssa.Builtin); ok && bi.Name() == "close" && len(ci.Common().Args) == 1 {
				if mk := makeChanOf(ci.Common().Args[0]); mk != nil {
					closed[mk] = true
				} else {
					closed[nil] = true // a close of something we cannot name: assume it may be ours
				}
			}
		})
	}
	if closed[nil] {
		return false
	}
	found := false
	for _, blk := range f.Blocks {
		if len(blk.Instrs) == 0 {
			continue
		}
		iff, ok := blk.Instrs[len(blk.Instrs)-1].(*ssa.If)
		if !ok || len(blk.Succs) != 2 {
			continue
		}
		ex, ok := iff.Cond.(*ssa.Extract)
		if !ok {
			continue
		}
		var ch ssa.Value
		switch t := ex.Tuple.(type) {
		case *ssa.Select:
			if ex.Index != 1 {
				continue
			}
			// which arm is this test made on? the arm whose `index == k` test leads here
			for _, d := range f.Blocks {
				if len(d.Instrs) == 0 || len(d.Succs) != 2 {
					continue
				}
				di, ok := d.Instrs[len(d.Instrs)-1].(*ssa.If)
				if !ok {
					continue
				}
				eq, ok := di.Cond.(*ssa.BinOp)
				if !ok || eq.Op != token.EQL {
					continue
				}
				ix, ok := eq.X.(*ssa.Extract)
				if !ok || ix.Tuple != ssa.Value(t) || ix.Index != 0 {
					continue
				}
				k, ok := eq.Y.(*ssa.Const)
				if !ok || k.Value == nil {
					continue
				}
				arm := int(k.Int64())
				if arm < 0 || arm >= len(t.States) || t.States[arm].Dir != types.RecvOnly {
					continue
				}
				if d.Succs[0] == blk || d.Succs[0].Dominates(blk) {
					ch = t.States[arm].Chan
				}
			}
			if ch == nil {
				continue
			}
		case *ssa.UnOp:
			if t.Op != token.ARROW || !t.CommaOk || ex.Index != 1 {
				continue
			}
			ch = t.X
		default:
			continue
		}
		mk := makeChanOf(ch)
		if mk == nil || mk.Parent() != f || closed[mk] {
			continue
		}
		notOK := blk.Succs[1]
		if len(notOK.Preds) == 1 && (notOK == b || notOK.Dominates(b)) {
			found = true
		}
	}
	return found
}
