package rules

import (
	"fmt"
	"go/types"
	"strings"

	"golang.org/x/tools/go/ssa"

	"vouchcheck/internal/core"
)

func init() {
	register(&Pack{
		ID:  "C12",
		Run: runC12,
		Expl: "Decides structural necessary conditions of 'the block relay keeps answering whatever the config source does' in services/blockrelay/standard: " +
			"(a) every mutex of the service is released on every path of every function (incl. error returns); (b) no call made while a service mutex is held reaches a function that may take the same mutex (RWMutex is not re-entrant); " +
			"(c) no call made while executionConfigMu is held reaches the network (majordomo fetch, beacon/builder client interfaces) or a sleep; " +
			"(d) every value stored into the executionConfig field outside the constructor is either derived from a load of that field (keep current) or is the fetched value on the edge where the fetch error is nil and the value is non-nil; the store is under the write lock; " +
			"(e) New stores a non-nil configurator before the first fetch and every call through the field is guarded by a nil test or follows (e); (f) the configurator is called with the service's fallback fee recipient and gas limit; " +
			"(g) every blocking select/receive in the package has a context-done or timer arm. " +
			"Added with the third seeding round: (j) the v1/v2 resolvers write nothing reached from the configuration object; (k) no errors.Wrap of an error that is nil on every path to it (a rejection reported as success). Added with the fourth seeding round: (l) semaphore probes give the permit back; (m) wait groups balance; (n) no TryLock/TryRLock. Added with the fifth seeding round: (o) a method of the account parameter of a resolver is called only behind account != nil. Added with the sixth seeding round and the false-alarm regression: (i, tightened) the unmarshaler's nil-entry test must be on the decoded document's collection, not on the receiver's field of the same name. Added with the eighth seeding round: (a, extended) lock pairing also over util (the builder client cache and its package-level mutex). Added with the tenth seeding round: (n) fetchExecutionConfig is called directly only from New (the refresh has its own job). NOT decided: that the HTTP fetch returns (library timeout), RWMutex fairness, the interleavings themselves; but pairing + no re-entrancy + nothing slow under the lock mean no schedule can leave the lock held.",
		Technique: "lock-set dataflow (pairing, re-entrancy via call graph), call-graph reachability of network calls under the lock, provenance of stored configuration by phi leaves and error-edge guards",
		Rule:      "obligations are enumerated per function of the package (pairing, re-entrancy), per call site under the configuration lock (c), per leaf value of each store to the field (d), per invoke through the field (e,f), per select (g); non-trivial = the function contains a lock operation / the site exists",
	})
}

const relayRel = "services/blockrelay/standard"

// isSlowCall: a call that may block on the network or the clock.
func isSlowCall(ci ssa.CallInstruction) bool {
	c := ci.Common()
	if c.IsInvoke() {
		pk := core.PkgOfType(c.Value.Type())
		switch {
		case strings.Contains(pk, "go-majordomo"):
			return true
		case strings.HasSuffix(pk, "attestantio/go-eth2-client"), strings.HasSuffix(pk, "attestantio/go-builder-client"):
			// provider interfaces of the client libraries: network calls, except trivial accessors
			switch c.Method.Name() {
			case "Name", "Address", "Pubkey", "IsActive", "IsSynced":
				return false
			}
			return true
		}
		return false
	}
	if f := c.StaticCallee(); f != nil && f.Pkg != nil {
		switch f.Pkg.Pkg.Path() + "." + f.Name() {
		case "time.Sleep":
			return true
		}
		if f.Pkg.Pkg.Path() == "net/http" {
			return true
		}
	}
	return false
}

func runC12(p *core.Prog, r *core.Report, tier string) {
	ds := core.NewDescriber()
	la := core.NewLockAnalysis(p)
	fns := p.FuncsIn(relayRel)
	if len(fns) == 0 {
		r.Undecide("C12.anchor", relayRel, "", "package not found")
		return
	}
	cfgField := core.FieldID{Owner: relayRel + ".Service", Name: "executionConfig"}
	cfgMu := core.FieldID{Owner: relayRel + ".Service", Name: "executionConfigMu"}

	// (n) the configuration is refreshed by its own job: fetchExecutionConfig is called from New (first fetch) and
	// handed to the scheduler — a call on the registration or auction path makes that path wait for the configuration
	// source and lets a slow or failing source delay what must keep answering
	if fe := p.Func(relayRel, "Service", "fetchExecutionConfig"); fe != nil {
		nCallers := 0
		for _, f := range fns {
			for _, ci := range core.Calls(f, func(c *ssa.CallCommon) bool { return c.StaticCallee() == fe }) {
				nCallers++
				r.Check(outermost(f).Name() == "New", "C12.n", core.FnKey(f)+"|refresh-only-from-its-job", p.Pos(ci.Pos()), "the configuration is fetched directly only at construction", "fetchExecutionConfig is called from "+f.Name()+": the caller now waits for the configuration source (and holds what it holds meanwhile) although the refresh has a job of its own")
			}
		}
		r.Floor("C12.n direct calls of fetchExecutionConfig", nCallers, 1)
	}

	// (a),(b) pairing + re-entrancy, package functions (thorough: whole repository, out-of-scope hits observed only)
	lockFns, lockOps := 0, 0
	// … and the shared helpers the relay calls while answering (util: the builder client cache and its package-level mutex)
	for _, f := range append(append([]*ssa.Function{}, fns...), p.FuncsIn("util")...) {
		n := 0
		core.EachInstr(f, func(in ssa.Instruction) {
			if ci, ok := in.(ssa.CallInstruction); ok {
				if _, ok := core.LockOpOf(ci); ok {
					n++
				}
			}
		})
		if n == 0 {
			continue
		}
		lockFns++
		lockOps += n
		pv := la.Pairing(f)
		if len(pv) == 0 {
			r.Hold("C12.a", core.FnKey(f)+"|lock-pairing", p.Pos(f.Pos()), fmt.Sprintf("%d lock operations, all released on every path", n))
		}
		for _, v := range pv {
			r.Violate("C12.a", core.FnKey(f)+"|lock-pairing|"+v.Lock, p.Pos(v.Pos), "lock "+v.Lock+" is still held at this return on some path", v.Witness...)
		}
		for _, u := range la.UnlockWithoutLock(f) {
			r.Violate("C12.a", core.FnKey(f)+"|unlock-without-lock|"+u.Lock.String(), p.Pos(u.Instr.Pos()), "unlock of "+u.Lock.String()+" on a path where it is not held")
		}
		re := la.Reentrant(f)
		if len(re) == 0 {
			r.Hold("C12.b", core.FnKey(f)+"|no-reentry", p.Pos(f.Pos()), "no call under a held lock reaches another acquisition of it")
		}
		for _, e := range re {
			r.Violate("C12.b", core.FnKey(f)+"|reentry|"+e.Lock.String()+"|"+core.FnKey(e.Callee), p.Pos(e.Site.Pos()),
				fmt.Sprintf("%s is held while calling %s, which may acquire it again (deadlock with a pending writer)", e.Lock, core.FnKey(e.Callee)))
		}
	}
	r.Count("functions with lock operations", lockFns)
	r.Count("lock operations", lockOps)
	r.Floor("C12.a functions with lock operations", lockFns, 5)

	// (c) nothing slow under the configuration lock
	slow := core.NewReach(p, isSlowCall)
	underLock := 0
	for _, f := range fns {
		may := la.MayHeldAt(f)
		core.EachInstr(f, func(in ssa.Instruction) {
			ci, ok := in.(ssa.CallInstruction)
			if !ok {
				return
			}
			if _, isGo := in.(*ssa.Go); isGo {
				return
			}
			if _, ok := core.LockOpOf(ci); ok {
				return
			}
			held := false
			for l := range may[in] {
				if l.Field == cfgMu {
					held = true
				}
			}
			if !held {
				return
			}
			underLock++
			construct := core.FnKey(f) + "|under-config-lock|" + core.CalleeName(ci.Common())
			if isSlowCall(ci) {
				r.Violate("C12.c", construct, p.Pos(in.Pos()), "network/sleep call made while executionConfigMu is held")
				return
			}
			for _, callee := range p.CalleesAt(f, ci) {
				if callee.Pkg == nil || !core.IsProd(callee.Pkg.Pkg.Path()) {
					continue
				}
				if chain := slow.From(callee); chain != nil {
					r.Violate("C12.c", construct, p.Pos(in.Pos()), "call made while executionConfigMu is held may reach the network or a sleep", chain...)
					return
				}
			}
			r.Hold("C12.c", construct, p.Pos(in.Pos()), "callee cannot reach a network call or sleep")
		})
	}
	r.Count("calls under config lock", underLock)

	// (d) keep current on failure; stores under the write lock
	nStores := checkConfigStores(p, r, ds, la, "C12.d", fns, cfgField, cfgMu)
	r.Floor("C12.d stores to executionConfig outside New", nStores, 1)

	// (e) New: the initial store dominates the first fetch
	if nw := p.Func(relayRel, "", "New"); nw != nil {
		var fetchCalls []ssa.CallInstruction
		for _, f := range fns {
			_ = f
		}
		// functions that store to the field (refreshers)
		refreshers := map[*ssa.Function]bool{}
		for _, f := range fns {
			if f.Name() == "New" {
				continue
			}
			core.EachInstr(f, func(in ssa.Instruction) {
				if st, ok := in.(*ssa.Store); ok {
					if id, _, ok := core.FieldOfAddr(st.Addr); ok && id == cfgField {
						refreshers[f] = true
					}
				}
			})
		}
		fetchCalls = core.Calls(nw, func(c *ssa.CallCommon) bool { f := c.StaticCallee(); return f != nil && refreshers[f] })
		for _, fc := range fetchCalls {
			w := core.PathQuery{Fn: nw, Target: func(in ssa.Instruction) bool { return in == fc.(ssa.Instruction) }, Avoid: func(in ssa.Instruction) bool {
				if st, ok := in.(*ssa.Store); ok {
					if id, _, ok := core.FieldOfAddr(st.Addr); ok && id == cfgField && !core.IsNilConst(st.Val) {
						return true
					}
				}
				return false
			}}.Find()
			r.Check(w == nil, "C12.e", "New|config-before-first-fetch", p.Pos(fc.Pos()), "a non-nil configurator is stored before the first refresh", "the first refresh can run before any configurator is stored", p.WitnessText(w)...)
		}
	}

	// (e,f) calls through the field
	nInv := 0
	for _, f := range fns {
		core.EachInstr(f, func(in ssa.Instruction) {
			ci, ok := in.(ssa.CallInstruction)
			if !ok || !ci.Common().IsInvoke() {
				return
			}
			recv := ci.Common().Value
			isCfg := false
			for _, lf := range core.PhiLeaves(recv, in) {
				if id, ok := core.FieldOfValue(lf.V); ok && id == cfgField {
					isCfg = true
				}
			}
			if !isCfg && !strings.HasSuffix(core.CalleeName(ci.Common()), "blockrelay.ExecutionConfigurator.ProposerConfig") {
				return
			}
			if ci.Common().Method.Name() != "ProposerConfig" {
				return
			}
			nInv++
			construct := core.FnKey(f) + "|configurator.ProposerConfig"
			args := ci.Common().Args
			if len(args) >= 2 {
				a1, a2 := ds.D(args[len(args)-2]), ds.D(args[len(args)-1])
				ok := a1.HasFieldSuffix("fallbackFeeRecipient") && a2.HasFieldSuffix("fallbackGasLimit")
				r.Check(ok, "C12.f", construct+"|fallback-args", p.Pos(in.Pos()), "called with the service's fallback fee recipient and gas limit",
					fmt.Sprintf("fallback arguments are (%s, %s), expected the service's fallbackFeeRecipient and fallbackGasLimit", a1, a2))
			}
		})
	}
	r.Floor("C12.e/f configurator calls", nInv, 1) // one call since the registration round goes through the locked accessor (F12 fix)

	// (g) blocking waits have a way out
	checkSelectsHaveDone(p, r, ds, fns, "C12.g")

	// (h) a configurator handed out with a nil error is a usable object: the value wrapped into the
	// ExecutionConfigurator interface is the address of an object (never a pointer variable that a
	// decoder may have left nil — a typed nil passes every `== nil` test of the service and then
	// panics in the first lookup).
	nH := checkConfiguratorObjects(p, r, ds, "C12.h", append(p.FuncsIn("services/blockrelay"), fns...))
	r.Floor("C12.h configurator constructions", nH, 2)

	// (i) no entry of the decoded configuration can crash a lookup: shared with C16.d for the configuration packages
	nI := checkDecodedCollections(p, r, ds, "C12.i", p.SrcFuncs(), func(rel string) bool { return strings.HasPrefix(rel, "services/blockrelay") })
	r.Floor("C12.i decoded configuration entries dereferenced", nI, 4)

	// (l) semaphores of the package are handed back: a tested TryAcquire that succeeded is followed by a Release on
	// every path (the registration round's activity semaphore, the unblinding probes)
	nProbe := 0
	for _, f := range fns {
		if f.Parent() != nil {
			continue
		}
		nProbe += checkSemaphoreProbes(p, r, ds, "C12.l", f)
	}
	r.Floor("C12.l semaphore probes", nProbe, 2)

	// (m) wait groups of the package balance: a registration round or a forwarded request always comes back
	nWG := checkWaitGroupBalance(p, r, "C12.m", fns, "the registration round (and with it the activity semaphore) or the beacon node's request never finishes")
	r.Floor("C12.m wait group Add sites", nWG, 2)

	// (n) readers of the configuration wait for it: no non-blocking lock attempt (TryLock/TryRLock) whose failure is
	// answered with something else than the configuration obtained (a pending writer makes every attempt fail)
	nTry := 0
	for _, f := range fns {
		for _, ci := range core.Calls(f, func(c *ssa.CallCommon) bool {
			callee := c.StaticCallee()
			if callee == nil || callee.Signature.Recv() == nil {
				return false
			}
			rt := callee.Signature.Recv().Type().String()
			return (strings.HasSuffix(rt, "sync.RWMutex") || strings.HasSuffix(rt, "sync.Mutex")) && strings.HasPrefix(callee.Name(), "Try")
		}) {
			nTry++
			r.Violate("C12.n", fmt.Sprintf("%s|non-blocking-lock#%d", core.FnKey(f), nTry), p.Pos(ci.Pos()), "a lock of the package is only tried ("+core.CalleeName(ci.Common())+"): while a refresh holds or waits for the lock the caller carries on without the last good configuration (fallback values are returned although a configuration was obtained)")
		}
	}
	if nTry == 0 {
		r.Hold("C12.n", "no-non-blocking-lock", "", "no TryLock/TryRLock on a mutex in the package: readers wait for the configuration")
	}

	// (o) lookups without an account return: the auction, forwarded registrations and unblinding resolve settings with a
	// nil account, so in the resolvers a method is called on an account parameter only behind `account != nil`
	nAccInv := 0
	for _, rel := range []string{"services/blockrelay/v1", "services/blockrelay/v2"} {
		for _, f := range p.FuncsIn(rel) {
			for _, prm := range f.Params {
				if _, isIface := prm.Type().Underlying().(*types.Interface); !isIface || !strings.HasSuffix(prm.Type().String(), ".Account") {
					continue
				}
				core.EachInstr(f, func(in ssa.Instruction) {
					c, ok := in.(*ssa.Call)
					if !ok || !c.Call.IsInvoke() || c.Call.Value != ssa.Value(prm) {
						return
					}
					nAccInv++
					w := core.Unguarded(ds, f, nil, func(x ssa.Instruction) bool { return x == in }, core.NonNilGuard(ds, prm))
					r.Check(w == nil, "C12.o", fmt.Sprintf("%s|account-method-behind-nil-test#%d", core.FnKey(f), nAccInv), p.Pos(c.Pos()), "the account's method is called only when an account was supplied",
						"a method is called on the account parameter without `account != nil` having been established: settings are also resolved without an account (auction, forwarded registrations, unblinding), and that request would panic instead of returning", p.WitnessText(w)...)
				})
			}
		}
	}
	r.Floor("C12.o method calls on account parameters in the resolvers", nAccInv, 1)

	// (j) using the configuration does not alter it: the resolvers write nothing that is reached from the
	// configuration object (the last good configuration stays as it was obtained)
	nRes := 0
	for _, rel := range []string{"services/blockrelay/v1", "services/blockrelay/v2"} {
		for _, f := range p.FuncsIn(rel) {
			if f.Name() != "ProposerConfig" || f.Signature.Recv() == nil || f.Parent() != nil || len(f.Params) == 0 {
				continue
			}
			nRes++
			ws := writesThrough(p, f, f.Params[0], 3, map[*ssa.Function]bool{})
			if len(ws) == 0 {
				r.Hold("C12.j", core.FnKey(f)+"|resolution-leaves-config-intact", p.Pos(f.Pos()), "the resolver writes nothing reached from the configuration")
				continue
			}
			r.Violate("C12.j", core.FnKey(f)+"|resolution-leaves-config-intact", p.Pos(ws[0].Pos()), "resolving a validator's settings writes to the stored configuration (first write shown): later requests no longer see the configuration that was obtained, until the next successful refresh", p.WitnessText(ws)...)
		}
	}
	r.Floor("C12.j configuration resolvers", nRes, 2)

	// (k) a decoder's rejection is an error: errors.Wrap & co. of an error that is known to be nil return nil,
	// so the malformed document would be accepted and replace the last good configuration
	nWrap := 0
	for _, f := range p.SrcFuncs() {
		if !strings.HasPrefix(core.RelPkg(f.Pkg.Pkg.Path()), "services/blockrelay") {
			continue
		}
		for _, ci := range core.Calls(f, func(c *ssa.CallCommon) bool {
			n := core.CalleeName(c)
			return strings.HasSuffix(n, "pkg/errors.Wrap") || strings.HasSuffix(n, "pkg/errors.Wrapf") || strings.HasSuffix(n, "pkg/errors.WithMessage") || strings.HasSuffix(n, "pkg/errors.WithMessagef") || strings.HasSuffix(n, "pkg/errors.WithStack")
		}) {
			e := ci.Common().Args[0]
			nWrap++
			if core.IsNilConst(e) {
				r.Violate("C12.k", fmt.Sprintf("%s|wrap-of-nil#%d", core.FnKey(f), nWrap), p.Pos(ci.Pos()), "a nil error is wrapped: the result is nil, the failure is reported as success")
				continue
			}
			in := ci.(ssa.Instruction)
			tests := core.CountGuards(ds, f, core.NilGuard(ds, e))
			knownNil := tests > 0 && core.Unguarded(ds, f, nil, func(x ssa.Instruction) bool { return x == in }, core.NilGuard(ds, e)) == nil
			r.Check(!knownNil, "C12.k", fmt.Sprintf("%s|wrap-of-nil#%d", core.FnKey(f), nWrap), p.Pos(ci.Pos()), "the wrapped error is not known to be nil here",
				"the error wrapped here ("+ds.D(e).String()+") is nil on every path that reaches this call (it was tested and the non-nil case left the function): the wrapper returns nil, so this rejection is reported as success and the malformed document is accepted")
		}
	}
	r.Floor("C12.k wrapped errors in the configuration packages", nWrap, 10)

	if tier == "thorough" {
		// generalised sweep: pairing + re-entrancy over the whole repository (observations only outside the package)
		n := 0
		for _, f := range p.SrcFuncs() {
			if f.Pkg.Pkg.Path() == core.ModulePath+"/"+relayRel {
				continue
			}
			for _, v := range la.Pairing(f) {
				r.OutOfScope = append(r.OutOfScope, fmt.Sprintf("lock-pairing %s %s at %s", core.FnKey(f), v.Lock, p.Pos(v.Pos)))
			}
			for _, e := range la.Reentrant(f) {
				r.OutOfScope = append(r.OutOfScope, fmt.Sprintf("reentry %s %s -> %s at %s", core.FnKey(f), e.Lock, core.FnKey(e.Callee), p.Pos(e.Site.Pos())))
			}
			n++
		}
		r.Count("sweep functions", n)
	}
}

// checkSelectsHaveDone: every blocking select (no default) and bare channel receive in fns must have
// an arm receiving from a context's Done() channel or from a timer channel (time.After / Timer.C).
func checkSelectsHaveDone(p *core.Prog, r *core.Report, ds *core.Describer, fns []*ssa.Function, rule string) int {
	n := 0
	for _, f := range fns {
		idx := 0
		core.EachInstr(f, func(in ssa.Instruction) {
			sel, ok := in.(*ssa.Select)
			if !ok || !sel.Blocking {
				return
			}
			idx++
			n++
			okArm := false
			var arms []string
			for _, st := range sel.States {
				d := ds.D(st.Chan)
				arms = append(arms, d.String())
				if isDoneOrTimer(d) {
					okArm = true
				}
			}
			r.Check(okArm, rule, fmt.Sprintf("%s|select#%d", core.FnKey(f), idx), p.Pos(sel.Pos()), "blocking select has a context/timer arm: "+strings.Join(arms, "; "),
				"blocking select without a context-done or timer arm can wait forever: "+strings.Join(arms, "; "))
		})
	}
	return n
}

func isDoneOrTimer(d *core.VD) bool {
	return d.Any(func(x *core.VD) bool {
		if x.Kind == "call" {
			if strings.HasSuffix(x.Name, "context.Context.Done") || strings.HasSuffix(x.Name, "time.After") {
				return true
			}
		}
		if x.Kind == "field" && x.Name == "C" {
			return true // timer.C / ticker.C
		}
		return false
	})
}

// checkConfiguratorObjects: every value wrapped into the ExecutionConfigurator interface and returned is the
// address of an object, or a pointer tested non-nil (a typed nil passes the callers' nil checks and panics in
// the first lookup). Returns the number of constructions examined.
func checkConfiguratorObjects(p *core.Prog, r *core.Report, ds *core.Describer, rule string, fns []*ssa.Function) int {
	nH := 0
	for _, f := range fns {
		res := f.Signature.Results()
		if res.Len() == 0 || !strings.HasSuffix(typeName(res.At(0).Type()), "blockrelay.ExecutionConfigurator") {
			continue
		}
		for ri, ret := range core.ReturnsOf(f) {
			for li, lf := range core.PhiLeaves(ret.Results[0], ret) {
				mi, ok := core.Unspill(lf.V).(*ssa.MakeInterface)
				if !ok {
					continue // interface nil (handled by d/e) or another function's result (checked there)
				}
				nH++
				construct := fmt.Sprintf("%s|return#%d.%d|non-nil-object", core.FnKey(f), ri+1, li+1)
				switch x := mi.X.(type) {
				case *ssa.Alloc, *ssa.FieldAddr, *ssa.IndexAddr:
					r.Hold(rule, construct, p.Pos(ret.Pos()), "the configurator is the address of an object")
				default:
					// a pointer value: acceptable only behind a nil test of that value
					w := core.UnguardedLeaf(ds, f, nil, lf, func(c core.Cond) int {
						if c.Op == "" || c.X == nil || c.Y == nil {
							return -1
						}
						var o *core.VD
						if c.Y.Kind == "const" && c.Y.Name == "nil" {
							o = c.X
						} else if c.X.Kind == "const" && c.X.Name == "nil" {
							o = c.Y
						} else {
							return -1
						}
						if o.Val != ssa.Value(x) && o.String() != ds.D(x).String() {
							return -1
						}
						for s := 0; s < 2; s++ {
							if c.RelOnEdge(s) == "!=" {
								return s
							}
						}
						return -1
					})
					r.Check(w == nil, rule, construct, p.Pos(ret.Pos()), "the pointer wrapped into the configurator is tested non-nil",
						fmt.Sprintf("a pointer value (%s) is wrapped into the ExecutionConfigurator interface and returned with a nil error without a nil test: a decoder that leaves it nil (a `null` document) produces a typed-nil configurator that passes the service's nil checks and replaces the current configuration", ds.D(x)), p.WitnessText(w)...)
				}
			}
		}
	}
	return nH
}

// checkConfigStores: every store to the service's execution configuration outside New keeps the current value, or
// stores a fetched one only on the edge err == nil and value != nil, under the write lock. Returns the stores seen.
func checkConfigStores(p *core.Prog, r *core.Report, ds *core.Describer, la *core.LockAnalysis, rule string, fns []*ssa.Function, cfgField, cfgMu core.FieldID) int {
	nStores := 0
	for _, f := range fns {
		held := la.HeldAt(f)
		core.EachInstr(f, func(in ssa.Instruction) {
			st, ok := in.(*ssa.Store)
			if !ok {
				return
			}
			id, _, ok := core.FieldOfAddr(st.Addr)
			if !ok || id != cfgField {
				return
			}
			if f.Name() == "New" {
				// (e) constructor: non-nil
				if rule == "C12.d" {
					r.Check(!core.IsNilConst(st.Val), "C12.e", "New|initial-config", p.Pos(st.Pos()), "constructor stores a non-nil configurator", "constructor stores a nil configurator")
				}
				return
			}
			nStores++
			construct := core.FnKey(f) + "|store-config"
			r.Check(held[in].HasField(cfgMu, true), rule, construct+"|locked", p.Pos(st.Pos()), "store under the write lock", "store to executionConfig without executionConfigMu write-held")
			// the fetch call(s) in f
			for i, lf := range core.PhiLeaves(st.Val, st) {
				d := ds.D(lf.V)
				lc := fmt.Sprintf("%s|leaf#%d", construct, i+1)
				if fid, ok := core.FieldOfValue(lf.V); ok && fid == cfgField {
					r.Hold(rule, lc, p.Pos(st.Pos()), "stored value is the current configuration (kept)")
					continue
				}
				if core.IsNilConst(lf.V) {
					r.Violate(rule, lc, p.Pos(st.Pos()), "nil is stored as the execution configuration")
					continue
				}
				// fetched value: must be Extract#0 of a call returning (cfg, error); guarded by err == nil and value != nil
				ex, ok := lf.V.(*ssa.Extract)
				if !ok {
					r.Violate(rule, lc, p.Pos(st.Pos()), "stored configuration derives neither from the current one nor from a checked fetch: "+d.String())
					continue
				}
				call := ex.Tuple
				errNil := func(c core.Cond) int { return core.ErrNilSucc(c, call) }
				w1 := core.UnguardedLeaf(ds, f, call.(ssa.Instruction), lf, errNil)
				if w1 != nil {
					r.Violate(rule, lc, p.Pos(st.Pos()), "the fetched value is stored on a path where the fetch error was not nil (a failed refresh replaces the last good configuration)", p.WitnessText(w1)...)
					continue
				}
				w2 := core.UnguardedLeaf(ds, f, call.(ssa.Instruction), lf, func(c core.Cond) int {
					if c.Op != "==" && c.Op != "!=" {
						return -1
					}
					var o *core.VD
					if c.Y.Kind == "const" && c.Y.Name == "nil" {
						o = c.X
					} else if c.X.Kind == "const" && c.X.Name == "nil" {
						o = c.Y
					} else {
						return -1
					}
					if o.Val != lf.V {
						return -1
					}
					for s := 0; s < 2; s++ {
						if c.RelOnEdge(s) == "!=" {
							return s
						}
					}
					return -1
				})
				if w2 != nil {
					// the fetch function itself never hands back nil without an error (it reports "nothing obtained" as an error)
					if cc, isCall := call.(*ssa.Call); isCall && cc.Call.StaticCallee() != nil && len(cc.Call.StaticCallee().Blocks) > 0 {
						if _, can := core.ReturnsNilWithNilError(cc.Call.StaticCallee(), ex.Index); !can && returnsNilOnlyWithError(cc.Call.StaticCallee(), ex.Index) {
							r.Hold(rule, lc, p.Pos(st.Pos()), "fetched value stored only when err == nil; the fetch function returns nil only together with an error")
							continue
						}
					}
					r.Violate(rule, lc, p.Pos(st.Pos()), "the fetched value is stored on a path where it may be nil (an empty result replaces the last good configuration)", p.WitnessText(w2)...)
					continue
				}
				r.Hold(rule, lc, p.Pos(st.Pos()), "fetched value stored only when err == nil and value != nil")
			}
		})
	}
	return nStores
}

// returnsNilOnlyWithError: g has at least one return whose result idx is the nil constant, every such return carries a
// non-nil error, and every return with a nil error tests its result against nil first (or builds it itself).
func returnsNilOnlyWithError(g *ssa.Function, idx int) bool {
	ds := core.NewDescriber()
	sawGuard := false
	for _, ret := range core.ReturnsOf(g) {
		if idx >= len(ret.Results) {
			return false
		}
		errV := ret.Results[len(ret.Results)-1]
		if !core.IsNilConst(core.Unspill(errV)) {
			continue
		}
		v := core.Unspill(ret.Results[idx])
		if _, isAlloc := v.(*ssa.Alloc); isAlloc {
			sawGuard = true
			continue
		}
		// success with a value obtained elsewhere: it must have been tested non-nil on the way
		w := core.Unguarded(ds, g, nil, func(x ssa.Instruction) bool { return x == ssa.Instruction(ret) }, core.NonNilGuard(ds, v))
		if w != nil {
			return false
		}
		sawGuard = true
	}
	return sawGuard
}
