package rules

import (
	"fmt"

	"golang.org/x/tools/go/ssa"

	"vouchcheck/internal/core"
)

// interface methods whose slice results/arguments are parallel (confirmed against the in-module implementers,
// which are themselves analysed under C06.e).
func newIdxEngine(p *core.Prog) *core.IdxEngine {
	e := core.NewIdxEngine(p)
	// SignBeaconAttestations(ctx, accounts, slot, committeeIndices, ...) []sig
	e.Iface["SignBeaconAttestations"] = core.IfaceSummary{ResultLike: map[int]int{0: 1}, Groups: [][]int{{1, 3}}}
	// SignSlotSelections(ctx, accounts, slot) []sig
	e.Iface["SignSlotSelections"] = core.IfaceSummary{ResultLike: map[int]int{0: 1}}
	// AggregatorsAndSignatures(ctx, accounts, slot, committeeSizes) ([]sig, []bool, error)
	e.Iface["AggregatorsAndSignatures"] = core.IfaceSummary{ResultLike: map[int]int{0: 1, 1: 1}, Groups: [][]int{{1, 3}}}
	// SignSyncCommitteeRoots(ctx, accounts, epoch, root) []sig ; SignSyncCommitteeSelections(ctx, accounts, slot, subcommitteeIndices) ; SignContributionAndProofs(ctx, accounts, contributionAndProofs)
	e.Iface["SignSyncCommitteeRoots"] = core.IfaceSummary{ResultLike: map[int]int{0: 1}}
	e.Iface["SignSyncCommitteeSelections"] = core.IfaceSummary{ResultLike: map[int]int{0: 1}, Groups: [][]int{{1, 3}}}
	e.Iface["SignContributionAndProofs"] = core.IfaceSummary{ResultLike: map[int]int{0: 1}, Groups: [][]int{{1, 2}}}
	// library multi-signers (go-eth2-wallet-types): results are parallel to the accounts argument
	e.Iface["AccountProtectingMultiSigner.SignBeaconAttestations"] = core.IfaceSummary{ResultLike: map[int]int{0: 2}, Groups: [][]int{{2, 3}}}
	e.Iface["AccountProtectingMultiSigner.SignGenericMulti"] = core.IfaceSummary{ResultLike: map[int]int{0: 1}, Groups: [][]int{{1, 2}}}
	e.Strict["services/attester/standard"] = true
	e.Strict["services/signer/standard"] = true
	e.Strict["services/beaconcommitteesubscriber/standard"] = true
	// account manager multi-signers: SignBeaconAttestations / SignGenericMulti style are library calls (not analysed)
	return e
}

// runIndexSpaces runs the index-space analysis over the functions of the given packages and reports
// every finding as a violation under rule. floor = minimum number of decided accesses.
func runIndexSpaces(p *core.Prog, r *core.Report, ds *core.Describer, rule string, fns []*ssa.Function, floor int) {
	e := newIdxEngine(p)
	pkgs := map[string]bool{}
	for _, f := range fns {
		pkgs[core.RelPkg(f.Pkg.Pkg.Path())] = true
	}
	decided, unknown := 0, 0
	for rel := range pkgs {
		for _, fo := range e.FuncsOfPkg(rel) {
			s := e.Summary(fo)
			if s == nil {
				continue
			}
			decided += s.Accesses
			unknown += s.Unknown
			if s.Accesses > 0 && len(s.Findings) == 0 {
				r.Hold(rule, e.Key(fo)+"|index-spaces", "", fmt.Sprintf("%d indexed accesses / co-indexed calls use an index of the collection's own space", s.Accesses))
			}
			for _, f := range s.Findings {
				r.Violate(rule, fmt.Sprintf("%s|%s|%s", f.Fn, f.Kind, f.Expr), p.Pos(f.Pos), f.Detail)
			}
		}
	}
	r.Count("index-space decided accesses", decided)
	r.Count("index-space unknown-index accesses", unknown)
	r.Floor(rule+" decided indexed accesses", decided, floor)
}
