package rules

import (
	"fmt"
	"go/token"
	"go/types"
	"sort"
	"strings"

	"golang.org/x/tools/go/ssa"

	"vouchcheck/internal/core"
)

func init() {
	register(&Pack{
		ID:  "C02",
		Run: runC02,
		Expl: "Decides structural necessary conditions of 'a scheduled job runs exactly once, whoever starts it' in services/scheduler/advanced (the interleavings themselves belong to model checking): " +
			"(a) the job function is invoked only inside the goroutine closure started by the scheduling call; " +
			"(b) one-off closure: from the run arm and from the timer arm every path to the closure's end passes exactly one invocation of the job function, from the context/cancel arms none; " +
			"(c) periodic closure: the run arm runs the job exactly once and returns to the loop, the timer arm at most once and returns to the loop; only the context/cancel/runtime-error arms leave the loop; " +
			"(d) RunJob/RunJobIfExists remove a one-off job's name under jobsMutex in the same critical section as the lookup before signalling it; " +
			"(e) every send on runCh/cancelCh happens with stateLock held after reading finalised == false in the same critical section, every close with stateLock held after finalised is set; " +
			"(f) in runJob a nil return implies that active was set and the run signal was sent, and no return leaves active set without the signal having been sent; " +
			"(g) lock pairing in the package; (h) on every exit path of a closure the job is finalised exactly once and its name is removed exactly once counting the claimer (CancelJob/RunJob remove it themselves, so the cancel/run arms must not). " +
			"Added with the fourth seeding round: (k) the loops of CancelJobs are only left by exhaustion. Added with the sixth seeding round and the false-alarm regression: (l) outside its select the job goroutine waits on the run channel only; (d, extended) an entry point that hands the request to another claimer claims through it. Added with the eighth seeding round: on the scheduler's user side (the controller) (m) the work of a duty (Propose, Attest, Message, Aggregate) is reached from the body of exactly one scheduled job and from nowhere outside a job body; (n) a context narrowed in a controller function (WithTimeout/WithDeadline/WithCancel) is not handed to the scheduler nor to a controller function that schedules under it. NOT decided: the interleavings (two RunJobs at once, cancel versus timer at the same instant), timing, liveness of time.After.",
		Technique: "SSA select-arm analysis with min/max path counting of job invocations, finalisations and name removals; lock-set dataflow for the send/close discipline; guard/edge-deletion queries; who-may-call on the job function value",
		Rule:      "one obligation per select arm and quantity (b,c,h), per send/close site (e), per return of runJob (f), per claimer (d), per function with lock operations (g)",
	})
}

const schedRel = "services/scheduler/advanced"

func isJobFuncCall(in ssa.Instruction) bool {
	c, ok := in.(*ssa.Call)
	if !ok || c.Call.IsInvoke() || c.Call.StaticCallee() != nil {
		return false
	}
	return strings.HasSuffix(types.TypeString(c.Call.Value.Type(), nil), "services/scheduler.JobFunc")
}

func jobFieldOf(v ssa.Value, ds *core.Describer) string {
	d := ds.D(v)
	if d.Kind == "field" {
		return d.Name
	}
	return ""
}

func runC02(p *core.Prog, r *core.Report, tier string) {
	ds := core.NewDescriber()
	la := core.NewLockAnalysis(p)
	fns := p.FuncsIn(schedRel)
	if len(fns) == 0 {
		r.Undecide("C02.anchor", schedRel, "", "package not found")
		return
	}
	jobsField := core.FieldID{Owner: schedRel + ".Service", Name: "jobs"}
	// the job-state lock, by role: the mutex field of the struct that holds the signal channels
	stateLock := "stateLock"
	if pk := p.ByPath[core.ModulePath+"/"+schedRel]; pk != nil && pk.Types != nil {
		for _, name := range pk.Types.Scope().Names() {
			tn, ok := pk.Types.Scope().Lookup(name).(*types.TypeName)
			if !ok {
				continue
			}
			st, ok := tn.Type().Underlying().(*types.Struct)
			if !ok {
				continue
			}
			hasCh, mu := false, ""
			for i := 0; i < st.NumFields(); i++ {
				f := st.Field(i)
				if _, isCh := f.Type().Underlying().(*types.Chan); isCh {
					hasCh = true
				}
				if core.IsMutexType(f.Type()) && mu == "" {
					mu = f.Name()
				}
			}
			if hasCh && mu != "" {
				stateLock = mu
			}
		}
	}

	isDeleteJobs := func(in ssa.Instruction) bool {
		c, ok := in.(*ssa.Call)
		if !ok {
			return false
		}
		b, ok := c.Call.Value.(*ssa.Builtin)
		if !ok || b.Name() != "delete" {
			return false
		}
		id, ok := core.FieldOfValue(c.Call.Args[0])
		return ok && id == jobsField
	}
	var finaliser *ssa.Function
	for _, f := range fns {
		closes := 0
		core.EachInstr(f, func(in ssa.Instruction) {
			if c, ok := in.(*ssa.Call); ok {
				if b, ok := c.Call.Value.(*ssa.Builtin); ok && b.Name() == "close" {
					closes++
				}
			}
		})
		if closes > 0 && f.Parent() == nil {
			finaliser = f
		}
	}
	isFinalise := func(in ssa.Instruction) bool {
		c, ok := in.(*ssa.Call)
		return ok && finaliser != nil && c.Call.StaticCallee() == finaliser
	}

	// ---- closures ----
	nClosures := 0
	for _, f := range fns {
		if f.Parent() != nil {
			continue
		}
		if f.Name() != "ScheduleJob" && f.Name() != "SchedulePeriodicJob" {
			continue
		}
		periodic := f.Name() == "SchedulePeriodicJob"
		// (a) uses of the jobFunc parameter in the scheduling function itself
		for _, prm := range f.Params {
			if !strings.HasSuffix(types.TypeString(prm.Type(), nil), "services/scheduler.JobFunc") || prm.Referrers() == nil {
				continue
			}
			for _, ref := range *prm.Referrers() {
				switch x := ref.(type) {
				case *ssa.MakeClosure, *ssa.BinOp, *ssa.DebugRef:
				case *ssa.Store:
					// captured variable cell
					if _, ok := x.Addr.(*ssa.Alloc); !ok {
						r.Violate("C02.a", core.FnKey(f)+"|jobfunc-escapes", p.Pos(ref.Pos()), "the job function is stored somewhere other than the goroutine's captured variable")
					}
				default:
					if isJobFuncCall(ref) {
						r.Violate("C02.a", core.FnKey(f)+"|jobfunc-called-inline", p.Pos(ref.Pos()), "the job function is invoked by the scheduling call itself, outside the job goroutine")
					}
				}
			}
		}
		for _, cl := range f.AnonFuncs {
			var sel *ssa.Select
			core.EachInstr(cl, func(in ssa.Instruction) {
				if s, ok := in.(*ssa.Select); ok && s.Blocking {
					sel = s
				}
			})
			if sel == nil {
				continue
			}
			nClosures++
			base := core.FnKey(cl)
			// (l) the only thing the job goroutine waits for outside its select is the run signal it was promised: a plain
			// receive from any other channel (the cancel channel, which nobody signals once the job is claimed) hangs
			core.EachInstr(cl, func(in ssa.Instruction) {
				u, ok := in.(*ssa.UnOp)
				if !ok || u.Op != token.ARROW {
					return
				}
				d := ds.D(u.X)
				if isTimerDrain(u) {
					return // `if !t.Stop() { <-t.C }`: the tick of a timer that has fired is already in the channel, the receive cannot wait
				}
				r.Check(d.Kind == "field" && d.Name == "runCh", "C02.l", fmt.Sprintf("%s|plain-receive|%s", base, d.String()), p.Pos(u.Pos()), "a receive outside the select takes the run signal", "outside its select the job goroutine waits on "+d.String()+", not on the run channel: a claimed job's run signal is never taken (the request was reported as accepted, the job never runs) and the goroutine waits for ever")
			})
			selBlock := sel.Block()
			stopAtSelect := func(b *ssa.BasicBlock) bool { return periodic && b == selBlock }
			// the loop header of the periodic closure: paths that come back to the select's block (via the runtime call) count as "returned to the loop"
			kinds := map[string]int{}
			for k, st := range sel.States {
				d := ds.D(st.Chan)
				kind := ""
				switch {
				case d.MentionsCall("context.Context.Done"):
					kind = "ctx"
				case d.MentionsCall("time.After") || (d.Kind == "field" && d.Name == "C"):
					kind = "timer"
				case d.Kind == "field" && d.Name == "cancelCh":
					kind = "cancel"
				case d.Kind == "field" && d.Name == "runCh":
					kind = "run"
				default:
					r.Undecide("C02.b", fmt.Sprintf("%s|arm#%d", base, k), p.Pos(sel.Pos()), "cannot classify select arm on "+d.String())
					continue
				}
				kinds[kind]++
				arm := core.SelectArm(sel, k)
				if arm == nil {
					r.Undecide("C02.b", base+"|arm-"+kind, p.Pos(sel.Pos()), "cannot locate the arm's block")
					continue
				}
				// in the periodic closure "the loop" is re-entered when control reaches the block that computes the next runtime:
				// any block that dominates the select block and is a loop header. We stop at the select's own block.
				stop := stopAtSelect
				if periodic {
					stop = func(b *ssa.BasicBlock) bool { return b == selBlock || dominatesAndLoops(b, selBlock) }
				}
				runs := func(min, max int) string { return fmt.Sprintf("min %d / max %d", min, max) }
				rule := "C02.b"
				if periodic {
					rule = "C02.c"
				}
				mn, mx, ok := core.CountOnPaths(arm, throughLocalClosures(isJobFuncCall), stop)
				if !ok {
					r.Undecide(rule, base+"|arm-"+kind+"|runs", p.Pos(st.Pos), "loop inside the arm: cannot count invocations")
				} else {
					var want string
					good := false
					switch kind {
					case "ctx", "cancel":
						want, good = "0", mn == 0 && mx == 0
					case "run":
						want, good = "exactly 1", mn == 1 && mx == 1
					case "timer":
						if periodic {
							want, good = "at most 1 (a pending run request is served by the next iteration)", mx <= 1
						} else {
							want, good = "exactly 1", mn == 1 && mx == 1
						}
					}
					detail := "job invocations on paths from the " + kind + " arm: " + runs(mn, mx) + ", expected " + want
					if !good && kind == "timer" && mn == 0 {
						detail += " — a path ends the goroutine without running the job although a run request that was reported as accepted (active set) is still pending: the job is silently dropped"
					}
					r.Check(good, rule, base+"|arm-"+kind+"|runs", p.Pos(st.Pos), detail, detail)
				}
				// leaving the loop (periodic): run/timer arms must not reach a return
				if periodic {
					w := core.PathQuery{Fn: cl, From: firstInstr(arm), Target: core.IsReturn, Avoid: func(in ssa.Instruction) bool { return in == ssa.Instruction(sel) },
						Edge: func(b *ssa.BasicBlock, succ int) bool { return !stop(b.Succs[succ]) }}.Find()
					if len(arm.Instrs) > 0 && core.IsReturn(arm.Instrs[0]) {
						w = []ssa.Instruction{arm.Instrs[0]}
					}
					switch kind {
					case "run", "timer":
						r.Check(w == nil, "C02.c", base+"|arm-"+kind+"|keeps-ticking", p.Pos(st.Pos), "the "+kind+" arm always returns to the loop", "the periodic job's goroutine can end after the "+kind+" arm: the job stops ticking", p.WitnessText(w)...)
					case "ctx", "cancel":
						mnS, _, okS := core.CountOnPaths(arm, func(in ssa.Instruction) bool { return in == ssa.Instruction(sel) }, nil)
						_ = mnS
						wBack := core.PathQuery{Fn: cl, From: firstInstr(arm), Target: func(in ssa.Instruction) bool { return in == ssa.Instruction(sel) }}.Find()
						r.Check(wBack == nil || !okS, "C02.c", base+"|arm-"+kind+"|stops", p.Pos(st.Pos), "the "+kind+" arm ends the goroutine", "after the "+kind+" arm the periodic job keeps running")
					}
				}
				// (h) finalise and name removal counts on exit paths
				if !periodic || kind == "ctx" || kind == "cancel" {
					fmn, fmx, fok := core.CountOnPaths(arm, throughLocalClosures(isFinalise), stop)
					if fok {
						r.Check(fmn == 1 && fmx == 1, "C02.h", base+"|arm-"+kind+"|finalised-once", p.Pos(st.Pos), "the job is finalised exactly once on every path of the "+kind+" arm",
							fmt.Sprintf("the job is finalised %s times on paths of the %s arm (0 leaves its channels open and later requests hanging, 2 closes a closed channel and panics)", runs(fmn, fmx), kind))
					}
					dmn, dmx, dok := core.CountOnPaths(arm, throughLocalClosures(isDeleteJobs), stop)
					if dok {
						wantDel := 0
						why := "the claimer (CancelJob / RunJob) already removed the name; removing it again can delete a newer job scheduled under the same name"
						if kind == "ctx" {
							wantDel = 1
							why = "nobody else removes the name on this arm"
						}
						if kind == "timer" {
							// the timer path that runs on its own removes the name; the path that serves a pending run request does not
							good := dmx <= 1
							r.Check(good, "C02.h", base+"|arm-timer|name-removed", p.Pos(st.Pos), "the timer arm removes the name at most once", fmt.Sprintf("the timer arm removes the name %s times", runs(dmn, dmx)))
						} else {
							r.Check(dmn == wantDel && dmx == wantDel, "C02.h", base+"|arm-"+kind+"|name-removed", p.Pos(st.Pos), fmt.Sprintf("the %s arm removes the name %d times (%s)", kind, wantDel, why),
								fmt.Sprintf("the %s arm removes the name %s times, expected %d: %s", kind, runs(dmn, dmx), wantDel, why))
						}
					}
				}
			}
			for _, want := range []string{"ctx", "cancel", "run", "timer"} {
				r.Check(kinds[want] == 1, "C02.b", base+"|has-arm-"+want, p.Pos(sel.Pos()), "the select has a "+want+" arm", "the job goroutine's select has no "+want+" arm")
			}
			// timer arm of the one-off closure: paths that run the job on their own (not serving a run request) must have removed the name before
			if !periodic {
				for k, st := range sel.States {
					if d := ds.D(st.Chan); d.MentionsCall("time.After") {
						arm := core.SelectArm(sel, k)
						activeTrue := func(c core.Cond) int {
							if c.B != nil && c.B.IsCall("atomic.Bool.Load") && c.B.MentionsField("active") {
								if c.BoolOnEdge(0) {
									return 0
								}
								return 1
							}
							return -1
						}
						est := guardEdges(ds, cl, activeTrue)
						w := core.PathQuery{Fn: cl, From: firstInstr(arm), Target: throughLocalClosures(isJobFuncCall), Avoid: isDeleteJobs, Edge: func(b *ssa.BasicBlock, succ int) bool {
							if s, ok := est[b]; ok && s == succ {
								return false
							}
							return true
						}}.Find()
						if len(arm.Instrs) > 0 && isJobFuncCall(arm.Instrs[0]) {
							w = []ssa.Instruction{arm.Instrs[0]}
						}
						r.Check(w == nil, "C02.d", base+"|timer-claims-name", p.Pos(st.Pos), "the timer arm removes the name before running the job on its own", "the timer arm can run the job without having removed its name (RunJob can then start it a second time)", p.WitnessText(w)...)
					}
				}
			}
		}
	}
	r.Floor("C02 job goroutine closures", nClosures, 2)

	// (a) no other invocation of a JobFunc value in the package
	for _, f := range fns {
		inClosure := f.Parent() != nil && (f.Parent().Name() == "ScheduleJob" || f.Parent().Name() == "SchedulePeriodicJob")
		core.EachInstr(f, func(in ssa.Instruction) {
			if isJobFuncCall(in) && !inClosure {
				r.Violate("C02.a", core.FnKey(f)+"|jobfunc-called", p.Pos(in.Pos()), "a job function is invoked outside the job's own goroutine (it can run twice or overlap)")
			}
		})
	}
	r.Hold("C02.a", "jobfunc-only-in-goroutine", "", "job functions are invoked only in the goroutine closures")

	// ---- (d) claimers ----
	var runJobFn *ssa.Function
	for _, f := range fns {
		if f.Parent() != nil {
			continue
		}
		sendsRun := false
		core.EachInstr(f, func(in ssa.Instruction) {
			if s, ok := in.(*ssa.Send); ok && jobFieldOf(s.Chan, ds) == "runCh" {
				sendsRun = true
			}
			if s, ok := in.(*ssa.Select); ok {
				for _, st := range s.States {
					if st.Dir == types.SendOnly && jobFieldOf(st.Chan, ds) == "runCh" {
						sendsRun = true
					}
				}
			}
		})
		if sendsRun {
			runJobFn = f
		}
	}
	if runJobFn == nil {
		r.Violate("C02.f", "run-signaller", "", "no function signals a job's run channel: early-run requests cannot start a job")
	} else {
		nClaim := 0
		for _, f := range fns {
			for _, ci := range core.Calls(f, func(c *ssa.CallCommon) bool { return c.StaticCallee() == runJobFn }) {
				nClaim++
				base := core.FnKey(f) + "|claim"
				periodicTrue := func(c core.Cond) int {
					if c.B != nil && c.B.HasFieldSuffix("periodic") {
						if c.BoolOnEdge(0) {
							return 0
						}
						return 1
					}
					// the kind of job as an enumerated field: the edge on which the field differs from what ScheduleJob
					// (one-off) stores, or equals what SchedulePeriodicJob stores
					if c.Op == "==" || c.Op == "!=" {
						for _, side := range [][2]*core.VD{{c.X, c.Y}, {c.Y, c.X}} {
							if side[0].Kind != "field" || side[1].Kind != "const" {
								continue
							}
							oneOff, periodic := jobKindConstants(p, ds, fns, side[0].Name)
							want := ""
							switch side[1].Name {
							case oneOff:
								want = "!="
							case periodic:
								want = "=="
							}
							if want == "" || oneOff == periodic {
								continue
							}
							for e := 0; e < 2; e++ {
								if c.RelOnEdge(e) == want {
									return e
								}
							}
						}
					}
					return -1
				}
				est := guardEdges(ds, f, periodicTrue)
				w := core.PathQuery{Fn: f, Target: func(in ssa.Instruction) bool { return in == ci.(ssa.Instruction) }, Avoid: isDeleteJobs, Edge: func(b *ssa.BasicBlock, succ int) bool {
					if s, ok := est[b]; ok && s == succ {
						return false
					}
					return true
				}}.Find()
				r.Check(w == nil, "C02.d", base+"|removes-name-first", p.Pos(ci.Pos()), "a one-off job's name is removed before it is signalled", "a one-off job can be signalled to run while its name stays in the job list (a second RunJob or the timer can start it again)", p.WitnessText(w)...)
				held := la.HeldAt(f)
				core.EachInstr(f, func(in ssa.Instruction) {
					if isDeleteJobs(in) {
						r.Check(heldGuard(p, la, held[in], jobsField, true), "C02.d", base+"|delete-locked", p.Pos(in.Pos()), "removal under jobsMutex", "the name is removed without jobsMutex write-held")
					}
				})
				// lookup and delete in one critical section
				var lk *ssa.Lookup
				core.EachInstr(f, func(in ssa.Instruction) {
					if l, ok := in.(*ssa.Lookup); ok {
						if id, ok := core.FieldOfValue(l.X); ok && id == jobsField {
							lk = l
						}
					}
				})
				if lk != nil {
					split := false
					core.EachInstr(f, func(in ssa.Instruction) {
						c, ok := in.(ssa.CallInstruction)
						if !ok || split {
							return
						}
						op, ok := core.LockOpOf(c)
						if !ok || op.Acquire || op.Lock.Field.Name != "jobsMutex" {
							return
						}
						w1 := core.PathQuery{Fn: f, From: lk, Target: func(x ssa.Instruction) bool { return x == in }}.Find()
						w2 := core.PathQuery{Fn: f, From: in, Target: isDeleteJobs}.Find()
						if w1 != nil && w2 != nil {
							split = true
						}
					})
					r.Check(!split, "C02.d", base+"|lookup-and-remove-atomic", p.Pos(lk.Pos()), "lookup and removal are one critical section", "jobsMutex is released between the lookup and the removal (two RunJob calls can both claim the job)")
				}
			}
		}
		// an entry point that hands the request to another claimer (RunJobIfExists calling RunJob) claims through it
		claimers := map[*ssa.Function]bool{}
		for _, f := range fns {
			if len(core.Calls(f, func(c *ssa.CallCommon) bool { return c.StaticCallee() == runJobFn })) > 0 {
				claimers[f] = true
			}
		}
		for _, f := range fns {
			if claimers[f] {
				continue
			}
			for _, ci := range core.Calls(f, func(c *ssa.CallCommon) bool { return c.StaticCallee() != nil && claimers[c.StaticCallee()] }) {
				nClaim++
				r.Hold("C02.d", core.FnKey(f)+"|claims-through|"+ci.Common().StaticCallee().Name(), p.Pos(ci.Pos()), "the request is handed to "+ci.Common().StaticCallee().Name()+", which claims the job")
			}
		}
		r.Floor("C02.d claimers calling the run signaller", nClaim, 2)

		// ---- (f) runJob ----
		base := core.FnKey(runJobFn)
		var activeSet ssa.Instruction
		core.EachInstr(runJobFn, func(in ssa.Instruction) {
			if c, ok := in.(*ssa.Call); ok && core.MethodName(c.Common()) == "Store" && len(c.Call.Args) == 2 {
				if ds.D(c.Call.Args[0]).HasFieldSuffix("active") && ds.D(c.Call.Args[1]).String() == "true" {
					activeSet = in
				}
			}
		})
		sent := sendPoints(runJobFn, ds, "runCh")
		isSent := func(in ssa.Instruction) bool { return sent[in] }
		if activeSet == nil {
			r.Violate("C02.f", base+"|sets-active", p.Pos(runJobFn.Pos()), "the run signaller never marks the job active")
		} else {
			isReset := func(in ssa.Instruction) bool {
				if c, ok := in.(*ssa.Call); ok && core.MethodName(c.Common()) == "Store" && len(c.Call.Args) == 2 {
					return ds.D(c.Call.Args[0]).HasFieldSuffix("active") && ds.D(c.Call.Args[1]).String() == "false"
				}
				return false
			}
			w := core.PathQuery{Fn: runJobFn, From: activeSet, Target: core.IsReturn, Avoid: func(in ssa.Instruction) bool { return isSent(in) || isReset(in) }}.Find()
			r.Check(w == nil, "C02.f", base+"|active-implies-signal", p.Pos(activeSet.Pos()), "after marking the job active every return has sent the run signal (or reset the mark)",
				"a path marks the job active and returns without sending the run signal: the timer then sees 'already running' and the job is dropped, periodic jobs never run again", p.WitnessText(w)...)
		}
		for i, ret := range core.ReturnsOf(runJobFn) {
			if len(ret.Results) == 0 || !core.MayBeNilErr(ds, runJobFn, ret.Results[len(ret.Results)-1], ret) {
				continue
			}
			// judged per value that can reach the return: `return err` with err merged from the refusals and nil
			var w []ssa.Instruction
			for _, lf := range core.FeasibleLeaves(runJobFn, ret.Results[len(ret.Results)-1], ret) {
				if w != nil || !core.MayBeNilErr(ds, runJobFn, lf.V, lf.At) {
					continue
				}
				at := lf.At
				w = core.PathQuery{Fn: runJobFn, Target: func(in ssa.Instruction) bool { return in == at }, Avoid: isSent}.Find()
			}
			r.Check(w == nil, "C02.f", fmt.Sprintf("%s|success-return#%d", base, i+1), p.Pos(ret.Pos()), "success is reported only after the run signal was sent", "success can be reported without the run signal having been sent", p.WitnessText(w)...)
		}
	}

	// ---- (j) the running mark is dropped after every run ----
	// each invocation of the job function inside the job loops is followed, before the loop waits again or ends, by
	// active.Store(false): a run that leaves the mark set makes every later early-run request fail and, for a periodic
	// job, makes the next tick wait for a signal that never comes
	nRun := 0
	for _, f := range fns {
		if f.Parent() == nil {
			continue
		}
		core.EachInstr(f, func(in ssa.Instruction) {
			c, ok := in.(*ssa.Call)
			if !ok || c.Call.IsInvoke() || c.Call.StaticCallee() != nil {
				return
			}
			if !strings.HasSuffix(c.Call.Value.Type().String(), "scheduler.JobFunc") {
				return
			}
			nRun++
			isClear := func(x ssa.Instruction) bool {
				cc, ok := x.(*ssa.Call)
				if !ok {
					return false
				}
				callee := cc.Call.StaticCallee()
				if callee == nil || callee.Name() != "Store" || callee.Signature.Recv() == nil || !strings.Contains(callee.Signature.Recv().Type().String(), "atomic.Bool") {
					return false
				}
				if len(cc.Call.Args) < 2 {
					return false
				}
				k, ok := cc.Call.Args[1].(*ssa.Const)
				return ok && k.Value != nil && k.Value.String() == "false"
			}
			w := core.PathQuery{Fn: f, From: c, Target: func(x ssa.Instruction) bool {
				if _, isSel := x.(*ssa.Select); isSel {
					return true
				}
				return core.IsReturn(x)
			}, Avoid: isClear}.Find()
			r.Check(w == nil, "C02.j", fmt.Sprintf("%s|run#%d|clears-active", core.FnKey(f), nRun), p.Pos(c.Pos()), "the running mark is cleared after the job function returns",
				"after this run of the job function the loop can wait again (or end) with the running mark still set: later early-run requests are refused as 'already running' and a periodic job's next tick blocks", p.WitnessText(w)...)
		})
	}
	r.Floor("C02.j job function invocations in the job loops", nRun, 4)

	// ---- (k) cancelling by prefix reaches every matching job: the loops of CancelJobs are only left by exhaustion
	// (a job found already finalised must not end the cancellation of the others) ----
	nCJ := 0
	for _, f := range fns {
		if f.Name() != "CancelJobs" || f.Parent() != nil {
			continue
		}
		for _, l := range p.Loops(f) {
			nCJ++
			noEarlyExit(p, r, "C02.k", l, "cancellation of all jobs with the prefix")
		}
	}
	r.Floor("C02.k loops of CancelJobs", nCJ, 2)

	// ---- (i) a name is claimed atomically ----
	nAtomic := 0
	for _, f := range fns {
		nAtomic += checkTestAndSetAtomic(p, r, la, "C02.i", f, jobsField,
			"the job-name lock is released between testing that the name is free and inserting the job: two concurrent requests for one name both pass the test, the second insert replaces the first job in the table, and both goroutines run the job", true)
	}
	r.Floor("C02.i name test/insert pairs", nAtomic, 2)

	// ---- (e) send/close discipline ----
	nSend := 0
	for _, f := range fns {
		held := la.HeldAt(f)
		for _, chName := range []string{"runCh", "cancelCh"} {
			for in := range sendPoints(f, ds, chName) {
				// plain sends and select-send arms
				nSend++
				base := core.FnKey(f) + "|send-" + chName
				at := in
				if s := sendOrigin(f, in); s != nil {
					at = s
				}
				r.Check(held[at].HasName(stateLock, true), "C02.e", base+"|locked", p.Pos(at.Pos()), "send with stateLock held", "send on "+chName+" without stateLock held (can race with close: panic)")
				notFinal := func(c core.Cond) int {
					if c.B != nil && c.B.IsCall("atomic.Bool.Load") && c.B.MentionsField("finalised") {
						if c.BoolOnEdge(0) {
							return 1
						}
						return 0
					}
					return -1
				}
				w := core.Unguarded(ds, f, nil, func(x ssa.Instruction) bool { return x == at }, notFinal)
				r.Check(w == nil, "C02.e", base+"|not-finalised", p.Pos(at.Pos()), "send only after finalised was read false", "send on "+chName+" without testing that the job is not finalised (send on a closed channel panics)", p.WitnessText(w)...)
				// no unlock between the test and the send
				split := false
				core.EachInstr(f, func(x ssa.Instruction) {
					c, ok := x.(*ssa.Call)
					if !ok || split || !(c.Common().Value != nil) {
						return
					}
					if !(core.MethodName(c.Common()) == "Load" && ds.D(c).MentionsField("finalised")) {
						return
					}
					core.EachInstr(f, func(u ssa.Instruction) {
						uc, ok := u.(ssa.CallInstruction)
						if !ok {
							return
						}
						op, ok := core.LockOpOf(uc)
						if !ok || op.Acquire || op.Lock.Field.Name != stateLock {
							return
						}
						w1 := core.PathQuery{Fn: f, From: x, Target: func(y ssa.Instruction) bool { return y == u }}.Find()
						w2 := core.PathQuery{Fn: f, From: u, Target: func(y ssa.Instruction) bool { return y == at }, Avoid: func(y ssa.Instruction) bool { return y == x }}.Find()
						if w1 != nil && w2 != nil {
							split = true
						}
					})
				})
				r.Check(!split, "C02.e", base+"|test-and-send-atomic", p.Pos(at.Pos()), "the finalised test and the send are one critical section", "stateLock is released between the finalised test and the send")
			}
		}
		core.EachInstr(f, func(in ssa.Instruction) {
			c, ok := in.(*ssa.Call)
			if !ok {
				return
			}
			b, ok := c.Call.Value.(*ssa.Builtin)
			if !ok || b.Name() != "close" {
				return
			}
			ch := jobFieldOf(c.Call.Args[0], ds)
			if ch != "runCh" && ch != "cancelCh" {
				return
			}
			base := core.FnKey(f) + "|close-" + ch
			r.Check(held[in].HasName(stateLock, true), "C02.e", base+"|locked", p.Pos(in.Pos()), "close with stateLock held", "close of "+ch+" without stateLock held")
			// finalised stored true before, on every path
			w := core.PathQuery{Fn: f, Target: func(x ssa.Instruction) bool { return x == in }, Avoid: func(x ssa.Instruction) bool {
				if sc, ok := x.(*ssa.Call); ok && core.MethodName(sc.Common()) == "Store" && len(sc.Call.Args) == 2 {
					return ds.D(sc.Call.Args[0]).HasFieldSuffix("finalised") && ds.D(sc.Call.Args[1]).String() == "true"
				}
				return false
			}}.Find()
			r.Check(w == nil, "C02.e", base+"|after-finalised", p.Pos(in.Pos()), "finalised is set before the channel is closed", "the channel is closed before finalised is set", p.WitnessText(w)...)
		})
	}
	r.Floor("C02.e sends on job channels", nSend, 2)

	// ---- (g) lock pairing ----
	nLock := 0
	for _, f := range fns {
		n := 0
		core.EachInstr(f, func(in ssa.Instruction) {
			if ci, ok := in.(ssa.CallInstruction); ok {
				if _, ok := core.LockOpOf(ci); ok {
					n++
				}
			}
		})
		if n == 0 {
			continue
		}
		nLock++
		pv := la.Pairing(f)
		if len(pv) == 0 {
			r.Hold("C02.g", core.FnKey(f)+"|lock-pairing", p.Pos(f.Pos()), fmt.Sprintf("%d lock operations paired on all paths", n))
		}
		for _, v := range pv {
			r.Violate("C02.g", core.FnKey(f)+"|lock-pairing|"+v.Lock, p.Pos(v.Pos), "lock "+v.Lock+" may be held at return", v.Witness...)
		}
	}
	r.Floor("C02.g functions with lock operations", nLock, 6)

	checkControllerJobs(p, r, ds)
}

// checkControllerJobs: C02.m/C02.n — on the user's side of the scheduler (the controller):
//
//	(m) the work of a duty (Propose, Attest, Message, Aggregate of the duty services) is reached from the body of ONE
//	    scheduled job per kind: a second way to it (a direct call beside the job, a fall-back when the job could not be
//	    kicked off) runs the work although the job ran, or although it was cancelled;
//	(n) the context handed to the scheduler with a job is not one that the scheduling function narrows (WithTimeout /
//	    WithDeadline / WithCancel): the scheduler drops an accepted job when its context ends.
func checkControllerJobs(p *core.Prog, r *core.Report, ds *core.Describer) {
	const ctrl = "services/controller/standard"
	fns := p.FuncsIn(ctrl)
	if len(fns) == 0 {
		r.Undecide("C02.m", ctrl, "", "package not found")
		return
	}
	isSchedule := func(c *ssa.CallCommon) bool {
		n := core.MethodName(c)
		return c.IsInvoke() && (n == "ScheduleJob" || n == "SchedulePeriodicJob")
	}
	// job bodies: function values handed to the scheduler
	jobBody := map[*ssa.Function]ssa.CallInstruction{}
	for _, f := range fns {
		for _, ci := range core.Calls(f, isSchedule) {
			for _, a := range ci.Common().Args {
				for {
					if ct, ok := a.(*ssa.ChangeType); ok {
						a = ct.X
						continue
					}
					break
				}
				switch x := a.(type) {
				case *ssa.MakeClosure:
					if fn, ok := x.Fn.(*ssa.Function); ok {
						jobBody[fn] = ci
					}
				case *ssa.Function:
					jobBody[x] = ci
				}
			}
		}
	}
	// who reaches whom inside the package (static calls, go/defer, closures created in a function)
	succ := map[*ssa.Function][]*ssa.Function{}
	for _, f := range fns {
		core.EachInstr(f, func(in ssa.Instruction) {
			switch x := in.(type) {
			case ssa.CallInstruction:
				if callee := x.Common().StaticCallee(); callee != nil && callee.Pkg == f.Pkg {
					succ[f] = append(succ[f], callee)
				}
			}
			if mc, ok := in.(*ssa.MakeClosure); ok {
				if fn, ok := mc.Fn.(*ssa.Function); ok {
					if _, isJob := jobBody[fn]; !isJob {
						succ[f] = append(succ[f], fn) // runs as part of f (called on the spot, or started as a goroutine)
					}
				}
			}
		})
	}
	entry := map[string]bool{"Propose": true, "Attest": true, "Message": true, "Aggregate": true}
	reach := func(root *ssa.Function) map[string]ssa.CallInstruction {
		out := map[string]ssa.CallInstruction{}
		seen := map[*ssa.Function]bool{}
		var walk func(f *ssa.Function)
		walk = func(f *ssa.Function) {
			if seen[f] {
				return
			}
			seen[f] = true
			for _, ci := range core.Calls(f, func(c *ssa.CallCommon) bool { return c.IsInvoke() && entry[core.MethodName(c)] }) {
				out[core.CalleeName(ci.Common())] = ci
			}
			for _, g := range succ[f] {
				walk(g)
			}
		}
		walk(root)
		return out
	}
	from := map[string][]string{}
	at := map[string]ssa.CallInstruction{}
	var bodies []*ssa.Function
	for b := range jobBody {
		bodies = append(bodies, b)
	}
	sort.Slice(bodies, func(i, j int) bool { return bodies[i].Pos() < bodies[j].Pos() })
	for _, b := range bodies {
		for name, ci := range reach(b) {
			from[name] = append(from[name], p.Pos(jobBody[b].Pos()))
			at[name] = ci
		}
	}
	var names []string
	for n := range from {
		names = append(names, n)
	}
	sort.Strings(names)
	for _, n := range names {
		r.Check(len(from[n]) == 1, "C02.m", "controller|one-job-per-duty-work|"+n, p.Pos(at[n].Pos()), "the work is reached from the body of one scheduled job", fmt.Sprintf("%s is reached from the bodies of %d scheduled jobs (%s): when both run — the job itself and the one that was meant to kick it off — the duty is carried out twice, and a cancelled job's work is still done", n, len(from[n]), strings.Join(from[n], ", ")))
	}
	r.Floor("C02.m kinds of duty work started from scheduled jobs", len(names), 4)
	// … and from nowhere else: every call of such work lies in code that a job body reaches
	inJob := map[*ssa.Function]bool{}
	var mark func(f *ssa.Function)
	mark = func(f *ssa.Function) {
		if inJob[f] {
			return
		}
		inJob[f] = true
		for _, g := range succ[f] {
			mark(g)
		}
	}
	for _, b := range bodies {
		mark(b)
	}
	for _, f := range fns {
		if inJob[f] {
			continue
		}
		for k, ci := range core.Calls(f, func(c *ssa.CallCommon) bool { return c.IsInvoke() && entry[core.MethodName(c)] }) {
			r.Violate("C02.m", fmt.Sprintf("controller|work-outside-a-job|%s|%s#%d", core.FnKey(f), core.CalleeName(ci.Common()), k+1), p.Pos(ci.Pos()), core.CalleeName(ci.Common())+" is called from "+f.Name()+", which is not part of the body of a scheduled job: the work is done beside the job that exists for it (twice, or although the job was cancelled)")
		}
	}

	// (n)
	nCtx := 0
	for _, f := range fns {
		for _, ci := range core.Calls(f, isSchedule) {
			if len(ci.Common().Args) == 0 {
				continue
			}
			nCtx++
			d := ds.D(ci.Common().Args[0])
			narrowed := d.MentionsCall("context.WithTimeout") || d.MentionsCall("context.WithDeadline") || d.MentionsCall("context.WithCancel")
			r.Check(!narrowed, "C02.n", fmt.Sprintf("%s|job-context#%d", core.FnKey(f), nCtx), p.Pos(ci.Pos()), "the job is scheduled under a context its scheduling function does not end", "the job is handed to the scheduler under "+d.String()+", which ends when the scheduling function returns or its time is up: the accepted job is then dropped without having run")
		}
	}
	// the same for the functions of the controller that schedule with a context they were handed: their callers
	schedules := map[*ssa.Function]bool{}
	for changed := true; changed; {
		changed = false
		for _, f := range fns {
			if schedules[f] {
				continue
			}
			hit := len(core.Calls(f, isSchedule)) > 0
			for _, g := range succ[f] {
				if schedules[g] {
					hit = true
				}
			}
			if hit {
				schedules[f] = true
				changed = true
			}
		}
	}
	for _, f := range fns {
		k := 0
		core.EachInstr(f, func(in ssa.Instruction) {
			ci, ok := in.(ssa.CallInstruction)
			if !ok {
				return
			}
			callee := ci.Common().StaticCallee()
			if callee == nil || !schedules[callee] {
				return
			}
			for _, a := range ci.Common().Args {
				if !strings.HasSuffix(a.Type().String(), "context.Context") {
					continue
				}
				d := ds.D(a)
				if d.MentionsCall("context.WithTimeout") || d.MentionsCall("context.WithDeadline") || d.MentionsCall("context.WithCancel") {
					k++
					r.Violate("C02.n", fmt.Sprintf("%s|narrowed-context-to-scheduling-function#%d", core.FnKey(f), k), p.Pos(ci.Pos()), "the context handed to "+callee.Name()+", which schedules jobs under it, is "+d.String()+": it ends when this function returns or its time is up, and the scheduler then drops the jobs it has just accepted")
				}
			}
		})
	}
	r.Floor("C02.n ScheduleJob calls in the controller", nCtx, 6)
}

func firstInstr(b *ssa.BasicBlock) ssa.Instruction {
	// PathQuery.From starts after the instruction: use a synthetic approach — return nil-safe first instruction's predecessor.
	// We start from the arm's first instruction; callers handle a target at position 0 separately.
	if len(b.Instrs) == 0 {
		return nil
	}
	return b.Instrs[0]
}

// dominatesAndLoops: b dominates sel and is reachable from sel (i.e. b is a loop header containing sel).
func dominatesAndLoops(b, sel *ssa.BasicBlock) bool {
	if !b.Dominates(sel) || b == sel {
		return false
	}
	// reachable from sel?
	seen := map[*ssa.BasicBlock]bool{}
	stack := []*ssa.BasicBlock{sel}
	for len(stack) > 0 {
		x := stack[len(stack)-1]
		stack = stack[:len(stack)-1]
		for _, s := range x.Succs {
			if s == b {
				return true
			}
			if !seen[s] {
				seen[s] = true
				stack = append(stack, s)
			}
		}
	}
	return false
}

// sendPoints returns the instructions after which a send on the job channel field `name` has happened:
// plain Send instructions, and the first instruction of a select arm that sends on it.
func sendPoints(f *ssa.Function, ds *core.Describer, name string) map[ssa.Instruction]bool {
	out := map[ssa.Instruction]bool{}
	core.EachInstr(f, func(in ssa.Instruction) {
		switch x := in.(type) {
		case *ssa.Send:
			if jobFieldOf(x.Chan, ds) == name {
				out[in] = true
			}
		case *ssa.Select:
			for k, st := range x.States {
				if st.Dir == types.SendOnly && jobFieldOf(st.Chan, ds) == name {
					if arm := core.SelectArm(x, k); arm != nil && len(arm.Instrs) > 0 {
						out[arm.Instrs[0]] = true
					}
				}
			}
		}
	})
	return out
}

// sendOrigin maps a select-arm send point back to its select instruction (nil for plain sends).
func sendOrigin(f *ssa.Function, in ssa.Instruction) ssa.Instruction {
	if _, ok := in.(*ssa.Send); ok {
		return nil
	}
	var found ssa.Instruction
	core.EachInstr(f, func(x ssa.Instruction) {
		if s, ok := x.(*ssa.Select); ok {
			for k := range s.States {
				if arm := core.SelectArm(s, k); arm != nil && len(arm.Instrs) > 0 && arm.Instrs[0] == in {
					found = s
				}
			}
		}
	})
	return found
}

// jobKindConstants: the constants ScheduleJob and SchedulePeriodicJob store into field fieldName of the job they create
// ("" when not a constant).
func jobKindConstants(p *core.Prog, ds *core.Describer, fns []*ssa.Function, fieldName string) (oneOff, periodic string) {
	for _, f := range fns {
		if f.Parent() != nil || (f.Name() != "ScheduleJob" && f.Name() != "SchedulePeriodicJob") {
			continue
		}
		core.EachInstr(f, func(in ssa.Instruction) {
			st, ok := in.(*ssa.Store)
			if !ok {
				return
			}
			fa, ok := st.Addr.(*ssa.FieldAddr)
			if !ok {
				return
			}
			id, _, ok := core.FieldOfAddr(fa)
			if !ok || id.Name != fieldName {
				return
			}
			d := ds.D(st.Val)
			if d.Kind != "const" {
				return
			}
			if f.Name() == "ScheduleJob" {
				oneOff = d.Name
			} else {
				periodic = d.Name
			}
		})
	}
	return oneOff, periodic
}

// isTimerDrain: the receive is from the C field of a *time.Timer, in a block reached only when a call of Stop on a
// timer has returned false (the stop-and-drain idiom before Reset).
func isTimerDrain(u *ssa.UnOp) bool {
	ld, ok := u.X.(*ssa.UnOp)
	if !ok || ld.Op != token.MUL {
		return false
	}
	fa, ok := ld.X.(*ssa.FieldAddr)
	if !ok {
		return false
	}
	pt, ok := fa.X.Type().Underlying().(*types.Pointer)
	if !ok {
		return false
	}
	nt, ok := pt.Elem().(*types.Named)
	if !ok || nt.Obj().Pkg() == nil || nt.Obj().Pkg().Path() != "time" || nt.Obj().Name() != "Timer" {
		return false
	}
	for _, b := range u.Parent().Blocks {
		if len(b.Instrs) == 0 {
			continue
		}
		iff, ok := b.Instrs[len(b.Instrs)-1].(*ssa.If)
		if !ok || len(b.Succs) != 2 {
			continue
		}
		cond := iff.Cond
		falseSucc := b.Succs[1]
		if n, ok := cond.(*ssa.UnOp); ok && n.Op == token.NOT {
			cond = n.X
			falseSucc = b.Succs[0]
		}
		c, ok := cond.(*ssa.Call)
		if !ok {
			continue
		}
		callee := c.Call.StaticCallee()
		if callee == nil || callee.Name() != "Stop" || callee.Pkg == nil || callee.Pkg.Pkg.Path() != "time" {
			continue
		}
		if falseSucc != u.Block() && len(falseSucc.Preds) == 1 && falseSucc.Dominates(u.Block()) {
			return true
		}
		if falseSucc == u.Block() && len(falseSucc.Preds) == 1 {
			return true
		}
	}
	return false
}
