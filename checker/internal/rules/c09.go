package rules

import (
	"fmt"
	"go/types"
	"sort"
	"strings"

	"golang.org/x/tools/go/ssa"

	"vouchcheck/internal/core"
)

func init() {
	register(&Pack{
		ID:  "C09",
		Run: runC09,
		Expl: "Decides, independently for both relay-auction strategies (strategies/builderbid/best and /deadline; no textual comparison of the siblings), structural necessary conditions of 'the relay auction selects the best eligible bid and only eligible bids': " +
			"(a) a response carrying a bid is sent to the collector only through: value >= the relay's MinValue (exactly >=), a non-zero value, and a nil error of the detail verifier, whose nil returns require a non-zero fee recipient, timestamp == StartOfSlot(slot).Unix() and a verified signature (skipped only when both the configured and the provider's public key are nil); nothing derived from an unverified relay response leaves the worker as state for later rounds; " +
			"(b) the signature is verified over HashTreeRoot(SigningData{MessageHashTreeRoot(bid), applicationBuilderDomain}) with the relay's key; (c) the score is the bid value, plus the builder's Offset, times Factor/100, the builder configuration being looked up by the bid's own builder; " +
			"(d) the winner is replaced only under score != 0 and (no winner or score > winner's score), Providers is then replaced by the single provider of that response, appended only under bidsEqual, and every counted response is recorded in Participation; " +
			"(e) the winner is updated only from the collector loops, each bounded by the strategy's deadline context; (f) the block relay caches the winning bid only under a non-nil winner and serves a cached bid only when its value is positive; " +
			"(g) a relay is listed for unblinding only if its client can supply bids (and, in 'best', unblind); (h) the result of a failed client lookup is not used. " +
			"Added with the third seeding round: (e, extended) the deadline strategy's cut-off is StartOfSlot(slot) + the configured deadline. Added with the fifth seeding round: (j) the provider a relay worker queries was obtained for the relay whose settings the worker is given; (y) the relay client cache rule C11.i and the nil-deref rule C16.i are taken over for the auction's packages. Added with the sixth seeding round and the false-alarm regression: (k) the context under which the relay requests are issued is not cancelled before the last collector; (f, a) judged per value that can reach a merged return or send. Added with the seventh seeding round: (d, extended) what is compared with the winner's recorded Score is the Score recorded for this response; (f, extended) every path after a successful auction hands its outcome to the caching function. Added with the eighth seeding round: (m) the fields of a BuilderConfig literal built entry by entry in main.go do not depend on a variable carried round the loop; (y) C10.n is taken over. Added with the tenth seeding round: (c, extended) a score accumulated in place in a number the function owns is followed through the calls whose destination it is. NOT decided: that the highest score among all timely bids wins (needs arrival orders), value arithmetic, relay honesty.",
		Technique: "SSA guard/edge-deletion queries with relation sets and guard-helper summaries (error-nilness), provenance of verifier inputs and score operands, who-may-call on the winner update, use-after-failed-call analysis",
		Rule:      "obligations (a)-(e),(g),(h) per strategy package; (f) for services/blockrelay/standard",
	})
}

func runC09(p *core.Prog, r *core.Report, tier string) {
	ds := core.NewDescriber()
	for _, rel := range []string{"strategies/builderbid/best", "strategies/builderbid/deadline"} {
		checkBidStrategy(p, r, ds, rel)
	}
	checkRelayBidCache(p, r, ds)
	checkBuilderConfigEntries(p, r, ds)
}

// isBigCmp: d is (*big.Int).Cmp(x, y) or (*uint256.Int).Cmp(x, y)
func isBigCmp(d *core.VD) bool {
	return d != nil && d.Kind == "call" && (strings.HasSuffix(d.Name, "big.Int.Cmp") || strings.HasSuffix(d.Name, "uint256.Int.Cmp")) && len(d.Args) == 2
}

func checkBidStrategy(p *core.Prog, r *core.Report, ds *core.Describer, rel string) {
	fns := p.FuncsIn(rel)
	tag := rel[strings.LastIndex(rel, "/")+1:]
	if len(fns) == 0 {
		r.Undecide("C09.anchor", rel, "", "package not found")
		return
	}
	// ---- the worker: sends a response literal with a bid ----
	type bidSend struct {
		fn   *ssa.Function
		send *ssa.Send
		lit  *core.StructLit
		site ssa.Instruction // the send, or — when the message is merged from several literals — the end of the block in which the bid-carrying one was built
	}
	var sends []bidSend
	for _, f := range fns {
		core.EachInstr(f, func(in ssa.Instruction) {
			snd, ok := in.(*ssa.Send)
			if !ok {
				return
			}
			for _, lf := range core.FeasibleLeaves(f, snd.X, snd) {
				a, ok := lf.V.(*ssa.Alloc)
				if !ok {
					continue
				}
				site := ssa.Instruction(snd)
				if lf.Pred != nil {
					site = lf.At
				}
				for _, sl := range core.StructLits(f, "builderBidResponse") {
					if sl.Alloc == a && sl.Fields["bid"] != nil && !core.IsNilConst(sl.Fields["bid"]) {
						sends = append(sends, bidSend{f, snd, sl, site})
					}
				}
			}
		})
	}
	if len(sends) == 0 {
		r.Violate("C09.a", tag+"|bid-response", "", "no worker of "+rel+" ever forwards a bid")
		return
	}
	r.Count("bid-carrying sends", len(sends))
	for i, bs := range sends {
		f := bs.fn
		base := fmt.Sprintf("%s|%s|bid-response#%d", tag, core.FnKey(f), i+1)
		bidV := bs.lit.Fields["bid"]
		chain := callChain(p, f, bs.site, 3)
		// (a1) value >= MinValue
		minG := func(c core.Cond) int {
			if c.Op == "" {
				return -1
			}
			var cmp *core.VD
			flip := false
			if isBigCmp(c.X) && c.Y.Kind == "const" && c.Y.Name == "0" {
				cmp = c.X
			} else if isBigCmp(c.Y) && c.X.Kind == "const" && c.X.Name == "0" {
				cmp, flip = c.Y, true
			} else {
				return -1
			}
			// operands: bid value vs relay minimum
			valueFirst := cmp.Args[1].MentionsField("MinValue") && !cmp.Args[0].MentionsField("MinValue")
			minFirst := cmp.Args[0].MentionsField("MinValue") && !cmp.Args[1].MentionsField("MinValue")
			if !valueFirst && !minFirst {
				return -1
			}
			for s := 0; s < 2; s++ {
				rel := c.RelOnEdge(s)
				if flip {
					rel = core.FlipRel(rel)
				}
				if minFirst {
					rel = core.FlipRel(rel)
				}
				if rel == ">=" {
					return s
				}
			}
			return -1
		}
		ok, wit, how := guardOnChain(p, ds, chain, minG)
		r.Check(ok, "C09.a", base+"|min-value", p.Pos(bs.send.Pos()), "a bid is forwarded only when value >= relay MinValue ("+how+")", "a bid can be forwarded without value >= the relay's configured minimum having been established (exactly >=)", p.WitnessText(wit)...)
		// (a2) non-zero value: helper whose nil return requires zero.Cmp(value) != 0
		zeroG := func(c core.Cond) int {
			if c.Op == "" {
				return -1
			}
			var cmp *core.VD
			if isBigCmp(c.X) && c.Y.Kind == "const" && c.Y.Name == "0" {
				cmp = c.X
			} else if isBigCmp(c.Y) && c.X.Kind == "const" && c.X.Name == "0" {
				cmp = c.Y
			} else {
				return -1
			}
			if !(strings.Contains(cmp.Args[0].String(), "zeroValue") || strings.Contains(cmp.Args[1].String(), "zeroValue")) {
				return -1
			}
			for s := 0; s < 2; s++ {
				if r := c.RelOnEdge(s); r == "!=" || r == ">" || r == "<" {
					return s
				}
			}
			return -1
		}
		ok, wit, how = guardOnChain(p, ds, chain, zeroG)
		r.Check(ok, "C09.a", base+"|non-zero-value", p.Pos(bs.send.Pos()), "a bid is forwarded only with a non-zero value ("+how+")", "a bid can be forwarded without its value having been tested non-zero", p.WitnessText(wit)...)
		// (a3) verifier clauses
		feeG := func(c core.Cond) int {
			if c.B == nil || !c.B.IsCall("bytes.Equal") {
				return -1
			}
			if !c.B.MentionsCall("VersionedSignedBuilderBid.FeeRecipient") {
				return -1
			}
			if c.BoolOnEdge(0) {
				return 1
			}
			return 0
		}
		tsG := relGuard(func(d *core.VD) bool { return d.MentionsCall("VersionedSignedBuilderBid.Timestamp") },
			func(d *core.VD) bool {
				return d.MentionsCall("StartOfSlot") && d.Any(func(x *core.VD) bool { return x.Kind == "param" && x.Name == "slot" })
			}, map[string]bool{"==": true})
		sigG := func(c core.Cond) int {
			if c.B == nil {
				return -1
			}
			if !(c.B.Kind == "extract" && c.B.Name == "0" && len(c.B.Args) == 1 && strings.Contains(c.B.Args[0].Name, "verifyBidSignature")) && !c.B.IsCall("Signature.Verify") && !strings.Contains(c.B.String(), ".Verify(") {
				return -1
			}
			if c.BoolOnEdge(0) {
				return 0
			}
			return 1
		}
		for _, g := range []struct {
			name string
			g    core.GuardSpec
			what string
		}{
			{"fee-recipient-non-zero", feeG, "the bid's fee recipient is not the zero address"},
			{"timestamp-is-slot-start", tsG, "the bid's timestamp equals StartOfSlot(slot).Unix()"},
			{"signature-verified", sigG, "the relay's signature was verified"},
		} {
			ok, wit, how := guardOnChain(p, ds, chain, g.g)
			r.Check(ok, "C09.a", base+"|"+g.name, p.Pos(bs.send.Pos()), "a bid is forwarded only when "+g.what+" ("+how+")", "a bid can be forwarded without it having been established that "+g.what, p.WitnessText(wit)...)
		}
		// the bid forwarded is the one that was examined: it derives from the provider's response of this call
		bd := ds.D(bidV)
		r.Check(bd.MentionsCall("BuilderBidProvider.BuilderBid") || bd.Kind == "param" || strings.Contains(bd.String(), "obtainBid"), "C09.a", base+"|bid-is-examined-bid", p.Pos(bs.send.Pos()), "the bid forwarded is the relay's response examined here", "the bid forwarded is "+bd.String())
		// the score forwarded is the bid's value
		if sv := bs.lit.Fields["score"]; sv != nil {
			sd := ds.D(sv)
			r.Check(sd.Any(func(x *core.VD) bool {
				return strings.Contains(x.Name, "getBidValue") || strings.HasSuffix(x.Name, "VersionedSignedBuilderBid.Value")
			}), "C09.c", base+"|score-is-value", p.Pos(bs.send.Pos()), "the score forwarded is the bid's value", "the score forwarded with a bid is "+sd.String()+", not the bid's value")
		} else {
			r.Violate("C09.c", base+"|score-is-value", p.Pos(bs.send.Pos()), "a bid is forwarded without a score")
		}
	}
	// every response WITHOUT eligibility carries no bid: sends of response literals on arms before verification have bid unset — implied by the above (bid-carrying sends are all guarded).

	// nothing unverified leaves the worker as state (deadline strategy keeps firstBid/lastBid between rounds)
	checkVerifiedStateOnly(p, r, ds, "C09.a", tag, fns, "a bid that failed (or skipped) verification is kept as the relay's last bid: later eligible bids of that relay are then measured against an ineligible one and dropped")

	// ---- (a/b) signature verifier ----
	for _, f := range fns {
		if !strings.Contains(f.Name(), "verifyBidSignature") {
			continue
		}
		base := tag + "|" + core.FnKey(f)
		var verifyCall *ssa.Call
		core.EachInstr(f, func(in ssa.Instruction) {
			if c, ok := in.(*ssa.Call); ok && c.Call.IsInvoke() && c.Call.Method.Name() == "Verify" {
				verifyCall = c
			}
		})
		if verifyCall == nil {
			r.Violate("C09.b", base+"|verifies", p.Pos(f.Pos()), "the signature verifier never verifies a signature")
			continue
		}
		for i, ret := range core.ReturnsOf(f) {
			if len(ret.Results) != 2 {
				continue
			}
			d := ds.D(ret.Results[0])
			if d.Kind == "const" && d.Name == "true" {
				// skip allowed only when both keys are nil
				for _, who := range []struct {
					name string
					m    func(*core.VD) bool
				}{
					{"configured key", func(x *core.VD) bool { return x.HasFieldSuffix("PublicKey") }},
					{"provider key", func(x *core.VD) bool {
						return x.IsCall("BuilderBidProvider.Pubkey") || strings.HasSuffix(x.Name, ".Pubkey")
					}},
				} {
					m := who.m
					w := core.Unguarded(ds, f, nil, func(x ssa.Instruction) bool { return x == ssa.Instruction(ret) }, func(c core.Cond) int {
						if c.Op != "==" && c.Op != "!=" {
							return -1
						}
						var o *core.VD
						if c.Y.Kind == "const" && c.Y.Name == "nil" {
							o = c.X
						} else if c.X.Kind == "const" && c.X.Name == "nil" {
							o = c.Y
						} else {
							return -1
						}
						if !o.Any(m) {
							return -1
						}
						for s := 0; s < 2; s++ {
							if c.RelOnEdge(s) == "==" {
								return s
							}
						}
						return -1
					})
					r.Check(w == nil, "C09.a", fmt.Sprintf("%s|skip-return#%d|%s-nil", base, i+1, who.name), p.Pos(ret.Pos()), "verification is skipped only when the "+who.name+" is nil", "signature verification can be skipped although the "+who.name+" is known", p.WitnessText(w)...)
				}
			} else if core.IsNilConst(core.Unspill(ret.Results[1])) {
				r.Check(d.MentionsValue(verifyCall), "C09.a", fmt.Sprintf("%s|verdict-return#%d", base, i+1), p.Pos(ret.Pos()), "the verdict is the result of Verify", "the verifier reports "+d.String()+" instead of the result of Verify")
			}
		}
		// (b) inputs of Verify
		va := verifyCall.Call.Args
		rd := ds.D(va[0])
		okRoot := rd.MentionsCall("SigningData.HashTreeRoot")
		r.Check(okRoot, "C09.b", base+"|verify-root", p.Pos(verifyCall.Pos()), "Verify receives the hash tree root of the signing data", "Verify receives "+rd.String())
		for _, sl := range core.StructLits(f, "spec/phase0.SigningData") {
			if v := sl.Fields["ObjectRoot"]; v != nil {
				r.Check(ds.D(v).MentionsCall("MessageHashTreeRoot"), "C09.b", base+"|signing-data-root", p.Pos(sl.Alloc.Pos()), "ObjectRoot = MessageHashTreeRoot(bid)", "ObjectRoot is "+ds.D(v).String())
			} else {
				r.Violate("C09.b", base+"|signing-data-root", p.Pos(sl.Alloc.Pos()), "ObjectRoot is not set")
			}
			if v := sl.Fields["Domain"]; v != nil {
				r.Check(ds.D(v).HasFieldSuffix("applicationBuilderDomain"), "C09.b", base+"|signing-data-domain", p.Pos(sl.Alloc.Pos()), "Domain = the application-builder domain", "Domain is "+ds.D(v).String())
			} else {
				r.Violate("C09.b", base+"|signing-data-domain", p.Pos(sl.Alloc.Pos()), "Domain is not set")
			}
		}
		kd := ds.D(va[1])
		okKey := kd.Any(func(x *core.VD) bool {
			return x.HasFieldSuffix("PublicKey") || strings.HasSuffix(x.Name, ".Pubkey") || x.HasFieldSuffix("relayPubkeys")
		})
		r.Check(okKey, "C09.b", base+"|verify-key", p.Pos(verifyCall.Pos()), "Verify uses the relay's key", "Verify uses key "+kd.String())
	}

	// ---- (c)(d) winner update ----
	var setter *ssa.Function
	for _, f := range fns {
		core.EachInstr(f, func(in ssa.Instruction) {
			if st, ok := in.(*ssa.Store); ok {
				if id, _, ok := core.FieldOfAddr(st.Addr); ok && id.Name == "WinningParticipation" {
					setter = f
				}
			}
		})
	}
	if setter == nil {
		r.Violate("C09.d", tag+"|winner-update", "", "no function of "+rel+" ever sets the winning participation")
		return
	}
	sbase := tag + "|" + core.FnKey(setter)
	// score literal
	for _, sl := range core.StructLits(setter, "blockauctioneer.Participation") {
		sv := sl.Fields["Score"]
		if sv == nil {
			r.Violate("C09.c", sbase+"|score", p.Pos(sl.Alloc.Pos()), "the participation has no score")
			continue
		}
		sd := ds.D(sv)
		hasBase := sd.Any(func(x *core.VD) bool { return x.Kind == "field" && x.Name == "score" })
		hasOffset := sd.Any(func(x *core.VD) bool { return x.IsCall("big.Int.Add") && x.MentionsField("Offset") })
		hasFactor := sd.Any(func(x *core.VD) bool { return x.IsCall("big.Int.Mul") && x.MentionsField("Factor") })
		hasDiv := sd.Any(func(x *core.VD) bool { return x.IsCall("big.Int.Div") && x.MentionsCall("big.NewInt") })
		// order: the multiplication's operand contains the addition (add then multiply)
		order := sd.Any(func(x *core.VD) bool {
			return x.IsCall("big.Int.Mul") && x.Any(func(y *core.VD) bool { return y.IsCall("big.Int.Add") })
		})
		// builder config looked up by the bid's builder
		cfgOK := sd.Any(func(x *core.VD) bool {
			return x.Kind == "lookup" && x.Args[1].MentionsCall("VersionedSignedBuilderBid.Builder")
		})
		// the same computed in place, in a number the function owns: score := new(big.Int).Set(value), then
		// score.Add(score, Offset), score.Mul(score, Factor), score.Div(score, 100) — the steps are the calls whose
		// destination and first operand are that number
		if sd.IsCall("big.Int.Set") && !hasOffset && !hasFactor {
			var add, mul, div *ssa.Call
			core.EachInstr(setter, func(in ssa.Instruction) {
				c, ok := in.(*ssa.Call)
				if !ok || c.Call.StaticCallee() == nil || len(c.Call.Args) != 3 || c.Call.Args[0] != sv || c.Call.Args[1] != sv {
					return
				}
				od := ds.D(c.Call.Args[2])
				switch c.Call.StaticCallee().Name() {
				case "Add":
					if od.MentionsField("Offset") {
						add = c
					}
				case "Mul":
					if od.MentionsField("Factor") {
						mul = c
					}
				case "Div":
					if od.MentionsCall("big.NewInt") {
						div = c
					}
				}
				if od.Any(func(x *core.VD) bool {
					return x.Kind == "lookup" && x.Args[1].MentionsCall("VersionedSignedBuilderBid.Builder")
				}) {
					cfgOK = true
				}
			})
			after := func(a, b *ssa.Call) bool {
				if a == nil || b == nil {
					return false
				}
				fwd := core.PathQuery{Fn: setter, From: a, Target: func(x ssa.Instruction) bool { return x == ssa.Instruction(b) }}.Find() != nil
				back := core.PathQuery{Fn: setter, From: b, Target: func(x ssa.Instruction) bool { return x == ssa.Instruction(a) }}.Find() != nil
				return fwd && !back
			}
			hasOffset, hasFactor, hasDiv = add != nil, mul != nil, div != nil && after(mul, div)
			order = after(add, mul)
		}
		r.Check(hasBase && hasOffset && hasFactor && hasDiv, "C09.c", sbase+"|score", p.Pos(sl.Alloc.Pos()), "score = value (+ Offset) (x Factor / 100)", "the score is not value + Offset, times Factor / 100: "+sd.String())
		r.Check(order, "C09.c", sbase+"|score-order", p.Pos(sl.Alloc.Pos()), "the offset is added before the factor is applied", "the factor is not applied to the offset-adjusted value")
		r.Check(cfgOK, "C09.c", sbase+"|builder-config", p.Pos(sl.Alloc.Pos()), "the builder configuration is looked up by the bid's own builder key", "the builder configuration applied to the score is not looked up by the bid's builder")
		if bv := sl.Fields["Bid"]; bv != nil {
			r.Check(ds.D(bv).HasFieldSuffix("bid"), "C09.d", sbase+"|participation-bid", p.Pos(sl.Alloc.Pos()), "the participation records the response's bid", "the participation records "+ds.D(bv).String())
		}
	}
	recordedScore, comparedOther := "", ""
	if lits := core.StructLits(setter, "blockauctioneer.Participation"); len(lits) == 1 && lits[0].Fields["Score"] != nil {
		recordedScore = ds.D(lits[0].Fields["Score"]).String()
	}
	core.EachInstr(setter, func(in ssa.Instruction) {
		st, ok := in.(*ssa.Store)
		if !ok {
			return
		}
		id, _, ok := core.FieldOfAddr(st.Addr)
		if !ok || !strings.HasSuffix(id.Owner, "blockauctioneer.Results") {
			return
		}
		isSt := func(x ssa.Instruction) bool { return x == in }
		switch id.Name {
		case "WinningParticipation":
			nonZero := func(c core.Cond) int {
				// score.Sign() != 0
				if c.Op != "" && c.X != nil && c.X.Kind == "call" && strings.HasSuffix(c.X.Name, "big.Int.Sign") && c.Y != nil && c.Y.Kind == "const" && c.Y.Name == "0" && len(c.X.Args) > 0 && recordedScore != "" && c.X.Args[0].String() == recordedScore {
					for s := 0; s < 2; s++ {
						if c.RelOnEdge(s) == "!=" {
							return s
						}
					}
					return -1
				}
				if c.Op == "" || !isBigCmp(c.X) || c.Y.Kind != "const" || c.Y.Name != "0" {
					return -1
				}
				if !c.X.MentionsCall("big.NewInt") {
					return -1
				}
				for s := 0; s < 2; s++ {
					if c.RelOnEdge(s) == "!=" {
						return s
					}
				}
				return -1
			}
			w := core.Unguarded(ds, setter, nil, isSt, nonZero)
			r.Check(w == nil, "C09.d", sbase+"|winner|score-non-zero", p.Pos(st.Pos()), "the winner is set only for a non-zero score", "a zero-score (ineligible) bid can become the winner", p.WitnessText(w)...)
			higher := func(c core.Cond) int {
				// winner == nil
				if c.Op == "==" || c.Op == "!=" {
					var o *core.VD
					if c.Y.Kind == "const" && c.Y.Name == "nil" {
						o = c.X
					} else if c.X.Kind == "const" && c.X.Name == "nil" {
						o = c.Y
					}
					if o != nil && o.HasFieldSuffix("WinningParticipation") {
						for s := 0; s < 2; s++ {
							if c.RelOnEdge(s) == "==" {
								return s
							}
						}
					}
				}
				if c.Op != "" && isBigCmp(c.X) && c.Y.Kind == "const" && c.Y.Name == "0" && c.X.Args[1].HasFieldSuffix("WinningParticipation", "Score") {
					if recordedScore != "" && c.X.Args[0].String() != recordedScore {
						comparedOther = c.X.Args[0].String()
					}
					for s := 0; s < 2; s++ {
						if rel := c.RelOnEdge(s); rel == ">" || rel == ">=" {
							return s
						}
					}
				}
				return -1
			}
			w = core.Unguarded(ds, setter, nil, isSt, higher)
			r.Check(w == nil, "C09.d", sbase+"|winner|higher-score", p.Pos(st.Pos()), "the winner is replaced only when there is none or the new score is higher", "the winner can be replaced by a bid whose score is not higher than the current winner's", p.WitnessText(w)...)
			if w == nil && recordedScore != "" {
				r.Check(comparedOther == "", "C09.d", sbase+"|winner|compares-recorded-score", p.Pos(st.Pos()), "what is compared with the winner's recorded score is the score recorded for this response", "the value compared with the current winner's recorded Score is "+comparedOther+", but the Score recorded for this response is "+recordedScore+": the comparison mixes two scales (a raw value against an adjusted one), so the bid with the highest adjusted score does not always win")
			}
			r.Check(ds.D(st.Val).Kind == "alloc" || len(core.StructLits(setter, "blockauctioneer.Participation")) > 0, "C09.d", sbase+"|winner|value", p.Pos(st.Pos()), "the winner is this response's participation", "the winner stored is "+ds.D(st.Val).String())
		case "Providers":
			d := ds.D(st.Val)
			// replaced (slice literal of one element) on the winner arm, appended on the bidsEqual arm
			if call, ok := st.Val.(*ssa.Call); ok && !isResetAppend(st.Val) {
				if b, ok := call.Call.Value.(*ssa.Builtin); ok && b.Name() == "append" {
					w := core.Unguarded(ds, setter, nil, isSt, func(c core.Cond) int {
						if c.B != nil && strings.Contains(c.B.String(), "bidsEqual") {
							if c.BoolOnEdge(0) {
								return 0
							}
							return 1
						}
						return -1
					})
					r.Check(w == nil, "C09.d", sbase+"|providers|append-only-equal-bids", p.Pos(st.Pos()), "a provider is added to the winner's list only when its bid equals the winning bid", "a provider can be added to the unblinding list although its bid differs from the winning bid", p.WitnessText(w)...)
					return
				}
			}
			// replacement: must be in the same block as a WinningParticipation store
			same := false
			for _, x := range st.Block().Instrs {
				if s2, ok := x.(*ssa.Store); ok {
					if id2, _, ok := core.FieldOfAddr(s2.Addr); ok && id2.Name == "WinningParticipation" {
						same = true
					}
				}
			}
			r.Check(same && d.MentionsField("provider"), "C09.d", sbase+"|providers|replaced-with-winner", p.Pos(st.Pos()), "the provider list is replaced by the new winner's provider", "the provider list is replaced outside the winner update or not by the response's provider: "+d.String())
		}
	})
	// a new winner always resets the provider list
	core.EachInstr(setter, func(in ssa.Instruction) {
		st, ok := in.(*ssa.Store)
		if !ok {
			return
		}
		if id, _, ok := core.FieldOfAddr(st.Addr); !ok || id.Name != "WinningParticipation" {
			return
		}
		reset := false
		for _, x := range st.Block().Instrs {
			if s2, ok := x.(*ssa.Store); ok {
				if id2, _, ok := core.FieldOfAddr(s2.Addr); ok && id2.Name == "Providers" {
					if _, isAppend := s2.Val.(*ssa.Call); !isAppend || isResetAppend(s2.Val) {
						reset = true
					}
				}
			}
		}
		r.Check(reset, "C09.d", sbase+"|winner|resets-providers", p.Pos(st.Pos()), "a new winner replaces the provider list", "a new winner keeps the previous winner's providers in the unblinding list (they did not offer the winning payload)")
	})
	// participation recorded
	rec := false
	core.EachInstr(setter, func(in ssa.Instruction) {
		if mu, ok := in.(*ssa.MapUpdate); ok && ds.D(mu.Map).HasFieldSuffix("Participation") {
			rec = true
			r.Check(ds.D(mu.Key).MentionsField("provider"), "C09.d", sbase+"|participation-key", p.Pos(mu.Pos()), "participation recorded under the response's provider", "participation recorded under "+ds.D(mu.Key).String())
		}
	})
	r.Check(rec, "C09.d", sbase+"|participation-recorded", p.Pos(setter.Pos()), "every counted response is recorded in Participation", "responses are not recorded in Participation")

	// ---- (e) only collector loops update the winner ----
	for _, f := range fns {
		for _, ci := range core.Calls(f, func(c *ssa.CallCommon) bool { return c.StaticCallee() == setter }) {
			// inside a select recv arm of a loop
			inSel := false
			core.EachInstr(f, func(in ssa.Instruction) {
				if s, ok := in.(*ssa.Select); ok && s.Blocking {
					for k := range s.States {
						arm := core.SelectArm(s, k)
						if arm == nil {
							continue
						}
						if w := (core.PathQuery{Fn: f, From: firstInstr(arm), Target: func(x ssa.Instruction) bool { return x == ci.(ssa.Instruction) }, Avoid: func(x ssa.Instruction) bool { return x == ssa.Instruction(s) }}).Find(); w != nil {
							inSel = true
						}
					}
				}
			})
			r.Check(inSel, "C09.e", tag+"|"+core.FnKey(f)+"|winner-update-in-collector", p.Pos(ci.Pos()), "the winner is updated from a collector's receive arm", "the winner is updated outside the deadline-bounded collector loop (late bids would be considered)")
			// and the response passed has a non-nil bid
			w := core.Unguarded(ds, f, nil, func(x ssa.Instruction) bool { return x == ci.(ssa.Instruction) }, func(c core.Cond) int {
				if c.Op != "==" && c.Op != "!=" {
					return -1
				}
				var o *core.VD
				if c.Y.Kind == "const" && c.Y.Name == "nil" {
					o = c.X
				} else if c.X.Kind == "const" && c.X.Name == "nil" {
					o = c.Y
				} else {
					return -1
				}
				if !o.HasFieldSuffix("bid") {
					return -1
				}
				for s := 0; s < 2; s++ {
					if c.RelOnEdge(s) == "!=" {
						return s
					}
				}
				return -1
			})
			r.Check(w == nil, "C09.e", tag+"|"+core.FnKey(f)+"|only-responses-with-bid", p.Pos(ci.Pos()), "only responses carrying a bid reach the winner update", "a response without a bid can reach the winner update", p.WitnessText(w)...)
		}
	}
	// collector selects are deadline bounded
	nSel := 0
	for _, f := range fns {
		idx := 0
		core.EachInstr(f, func(in ssa.Instruction) {
			s, ok := in.(*ssa.Select)
			if !ok || !s.Blocking {
				return
			}
			idx++
			nSel++
			okAny := false
			why := "no Done() arm"
			for _, st := range s.States {
				if ds.D(st.Chan).IsCall("context.Context.Done") {
					if c, ok := st.Chan.(*ssa.Call); ok {
						ok2, w := ctxHasDeadline(p, ds, f, c.Call.Value, 0)
						if ok2 {
							okAny = true
						} else {
							why = w
						}
					}
				}
			}
			r.Check(okAny, "C09.e", fmt.Sprintf("%s|%s|select#%d|deadline", tag, core.FnKey(f), idx), p.Pos(s.Pos()), "the collector waits under the strategy's deadline", "the collector's select is not bounded by the strategy's deadline: "+why)
		})
	}
	r.Floor("C09.e collector selects in "+tag, nSel, 1)
	// (k) the requests run under the context that is cancelled last
	checkRequestContextOutlivesCollectors(p, r, ds, "C09.k", fns)
	// the deadline strategy's cut-off is fixed to the slot: start of the slot + configured deadline, not a
	// moment relative to when the auction happened to be invoked
	if tag == "deadline" {
		nDl := 0
		for _, f := range fns {
			for _, ci := range core.Calls(f, func(c *ssa.CallCommon) bool {
				n := core.CalleeName(c)
				return strings.HasSuffix(n, "context.WithDeadline") || strings.HasSuffix(n, "context.WithTimeout")
			}) {
				nDl++
				d := ds.D(ci.Common().Args[1])
				anchored := d.Any(func(x *core.VD) bool {
					if x.Kind != "call" || !strings.HasSuffix(x.Name, "StartOfSlot") || len(x.Args) == 0 {
						return false
					}
					a := x.Args[len(x.Args)-1]
					return a.Kind == "param"
				})
				cfg := d.HasFieldSuffix("deadline") || d.Any(func(x *core.VD) bool { return x.Kind == "field" && x.Name == "deadline" })
				r.Check(anchored && cfg, "C09.e", fmt.Sprintf("%s|%s|cut-off-anchored-to-slot#%d", tag, core.FnKey(f), nDl), p.Pos(ci.Pos()), "the collection ends at StartOfSlot(slot) + the configured deadline",
					"the strategy's cut-off ("+d.String()+") is not the start of the auctioned slot plus the configured deadline: bids arriving after the deadline into the slot can still win when the auction is invoked late")
			}
		}
		r.Floor("C09.e deadline cut-offs", nDl, 1)
	}

	// ---- (j) a relay's bids are judged by that relay's own settings: the relay configuration handed to the worker is
	// the one the worker's provider was obtained for (same loop element; not a position in another list) ----
	nPair := 0
	for _, f := range fns {
		core.EachInstr(f, func(in ssa.Instruction) {
			g, ok := in.(*ssa.Go)
			if !ok {
				return
			}
			var relay, provider ssa.Value
			pick := func(args []ssa.Value, outer func(ssa.Value) ssa.Value) {
				var rl, pv ssa.Value
				for _, a := range args {
					tn := typeName(a.Type())
					switch {
					case strings.HasSuffix(tn, "beaconblockproposer.RelayConfig"):
						rl = outer(a)
					case strings.HasSuffix(tn, "BuilderBidProvider"):
						pv = outer(a)
					}
				}
				if rl != nil && pv != nil && relay == nil {
					relay, provider = rl, pv
				}
			}
			pick(g.Call.Args, func(v ssa.Value) ssa.Value { return v })
			if mc, isLit := g.Call.Value.(*ssa.MakeClosure); isLit && relay == nil {
				// the worker wrapped in a literal (`go func(relay …) { defer wg.Done(); s.builderBid(…, relay) }(relay)`):
				// the call inside the literal, its parameters read as the arguments of the go statement
				if fn, ok := mc.Fn.(*ssa.Function); ok {
					outer := func(v ssa.Value) ssa.Value {
						for i, prm := range fn.Params {
							if ssa.Value(prm) == v && i < len(g.Call.Args) {
								return g.Call.Args[i]
							}
						}
						return v
					}
					core.EachInstr(fn, func(in2 ssa.Instruction) {
						if c, ok := in2.(ssa.CallInstruction); ok {
							pick(c.Common().Args, outer)
						}
					})
				}
			}
			if relay == nil || provider == nil {
				return
			}
			nPair++
			pd := ds.D(provider)
			rd := ds.D(relay)
			paired := pd.MentionsValue(relay) || pd.Any(func(x *core.VD) bool {
				return x.Kind == "field" && x.Name == "Address" && strings.HasPrefix(x.String(), rd.String())
			})
			r.Check(paired, "C09.j", fmt.Sprintf("%s|%s|provider-of-this-relay#%d", tag, core.FnKey(f), nPair), p.Pos(g.Pos()), "the worker's provider was obtained for the relay whose settings it is given",
				"the worker is given the provider "+pd.String()+" together with the relay settings "+rd.String()+", which is not the relay that provider was obtained for: when an earlier relay is skipped every later relay's bids are judged by its neighbour's minimum value, key and grace")
		})
	}
	r.Floor("C09.j workers started with a relay and its provider in "+tag, nPair, 1)

	// ---- (g) unblinding list ----
	for _, f := range fns {
		core.EachInstr(f, func(in ssa.Instruction) {
			st, ok := in.(*ssa.Store)
			if !ok {
				return
			}
			if id, _, ok := core.FieldOfAddr(st.Addr); !ok || id.Name != "AllProviders" {
				return
			}
			call, ok := st.Val.(*ssa.Call)
			if !ok {
				return
			}
			if b, ok := call.Call.Value.(*ssa.Builtin); !ok || b.Name() != "append" {
				return
			}
			d := ds.D(call)
			r.Check(strings.Contains(d.String(), ".(") && strings.Contains(d.String(), "BuilderBidProvider"), "C09.g", tag+"|"+core.FnKey(f)+"|all-providers", p.Pos(st.Pos()), "only clients that can supply bids are listed", "a client is listed in AllProviders without having been asserted to supply bids: "+d.String())
			// guarded by the ok of that assertion
			w := core.Unguarded(ds, f, nil, func(x ssa.Instruction) bool { return x == in }, func(c core.Cond) int {
				if c.B != nil && c.B.Kind == "extract" && c.B.Name == "1" && len(c.B.Args) == 1 && c.B.Args[0].Kind == "typeassert" && strings.Contains(c.B.Args[0].Name, "BuilderBidProvider") {
					if c.BoolOnEdge(0) {
						return 0
					}
					return 1
				}
				return -1
			})
			r.Check(w == nil, "C09.g", tag+"|"+core.FnKey(f)+"|all-providers-asserted", p.Pos(st.Pos()), "listed only when the assertion succeeded", "a client can be listed although it does not supply bids", p.WitnessText(w)...)
		})
	}

	// ---- (h) use after failed call ----
	n := 0
	for _, f := range fns {
		for _, u := range core.UsesAfterFailedCall(ds, f) {
			n++
			r.Violate("C09.h", tag+"|"+core.FnKey(f)+"|use-after-failed-call|"+core.CalleeName(u.Call.Common()), p.Pos(u.Use.Pos()), "the result of "+core.CalleeName(u.Call.Common())+" is used on the path where the call failed (nil result: runtime panic)", p.WitnessText(u.Witness)...)
		}
	}
	if n == 0 {
		r.Hold("C09.h", tag+"|no-use-after-failed-call", "", "no result of a failed call is used")
	}
}

// checkBuilderConfigEntries: C09.m — the score modifiers of one builder come from that builder's entry only: where the
// builder configurations are read entry by entry, what is put into a BuilderConfig does not depend on a variable that
// is carried over from the previous entry (declared outside the loop and not reset in it).
func checkBuilderConfigEntries(p *core.Prog, r *core.Report, ds *core.Describer) {
	n := 0
	for _, f := range p.SrcFuncs() {
		rel := core.RelPkg(f.Pkg.Pkg.Path())
		if rel != "" && rel != "." {
			continue
		}
		lits := core.StructLits(f, "blockrelay.BuilderConfig")
		if len(lits) == 0 {
			continue
		}
		loops := naturalLoops(f)
		for k, sl := range lits {
			// the loops the literal sits in
			var around []*ssa.BasicBlock
			for h, body := range loops {
				if body[sl.Alloc.Block()] {
					around = append(around, h)
				}
			}
			if len(around) == 0 {
				continue
			}
			var flds []string
			for name := range sl.Fields {
				flds = append(flds, name)
			}
			sort.Strings(flds)
			for _, name := range flds {
				n++
				carried := ""
				seen := map[ssa.Value]bool{}
				var walk func(v ssa.Value)
				walk = func(v ssa.Value) {
					phi, ok := v.(*ssa.Phi)
					if !ok || seen[v] {
						return
					}
					seen[v] = true
					for _, h := range around {
						if phi.Block() == h && phi.Comment != "" && !strings.HasPrefix(phi.Comment, "rangeindex") {
							carried = phi.Comment
						}
					}
					for _, e := range phi.Edges {
						walk(e)
					}
				}
				walk(sl.Fields[name])
				r.Check(carried == "", "C09.m", fmt.Sprintf("%s|builder-config#%d|%s|from-this-entry-only", core.FnKey(f), k+1, name), p.Pos(sl.Stores[name].Pos()), "the field is filled from this entry's values",
					"the field "+name+" of a builder's configuration can carry the value of the variable "+carried+" over from the previous entry (the variable is not reset per entry): a builder whose entry does not set it inherits another builder's factor/offset and is scored with it")
			}
		}
	}
	r.Floor("C09.m builder configuration fields read entry by entry", n, 3)
}

func checkRelayBidCache(p *core.Prog, r *core.Report, ds *core.Describer) {
	// (f) auctionBlock caches WinningParticipation.Bid under a non-nil guard; BuilderBid serves cached bid only when value.Sign() > 0
	ab := p.Func(relayRel, "Service", "auctionBlock")
	if ab == nil {
		r.Undecide("C09.f", "blockrelay|auctionBlock", "", "anchor not found")
		return
	}
	// the caching function, by role: the function of the package (other than the cache's reader) that puts a bid into a map
	isBidStore := func(in ssa.Instruction) bool {
		if mu, ok := in.(*ssa.MapUpdate); ok {
			if pt, ok := mu.Value.Type().(*types.Pointer); ok && strings.HasSuffix(pt.Elem().String(), "VersionedSignedBuilderBid") {
				return true
			}
		}
		return false
	}
	var cb *ssa.Function
	for _, f := range p.FuncsIn(relayRel) {
		if f.Parent() != nil || f.Name() == "BuilderBid" {
			continue
		}
		core.EachInstr(f, func(in ssa.Instruction) {
			if isBidStore(in) {
				cb = f
			}
		})
	}
	if cb != nil {
		// the winner may be taken apart in the caching function itself (handed the auction's results): the same guard there
		nRead := 0
		core.EachInstr(cb, func(in ssa.Instruction) {
			fa, ok := in.(*ssa.FieldAddr)
			if !ok {
				return
			}
			id, _, ok := core.FieldOfAddr(fa)
			if !ok || id.Name != "Bid" || !ds.D(fa.X).HasFieldSuffix("WinningParticipation") {
				return
			}
			nRead++
			w := core.Unguarded(ds, cb, nil, func(x ssa.Instruction) bool { return x == in }, func(c core.Cond) int {
				if c.Op != "==" && c.Op != "!=" {
					return -1
				}
				var o *core.VD
				if c.Y.Kind == "const" && c.Y.Name == "nil" {
					o = c.X
				} else if c.X.Kind == "const" && c.X.Name == "nil" {
					o = c.Y
				} else {
					return -1
				}
				if !o.HasFieldSuffix("WinningParticipation") {
					return -1
				}
				for s := 0; s < 2; s++ {
					if c.RelOnEdge(s) == "!=" {
						return s
					}
				}
				return -1
			})
			r.Check(w == nil, "C09.f", fmt.Sprintf("blockrelay|cached-bid-guard#%d", nRead), p.Pos(in.Pos()), "the winning bid is read only when there is a winner", "the winning bid is read without testing that there is a winner", p.WitnessText(w)...)
		})
	}
	for _, ci := range core.Calls(ab, func(c *ssa.CallCommon) bool { f := c.StaticCallee(); return f != nil && f == cb }) {
		args := ci.Common().Args
		bidArg := args[len(args)-1]
		if !strings.HasSuffix(bidArg.Type().String(), "VersionedSignedBuilderBid") {
			r.Hold("C09.f", "blockrelay|cached-bid", p.Pos(ci.Pos()), "the auction's results are handed to the caching function, which takes the winner apart itself")
			continue
		}
		okAll := true
		for _, lf := range core.PhiLeaves(bidArg, ci.(ssa.Instruction)) {
			if core.IsNilConst(lf.V) {
				continue
			}
			d := ds.D(lf.V)
			if !d.HasFieldSuffix("WinningParticipation", "Bid") {
				okAll = false
				r.Violate("C09.f", "blockrelay|cached-bid-source", p.Pos(ci.Pos()), "the bid cached is "+d.String()+", not the auction's winning bid")
				continue
			}
			w := core.UnguardedLeaf(ds, ab, nil, lf, func(c core.Cond) int {
				if c.Op != "==" && c.Op != "!=" {
					return -1
				}
				var o *core.VD
				if c.Y.Kind == "const" && c.Y.Name == "nil" {
					o = c.X
				} else if c.X.Kind == "const" && c.X.Name == "nil" {
					o = c.Y
				} else {
					return -1
				}
				if !o.HasFieldSuffix("WinningParticipation") {
					return -1
				}
				for s := 0; s < 2; s++ {
					if c.RelOnEdge(s) == "!=" {
						return s
					}
				}
				return -1
			})
			if w != nil {
				okAll = false
				r.Violate("C09.f", "blockrelay|cached-bid-guard", p.Pos(ci.Pos()), "the winning bid is read without testing that there is a winner", p.WitnessText(w)...)
			}
		}
		if okAll {
			r.Hold("C09.f", "blockrelay|cached-bid", p.Pos(ci.Pos()), "the winning bid is cached under a non-nil winner guard, otherwise nothing (a dummy)")
		}
	}
	// the cache entry of an auction is always replaced by that auction's outcome: every path through cacheBid
	// passes the store of the slot/parent/proposer entry (an earlier winner kept after a later auction without a
	// winner would still be served to the beacon node)
	if cb != nil {
		stores := effectSites(cb, isBidStore, 2)
		if len(stores) == 0 {
			r.Violate("C09.f", "blockrelay|cacheBid|always-stores", p.Pos(cb.Pos()), "cacheBid never stores a bid entry")
		} else {
			q := core.PathQuery{Fn: cb, Target: core.IsReturn, Avoid: func(in ssa.Instruction) bool {
				for _, st := range stores {
					if in == st {
						return true
					}
				}
				return false
			}}
			if cb == ab {
				// the caching code sits in the auction function itself (a helper merged into it): what is decided is that
				// every path after a successful auction replaces the entry
				for _, ac := range core.Calls(ab, func(c *ssa.CallCommon) bool {
					res := c.Signature().Results()
					return res.Len() == 2 && strings.HasSuffix(res.At(0).Type().String(), "blockauctioneer.Results") && core.IsErrorType(res.At(1).Type())
				}) {
					call, ok := ac.(*ssa.Call)
					if !ok {
						continue
					}
					if errEx := core.ExtractOf(call, 1); errEx != nil {
						est := guardEdges(ds, ab, func(c core.Cond) int { return core.ErrNilSucc(c, errEx) })
						q.From = call
						q.Edge = func(b *ssa.BasicBlock, succ int) bool {
							// leave out the branch on which the auction's error is non-nil
							if e, ok := est[b]; ok && e != succ {
								return false
							}
							return true
						}
					}
				}
			}
			if cb != ab {
				// … and the caching function is called on every path after a successful auction: an auction without a
				// winner that leaves early keeps the previous winner of the same slot, parent and proposer on offer
				cbCalls := core.Calls(ab, func(c *ssa.CallCommon) bool { f := c.StaticCallee(); return f != nil && f == cb })
				isCb := func(in ssa.Instruction) bool {
					for _, c := range cbCalls {
						if in == c.(ssa.Instruction) {
							return true
						}
					}
					return false
				}
				for _, ac := range core.Calls(ab, func(c *ssa.CallCommon) bool {
					res := c.Signature().Results()
					return res.Len() == 2 && strings.HasSuffix(res.At(0).Type().String(), "blockauctioneer.Results") && core.IsErrorType(res.At(1).Type())
				}) {
					call, ok := ac.(*ssa.Call)
					if !ok || len(cbCalls) == 0 {
						continue
					}
					q2 := core.PathQuery{Fn: ab, From: call, Target: core.IsReturn, Avoid: isCb}
					if errEx := core.ExtractOf(call, 1); errEx != nil {
						est := guardEdges(ds, ab, func(c core.Cond) int { return core.ErrNilSucc(c, errEx) })
						q2.Edge = func(b *ssa.BasicBlock, succ int) bool {
							if e, ok := est[b]; ok && e != succ {
								return false
							}
							return true
						}
					}
					w2 := q2.Find()
					r.Check(w2 == nil, "C09.f", "blockrelay|auctionBlock|always-caches", p.Pos(call.Pos()), "every path after a successful auction hands its outcome to the caching function",
						"auctionBlock can return after a successful auction without handing the outcome to the caching function: the entry of an earlier auction for the same slot, parent and proposer stays in the cache and is served although the latest auction had no (or another) winner", p.WitnessText(w2)...)
				}
			}
			w := q.Find()
			r.Check(w == nil, "C09.f", "blockrelay|cacheBid|always-stores", p.Pos(stores[0].Pos()), "every path through cacheBid replaces the entry with this auction's outcome",
				"cacheBid can return without replacing the entry: the outcome of an earlier auction for the same slot, parent and proposer stays in the cache and is served although the latest auction had a different (or no) winner", p.WitnessText(w)...)
		}
	} else {
		r.Undecide("C09.f", "blockrelay|cacheBid", "", "anchor not found")
	}
	if bb := p.Func(relayRel, "Service", "BuilderBid"); bb != nil {
		n := 0
		for i, ret := range core.ReturnsOf(bb) {
			if len(ret.Results) != 2 {
				continue
			}
			v := core.Unspill(ret.Results[0])
			d := ds.D(v)
			if !strings.Contains(d.String(), "cachedBid") {
				continue
			}
			n++
			positive := func(c core.Cond) int {
				if c.Op == "" || !c.X.IsCall("uint256.Int.Sign") || c.Y.Kind != "const" || c.Y.Name != "0" {
					return -1
				}
				for s := 0; s < 2; s++ {
					if c.RelOnEdge(s) == ">" {
						return s
					}
				}
				return -1
			}
			// judged per value that can reach the return (a helper's merged result: the bid on one edge, nil on the other)
			var w []ssa.Instruction
			for _, lf := range core.FeasibleLeaves(bb, v, ret) {
				if core.IsNilConst(lf.V) || !strings.Contains(ds.D(lf.V).String(), "cachedBid") {
					continue
				}
				if wl := core.UnguardedLeaf(ds, bb, nil, lf, positive); wl != nil && w == nil {
					w = wl
				}
			}
			r.Check(w == nil, "C09.f", fmt.Sprintf("blockrelay|serve-cached-bid#%d", i+1), p.Pos(ret.Pos()), "a cached bid is served only when its value is positive", "a cached bid can be served although its value is not positive (the no-winner dummy would be offered to the beacon node)", p.WitnessText(w)...)
		}
		r.Floor("C09.f returns serving a cached bid", n, 2)
	}
}

// checkVerifiedStateOnly: a worker that keeps relay data between rounds (returns it) returns data of this round's
// response only on paths where the verification call returned nil.
func checkVerifiedStateOnly(p *core.Prog, r *core.Report, ds *core.Describer, rule, tag string, fns []*ssa.Function, consequence string) {
	for _, f := range fns {
		var prov *ssa.Call
		core.EachInstr(f, func(in ssa.Instruction) {
			if c, ok := in.(*ssa.Call); ok && c.Call.IsInvoke() && c.Call.Method.Name() == "BuilderBid" {
				prov = c
			}
		})
		if prov == nil || f.Signature.Results().Len() < 2 {
			continue
		}
		var verify *ssa.Call
		for _, ci := range core.Calls(f, func(c *ssa.CallCommon) bool {
			cf := c.StaticCallee()
			return cf != nil && cf.Pkg == f.Pkg && strings.Contains(strings.ToLower(cf.Name()), "verify")
		}) {
			verify, _ = ci.(*ssa.Call)
		}
		if verify == nil {
			continue
		}
		for i, ret := range core.ReturnsOf(f) {
			for j, res := range ret.Results {
				for _, lf := range core.PhiLeaves(res, ret) {
					if !ds.D(lf.V).MentionsValue(prov) {
						continue
					}
					w := core.UnguardedLeaf(ds, f, prov, lf, func(c core.Cond) int { return core.ErrNilSucc(c, verify) })
					w0 := core.PathQuery{Fn: f, From: prov, Target: func(x ssa.Instruction) bool { return x == lf.At }, Avoid: func(x ssa.Instruction) bool { return x == ssa.Instruction(verify) }}.Find()
					if w0 != nil {
						w = w0
					}
					r.Check(w == nil, rule, fmt.Sprintf("%s|%s|return#%d.%d|verified-state-only", tag, core.FnKey(f), i+1, j+1), p.Pos(ret.Pos()), "relay data is carried over to later rounds only after verification",
						consequence, p.WitnessText(w)...)
				}
			}
		}
	}

}

// isResetAppend: append(x[:0], v…) — the list is emptied and refilled, a replacement written to re-use the backing array.
func isResetAppend(v ssa.Value) bool {
	call, ok := v.(*ssa.Call)
	if !ok {
		return false
	}
	b, ok := call.Call.Value.(*ssa.Builtin)
	if !ok || b.Name() != "append" || len(call.Call.Args) == 0 {
		return false
	}
	sl, ok := call.Call.Args[0].(*ssa.Slice)
	return ok && sl.Low == nil && sl.High != nil && core.IsIntConst(sl.High, 0)
}
