package rules

import (
	"fmt"
	"go/token"
	"go/types"
	"strings"

	"golang.org/x/tools/go/ssa"

	"vouchcheck/internal/core"
)

func init() {
	register(&Pack{
		ID:  "C04",
		Run: runC04,
		Expl: "Decides structural necessary conditions of 'each attestation carries its own validator's assignment' in services/attester(/standard): " +
			"(a) index spaces: every index applied to the duty's parallel per-validator arrays (ValidatorIndices/CommitteeIndices/ValidatorCommitteeIndices) and to the arrays built parallel to the accounts was obtained from a range over a collection of the same index space (a filtered copy of the duty's validators is a different space); " +
			"(b) co-indexed parameters of attest/createAttestations and of the batch signer receive arrays of one index space at every call site; the signatures are parallel to the accounts they were requested for; " +
			"(c) in the loop that builds attestations, AggregationBits is a bitlist of committeeSizes[i] with bit validatorCommitteeIndices[i] set, Data.Index is committeeIndices[i], Data.Slot is duty.Slot(), root/source/target come from the data parameter and the signature is sigs[i], all with the same i; " +
			"(d) an attestation is appended only when sigs[i] is non-zero; (e) committeeSizes[i] is duty.CommitteeSize(committeeIndices[i]) for the same i; " +
			"(f) the committee indices and data fields handed to the signer are the same values used to build the attestations. " +
			"Added with the third seeding round: (h) outside NewDuty nothing sorts, shuffles, overwrites or copies into an array of an attester duty (through its fields or its getters). Added with the fourth seeding round: (i) the per-validator arrays handed to the signer and the constructor are not fields of the service. Added with the fifth seeding round: (j) every pass of the loop that fills the per-validator arrays stores into all of them; (y) C03.j (per-slot arguments of NewDuty) is taken over. Added with the sixth seeding round and the false-alarm regression: (j, generalised) per-validator arrays filled in one loop are filled together, by stores or by appends; (k) in the attestation signer the per-validator data arrays are never read at a constant position; (l) the attester writes no field of attestation data it did not build itself. Added with the seventh seeding round: (m) an element of a result slice is read only after the pass that fills it; (y, extended) the validation clauses C01.f/C01.g and the signer's same-named pass-through C05.k are taken over. NOT decided: that the signer signs over these values (C06 covers its inputs), correctness of the beacon node's committee data, behaviour for arbitrary duty compositions beyond the index-space argument.",
		Technique: "index-space (provenance of indices) analysis on the typed AST with callee summaries; SSA provenance of composite-literal fields; guard-by-edge-deletion for the zero-signature test",
		Rule:      "one obligation per analysed function with indexed accesses (a,b), per attestation field (c), per append (d), per store (e), per signer argument (f)",
	})
}

const attRel = "services/attester/standard"

func runC04(p *core.Prog, r *core.Report, tier string) {
	ds := core.NewDescriber()
	fns := append(p.FuncsIn(attRel), p.FuncsIn("services/attester")...)
	// the batch attestation signer splits the accounts by kind and merges the signatures back: part of
	// "signed by that validator's account over the same values"
	fns = append(fns, p.FuncsIn(signerRel)...)
	runIndexSpaces(p, r, ds, "C04.a", fns, 10)

	// locate the attestation constructor: function that allocates phase0.Attestation literals
	nCtor := 0
	for _, f := range p.FuncsIn(attRel) {
		lits := core.StructLits(f, "spec/phase0.Attestation")
		if len(lits) == 0 {
			continue
		}
		for _, sl := range lits {
			nCtor++
			checkAttestationLit(p, r, ds, f, sl)
		}
	}
	r.Floor("C04.c attestation constructors", nCtor, 1)

	// (e) committeeSizes[i] = duty.CommitteeSize(committeeIndices[i])
	nE := 0
	for _, f := range p.FuncsIn(attRel) {
		for _, ci := range core.CallsNamed(f, "CommitteeSize") {
			call, ok := ci.(*ssa.Call)
			if !ok || call.Referrers() == nil {
				continue
			}
			for _, ref := range *call.Referrers() {
				st, ok := ref.(*ssa.Store)
				if !ok {
					continue
				}
				ia, ok := st.Addr.(*ssa.IndexAddr)
				if !ok {
					continue
				}
				nE++
				ad := ds.D(call.Call.Args[len(call.Call.Args)-1])
				ok2 := ad.Kind == "index" && ad.Args[1].Val == ia.Index
				if al, isVar := ia.X.(*ssa.Alloc); isVar && al.Comment == "varargs" {
					// appended form: the size is appended in the iteration that appends the same committee index
					arg := call.Call.Args[len(call.Call.Args)-1]
					ok2 = false
					for _, in2 := range st.Block().Instrs {
						st2, isSt := in2.(*ssa.Store)
						if !isSt || st2 == st {
							continue
						}
						if ia2, ok := st2.Addr.(*ssa.IndexAddr); ok {
							if al2, ok := ia2.X.(*ssa.Alloc); ok && al2.Comment == "varargs" && (st2.Val == arg || sameExpr(st2.Val, arg, 0)) {
								ok2 = true
							}
						}
					}
				}
				r.Check(ok2, "C04.e", core.FnKey(f)+"|committeeSizes[i]", p.Pos(st.Pos()), "committeeSizes[i] = duty.CommitteeSize(committeeIndices[i]) with the same i",
					"committee size stored at index "+ds.D(ia.Index).String()+" is computed for "+ad.String())
			}
		}
	}
	r.Floor("C04.e committee size stores", nE, 1)

	// (g) the duty's own arrays are never written: nothing appends to, or stores through, a slice obtained from a
	// Duty accessor (a filter built "in place" on duty.ValidatorIndices()[:0] shifts the duty's list under the
	// code that later pairs validators with their committee positions)
	fromDuty := func(v ssa.Value) (string, bool) {
		for i := 0; i < 6; i++ {
			switch x := v.(type) {
			case *ssa.Slice:
				v = x.X
				continue
			case *ssa.Phi:
				for _, e := range x.Edges {
					if _, isSl := e.(*ssa.Slice); isSl {
						v = e
					}
				}
				if v == ssa.Value(x) {
					return "", false
				}
				continue
			case *ssa.Call:
				c := x.Common()
				var recv types.Type
				if c.IsInvoke() {
					recv = c.Value.Type()
				} else if f := c.StaticCallee(); f != nil && f.Signature.Recv() != nil {
					recv = f.Signature.Recv().Type()
				}
				if recv != nil && strings.HasSuffix(typeName(recv), "attester.Duty") {
					return core.MethodName(c), true
				}
			}
			break
		}
		return "", false
	}
	nG := 0
	for _, f := range p.FuncsIn(attRel) {
		core.EachInstr(f, func(in ssa.Instruction) {
			switch x := in.(type) {
			case *ssa.Call:
				if b, ok := x.Call.Value.(*ssa.Builtin); ok && b.Name() == "append" && len(x.Call.Args) > 0 {
					nG++
					if acc, bad := fromDuty(x.Call.Args[0]); bad {
						r.Violate("C04.g", core.FnKey(f)+"|append-into-duty-array|"+acc, p.Pos(x.Pos()), "a slice of the duty's own "+acc+"() array is appended to: the duty's list is overwritten in place, and validators are then paired with another validator's committee index and position")
					}
				}
			case *ssa.Store:
				if ia, ok := x.Addr.(*ssa.IndexAddr); ok {
					if acc, bad := fromDuty(ia.X); bad {
						r.Violate("C04.g", core.FnKey(f)+"|store-into-duty-array|"+acc, p.Pos(x.Pos()), "an element of the duty's own "+acc+"() array is overwritten")
					}
				}
			}
		})
	}
	r.Hold("C04.g", "duty-arrays-read-only", "", fmt.Sprintf("%d appends examined in the attester: none grows a slice of a duty array, and no element of a duty array is stored to", nG))
	r.Floor("C04.g appends examined", nG, 4)

	// (h) the parallel arrays of a duty keep the order they were built in: outside the constructor nothing sorts,
	// shuffles, overwrites or copies into an array of an attester duty, neither through the duty's own fields nor
	// through what its getters hand out (reordering one array alone breaks the validator/committee/position pairing)
	nSrc, nMutH := 0, 0
	for _, f := range p.SrcFuncs() {
		top := f
		for top.Parent() != nil {
			top = top.Parent()
		}
		if top.Name() == "NewDuty" {
			continue
		}
		isSrc := func(v ssa.Value) bool {
			if !isCollection(v.Type()) {
				return false
			}
			if g, ok := dutyGetterResult(v); ok && strings.HasSuffix(typeName(g.Signature.Recv().Type()), "attester.Duty") {
				return true
			}
			if ld, ok := v.(*ssa.UnOp); ok {
				if fa, ok := ld.X.(*ssa.FieldAddr); ok {
					if id, _, ok := core.FieldOfAddr(fa); ok && strings.HasSuffix(id.Owner, "services/attester.Duty") {
						return true
					}
				}
			}
			return false
		}
		core.EachInstr(f, func(in ssa.Instruction) {
			if v, ok := in.(ssa.Value); ok && isSrc(v) {
				nSrc++
			}
		})
		for _, m := range collectionMutations(f, isSrc) {
			nMutH++
			r.Violate("C04.h", fmt.Sprintf("%s|reorders-duty-array#%d", core.FnKey(f), nMutH), p.Pos(m.Pos()), "an array of an attester duty is changed in place after the duty was built (sorted, shuffled, overwritten or copied into): the positions of validatorIndices, committeeIndices and validatorCommitteeIndices no longer describe the same validator, so an attestation is signed and submitted for one validator with another's committee and position")
		}
	}
	if nMutH == 0 {
		r.Hold("C04.h", "duty-arrays-keep-their-order", "", fmt.Sprintf("none of the %d reads of an attester duty's arrays leads to an in-place change", nSrc))
	}
	r.Floor("C04.h reads of attester duty arrays", nSrc, 10)

	// (i) the per-validator working arrays of an attestation run belong to the run: what is handed to the signer and
	// to the attestation constructor is allocated in the call (runs of different slots overlap while the signer is
	// waited for; arrays kept in the service would be overwritten by the later run)
	nArr := 0
	for _, f := range p.FuncsIn(attRel) {
		for _, ci := range core.Calls(f, func(c *ssa.CallCommon) bool {
			if c.IsInvoke() {
				return strings.HasPrefix(c.Method.Name(), "SignBeaconAttestation")
			}
			callee := c.StaticCallee()
			return callee != nil && callee.Pkg == f.Pkg && callee.Signature.Recv() != nil
		}) {
			for ai, a := range ci.Common().Args {
				if _, isSlice := a.Type().Underlying().(*types.Slice); !isSlice {
					continue
				}
				// follow re-slicing back to where the array comes from
				v := a
				for {
					if sl, ok := v.(*ssa.Slice); ok {
						v = sl.X
						continue
					}
					break
				}
				ld, ok := v.(*ssa.UnOp)
				if !ok {
					continue
				}
				fa, ok := ld.X.(*ssa.FieldAddr)
				if !ok || len(f.Params) == 0 || fa.X != ssa.Value(f.Params[0]) || f.Signature.Recv() == nil {
					continue
				}
				nArr++
				id, _, _ := core.FieldOfAddr(fa)
				r.Violate("C04.i", fmt.Sprintf("%s|working-array-in-service|%s#%d", core.FnKey(f), id.Name, ai), p.Pos(ci.Pos()), "a per-validator array handed on by this run is kept in the service ("+id.String()+"): an overlapping run for another slot overwrites it while this one waits for the signer, and the attestations are built with the other slot's committee indices")
			}
		}
	}
	if nArr == 0 {
		r.Hold("C04.i", "working-arrays-per-run", "", "no slice handed to the signer or a helper of the attester is held in a field of the service")
	}

	// (j) the per-validator arrays are filled together: in a loop that fills several local arrays — by stores at the
	// loop index or by appends — no pass fills one of them and leaves out another (with pre-sized arrays: no pass leaves
	// one out at all); a pass that skips one leaves a zero, or shifts every later entry against its neighbours, for
	// accounts that are still signed for and submitted
	nFill := 0
	for _, f := range p.FuncsIn(attRel) {
		type fill struct {
			in      ssa.Instruction
			coll    ssa.Value // the make the array comes from
			indexed bool
		}
		loops := naturalLoops(f)
		byLoop := map[*ssa.BasicBlock][]fill{}
		core.EachInstr(f, func(in ssa.Instruction) {
			var fl fill
			switch x := in.(type) {
			case *ssa.Store:
				ia, ok := x.Addr.(*ssa.IndexAddr)
				if !ok {
					return
				}
				mk, isLocal := ia.X.(*ssa.MakeSlice)
				if !isLocal {
					return
				}
				if _, ok := core.RangeIndex(ia.Index); !ok {
					return
				}
				fl = fill{in, mk, true}
			case *ssa.Call:
				b, ok := x.Call.Value.(*ssa.Builtin)
				if !ok || b.Name() != "append" || len(x.Call.Args) != 2 {
					return
				}
				mk := localSliceRoot(x.Call.Args[0])
				if mk == nil {
					return
				}
				fl = fill{in, mk, false}
			default:
				return
			}
			if h := innermostLoop(loops, in.Block()); h != nil {
				byLoop[h] = append(byLoop[h], fl)
			}
		})
		for header, fills := range byLoop {
			colls := map[ssa.Value]bool{}
			for _, fl := range fills {
				colls[fl.coll] = true
			}
			if len(colls) < 2 {
				continue
			}
			for _, fl := range fills {
				nFill++
				var w []ssa.Instruction
				avoid := func(x ssa.Instruction) bool { return x == fl.in }
				if fl.indexed {
					w = core.PathQuery{Fn: f, From: header.Instrs[len(header.Instrs)-1], Target: func(x ssa.Instruction) bool { return x.Block() == header }, Avoid: avoid}.Find()
				} else {
					// a pass that performs another fill of the loop but not this one
					for _, other := range fills {
						if other.coll == fl.coll || w != nil {
							continue
						}
						pre := core.PathQuery{Fn: f, From: header.Instrs[len(header.Instrs)-1], Target: func(x ssa.Instruction) bool { return x == other.in }, Avoid: func(x ssa.Instruction) bool { return x == fl.in || x.Block() == header }}.Find()
						post := core.PathQuery{Fn: f, From: other.in, Target: func(x ssa.Instruction) bool { return x.Block() == header }, Avoid: avoid}.Find()
						if pre != nil && post != nil {
							w = append(pre, post...)
						}
					}
				}
				r.Check(w == nil, "C04.j", fmt.Sprintf("%s|filled-on-every-pass|%s#%d", core.FnKey(f), ds.D(fl.coll).String(), nFill), p.Pos(fl.in.Pos()), "every pass of the loop that fills the per-validator arrays fills this one",
					"a pass of the loop can fill the other per-validator arrays without this one (a `continue` before it): the account of that pass keeps a zero — position 0 or committee 0 — or every later entry is shifted against its neighbours, and the account is still signed for and submitted", p.WitnessText(w)...)
			}
		}
	}
	r.Floor("C04.j fills of per-validator arrays in loops", nFill, 3)

	// (m) within one pass of the filling loop an array's element is read only after it has been stored: a value worked
	// out from a sibling array's element (the committee size from the committee index) must not see the zero that is
	// there before the store
	nUBF := 0
	for _, f := range p.FuncsIn(attRel) {
		stores := map[ssa.Value][]*ssa.Store{} // make -> indexed stores
		core.EachInstr(f, func(in ssa.Instruction) {
			if st, ok := in.(*ssa.Store); ok {
				if ia, ok := st.Addr.(*ssa.IndexAddr); ok {
					if mk, ok := ia.X.(*ssa.MakeSlice); ok {
						if _, ok := core.RangeIndex(ia.Index); ok {
							stores[mk] = append(stores[mk], st)
						}
					}
				}
			}
		})
		core.EachInstr(f, func(in ssa.Instruction) {
			ld, ok := in.(*ssa.UnOp)
			if !ok || ld.Op != token.MUL {
				return
			}
			ia, ok := ld.X.(*ssa.IndexAddr)
			if !ok {
				return
			}
			mk, ok := ia.X.(*ssa.MakeSlice)
			if !ok || len(stores[mk]) == 0 {
				return
			}
			for _, st := range stores[mk] {
				sia := st.Addr.(*ssa.IndexAddr)
				if sia.Index != ia.Index {
					continue // another position (a later loop reading what an earlier one filled)
				}
				nUBF++
				okOrder := core.InstrDominates(st, ld)
				r.Check(okOrder, "C04.m", fmt.Sprintf("%s|read-after-fill|%s#%d", core.FnKey(f), ds.D(mk).String(), nUBF), p.Pos(ld.Pos()), "the element is read after this pass has stored it",
					"the element of this pass is read before it is stored: what is derived from it (the committee size looked up under the committee index) is derived from the zero value — committee 0")
			}
		})
	}
	// no floor: a pass that appends its elements has no such read (the catalogue edit C04-m-seed-M is the positive example)
	r.Count("C04.m reads of elements filled in the same pass", nUBF)
	if nUBF == 0 {
		r.Hold("C04.m", "no-read-of-same-pass-elements", "", "no element of a result slice is read in the pass that fills it")
	}

	// (k) in the signer the per-validator data arrays are read at the position of the validator being signed for, never
	// at a fixed position (one root built from entry 0 and signed by every account)
	nConstIdx := 0
	for _, f := range p.FuncsIn("services/signer/standard") {
		hasAccounts := false
		for _, prm := range f.Params {
			if sl, ok := prm.Type().Underlying().(*types.Slice); ok && strings.HasSuffix(sl.Elem().String(), ".Account") {
				hasAccounts = true
			}
		}
		if !hasAccounts || !strings.Contains(strings.ToLower(f.Name()), "beaconattestations") {
			continue
		}
		core.EachInstr(f, func(in ssa.Instruction) {
			ia, ok := in.(*ssa.IndexAddr)
			if !ok {
				return
			}
			prm, ok := ia.X.(*ssa.Parameter)
			if !ok {
				return
			}
			sl, ok := prm.Type().Underlying().(*types.Slice)
			if !ok {
				return
			}
			if _, isIface := sl.Elem().Underlying().(*types.Interface); isIface {
				return // accounts[0] is looked at to learn the kind of signer
			}
			nConstIdx++
			_, isConst := ia.Index.(*ssa.Const)
			r.Check(!isConst, "C04.k", fmt.Sprintf("%s|%s|indexed-by-position#%d", core.FnKey(f), prm.Name(), nConstIdx), p.Pos(ia.Pos()), "the array is read at a position that varies with the validator", "the per-validator array "+prm.Name()+" is read at the fixed position "+ds.D(ia.Index).String()+": what is signed for every account is built from one validator's entry")
		})
	}
	r.Floor("C04.k reads of per-validator data arrays in the attestation signer", nConstIdx, 2)

	// (l) the attestation data obtained from the beacon nodes is signed and submitted as it was obtained: the attester
	// writes no field of an AttestationData or Checkpoint it did not build itself
	nDataW := 0
	for _, f := range p.FuncsIn(attRel) {
		core.EachInstr(f, func(in ssa.Instruction) {
			st, ok := in.(*ssa.Store)
			if !ok {
				return
			}
			fa, ok := st.Addr.(*ssa.FieldAddr)
			if !ok {
				return
			}
			id, _, ok := core.FieldOfAddr(fa)
			if !ok || !(strings.HasSuffix(id.Owner, "phase0.AttestationData") || strings.HasSuffix(id.Owner, "phase0.Checkpoint")) {
				return
			}
			if _, own := fa.X.(*ssa.Alloc); own {
				return // a literal being built here
			}
			nDataW++
			r.Violate("C04.l", fmt.Sprintf("%s|writes-obtained-data|%s#%d", core.FnKey(f), id.Name, nDataW), p.Pos(st.Pos()), "field "+id.Name+" of attestation data that was obtained from elsewhere is overwritten ("+ds.D(fa.X).String()+"): the attestations signed and submitted no longer carry the data the beacon nodes supplied")
		})
	}
	if nDataW == 0 {
		r.Hold("C04.l", "obtained-data-not-written", "", "the attester writes no field of attestation data it did not build itself")
	}

	// (f) what is signed is what is submitted: the sign call and the constructor call in the same function share argument values
	for _, f := range p.FuncsIn(attRel) {
		signs := core.CallsNamed(f, "SignBeaconAttestations")
		if len(signs) == 0 {
			continue
		}
		for _, sc := range signs {
			sa := sc.Common().Args
			if len(sa) < 9 {
				continue
			}
			// find a callee in the same function that receives the signatures
			for _, cc := range core.Calls(f, func(c *ssa.CallCommon) bool {
				return c.StaticCallee() != nil && len(core.StructLits(c.StaticCallee(), "spec/phase0.Attestation")) > 0
			}) {
				ca := cc.Common().Args
				callee := cc.Common().StaticCallee()
				// map callee params by name
				byName := map[string]ssa.Value{}
				for i, prm := range callee.Params {
					if i < len(ca) {
						byName[prm.Name()] = ca[i]
					}
				}
				same := func(what string, signArg ssa.Value, ctorArg ssa.Value) {
					ok := ctorArg != nil && (signArg == ctorArg || ds.D(signArg).String() == ds.D(ctorArg).String())
					r.Check(ok, "C04.f", core.FnKey(f)+"|signed-vs-built|"+what, p.Pos(cc.Pos()), what+": the signer and the attestation constructor receive the same value",
						fmt.Sprintf("%s: signer receives %s but the constructor receives %v", what, ds.D(signArg), descOrNil(ds, ctorArg)))
				}
				same("accounts", sa[1], byName["accounts"])
				same("committeeIndices", sa[3], byName["committeeIndices"])
				// data: signer gets fields of the data value the constructor gets
				if dv := byName["data"]; dv != nil {
					dd := ds.D(dv).String()
					for i, fld := range [][]string{{"BeaconBlockRoot"}, {"Source", "Epoch"}, {"Source", "Root"}, {"Target", "Epoch"}, {"Target", "Root"}} {
						ad := ds.D(sa[4+i])
						root, _ := ad.FieldPath()
						ok := ad.HasFieldSuffix(fld...) && root.String() == dd
						r.Check(ok, "C04.f", core.FnKey(f)+"|signed-data|"+strings.Join(fld, "."), p.Pos(sc.Pos()), "signer receives data."+strings.Join(fld, "."),
							"signer argument should be data."+strings.Join(fld, ".")+" of the constructor's data value, is "+ad.String())
					}
				}
				// signatures: the constructor's sigs is the result of this sign call
				if sv := byName["sigs"]; sv != nil {
					r.Check(ds.D(sv).MentionsValue(sc.Value()), "C04.f", core.FnKey(f)+"|signed-vs-built|sigs", p.Pos(cc.Pos()), "the constructor's signatures are the signer's result", "the constructor's signatures do not come from the sign call")
				}
				// slot
				sd := ds.D(sa[2])
				r.Check(sd.IsCall("services/attester.Duty.Slot"), "C04.f", core.FnKey(f)+"|signed-slot", p.Pos(sc.Pos()), "signed slot is duty.Slot()", "signed slot is not duty.Slot(): "+sd.String())
			}
		}
	}
}

func descOrNil(ds *core.Describer, v ssa.Value) string {
	if v == nil {
		return "<none>"
	}
	return ds.D(v).String()
}

func checkAttestationLit(p *core.Prog, r *core.Report, ds *core.Describer, f *ssa.Function, sl *core.StructLit) {
	base := core.FnKey(f) + "|attestation"
	pos := p.Pos(sl.Alloc.Pos())
	// the loop index: index used for sigs[i] in the zero-signature test / signature copy
	var idx ssa.Value
	// AggregationBits
	if v := sl.Fields["AggregationBits"]; v != nil {
		d := ds.D(v)
		// NewBitlist(committeeSizes[i])
		var sizeIdx *core.VD
		d.Walk(func(x *core.VD) bool {
			if x.IsCall("go-bitfield.NewBitlist") && len(x.Args) == 1 {
				sizeIdx = x.Args[0]
			}
			return true
		})
		if sizeIdx != nil && sizeIdx.Kind == "index" && sizeIdx.Args[0].Kind == "param" {
			idx = sizeIdx.Args[1].Val
			r.Hold("C04.c", base+"|AggregationBits.size", pos, "bitlist sized by "+sizeIdx.String())
		} else {
			r.Violate("C04.c", base+"|AggregationBits.size", pos, "AggregationBits is not a bitlist of the validator's committee size: "+d.String())
		}
		// SetBitAt(validatorCommitteeIndices[i], true) on the same bitlist value
		set := false
		for _, sc := range core.CallsNamed(f, "SetBitAt") {
			a := sc.Common().Args
			if len(a) < 3 || a[0] != v {
				continue
			}
			bd := ds.D(a[1])
			okIdx := bd.Kind == "index" && bd.Args[0].Kind == "param" && (idx == nil || bd.Args[1].Val == idx)
			okTrue := ds.D(a[2]).String() == "true"
			set = true
			r.Check(okIdx && okTrue, "C04.c", base+"|AggregationBits.bit", p.Pos(sc.Pos()), "bit "+bd.String()+" set", "position bit is not validatorCommitteeIndices[i] of the same i (or not set to true): "+bd.String())
			if okIdx {
				checkArrayOrigin(p, r, ds, f, bd.Args[0].Name, "Duty.ValidatorCommitteeIndices", base+"|AggregationBits.bit-source", p.Pos(sc.Pos()), "position bit")
			}
		}
		if !set {
			r.Violate("C04.c", base+"|AggregationBits.bit", pos, "no position bit is set in the aggregation bits")
		}
	} else {
		r.Violate("C04.c", base+"|AggregationBits.size", pos, "AggregationBits is not set")
	}
	// Data literal
	dv := sl.Fields["Data"]
	var dataLit *core.StructLit
	if a, ok := dv.(*ssa.Alloc); ok {
		for _, l := range core.StructLits(f, "spec/phase0.AttestationData") {
			if l.Alloc == a {
				dataLit = l
			}
		}
	}
	if dataLit == nil {
		r.Violate("C04.c", base+"|Data", pos, "attestation data is not built field by field in the constructor")
		return
	}
	if v := dataLit.Fields["Slot"]; v != nil {
		d := ds.D(v)
		r.Check(d.IsCall("services/attester.Duty.Slot"), "C04.c", base+"|Data.Slot", pos, "Data.Slot = duty.Slot()", "Data.Slot is not duty.Slot(): "+d.String())
	} else {
		r.Violate("C04.c", base+"|Data.Slot", pos, "Data.Slot is not set")
	}
	if v := dataLit.Fields["Index"]; v != nil {
		d := ds.D(v)
		ok := d.Kind == "index" && d.Args[0].Kind == "param" && (idx == nil || d.Args[1].Val == idx)
		r.Check(ok, "C04.c", base+"|Data.Index", pos, "Data.Index = "+d.String(), "Data.Index is not committeeIndices[i] of the same i: "+d.String())
		if ok {
			checkArrayOrigin(p, r, ds, f, d.Args[0].Name, "Duty.CommitteeIndices", base+"|Data.Index-source", pos, "committee index")
		}
	} else {
		r.Violate("C04.c", base+"|Data.Index", pos, "Data.Index is not set")
	}
	if v := dataLit.Fields["BeaconBlockRoot"]; v != nil {
		d := ds.D(v)
		root, _ := d.FieldPath()
		r.Check(d.HasFieldSuffix("BeaconBlockRoot") && root.Kind == "param", "C04.c", base+"|Data.BeaconBlockRoot", pos, "BeaconBlockRoot from the data parameter", "BeaconBlockRoot is not the data parameter's: "+d.String())
	} else {
		r.Violate("C04.c", base+"|Data.BeaconBlockRoot", pos, "BeaconBlockRoot is not set")
	}
	for _, cp := range []string{"Source", "Target"} {
		cv, _ := dataLit.Fields[cp].(*ssa.Alloc)
		var cl *core.StructLit
		for _, l := range core.StructLits(f, "spec/phase0.Checkpoint") {
			if l.Alloc == cv {
				cl = l
			}
		}
		if cl == nil {
			// passing the checkpoint pointer through is equally fine
			if v := dataLit.Fields[cp]; v != nil {
				d := ds.D(v)
				root, _ := d.FieldPath()
				r.Check(d.HasFieldSuffix(cp) && root.Kind == "param", "C04.c", base+"|Data."+cp, pos, cp+" from the data parameter", cp+" is not the data parameter's: "+d.String())
			} else {
				r.Violate("C04.c", base+"|Data."+cp, pos, cp+" is not set")
			}
			continue
		}
		for _, fld := range []string{"Epoch", "Root"} {
			v := cl.Fields[fld]
			if v == nil {
				r.Violate("C04.c", base+"|Data."+cp+"."+fld, pos, cp+"."+fld+" is not set")
				continue
			}
			d := ds.D(v)
			root, _ := d.FieldPath()
			r.Check(d.HasFieldSuffix(cp, fld) && root.Kind == "param", "C04.c", base+"|Data."+cp+"."+fld, pos, cp+"."+fld+" from the data parameter", cp+"."+fld+" should be data."+cp+"."+fld+", is "+d.String())
		}
	}
	// signature: copy(attestation.Signature[:], sigs[i][:])
	sigOK := false
	for _, cc := range core.Calls(f, func(c *ssa.CallCommon) bool { b, ok := c.Value.(*ssa.Builtin); return ok && b.Name() == "copy" }) {
		a := cc.Common().Args
		dd, sd := ds.D(a[0]), ds.D(a[1])
		if !dd.MentionsValue(sl.Alloc) || !dd.MentionsField("Signature") {
			continue
		}
		ok := sd.Any(func(x *core.VD) bool {
			return x.Kind == "index" && x.Args[0].Kind == "param" && (idx == nil || x.Args[1].Val == idx)
		})
		sigOK = true
		r.Check(ok, "C04.c", base+"|Signature", p.Pos(cc.Pos()), "signature copied from sigs[i] of the same i", "signature is not sigs[i] of the same i: "+sd.String())
	}
	if v := sl.Fields["Signature"]; v != nil && !sigOK {
		d := ds.D(v)
		ok := d.Kind == "index" && d.Args[0].Kind == "param" && (idx == nil || d.Args[1].Val == idx)
		sigOK = true
		r.Check(ok, "C04.c", base+"|Signature", pos, "signature is sigs[i] of the same i", "signature is not sigs[i] of the same i: "+d.String())
	}
	if !sigOK {
		r.Violate("C04.c", base+"|Signature", pos, "the attestation's signature is never set")
	}
	// (d) guarded by !sigs[i].IsZero(): the allocation is reachable only on the edge IsZero() == false
	w := core.Unguarded(ds, f, nil, func(in ssa.Instruction) bool { return in == ssa.Instruction(sl.Alloc) }, func(c core.Cond) int {
		if c.B == nil || !c.B.IsCall("spec/phase0.BLSSignature.IsZero") {
			return -1
		}
		arg := c.B.Args[0]
		if !arg.Any(func(x *core.VD) bool {
			return x.Kind == "index" && x.Args[0].Kind == "param" && (idx == nil || x.Args[1].Val == idx)
		}) {
			return -1
		}
		if c.BoolOnEdge(0) {
			return 1 // guard established when IsZero() is false
		}
		return 0
	})
	r.Check(w == nil, "C04.d", base+"|zero-signature-guard", pos, "attestation built only when sigs[i] is not zero", "an attestation can be built for a validator without a signature (no !sigs[i].IsZero() guard on some path)", p.WitnessText(w)...)
}

// checkArrayOrigin: the per-validator array parameter `param` of f must, at the outermost callers, be filled
// from the given duty accessor (elements stored from <accessor>()[...]).
func checkArrayOrigin(p *core.Prog, r *core.Report, ds *core.Describer, f *ssa.Function, param, accessor, construct, pos, what string) {
	k := core.ParamIndex(f, param)
	if k < 0 {
		r.Undecide("C04.c", construct, pos, "parameter "+param+" not found")
		return
	}
	origins := p.ParamOrigins(f, k, 0)
	if len(origins) == 0 {
		r.Undecide("C04.c", construct, pos, "no caller found that supplies "+param)
		return
	}
	for _, o := range origins {
		ok := false
		var seen []string
		srcs := core.ElemStores(o)
		if len(srcs) == 0 {
			srcs = appendedSources(o) // built by appending, one element per validator
		}
		for _, ev := range srcs {
			d := ds.D(ev)
			seen = append(seen, d.String())
			if d.Any(func(x *core.VD) bool { return x.Kind == "index" && x.Args[0].IsCall(accessor) }) {
				ok = true
			} else {
				ok = false
				break
			}
		}
		r.Check(ok, "C04.c", construct, pos, what+" array is filled from duty."+accessor[strings.Index(accessor, ".")+1:]+"()",
			what+" array ("+param+") is not filled from "+accessor+"(): "+strings.Join(seen, "; "))
	}
}

// naturalLoops: loop header -> blocks of the natural loop (the header and every block that reaches a back edge to it
// without passing through it).
func naturalLoops(f *ssa.Function) map[*ssa.BasicBlock]map[*ssa.BasicBlock]bool {
	out := map[*ssa.BasicBlock]map[*ssa.BasicBlock]bool{}
	for _, h := range f.Blocks {
		for _, pr := range h.Preds {
			if !h.Dominates(pr) {
				continue
			}
			body := out[h]
			if body == nil {
				body = map[*ssa.BasicBlock]bool{h: true}
				out[h] = body
			}
			var mark func(b *ssa.BasicBlock)
			mark = func(b *ssa.BasicBlock) {
				if body[b] {
					return
				}
				body[b] = true
				for _, q := range b.Preds {
					mark(q)
				}
			}
			mark(pr)
		}
	}
	return out
}

// innermostLoop: the header of the smallest natural loop that contains b (nil when b is in no loop).
func innermostLoop(loops map[*ssa.BasicBlock]map[*ssa.BasicBlock]bool, b *ssa.BasicBlock) *ssa.BasicBlock {
	var best *ssa.BasicBlock
	for h, body := range loops {
		if body[b] && (best == nil || len(body) < len(loops[best])) {
			best = h
		}
	}
	return best
}

// localSliceRoot follows an appended-to slice value back through loop phis and earlier appends to the make it
// started from (nil when it started anywhere else).
func localSliceRoot(v ssa.Value) *ssa.MakeSlice {
	seen := map[ssa.Value]bool{}
	var mk *ssa.MakeSlice
	ok := true
	var walk func(v ssa.Value)
	walk = func(v ssa.Value) {
		if seen[v] || !ok {
			return
		}
		seen[v] = true
		switch x := v.(type) {
		case *ssa.MakeSlice:
			if mk != nil && mk != x {
				ok = false
			}
			mk = x
		case *ssa.Phi:
			for _, e := range x.Edges {
				walk(e)
			}
		case *ssa.Call:
			if b, isB := x.Call.Value.(*ssa.Builtin); isB && b.Name() == "append" {
				walk(x.Call.Args[0])
			} else {
				ok = false
			}
		case *ssa.Slice:
			walk(x.X)
		default:
			ok = false
		}
	}
	walk(v)
	if !ok {
		return nil
	}
	return mk
}
