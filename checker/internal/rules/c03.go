package rules

import (
	"fmt"
	"go/ast"
	"go/constant"
	"go/token"
	"go/types"
	"sort"
	"strings"

	"golang.org/x/tools/go/ssa"

	"vouchcheck/internal/core"
)

func init() {
	register(&Pack{
		ID:  "C03",
		Run: runC03,
		Expl: "Decides structural necessary conditions of 'every duty is scheduled once, for the right time, across restarts and reorgs' in services/controller/standard: " +
			"(a) duty jobs are set up only for duties whose slot lies in [FirstSlotOfEpoch(epoch), FirstSlotOfEpoch(epoch+1)-1] (both comparisons), is not before the current slot, and is not the current slot when notCurrentSlot is set; " +
			"(b) every job's time is StartOfSlot(slot of the duty the job covers) plus the delay field belonging to that job's kind (table: job function -> delay field), the slot in the job name is that same duty's slot; " +
			"(c) the job closure hands that same duty to the matching service method; (d) job-name table agreement: every name format passed to CancelJob*/RunJob*/JobExists is also passed to ScheduleJob, and every refresh function cancels all formats its re-scheduling function creates; " +
			"(e) each refresh function passes its cancel loop over [FirstSlotOfEpoch(epoch), FirstSlotOfEpoch(epoch+1)) before it re-schedules, and the attester refresh re-creates the current slot's job only if that job was actually cancelled; " +
			"(f) checkEventForReorg stores epoch and both dependent roots on every path and starts the change handlers under comparisons of stored with received roots; (g) the epoch ticker tests and records latestEpochRan in one critical section before it schedules anything; " +
			"(h) every scheduling call made at start-up passes notCurrentSlot = true or !waitedForGenesis; (i) the fork epochs used are the fetched ones (shared with C15.g); (j) MergeDuties appends the three per-slot arrays together (index spaces). " +
			"Added with the third seeding round: (l) the scheduler's job-name test and insert are one critical section inside the scheduling function itself (the controller's one-job-per-slot relies on it); (m) the chain time service truncates elapsed time, it never rounds. Added with the fourth seeding round: (n) a clock reading compared with slots is not older than a beacon-node request between reading and comparison; (o) contexts handed to goroutines or the scheduler are not cancelled by the function (or its callers) that hands them over; (p) the controller cancels jobs by full name only. Added with the fifth seeding round: (j, extended) what NewDuty receives from MergeDuties is each collection's entry for the duty's slot, never a collection filled across slots; (q) whether the slot under way is scheduled again is never decided from the wall clock. Added with the sixth seeding round and the false-alarm regression: (r) a job that prepares an epoch is named after that epoch; (s) the state of the once-per-epoch guard is created outside the tick function; (t) a table of which callers of the sync committee scheduling leave out the slot under way (Altair fork epoch: included; start-up: left out). Added with the seventh seeding round: (u) the loops that schedule proposal and attestation duties have no early exit; (v) at start-up and at the Altair fork the next sync committee period is set up when its distance is <= the preparation window. Added with the tenth seeding round: (a, extended; shared with C15) in scheduleSyncCommitteeMessages no scheduling site is reachable from the subnet subscription call. NOT decided: agreement of StartOfSlot/CurrentSlot/SlotToEpoch for all chain parameters (numeric), exactly-one job per slot across concurrent refreshes (interleavings, C02), completeness of the beacon node's duties.",
		Technique:   "guard/edge-deletion queries with relation sets, provenance of ScheduleJob arguments and of closure captures, string-table extraction and agreement (writer vs readers of job names), dominance of cancel loops, lock-set dataflow, index-space analysis",
		Rule:        "one obligation per duty-job site and filter (a), per ScheduleJob call (b,c), per name format use (d), per refresh function (e), per tracking field/handler (f), per epoch-ticker step (g), per start-up scheduling call (h), per fork-detail function (i)",
		Assumptions: []string{"job names are built with fmt.Sprintf from constant formats (true on this tree; a non-constant name makes the check fail as undecided)"},
	})
}

// jobKind: which service call does the job function make, and which delay field belongs to it
var jobDelayField = map[string]string{
	"AttestAndScheduleAggregate":        "maxAttestationDelay",
	"Propose":                           "maxProposalDelay",
	"proposeEarly":                      "",
	"Aggregate@attestationaggregator":   "attestationAggregationDelay",
	"messageSyncCommittee":              "maxSyncCommitteeMessageDelay",
	"Aggregate@synccommitteeaggregator": "syncCommitteeAggregationDelay",
	"prepareMessageSyncCommittee":       "slotDuration",
}

func jobKindOf(jf *ssa.Function) (string, ssa.CallInstruction) {
	if jf == nil {
		return "", nil
	}
	var kind string
	var site ssa.CallInstruction
	core.EachInstr(jf, func(in ssa.Instruction) {
		ci, ok := in.(ssa.CallInstruction)
		if !ok || kind != "" {
			return
		}
		n := core.MethodName(ci.Common())
		cn := core.CalleeName(ci.Common())
		switch n {
		case "AttestAndScheduleAggregate", "Propose", "proposeEarly", "messageSyncCommittee", "prepareMessageSyncCommittee":
			kind, site = n, ci
		case "Aggregate":
			if strings.Contains(cn, "attestationaggregator") {
				kind, site = "Aggregate@attestationaggregator", ci
			} else if strings.Contains(cn, "synccommitteeaggregator") {
				kind, site = "Aggregate@synccommitteeaggregator", ci
			}
		}
	})
	return kind, site
}

// nameFormat extracts the constant format of a job-name argument.
func nameFormat(ds *core.Describer, v ssa.Value) (string, *core.VD, bool) {
	if s, ok := constString(v); ok {
		return s, nil, true
	}
	d := ds.D(v)
	if d.IsCall("fmt.Sprintf") && len(d.Args) >= 1 {
		if s, ok := constString(d.Args[0].Val); ok {
			var args *core.VD
			if len(d.Args) > 1 {
				args = d.Args[1]
			}
			return s, args, true
		}
	}
	return "", nil, false
}

// nameFormats is nameFormat for names that may come from a table: Sprintf(entry.format, …) with entry ranging over a
// local slice literal whose elements store constant strings in that field yields every one of them.
func nameFormats(ds *core.Describer, v ssa.Value) []string {
	if fm, _, ok := nameFormat(ds, v); ok {
		return []string{fm}
	}
	call, ok := v.(*ssa.Call)
	if !ok || !strings.HasSuffix(core.CalleeName(&call.Call), "fmt.Sprintf") || len(call.Call.Args) < 1 {
		return nil
	}
	// the format: field k of an element of a slice over a local array (possibly through the range variable's copy)
	var elemAddr ssa.Value
	field := -1
	wholeStore := func(a *ssa.Alloc) ssa.Value {
		var v ssa.Value
		n := 0
		if a.Referrers() != nil {
			for _, ref := range *a.Referrers() {
				if st, ok := ref.(*ssa.Store); ok && st.Addr == ssa.Value(a) {
					v = st.Val
					n++
				}
			}
		}
		if n != 1 {
			return nil
		}
		return v
	}
	switch x := call.Call.Args[0].(type) {
	case *ssa.Field:
		if ld, ok := x.X.(*ssa.UnOp); ok && ld.Op == token.MUL {
			elemAddr, field = ld.X, x.Field
		}
	case *ssa.UnOp:
		if fa, ok := x.X.(*ssa.FieldAddr); ok && x.Op == token.MUL {
			elemAddr, field = fa.X, fa.Field
			if cp, isCopy := fa.X.(*ssa.Alloc); isCopy {
				if w := wholeStore(cp); w != nil {
					if ld, ok := w.(*ssa.UnOp); ok && ld.Op == token.MUL {
						elemAddr = ld.X
					}
				}
			}
		}
	}
	ia, ok := elemAddr.(*ssa.IndexAddr)
	if !ok || field < 0 {
		return nil
	}
	sl, ok := ia.X.(*ssa.Slice)
	if !ok {
		return nil
	}
	arr, ok := sl.X.(*ssa.Alloc)
	if !ok || arr.Referrers() == nil {
		return nil
	}
	constField := func(addr ssa.Value) (string, bool) {
		// the constant stored into field `field` of the struct at addr
		if addr.Referrers() == nil {
			return "", false
		}
		for _, r2 := range *addr.Referrers() {
			fa, ok := r2.(*ssa.FieldAddr)
			if !ok || fa.Field != field || fa.Referrers() == nil {
				continue
			}
			for _, r3 := range *fa.Referrers() {
				if st, ok := r3.(*ssa.Store); ok && st.Addr == ssa.Value(fa) {
					return constString(st.Val)
				}
			}
		}
		return "", false
	}
	var out []string
	for _, ref := range *arr.Referrers() {
		ea, ok := ref.(*ssa.IndexAddr)
		if !ok || ea.Referrers() == nil {
			continue
		}
		if cs, ok := constField(ea); ok {
			out = append(out, cs)
			continue
		}
		// the element assigned as a whole from a literal built in a local
		found := false
		for _, r2 := range *ea.Referrers() {
			st, ok := r2.(*ssa.Store)
			if !ok || st.Addr != ssa.Value(ea) {
				continue
			}
			if ld, ok := st.Val.(*ssa.UnOp); ok && ld.Op == token.MUL {
				if cs, ok := constField(ld.X); ok {
					out = append(out, cs)
					found = true
				}
			}
		}
		if !found {
			return nil
		}
	}
	sort.Strings(out)
	return out
}

func runC03(p *core.Prog, r *core.Report, tier string) {
	ds := core.NewDescriber()
	la := core.NewLockAnalysis(p)
	fns := p.FuncsIn(ctrlRel)
	if len(fns) == 0 {
		r.Undecide("C03.anchor", ctrlRel, "", "package not found")
		return
	}

	// ---- collect job-name uses ----
	scheduled := map[string][]string{} // format -> functions scheduling it
	used := map[string][]string{}      // format -> "op in function"
	type schedSite struct {
		fn   *ssa.Function
		call ssa.CallInstruction
	}
	var sites []schedSite
	for _, f := range fns {
		core.EachInstr(f, func(in ssa.Instruction) {
			ci, ok := in.(ssa.CallInstruction)
			if !ok || !ci.Common().IsInvoke() || !strings.Contains(ci.Common().Value.Type().String(), "scheduler.Service") {
				return
			}
			m := ci.Common().Method.Name()
			args := ci.Common().Args
			switch m {
			case "ScheduleJob":
				if len(args) < 5 {
					return
				}
				sites = append(sites, schedSite{f, ci})
				if fm, _, ok := nameFormat(ds, args[2]); ok {
					scheduled[fm] = append(scheduled[fm], core.FnKey(outermost(f)))
				} else {
					r.Undecide("C03.d", core.FnKey(f)+"|schedule-name", p.Pos(ci.Pos()), "job name is not a constant format")
				}
			case "SchedulePeriodicJob":
				if fm, _, ok := nameFormat(ds, args[2]); ok {
					scheduled[fm] = append(scheduled[fm], core.FnKey(outermost(f)))
				}
			case "CancelJob", "CancelJobIfExists", "RunJob", "RunJobIfExists", "JobExists":
				fms := nameFormats(ds, args[len(args)-1])
				if len(fms) == 0 {
					r.Undecide("C03.d", core.FnKey(f)+"|"+m+"-name", p.Pos(ci.Pos()), "job name is not a constant format")
					return
				}
				for _, fm := range fms {
					used[fm] = append(used[fm], m+" in "+core.FnKey(outermost(f)))
				}
			}
		})
	}
	r.Count("ScheduleJob sites", len(sites))
	r.Floor("C03 ScheduleJob sites in the controller", len(sites), 7)
	var fmts []string
	for fm := range used {
		fmts = append(fmts, fm)
	}
	sort.Strings(fmts)
	for _, fm := range fmts {
		_, ok := scheduled[fm]
		r.Check(ok, "C03.d", "job-name|"+fm, "", fmt.Sprintf("%q is scheduled (%d sites) and used by %v", fm, len(scheduled[fm]), used[fm]),
			fmt.Sprintf("job name format %q is used by %v but no job is ever scheduled under it (a mistyped name: the operation silently does nothing)", fm, used[fm]))
	}
	r.Tables["scheduled-formats"] = scheduled
	r.Tables["used-formats"] = used
	r.Floor("C03.d job-name formats used by cancel/run/exists", len(used), 7)

	// ---- (b)(c) each ScheduleJob site ----
	for _, s := range sites {
		f, ci := s.fn, s.call
		args := ci.Common().Args
		jf := jobFuncOf(args[4])
		kind, svcCall := jobKindOf(jf)
		if kind == "" {
			continue // not a duty job (epoch preparation etc.)
		}
		base := core.FnKey(f) + "|job " + kind
		fm, nameArgs, _ := nameFormat(ds, args[2])
		// the duty the job covers: the argument of the service call inside the job function
		var dutyV ssa.Value
		if svcCall != nil {
			a := svcCall.Common().Args
			dutyV = a[len(a)-1]
		}
		dutyDesc := ""
		if dutyV != nil {
			dutyDesc = ds.D(dutyV).String()
		}
		// slot expression of that duty
		// the slot handed in beside the duty: a parameter that every caller fills with <duty argument>.Slot()
		paramSlotOfDuty := func(x *core.VD) bool {
			xv := x.Val
			for k := 0; k < 4; k++ {
				switch y := xv.(type) {
				case *ssa.MakeInterface:
					xv = y.X
				case *ssa.ChangeType:
					xv = y.X
				case *ssa.Convert:
					xv = y.X
				}
			}
			prm, ok := xv.(*ssa.Parameter)
			if !ok || dutyV == nil {
				return false
			}
			g := prm.Parent()
			dq := paramBehind(dutyV)
			if dq == nil || dq.Parent() != g {
				return false
			}
			pi, di := -1, -1
			for i, q := range g.Params {
				if q == prm {
					pi = i
				}
				if q == dq {
					di = i
				}
			}
			n := p.CallGraph().Nodes[g]
			if n == nil || pi < 0 || di < 0 || len(n.In) == 0 {
				return false
			}
			for _, e := range n.In {
				if e.Site == nil {
					return false
				}
				args := e.Site.Common().Args
				if pi >= len(args) || di >= len(args) {
					return false
				}
				d := ds.D(args[pi])
				if !(d.Kind == "call" && strings.HasSuffix(d.Name, ".Slot") && len(d.Args) >= 1 && d.Args[0].Val == args[di]) {
					return false
				}
			}
			return true
		}
		slotOf := func(d *core.VD) bool {
			if d == nil {
				return false
			}
			return d.Any(func(x *core.VD) bool {
				if x.Kind == "call" && strings.HasSuffix(x.Name, ".Slot") && len(x.Args) >= 1 && x.Args[0].String() == dutyDesc {
					return true
				}
				if x.Kind == "param" && paramSlotOfDuty(x) {
					return true
				}
				// aggregation duties are literals built from the attestation/duty being iterated
				return false
			})
		}
		td := ds.D(args[3])
		okStart := td.MentionsCall("StartOfSlot")
		r.Check(okStart, "C03.b", base+"|time-from-slot-start", p.Pos(ci.Pos()), "job time derives from StartOfSlot", "the job's time is not derived from the start of the duty slot: "+td.String())
		want := jobDelayField[kind]
		if want != "" {
			r.Check(td.MentionsField(want), "C03.b", base+"|delay-field", p.Pos(ci.Pos()), "job time adds "+want, "the "+kind+" job is timed with "+delayFieldsIn(td)+" instead of "+want)
		} else {
			r.Check(delayFieldsIn(td) == "none", "C03.b", base+"|delay-field", p.Pos(ci.Pos()), "the early-proposal check runs at the slot start", "the early-proposal check is delayed by "+delayFieldsIn(td))
		}
		for _, other := range []string{"maxAttestationDelay", "maxProposalDelay", "attestationAggregationDelay", "maxSyncCommitteeMessageDelay", "syncCommitteeAggregationDelay"} {
			if other != want && td.MentionsField(other) {
				r.Violate("C03.b", base+"|foreign-delay|"+other, p.Pos(ci.Pos()), "the "+kind+" job's time uses "+other+", the delay of another duty kind")
			}
		}
		// same duty in time, name and job
		if dutyV != nil && !strings.HasPrefix(kind, "Aggregate@") {
			r.Check(slotOf(td), "C03.b", base+"|time-of-covered-duty", p.Pos(ci.Pos()), "the job is timed by the slot of the duty it covers", "the job's time uses the slot of "+td.String()+" but the job covers "+dutyDesc)
			r.Check(nameArgs != nil && slotOf(nameArgs), "C03.b", base+"|name-of-covered-duty", p.Pos(ci.Pos()), "the job name carries the slot of the duty it covers", fmt.Sprintf("the job name %q is not built from the slot of the duty the job covers (%s)", fm, dutyDesc))
		}
		if strings.HasPrefix(kind, "Aggregate@synccommittee") && dutyV != nil {
			// duty literal built from the messenger duty: Slot <- duty.Slot()
			r.Check(strings.Contains(td.String(), ".Slot("), "C03.b", base+"|time-of-covered-duty", p.Pos(ci.Pos()), "timed by the messenger duty's slot", "the aggregation job's time is "+td.String())
		}
		r.Check(strings.Count(fm, "%d") >= 1, "C03.b", base+"|name-has-slot", p.Pos(ci.Pos()), "the job name is per slot", fmt.Sprintf("the job name %q does not contain the slot: jobs of different slots collide", fm))
	}

	// ---- (a) filters in the two duty schedulers ----
	for _, fname := range []string{"scheduleAttestations", "scheduleProposals"} {
		f := p.Func(ctrlRel, "Service", fname)
		if f == nil {
			r.Undecide("C03.a", fname, "", "anchor not found")
			continue
		}
		// the go statement that sets up jobs
		var goI ssa.Instruction
		core.EachInstr(f, func(in ssa.Instruction) {
			if g, ok := in.(*ssa.Go); ok {
				if cl := funcValueOf(g.Call.Value); cl != nil && len(withClosureCalls(cl, "ScheduleJob")) > 0 {
					goI = in
				}
			}
		})
		if goI == nil {
			r.Violate("C03.a", fname+"|job-goroutine", p.Pos(f.Pos()), "no goroutine sets up duty jobs")
			continue
		}
		isGo := func(x ssa.Instruction) bool { return x == goI }
		isDutySlot := func(d *core.VD) bool { return d.Kind == "call" && strings.HasSuffix(d.Name, "Duty.Slot") }
		isCurrent := func(d *core.VD) bool { return d.MentionsCall("CurrentSlot") }
		w := core.Unguarded(ds, f, nil, isGo, relGuard(isDutySlot, isCurrent, map[string]bool{">=": true, ">": true, "==": true}))
		r.Check(w == nil, "C03.a", fname+"|not-in-the-past", p.Pos(goI.Pos()), "jobs are set up only for slots >= the current slot", "a job can be set up for a duty slot that has already passed", p.WitnessText(w)...)
		// not (slot == current && notCurrentSlot)
		w = core.Unguarded(ds, f, nil, isGo, func(c core.Cond) int {
			if c.Op != "" && ((isDutySlot(c.X) && isCurrent(c.Y)) || (isDutySlot(c.Y) && isCurrent(c.X))) {
				for s := 0; s < 2; s++ {
					if rel := c.RelOnEdge(s); rel == "!=" || rel == ">" {
						return s
					}
				}
			}
			if c.B != nil && c.B.Kind == "param" && strings.Contains(strings.ToLower(c.B.Name), "notcurrentslot") {
				if c.BoolOnEdge(0) {
					return 1
				}
				return 0
			}
			return -1
		})
		r.Check(w == nil, "C03.a", fname+"|not-current-when-told", p.Pos(goI.Pos()), "the current slot is skipped when notCurrentSlot is set", "a job for the current slot can be set up although notCurrentSlot is set (a restart or refresh would attest/propose twice in that slot)", p.WitnessText(w)...)
		// epoch window on the duties fetched
		var filterAppend ssa.Instruction
		core.EachInstr(f, func(in ssa.Instruction) {
			c, ok := in.(*ssa.Call)
			if !ok {
				return
			}
			if b, ok := c.Call.Value.(*ssa.Builtin); !ok || b.Name() != "append" {
				return
			}
			if filterAppend == nil {
				filterAppend = in
			}
		})
		if filterAppend == nil {
			r.Violate("C03.a", fname+"|epoch-window", p.Pos(f.Pos()), "the fetched duties are not filtered by the requested epoch")
		} else {
			isRespSlot := func(d *core.VD) bool { return d.HasFieldSuffix("Slot") }
			isAt := func(x ssa.Instruction) bool { return x == filterAppend }
			lo := relGuard(isRespSlot, func(d *core.VD) bool {
				if !d.IsCall("FirstSlotOfEpoch") {
					return false
				}
				_, k := lin(d.Args[len(d.Args)-1])
				return k == 0
			}, map[string]bool{">=": true})
			hi := func(c core.Cond) int {
				if s := relGuard(isRespSlot, func(d *core.VD) bool {
					b, k := lin(d)
					if !b.IsCall("FirstSlotOfEpoch") {
						return false
					}
					_, ek := lin(b.Args[len(b.Args)-1])
					return ek == 1 && k == -1
				}, map[string]bool{"<=": true})(c); s >= 0 {
					return s
				}
				return relGuard(isRespSlot, func(d *core.VD) bool {
					b, k := lin(d)
					if !b.IsCall("FirstSlotOfEpoch") {
						return false
					}
					_, ek := lin(b.Args[len(b.Args)-1])
					return ek == 1 && k == 0
				}, map[string]bool{"<": true})(c)
			}
			w := core.Unguarded(ds, f, nil, isAt, lo)
			r.Check(w == nil, "C03.a", fname+"|epoch-window-low", p.Pos(filterAppend.Pos()), "a duty is kept only if its slot >= FirstSlotOfEpoch(epoch)", "a duty before the requested epoch can be kept", p.WitnessText(w)...)
			w = core.Unguarded(ds, f, nil, isAt, hi)
			r.Check(w == nil, "C03.a", fname+"|epoch-window-high", p.Pos(filterAppend.Pos()), "a duty is kept only if its slot <= FirstSlotOfEpoch(epoch+1)-1", "a duty after the requested epoch can be kept (it would be scheduled again when its own epoch is prepared)", p.WitnessText(w)...)
		}
	}

	// ---- (d') refresh functions cancel what their re-scheduler creates; (e) cancel loop before re-scheduling ----
	creates := map[string][]string{} // scheduling function name -> formats (transitively through the jobs it sets up)
	for fm, fs := range scheduled {
		for _, fn := range fs {
			short := fn[strings.LastIndex(fn, ".")+1:]
			creates[short] = append(creates[short], fm)
		}
	}
	for _, spec := range []struct {
		refresh, sched string
		also           []string
	}{
		{"refreshAttesterDutiesForEpoch", "scheduleAttestations", nil},
		{"refreshProposerDutiesForEpoch", "scheduleProposals", nil},
		{"refreshSyncCommitteeDutiesForEpochPeriod", "scheduleSyncCommitteeMessages", []string{"prepareMessageSyncCommittee", "messageSyncCommittee"}},
	} {
		f := p.Func(ctrlRel, "Service", spec.refresh)
		if f == nil {
			r.Undecide("C03.e", spec.refresh, "", "anchor not found")
			continue
		}
		cancelled := map[string]bool{}
		var cancelCalls []ssa.CallInstruction
		for _, ci := range core.CallsNamed(f, "CancelJob", "CancelJobIfExists") {
			a := ci.Common().Args
			if fms := nameFormats(ds, a[len(a)-1]); len(fms) > 0 {
				for _, fm := range fms {
					cancelled[fm] = true
				}
				cancelCalls = append(cancelCalls, ci)
			}
		}
		var need []string
		need = append(need, creates[spec.sched]...)
		for _, a := range spec.also {
			need = append(need, creates[a]...)
		}
		sort.Strings(need)
		for _, fm := range need {
			if strings.Contains(fm, "aggregation for slot %d committee") {
				continue // per-committee aggregation jobs are created after attesting, not by the scheduler being refreshed
			}
			r.Check(cancelled[fm], "C03.d", spec.refresh+"|cancels|"+fm, p.Pos(f.Pos()), "the refresh withdraws jobs named "+fm, fmt.Sprintf("the refresh re-schedules through %s, which creates jobs named %q, without cancelling them first (duplicates, or stale jobs that propose/attest for withdrawn duties)", spec.sched, fm))
		}
		// (e) re-scheduling call after the cancel loop
		var resched ssa.Instruction
		core.EachInstr(f, func(in ssa.Instruction) {
			if ci, ok := in.(ssa.CallInstruction); ok {
				if c := ci.Common().StaticCallee(); c != nil && c.Name() == spec.sched {
					resched = in
				}
			}
		})
		if resched == nil || len(cancelCalls) == 0 {
			r.Violate("C03.e", spec.refresh+"|cancel-then-reschedule", p.Pos(f.Pos()), "the refresh does not cancel and re-schedule")
			continue
		}
		// the loop header of the cancel loop dominates the re-scheduling call
		loops := loopsContainingPos(p, f, cancelCalls[0].Pos())
		if len(loops) == 0 {
			r.Violate("C03.e", spec.refresh+"|cancel-loop", p.Pos(cancelCalls[0].Pos()), "jobs are cancelled outside a loop over the epoch's slots")
			continue
		}
		l := loops[0]
		okDom := l.Stmt.End() < resched.Pos()
		// every path to resched passes the loop's condition
		var condI ssa.Instruction
		if fs, ok := l.Stmt.(*ast.ForStmt); ok {
			if be, ok := fs.Cond.(*ast.BinaryExpr); ok {
				core.EachInstr(f, func(in ssa.Instruction) {
					if b, ok := in.(*ssa.BinOp); ok && b.Pos() == be.OpPos {
						condI = in
					}
				})
				// bounds
				lo, hi := loopBoundValues(p, f, fs)
				if lo != nil && hi != nil && !strings.Contains(spec.refresh, "SyncCommittee") {
					ld, hd := ds.D(lo), ds.D(hi)
					_, lk := lin(ld)
					hb, hk := lin(hd)
					okLo := ld.IsCall("FirstSlotOfEpoch") && lk == 0
					ek := int64(-99)
					if hb.IsCall("FirstSlotOfEpoch") {
						_, ek = lin(hb.Args[len(hb.Args)-1])
					}
					okHi := (be.Op.String() == "<" && ek == 1 && hk == 0) || (be.Op.String() == "<=" && ek == 1 && hk == -1)
					r.Check(okLo && okHi, "C03.e", spec.refresh+"|cancel-bounds", p.Pos(fs.Pos()), "the cancel loop covers every slot of the epoch", "the cancel loop runs from "+ld.String()+" "+be.Op.String()+" "+hd.String()+": not exactly the slots of the epoch")
				}
			}
		}
		if condI != nil {
			w := core.PathQuery{Fn: f, Target: func(x ssa.Instruction) bool { return x == resched }, Avoid: func(x ssa.Instruction) bool { return x == condI }}.Find()
			okDom = okDom && w == nil
		}
		r.Check(okDom, "C03.e", spec.refresh+"|cancel-then-reschedule", p.Pos(resched.Pos()), "re-scheduling happens only after the cancel loop", "the refresh can re-schedule without having passed the cancel loop")
		noEarlyExit(p, r, "C03.e", l, "cancel loop over the epoch's slots")
		// attester refresh: the current slot is re-created only if its job was actually cancelled
		if spec.refresh == "refreshAttesterDutiesForEpoch" {
			ci := resched.(ssa.CallInstruction)
			a := ci.Common().Args
			nd := ds.D(a[len(a)-1])
			okProv := false
			var lk *ssa.Lookup
			nd.Walk(func(x *core.VD) bool {
				if l, ok := x.Val.(*ssa.Lookup); ok && x.Args[1].MentionsCall("CurrentSlot") {
					lk = l
				}
				return true
			})
			if lk != nil {
				// every insert into that map is on the nil-error edge of a CancelJob
				okProv = true
				core.EachInstr(f, func(in ssa.Instruction) {
					mu, ok := in.(*ssa.MapUpdate)
					if !ok || ds.D(mu.Map).String() != ds.D(lk.X).String() {
						return
					}
					guarded := false
					for _, cc := range cancelCalls {
						call, ok := cc.(*ssa.Call)
						if !ok {
							continue
						}
						if w := core.Unguarded(ds, f, call, func(x ssa.Instruction) bool { return x == in }, func(c core.Cond) int { return core.ErrNilSucc(c, call) }); w == nil {
							guarded = true
						}
					}
					if !guarded {
						okProv = false
					}
				})
			}
			neg := nd.Kind == "unop" && nd.Name == "!"
			r.Check(okProv && neg, "C03.e", spec.refresh+"|current-slot-only-if-cancelled", p.Pos(resched.Pos()), "the current slot's job is re-created only when that job was actually cancelled (it had not started)",
				"the current slot's job is re-created on a condition other than 'its job was actually cancelled' ("+nd.String()+"): a job that is already running would be set up again and the slot attested twice")
		}
	}

	// ---- (f) reorg detection wiring ----
	if f := p.Func(ctrlRel, "Service", "checkEventForReorg"); f != nil {
		for _, fld := range []string{"lastBlockEpoch", "previousDutyDependentRoot", "currentDutyDependentRoot"} {
			var stores []ssa.Instruction
			core.EachInstr(f, func(in ssa.Instruction) {
				if st, ok := in.(*ssa.Store); ok {
					if id, _, ok := core.FieldOfAddr(st.Addr); ok && id.Name == fld {
						stores = append(stores, in)
						vd := ds.D(st.Val)
						r.Check(vd.Kind == "param" || rootedAtEventParam(vd, f), "C03.f", "checkEventForReorg|"+fld+"|from-event", p.Pos(st.Pos()), fld+" <- the event's value", fld+" is set to "+vd.String())
					}
				}
			})
			w := core.PathQuery{Fn: f, Target: core.IsReturn, Avoid: func(x ssa.Instruction) bool {
				for _, s := range stores {
					if x == s {
						return true
					}
				}
				return false
			}}.Find()
			r.Check(w == nil && len(stores) > 0, "C03.f", "checkEventForReorg|"+fld+"|stored-on-every-path", p.Pos(f.Pos()), fld+" is recorded on every path", "a path through checkEventForReorg does not record "+fld+": the next event is compared with stale data", p.WitnessText(w)...)
		}
		nGo := 0
		nStarts := 0 // places that decide a start, beyond one per go statement (several comparisons setting one flag)
		core.EachInstr(f, func(in ssa.Instruction) {
			g, ok := in.(*ssa.Go)
			if !ok {
				return
			}
			nGo++
			// control dependent on a bytes.Equal between a stored and a received root
			isStored := func(d *core.VD) bool {
				return d.Any(func(x *core.VD) bool {
					return x.Kind == "field" && strings.Contains(x.Name, "DutyDependentRoot") && len(x.Args) == 1 && x.Args[0].Kind == "param" && x.Args[0].Name == f.Params[0].Name()
				})
			}
			isReceived := func(d *core.VD) bool {
				return d.Any(func(x *core.VD) bool {
					if !strings.Contains(x.Name, "DutyDependentRoot") {
						return false
					}
					if x.Kind == "param" {
						return true
					}
					// a field of the event handed in
					return x.Kind == "field" && len(x.Args) == 1 && x.Args[0].Kind == "param" && x.Args[0].Name != f.Params[0].Name()
				})
			}
			rootsDiffer := func(c core.Cond) int {
				if c.B != nil && c.B.IsCall("bytes.Equal") {
					if !isStored(c.B) || !isReceived(c.B) {
						return -1
					}
					if c.BoolOnEdge(0) {
						return 1
					}
					return 0
				}
				// the roots compared as arrays: stored != received
				if c.Op == "==" || c.Op == "!=" {
					if (isStored(c.X) && isReceived(c.Y)) || (isStored(c.Y) && isReceived(c.X)) {
						for e := 0; e < 2; e++ {
							if c.RelOnEdge(e) == "!=" {
								return e
							}
						}
					}
				}
				return -1
			}
			w := core.Unguarded(ds, f, nil, func(x ssa.Instruction) bool { return x == in }, rootsDiffer)
			if w != nil {
				// the decision recorded in a flag first (`changed = true` under the comparison … `if changed { go … }`):
				// every place that sets the flag is under the comparison
				for _, b := range f.Blocks {
					iff, ok := b.Instrs[len(b.Instrs)-1].(*ssa.If)
					if !ok || !(b.Succs[0] == in.Block() || b.Succs[0].Dominates(in.Block())) {
						continue
					}
					phi, ok := iff.Cond.(*ssa.Phi)
					if !ok {
						continue
					}
					allConst, nTrue := true, 0
					var wl []ssa.Instruction
					for _, lf := range core.PhiLeaves(phi, iff) {
						c, isC := lf.V.(*ssa.Const)
						if !isC || c.Value == nil || c.Value.Kind() != constant.Bool || lf.Pred == nil {
							allConst = false
							break
						}
						if !constant.BoolVal(c.Value) {
							continue
						}
						nTrue++
						if x := core.UnguardedLeaf(ds, f, nil, lf, rootsDiffer); x != nil && wl == nil {
							wl = x
						}
					}
					if allConst && nTrue > 0 {
						w = wl
						nStarts += nTrue - 1
					}
				}
			}
			r.Check(w == nil, "C03.f", fmt.Sprintf("checkEventForReorg|handler#%d|%s", nGo, core.CalleeName(g.Common())), p.Pos(g.Pos()), "the handler starts when a stored root differs from the received one", "the change handler is not started under a comparison of the stored with the received dependent root", p.WitnessText(w)...)
		})
		// one event can change both roots (a reorg deeper than an epoch boundary): the two comparisons are independent,
		// so a start of the previous-root handler can be followed, in the same call, by a start of the current-root handler
		var prevGo, curGo []ssa.Instruction
		core.EachInstr(f, func(in ssa.Instruction) {
			if g, ok := in.(*ssa.Go); ok {
				n := core.CalleeName(g.Common())
				if strings.Contains(n, "Previous") {
					prevGo = append(prevGo, in)
				} else if strings.Contains(n, "Current") {
					curGo = append(curGo, in)
				}
			}
		})
		both := false
		for _, a := range prevGo {
			for _, b := range curGo {
				b := b
				if w := (core.PathQuery{Fn: f, From: a, Target: func(x ssa.Instruction) bool { return x == b }}).Find(); w != nil {
					both = true
				}
			}
		}
		r.Check(both || len(prevGo) == 0 || len(curGo) == 0, "C03.f", "checkEventForReorg|both-roots-independent", p.Pos(f.Pos()), "the previous-root and current-root comparisons are independent: both handlers can start for one event",
			"once the previous dependent root is found changed the current dependent root is no longer compared: an event that changes both refreshes only part of the duties, and the stored roots are then overwritten so the missed refresh never happens")
		r.Check(nGo+nStarts >= 3, "C03.f", "checkEventForReorg|handlers", p.Pos(f.Pos()), fmt.Sprintf("%d change handler starts", nGo+nStarts), fmt.Sprintf("only %d change handlers are started (previous root at epoch change, previous root, current root expected)", nGo+nStarts))
	} else {
		r.Undecide("C03.f", "checkEventForReorg", "", "anchor not found")
	}

	// ---- (k) duties of an epoch are scheduled from that epoch's validators ----
	nK := checkEpochPairing(p, r, ds, "C03.k", []string{"scheduleAttestations", "scheduleProposals", "scheduleSyncCommitteeMessages", "subscribeToBeaconCommittees"},
		"jobs of epoch %s are set up from the validators obtained for epoch %s: a validator that differs between the two epochs (activating, exiting) gets no job, or a job it should not have")
	r.Floor("C03.k scheduling calls with locally obtained validators", nK, 6)

	// ---- (l) one job per name: the controller schedules each duty slot under a fixed name and relies on the
	// scheduler refusing a second job of that name; the refusal is only sound if the name test and the insert
	// are one critical section ----
	{
		jobsField := core.FieldID{Owner: schedRel + ".Service", Name: "jobs"}
		nAt := 0
		for _, f := range p.FuncsIn(schedRel) {
			nAt += checkTestAndSetAtomic(p, r, la, "C03.l", f, jobsField,
				"two overlapping schedulings of one duty slot (two head events in quick succession, a refresh overlapping the epoch preparation) are both accepted, and the slot is attested or proposed twice", true)
		}
		r.Floor("C03.l scheduler name test/insert pairs", nAt, 2)
	}

	// ---- (n) "now" is read after the beacon node has answered: a current-slot/epoch reading that decides which
	// slots still get a job is not taken before a request to a beacon node whose answer it is compared with (the
	// answer can take a slot or more; the stale reading then lets the slot under way, or past slots, get jobs) ----
	{
		nClock := 0
		for _, f := range fns {
			var clocks []*ssa.Call
			var slow []ssa.Instruction
			core.EachInstr(f, func(in ssa.Instruction) {
				c, ok := in.(*ssa.Call)
				if !ok || !c.Call.IsInvoke() {
					return
				}
				recvT := c.Call.Value.Type().String()
				switch {
				case strings.HasSuffix(recvT, "chaintime.Service") && (c.Call.Method.Name() == "CurrentSlot" || c.Call.Method.Name() == "CurrentEpoch"):
					clocks = append(clocks, c)
				case strings.Contains(recvT, "go-eth2-client."):
					slow = append(slow, in)
				}
			})
			if len(slow) == 0 {
				continue
			}
			for _, c := range clocks {
				if c.Referrers() == nil {
					continue
				}
				for _, ref := range *c.Referrers() {
					cmp, ok := ref.(*ssa.BinOp)
					if !ok {
						continue
					}
					switch cmp.Op {
					case token.LSS, token.LEQ, token.GTR, token.GEQ, token.EQL, token.NEQ:
					default:
						continue
					}
					nClock++
					stale := false
					var wit []ssa.Instruction
					for _, sc := range slow {
						w1 := core.PathQuery{Fn: f, From: c, Target: func(x ssa.Instruction) bool { return x == sc }}.Find()
						if w1 == nil {
							continue
						}
						w2 := core.PathQuery{Fn: f, From: sc, Target: func(x ssa.Instruction) bool { return x == ssa.Instruction(cmp) }, Avoid: func(x ssa.Instruction) bool { return x == ssa.Instruction(c) }}.Find()
						if w2 != nil {
							stale, wit = true, append(w1, w2...)
						}
					}
					r.Check(!stale, "C03.n", fmt.Sprintf("%s|clock-read-after-fetch#%d", core.FnKey(f), nClock), p.Pos(cmp.Pos()), "the clock reading compared here is not older than a beacon node request",
						"the current slot/epoch compared here was read before a request to a beacon node that lies between the reading and the comparison: when the answer takes a slot or longer, the slot now under way (or slots already past) are treated as future and get jobs", p.WitnessText(wit)...)
				}
			}
		}
		r.Count("clock readings compared after beacon node requests", nClock)
	}

	// ---- (o) jobs and the goroutines that set them up outlive the handler that starts them: the context they are
	// given is not one the handler cancels (or lets time out) when it returns — the scheduler drops a job whose
	// scheduling context is done ----
	{
		nCtx := 0
		for _, f := range fns {
			core.EachInstr(f, func(in ssa.Instruction) {
				var args []ssa.Value
				what := ""
				switch x := in.(type) {
				case *ssa.Go:
					args, what = x.Call.Args, "a goroutine"
					if mc, ok := x.Call.Value.(*ssa.MakeClosure); ok {
						args = append(append([]ssa.Value{}, args...), mc.Bindings...)
					}
				case *ssa.Call:
					if x.Call.IsInvoke() && (x.Call.Method.Name() == "ScheduleJob" || x.Call.Method.Name() == "SchedulePeriodicJob") {
						args, what = x.Call.Args, "the scheduler"
					}
				}
				for _, a := range args {
					t := a.Type()
					if pt, ok := t.(*types.Pointer); ok {
						t = pt.Elem()
					}
					if !strings.HasSuffix(t.String(), "context.Context") {
						continue
					}
					nCtx++
					d := ds.D(a)
					var owned func(v ssa.Value, depth int) (bool, string)
					owned = func(v ssa.Value, depth int) (bool, string) {
						dv := ds.D(v)
						if dv.MentionsCall("context.WithTimeout", "context.WithCancel", "context.WithDeadline", "context.WithCancelCause", "context.WithTimeoutCause") {
							return true, dv.String()
						}
						// a parameter (also behind the tracer's Start): look at what the callers pass
						var prm *ssa.Parameter
						dv.Any(func(x *core.VD) bool {
							if q, ok := x.Val.(*ssa.Parameter); ok && strings.HasSuffix(q.Type().String(), "context.Context") && prm == nil {
								prm = q
							}
							return false
						})
						if prm != nil && depth < 3 {
							for i, q := range prm.Parent().Params {
								if q != prm {
									continue
								}
								for _, o := range p.ParamOrigins(prm.Parent(), i, 0) {
									// the context of the process itself (made in package main, cancelled at shutdown) is
									// nobody's handler context
									if oi, ok := o.(ssa.Instruction); ok && oi.Parent() != nil && oi.Parent().Pkg != nil {
										if rel := core.RelPkg(oi.Parent().Pkg.Pkg.Path()); rel == "" || rel == "." {
											continue
										}
									}
									if b, w := owned(o, depth+1); b {
										return true, w
									}
								}
							}
						}
						return false, ""
					}
					bad, how := owned(a, 0)
					if bad {
						d = &core.VD{Kind: "const", Name: how}
					}
					r.Check(!bad, "C03.o", fmt.Sprintf("%s|context-outlives-handler#%d", core.FnKey(f), nCtx), p.Pos(in.Pos()), "the context handed to "+what+" is not one this function cancels",
						"the context handed to "+what+" ("+d.String()+") is cancelled or timed out by this function: jobs scheduled under it after the function has returned are dropped by the scheduler, leaving obtained duties without a job")
				}
			})
		}
		r.Floor("C03.o contexts handed to goroutines and the scheduler", nCtx, 20)
	}

	// ---- (q) whether the slot under way is left out of a (re)scheduling is decided by what happened to its job — a
	// constant, a parameter, or the outcome of cancelling it — never by the wall clock: a job that was started early
	// has already run although its time has not come, and would be set up and run a second time ----
	{
		nNC := 0
		for _, f := range fns {
			for _, ci := range core.Calls(f, func(c *ssa.CallCommon) bool {
				callee := c.StaticCallee()
				return callee != nil && (callee.Name() == "scheduleProposals" || callee.Name() == "scheduleAttestations" || callee.Name() == "scheduleSyncCommitteeMessages")
			}) {
				args := ci.Common().Args
				last := args[len(args)-1]
				if b, ok := last.Type().Underlying().(*types.Basic); !ok || b.Kind() != types.Bool {
					continue
				}
				nNC++
				d := ds.D(last)
				clock := d.MentionsCall("time.Now", "time.Since", "time.Until", "StartOfSlot", "time.Time.Before", "time.Time.After")
				r.Check(!clock, "C03.q", fmt.Sprintf("%s|not-current-slot#%d", core.FnKey(f), nNC), p.Pos(ci.Pos()), "the current-slot exclusion does not depend on the wall clock",
					"whether the slot under way is scheduled again is decided from the wall clock ("+d.String()+"): a proposal/attestation of that slot that was kicked off early has already run, and is set up and run a second time")
			}
		}
		r.Floor("C03.q scheduling calls with a current-slot exclusion", nNC, 8)
	}

	// ---- (u) the loops over the duties in the scheduling functions are left only by exhaustion: one duty that is not
	// scheduled (a passed slot, the slot under way) must not end the scheduling of the others ----
	{
		nDL := 0
		for _, f := range fns {
			if f.Parent() != nil || !(f.Name() == "scheduleProposals" || f.Name() == "scheduleAttestations") {
				continue
			}
			for _, l := range p.Loops(f) {
				if l.RangeExpr() == nil {
					continue
				}
				nDL++
				noEarlyExit(p, r, "C03.u", l, "duty scheduling loop")
			}
		}
		r.Floor("C03.u duty loops in the scheduling functions", nDL, 2)
	}

	// ---- (v) at start-up the next sync committee period is set up whenever the epoch tick that would do it has passed:
	// the ticker acts at exactly syncCommitteePreparationEpochs before the period, so the start-up test is "<=" that
	// distance (with "<", a start inside that one epoch leaves the whole next period without jobs) ----
	{
		nSU := 0
		for _, f := range fns {
			if outermost(f).Name() != "New" && outermost(f).Name() != "handleAltairForkEpoch" {
				continue
			}
			core.EachInstr(f, func(in ssa.Instruction) {
				iff, ok := in.(*ssa.If)
				if !ok {
					return
				}
				c := core.DecodeCond(ds, iff)
				if c.Op == "" {
					return
				}
				prepSide := func(d *core.VD) bool {
					return d.String() == "global:syncCommitteePreparationEpochs" || strings.HasSuffix(d.String(), "syncCommitteePreparationEpochs")
				}
				var rel string
				switch {
				case prepSide(c.Y) && c.X.Kind == "binop" && c.X.Name == "-":
					rel = c.RelOnEdge(0)
				case prepSide(c.X) && c.Y.Kind == "binop" && c.Y.Name == "-":
					rel = core.FlipRel(c.RelOnEdge(0))
				default:
					return
				}
				nSU++
				r.Check(rel == "<=", "C03.v", fmt.Sprintf("%s|next-period-at-start#%d", outermost(f).Name(), nSU), p.Pos(core.IfPos(iff)), "the next period is set up when it starts in at most syncCommitteePreparationEpochs epochs",
					"the next sync committee period is set up at start only when its distance is '"+rel+"' syncCommitteePreparationEpochs, expected '<=': started in the epoch in which the ticker would have acted, nothing sets the period up and its members send no messages")
			})
		}
		r.Floor("C03.v start-up tests of the next sync committee period", nSU, 2)
	}

	// ---- (r) a job that prepares an epoch is named after the epoch it prepares: the refresh paths ask the scheduler
	// whether "Prepare for epoch N" exists to decide whether epoch N is still to be set up ----
	{
		nPrep := 0
		for _, st := range sites {
			args := st.call.Common().Args
			fm, nameArgs, ok := nameFormat(ds, args[2])
			if !ok || !strings.Contains(strings.ToLower(fm), "epoch %d") || nameArgs == nil {
				continue
			}
			jf := jobFuncOf(args[4])
			if jf == nil {
				continue
			}
			var epochVals []ssa.Value
			for _, sl := range core.StructLits(jf, "prepareForEpochData") {
				if ev := sl.Fields["epoch"]; ev != nil {
					epochVals = append(epochVals, ev)
				}
			}
			if len(epochVals) == 0 {
				// the epoch handed over as a plain argument
				for _, pc := range core.Calls(jf, func(c *ssa.CallCommon) bool {
					return c.StaticCallee() != nil && c.StaticCallee().Name() == "prepareForEpoch"
				}) {
					a := pc.Common().Args
					if last := a[len(a)-1]; strings.HasSuffix(last.Type().String(), "phase0.Epoch") {
						epochVals = append(epochVals, last)
					}
				}
			}
			for _, ev := range epochVals {
				nPrep++
				ed := ds.D(ev).String()
				r.Check(strings.Contains(nameArgs.String(), ed), "C03.r", core.FnKey(st.fn)+"|prepare-job-named-after-its-epoch", p.Pos(st.call.Pos()), "the job is named after the epoch it prepares: "+ed,
					"the job named "+fmt.Sprintf("%q", fm)+" with "+nameArgs.String()+" prepares epoch "+ed+": a refresh that looks the job up by the epoch it is about to set up finds the wrong one (it skips the current epoch's refresh, or repeats the next one's)")
			}
		}
		r.Floor("C03.r epoch preparation jobs", nPrep, 1)
	}

	// ---- (s) the state of the once-per-epoch guard lives as long as the ticker: it is created by a named function, not
	// inside the function the scheduler runs at every tick (a fresh state each time never says "already ran") ----
	{
		nState := 0
		for _, f := range fns {
			for _, sl := range core.StructLits(f, "epochTickerData") {
				nState++
				r.Check(f.Parent() == nil, "C03.s", core.FnKey(f)+"|ticker-state-created-once", p.Pos(sl.Alloc.Pos()), "the ticker's state is created once, outside the tick function", "the ticker's state (latest epoch run) is created inside a function literal that runs at every tick: the once-per-epoch guard starts from 'never ran' each time, so a second tick in the same epoch schedules the epoch's duties again")
			}
		}
		r.Floor("C03.s ticker state objects", nState, 1)
	}

	// ---- (t) which callers leave out the slot under way: a table. At start-up and in the refreshes the current slot's
	// jobs exist or have run (true); at the epoch tick and at the Altair fork epoch the current slot is the first slot of
	// what is being scheduled and has no job yet (false) ----
	{
		want := map[string]string{"handleAltairForkEpoch": "false", "New": "true"}
		for _, f := range fns {
			outer := outermost(f)
			w, ok := want[outer.Name()]
			if !ok {
				continue
			}
			for _, ci := range core.Calls(f, func(c *ssa.CallCommon) bool {
				callee := c.StaticCallee()
				return callee != nil && callee.Name() == "scheduleSyncCommitteeMessages"
			}) {
				args := ci.Common().Args
				d := ds.D(args[len(args)-1])
				r.Check(d.Kind == "const" && d.Name == w, "C03.t", outer.Name()+"|sync-committee|not-current-slot", p.Pos(ci.Pos()), "the slot under way is "+map[string]string{"true": "left out", "false": "included"}[w],
					"the sync committee scheduling from "+outer.Name()+" passes notCurrentSlot="+d.String()+", expected "+w+": "+map[string]string{"false": "the first slot of the fork epoch gets no message job, so no member messages in it", "true": "the slot under way is set up a second time"}[w])
			}
		}
	}

	// ---- (p) duties obtained keep their jobs: the controller withdraws jobs by full name only (shared with C15.l) ----
	checkNoPrefixCancel(p, r, "C03.p")

	// ---- (m) the current slot and epoch are the ones that have started: elapsed time is truncated, never rounded
	// (rounded up, "now" lies before the start of the "current" slot, and the job for that slot is never made) ----
	checkChainTimeTruncates(p, r, "C03.m", "in the last part of a slot the current slot/epoch is already reported as the next one, so a start-up or refresh at that moment treats the next slot as under way and never creates its job")
	// handlers refresh the right epochs
	if f := p.Func(ctrlRel, "Service", "handleCurrentDependentRootChanged"); f != nil {
		for _, ci := range core.Calls(f, func(c *ssa.CallCommon) bool {
			return c.StaticCallee() != nil && strings.HasPrefix(c.StaticCallee().Name(), "refreshAttester")
		}) {
			a := ci.Common().Args
			ed := ds.D(a[len(a)-1])
			b, k := lin(ed)
			r.Check(b.IsCall("CurrentEpoch") && k == 1, "C03.f", "handleCurrentDependentRootChanged|attester-epoch", p.Pos(ci.Pos()), "a changed current dependent root refreshes the attesters of the next epoch", "a changed current dependent root refreshes the attesters of "+ed.String())
		}
	}
	if f := p.Func(ctrlRel, "Service", "handlePreviousDependentRootChanged"); f != nil {
		for _, ci := range core.Calls(f, func(c *ssa.CallCommon) bool {
			return c.StaticCallee() != nil && strings.HasPrefix(c.StaticCallee().Name(), "refreshAttester")
		}) {
			a := ci.Common().Args
			ed := ds.D(a[len(a)-1])
			b, k := lin(ed)
			r.Check(b.IsCall("CurrentEpoch") && k == 0, "C03.f", "handlePreviousDependentRootChanged|attester-epoch", p.Pos(ci.Pos()), "a changed previous dependent root refreshes the attesters of the current epoch", "a changed previous dependent root refreshes the attesters of "+ed.String())
		}
	}

	// ---- (g) once per epoch ----
	if f := p.Func(ctrlRel, "Service", "epochTicker"); f != nil {
		var test ssa.Instruction
		var store ssa.Instruction
		core.EachInstr(f, func(in ssa.Instruction) {
			switch x := in.(type) {
			case *ssa.If:
				c := core.DecodeCond(ds, x)
				if c.Op != "" && (c.X.HasFieldSuffix("latestEpochRan") || c.Y.HasFieldSuffix("latestEpochRan")) {
					test = in
				}
			case *ssa.Store:
				if id, _, ok := core.FieldOfAddr(x.Addr); ok && id.Name == "latestEpochRan" {
					store = in
				}
			}
		})
		if test == nil || store == nil {
			r.Violate("C03.g", "epochTicker|once-per-epoch", p.Pos(f.Pos()), "the epoch ticker does not test and record the epoch it ran for")
		} else {
			held := la.HeldAt(f)
			r.Check(held[test].HasOwner(ctrlRel+".epochTickerData", true) && held[store].HasOwner(ctrlRel+".epochTickerData", true), "C03.g", "epochTicker|locked", p.Pos(store.Pos()), "test and record under the ticker's mutex", "latestEpochRan is tested or recorded without the ticker's mutex")
			// no unlock between
			split := false
			core.EachInstr(f, func(u ssa.Instruction) {
				uc, ok := u.(ssa.CallInstruction)
				if !ok {
					return
				}
				op, ok := core.LockOpOf(uc)
				if !ok || op.Acquire {
					return
				}
				w1 := core.PathQuery{Fn: f, From: test, Target: func(x ssa.Instruction) bool { return x == u }}.Find()
				w2 := core.PathQuery{Fn: f, From: u, Target: func(x ssa.Instruction) bool { return x == store }}.Find()
				if w1 != nil && w2 != nil {
					split = true
				}
			})
			r.Check(!split, "C03.g", "epochTicker|atomic", p.Pos(store.Pos()), "test and record are one critical section", "the mutex is released between the test and the record (two ticks can both run for one epoch)")
			// relation: skip when latest >= current
			c := core.DecodeCond(ds, test.(*ssa.If))
			rel := c.RelOnEdge(0)
			if c.Y.HasFieldSuffix("latestEpochRan") {
				rel = core.FlipRel(rel)
			}
			// the edge that continues (does not return immediately) must establish latest < current
			contSucc := 1
			if b := test.Block().Succs[0]; !blockReturnsSoon(b) {
				contSucc = 0
			}
			// more robustly: the continuing edge is the one from which the record is reached
			reach := func(k int) bool {
				e := [2]*ssa.BasicBlock{test.Block(), test.Block().Succs[k]}
				return core.PathQuery{Fn: f, StartEdge: &e, Target: func(y ssa.Instruction) bool { return y == store }}.Find() != nil
			}
			if r0, r1 := reach(0), reach(1); r0 != r1 {
				if r0 {
					contSucc = 0
				} else {
					contSucc = 1
				}
			}
			relCont := c.RelOnEdge(contSucc)
			if c.Y.HasFieldSuffix("latestEpochRan") {
				relCont = core.FlipRel(relCont)
			}
			_ = rel
			r.Check(relCont == "<", "C03.g", "epochTicker|relation", p.Pos(test.Pos()), "the ticker proceeds only when latestEpochRan < current epoch", "the ticker proceeds when latestEpochRan "+relCont+" current epoch (an epoch can be prepared twice, or never)")
			// the record precedes every scheduling
			for _, x := range schedulingInstrs(f) {
				w := core.PathQuery{Fn: f, Target: func(y ssa.Instruction) bool { return y == x }, Avoid: func(y ssa.Instruction) bool { return y == store }}.Find()
				r.Check(w == nil, "C03.g", "epochTicker|record-before|"+instrName(x), p.Pos(x.Pos()), "the epoch is recorded before anything is scheduled", "something is scheduled before the epoch is recorded as run", p.WitnessText(w)...)
			}
		}
	}

	// ---- (h) start-up schedules strictly later slots ----
	if nw := p.Func(ctrlRel, "", "New"); nw != nil {
		n := 0
		core.EachInstr(nw, func(in ssa.Instruction) {
			ci, ok := in.(ssa.CallInstruction)
			if !ok {
				return
			}
			c := ci.Common().StaticCallee()
			if c == nil || !strings.HasPrefix(c.Name(), "schedule") {
				return
			}
			k := core.ParamIndex(c, "notCurrentSlot")
			if k < 0 {
				return
			}
			n++
			d := ds.D(ci.Common().Args[k])
			ok2 := (d.Kind == "const" && d.Name == "true") || (d.Kind == "unop" && d.Name == "!" && d.Args[0].HasFieldSuffix("waitedForGenesis"))
			r.Check(ok2, "C03.h", fmt.Sprintf("New|%s#%d|notCurrentSlot", c.Name(), n), p.Pos(ci.Pos()), "start-up scheduling skips the current slot (notCurrentSlot = "+d.String()+")", "at start-up "+c.Name()+" is called with notCurrentSlot = "+d.String()+": a restart within a slot would act in that slot again")
		})
		r.Floor("C03.h start-up scheduling calls", n, 4)
	}

	// sync-committee duties: one job per slot of the period's window (shared with C15.a/b)
	checkSyncWindows(p, r, ds, "C03.a", "C03.a")

	// ---- (i) fork epochs ----
	checkForkEpochFlow(p, r, ds, "C03.i")

	// ---- (j) MergeDuties ----
	runIndexSpaces(p, r, ds, "C03.j", p.FuncsIn("services/attester"), 0)
	if f := p.Func("services/attester", "", "MergeDuties"); f != nil {
		// the three per-slot arrays are appended in the same block, under the slot of the same element, each from its own field
		type app struct{ m, field, elem, key string }
		blocks := map[*ssa.BasicBlock][]app{}
		core.EachInstr(f, func(in ssa.Instruction) {
			mu, ok := in.(*ssa.MapUpdate)
			if !ok {
				return
			}
			c, ok := mu.Value.(*ssa.Call)
			if !ok {
				return
			}
			if b, ok := c.Call.Value.(*ssa.Builtin); !ok || b.Name() != "append" {
				return
			}
			srcs := appendedSources(c)
			if len(srcs) != 1 {
				return
			}
			vd := ds.D(srcs[0])
			root, path := vd.FieldPath()
			kd := ds.D(mu.Key)
			kroot, _ := kd.FieldPath()
			if len(path) != 1 {
				return
			}
			blocks[mu.Block()] = append(blocks[mu.Block()], app{ds.D(mu.Map).String(), path[0], root.String(), kroot.String() + "." + kd.Name})
		})
		// the same with the per-slot arrays held in one entry struct per slot: entry.f = append(entry.f, duty.F) where
		// entry is the value looked up (or created) under duty.Slot
		core.EachInstr(f, func(in ssa.Instruction) {
			st, ok := in.(*ssa.Store)
			if !ok {
				return
			}
			fa, ok := st.Addr.(*ssa.FieldAddr)
			if !ok {
				return
			}
			c, ok := st.Val.(*ssa.Call)
			if !ok {
				return
			}
			if b, ok := c.Call.Value.(*ssa.Builtin); !ok || b.Name() != "append" {
				return
			}
			srcs := appendedSources(c)
			if len(srcs) != 1 {
				return
			}
			vd := ds.D(srcs[0])
			root, path := vd.FieldPath()
			if len(path) != 1 {
				return
			}
			key := ""
			for _, lf := range core.PhiLeaves(fa.X, st) {
				if ex, ok := lf.V.(*ssa.Extract); ok {
					if lk, ok := ex.Tuple.(*ssa.Lookup); ok {
						kd := ds.D(lk.Index)
						kroot, _ := kd.FieldPath()
						key = kroot.String() + "." + kd.Name
					}
				}
			}
			if key == "" {
				return
			}
			blocks[st.Block()] = append(blocks[st.Block()], app{"entry", path[0], root.String(), key})
		})
		okAll := false
		for _, apps := range blocks {
			if len(apps) < 3 {
				continue
			}
			fields := map[string]bool{}
			same := true
			for _, a := range apps {
				fields[a.field] = true
				if a.elem != apps[0].elem || a.key != apps[0].key || !strings.HasSuffix(a.key, ".Slot") {
					same = false
				}
			}
			if same && fields["ValidatorIndex"] && fields["CommitteeIndex"] && fields["ValidatorCommitteeIndex"] {
				okAll = true
			}
		}
		r.Check(okAll, "C03.j", "MergeDuties|parallel-appends", p.Pos(f.Pos()), "validator, committee and position of each duty are appended together under the duty's slot", "MergeDuties does not append validator index, committee index and committee position of one duty together under its slot: the duty's parallel arrays get out of step")
		// NewDuty receives the three arrays of the same slot, each in its own parameter
		for _, ci := range core.Calls(f, func(c *ssa.CallCommon) bool { return c.StaticCallee() != nil && c.StaticCallee().Name() == "NewDuty" }) {
			callee := ci.Common().StaticCallee()
			for i, a := range ci.Common().Args {
				if i >= len(callee.Params) {
					continue
				}
				ad := ds.D(a)
				if ad.Kind != "lookup" {
					// what describes one slot's duty is that slot's entry, never the collection for all slots
					switch a.Type().Underlying().(type) {
					case *types.Map, *types.Slice:
						if _, isLocalMap := a.(*ssa.MakeMap); isLocalMap {
							r.Violate("C03.j", "MergeDuties|NewDuty-arg|"+callee.Params[i].Name()+"|per-slot", p.Pos(ci.Pos()), "NewDuty's "+callee.Params[i].Name()+" receives a collection that is filled for all slots of the response ("+ad.String()+") instead of the entry of the duty's slot: values of different slots overwrite each other (the committee size of one slot is used for another)")
						}
					}
					continue
				}
				pn := strings.ToLower(callee.Params[i].Name())
				mn := strings.ToLower(core.SourceName(ad.Args[0].Val))
				if mn == "" {
					mn = strings.TrimPrefix(strings.ToLower(ad.Args[0].String()), "var:")
				}
				ok := strings.Contains(mn, pn) || strings.Contains(pn, mn) || (pn == "committeesatslot" && strings.Contains(mn, "committeesatslot")) || (strings.Contains(pn, "committeesize") && strings.Contains(mn, "committeelength"))
				// decided by content rather than by the local's name: the collection looked up holds the field of the
				// beacon node's duties that this parameter of NewDuty stands for
				if want, known := map[string]string{"validatorindices": "ValidatorIndex", "committeeindices": "CommitteeIndex", "validatorcommitteeindices": "ValidatorCommitteeIndex", "committeelengths": "CommitteeLength", "committeesizes": "CommitteeLength", "committeesatslot": "CommitteesAtSlot"}[pn]; known {
					if mk, isMk := ad.Args[0].Val.(*ssa.MakeMap); isMk {
						got := map[string]bool{}
						core.EachInstr(f, func(in ssa.Instruction) {
							mu, isMu := in.(*ssa.MapUpdate)
							if !isMu {
								return
							}
							into := mu.Map == ssa.Value(mk)
							if lk, isLk := mu.Map.(*ssa.Lookup); isLk && lk.X == ssa.Value(mk) {
								into = true
							}
							if !into {
								return
							}
							ds.D(mu.Value).Walk(func(x *core.VD) bool {
								if x.Kind == "field" {
									got[x.Name] = true
								}
								return true
							})
						})
						ok = got[want]
						for _, other := range []string{"ValidatorIndex", "CommitteeIndex", "ValidatorCommitteeIndex", "CommitteeLength", "CommitteesAtSlot"} {
							if other != want && got[other] {
								ok = false
							}
						}
					}
				}
				r.Check(ok, "C03.j", "MergeDuties|NewDuty-arg|"+callee.Params[i].Name(), p.Pos(ci.Pos()), callee.Params[i].Name()+" <- "+ad.String(), "NewDuty's "+callee.Params[i].Name()+" receives "+ad.String())
			}
		}
	}
}

func delayFieldsIn(d *core.VD) string {
	var out []string
	d.Walk(func(x *core.VD) bool {
		if x.Kind == "field" && (strings.HasSuffix(x.Name, "Delay") || x.Name == "slotDuration") {
			out = append(out, x.Name)
		}
		return true
	})
	if len(out) == 0 {
		return "none"
	}
	sort.Strings(out)
	return strings.Join(out, ",")
}

func blockReturnsSoon(b *ssa.BasicBlock) bool {
	seen := map[*ssa.BasicBlock]bool{}
	for i := 0; i < 4 && b != nil && !seen[b]; i++ {
		seen[b] = true
		for _, in := range b.Instrs {
			if _, ok := in.(*ssa.Return); ok {
				return true
			}
		}
		if len(b.Succs) != 1 {
			return false
		}
		b = b.Succs[0]
	}
	return false
}

func schedulingInstrs(f *ssa.Function) []ssa.Instruction {
	var out []ssa.Instruction
	core.EachInstr(f, func(in ssa.Instruction) {
		ci, ok := in.(ssa.CallInstruction)
		if !ok {
			return
		}
		n := core.MethodName(ci.Common())
		if strings.HasPrefix(n, "schedule") || n == "ScheduleJob" {
			out = append(out, in)
		}
		if cl := funcValueOf(ci.Common().Value); cl != nil && cl.Parent() == f {
			if len(withClosureCalls(cl, "ScheduleJob")) > 0 {
				out = append(out, in)
			}
		}
	})
	return out
}

func instrName(in ssa.Instruction) string {
	if ci, ok := in.(ssa.CallInstruction); ok {
		return core.CalleeName(ci.Common())
	}
	return fmt.Sprintf("%T", in)
}

var _ = types.Typ

// rootedAtEventParam: the value is read from (or computed only from) a parameter other than the receiver —
// the event, or a field of the event, handed to the function.
func rootedAtEventParam(d *core.VD, f *ssa.Function) bool {
	ok := false
	bad := false
	d.Walk(func(x *core.VD) bool {
		switch x.Kind {
		case "param":
			if len(f.Params) > 0 && x.Name == f.Params[0].Name() {
				// the receiver: only as the carrier of a pure service (chain time)
				return true
			}
			ok = true
		case "field", "call", "convert", "binop", "const", "deref", "index":
		default:
		}
		return true
	})
	return ok && !bad
}

// checkChainTimeTruncates: the chain time service never rounds a time or duration (Duration.Round, Time.Round,
// math.Round/Ceil): "current" slots and epochs are the ones that have started.
func checkChainTimeTruncates(p *core.Prog, r *core.Report, rule, consequence string) {
	nTime, nRound := 0, 0
	for _, f := range p.FuncsIn("services/chaintime/standard") {
		core.EachInstr(f, func(in ssa.Instruction) {
			c, ok := in.(*ssa.Call)
			if !ok {
				return
			}
			n := core.CalleeName(&c.Call)
			if strings.HasSuffix(n, "time.Since") || strings.HasSuffix(n, "time.Now") || strings.HasSuffix(n, "time.Time.Sub") {
				nTime++
			}
			if strings.HasSuffix(n, "time.Duration.Round") || strings.HasSuffix(n, "time.Time.Round") || strings.HasSuffix(n, "math.Round") || strings.HasSuffix(n, "math.Ceil") || strings.HasSuffix(n, "math.RoundToEven") {
				nRound++
				r.Violate(rule, fmt.Sprintf("%s|rounds-time#%d", core.FnKey(f), nRound), p.Pos(c.Pos()), "the chain time service rounds a time or duration ("+n+"): "+consequence)
			}
		})
	}
	if nRound == 0 {
		r.Hold(rule, "chaintime|elapsed-time-truncated", "", fmt.Sprintf("%d clock readings in the chain time service, none rounded", nTime))
	}
	r.Floor(rule+" clock readings in the chain time service", nTime, 2)
}

// paramBehind follows a value through captured-variable cells and free-variable bindings to the parameter it is a
// copy of (nil when it is anything else).
func paramBehind(v ssa.Value) *ssa.Parameter {
	for depth := 0; depth < 8 && v != nil; depth++ {
		switch x := v.(type) {
		case *ssa.Parameter:
			return x
		case *ssa.UnOp:
			if x.Op != token.MUL {
				return nil
			}
			v = x.X
		case *ssa.FreeVar:
			v = core.FreeVarBinding(x)
		case *ssa.Alloc:
			var stored ssa.Value
			n := 0
			if x.Referrers() != nil {
				for _, ref := range *x.Referrers() {
					if st, ok := ref.(*ssa.Store); ok && st.Addr == ssa.Value(x) {
						stored = st.Val
						n++
					}
				}
			}
			if n != 1 {
				return nil
			}
			v = stored
		default:
			return nil
		}
	}
	return nil
}
