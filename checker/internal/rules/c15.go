package rules

import (
	"fmt"
	"go/ast"
	"go/types"
	"strings"

	"golang.org/x/tools/go/ssa"

	"vouchcheck/internal/core"
)

func init() {
	register(&Pack{
		ID:  "C15",
		Run: runC15,
		Expl: "Decides structural necessary conditions of 'sync committee members message every slot of their period, independently': " +
			"(a) the per-slot scheduling goroutine is inside a counted loop over [firstSlot, lastSlot] whose only skip is `slot == CurrentSlot() && notCurrentSlot`, with firstSlot = FirstSlotOfEpoch(first epoch of the period) - 1 and lastSlot = FirstSlotOfEpoch(first epoch of the next period) - 2 (symbolic offsets), and the refresh function cancels over bounds of the same form; " +
			"(b) the unsigned slot/epoch subtractions in these two functions are guarded or of a form that cannot wrap (FirstSlotOfEpoch(e+k), firstEpochOfSyncPeriod(p+k), k >= 1); " +
			"(c) the root signed and stored in every message is the head root obtained in the same call of Message, the epoch passed to the signer is SlotToEpoch(duty.Slot()), the message slot is duty.Slot(); " +
			"(d) the account lists handed to the batch signers have no nil entries (no pre-sized slice that is filled conditionally); " +
			"(e) the per-member loops of Prepare, Message and Aggregate are not left early on a missing account or zero signature (only on an error of a call); " +
			"(f) validator indices, subcommittee indices, accounts and signatures are indexed consistently (index spaces), contributions and accounts are appended together; " +
			"(g) the fork epoch returned by the altair/bellatrix/capella detail functions derives from the fetched value on the success path. " +
			"Added with the third seeding round: (i) a member joins an account batch unless a nil/presence test of its own data fails (never on a set left behind by other members); (j) sync committee messages are scheduled for the result of syncCommitteeIndicesForEpoch. Added with the fourth seeding round: (k) as C14.k; (l) the controller never cancels by prefix; (e) also covers getAggregatorsSignatureData. Added with the fifth seeding round: (y) C17.i/h and C13.c (job closures, account refresh) are taken over for the duty-to-account join. Added with the sixth seeding round and the false-alarm regression: (y) C03.t is taken over (the Altair fork epoch includes its first slot). Added with the eighth seeding round: (j, extended) syncCommitteeIndicesForEpoch reaches SyncCommitteeAccountsForEpoch and not ValidatingAccountsForEpoch. NOT decided: the window arithmetic for all chain parameters beyond the symbolic offsets, subcommittee and selection arithmetic, timing.",
		Technique:   "AST loop-shape and loop-exit analysis, symbolic offset normalisation of slot-window bounds, guarded-subtraction queries, index-space analysis, sparse-slice detection, SSA provenance of signer arguments and returned fork epochs",
		Rule:        "one obligation per loop, per bound, per subtraction, per signer argument/message field, per batch slice, per detail function",
		Assumptions: []string{"SLOTS_PER_EPOCH >= 2 and EPOCHS_PER_SYNC_COMMITTEE_PERIOD >= 1 (used only to accept FirstSlotOfEpoch(e+1)-c, c<=2, as non-wrapping)"},
	})
}

const (
	scmRel = "services/synccommitteemessenger/standard"
	scaRel = "services/synccommitteeaggregator/standard"
)

// lin normalises d into (base, offset) following +/- constants.
func lin(d *core.VD) (*core.VD, int64) {
	off := int64(0)
	for d != nil && d.Kind == "binop" && (d.Name == "+" || d.Name == "-") {
		var c *core.VD
		var rest *core.VD
		if d.Args[1].Kind == "const" {
			c, rest = d.Args[1], d.Args[0]
		} else if d.Args[0].Kind == "const" && d.Name == "+" {
			c, rest = d.Args[0], d.Args[1]
		} else {
			break
		}
		var v int64
		if _, err := fmt.Sscanf(c.Name, "%d", &v); err != nil {
			break
		}
		if d.Name == "-" {
			off -= v
		} else {
			off += v
		}
		d = rest
	}
	return d, off
}

// expand enumerates the non-phi alternatives of d (through nested phis), each with an accumulated constant offset.
type linAlt struct {
	d   *core.VD
	off int64
}

func expand(d *core.VD, depth int) []linAlt {
	base, off := lin(d)
	if base.Kind == "phi" && depth < 4 {
		var out []linAlt
		for _, a := range base.Args {
			for _, x := range expand(a, depth+1) {
				out = append(out, linAlt{x.d, x.off + off})
			}
		}
		return out
	}
	return []linAlt{{base, off}}
}

type winDec struct{ pk, ek, sk int64 }

// windowBounds decodes all readings FirstSlotOfEpoch(firstEpochOfSyncPeriod(period + pk) + ek) + sk of d.
func windowBounds(d *core.VD) []winDec {
	var out []winDec
	for _, s := range expand(d, 0) {
		if !s.d.IsCall("FirstSlotOfEpoch") || len(s.d.Args) == 0 {
			continue
		}
		for _, e := range expand(s.d.Args[len(s.d.Args)-1], 0) {
			if !e.d.IsCall("firstEpochOfSyncPeriod") || len(e.d.Args) == 0 {
				continue
			}
			_, poff := lin(e.d.Args[len(e.d.Args)-1])
			out = append(out, winDec{poff, e.off, s.off})
		}
	}
	return out
}

func hasDec(ds []winDec, want winDec) bool {
	for _, d := range ds {
		if d == want {
			return true
		}
	}
	return false
}

func runC15(p *core.Prog, r *core.Report, tier string) {
	ds := core.NewDescriber()

	checkSyncWindows(p, r, ds, "C15.a", "C15.b")

	// ---- (c) head root per slot ----
	if f := p.Func(scmRel, "Service", "Message"); f != nil {
		var rootCall *ssa.Call
		for _, ci := range core.CallsNamed(f, "BeaconBlockRoot") {
			if c, ok := ci.(*ssa.Call); ok && c.Call.IsInvoke() {
				rootCall = c
			}
		}
		if rootCall == nil {
			r.Violate("C15.c", core.FnKey(f)+"|head-root", p.Pos(f.Pos()), "Message does not obtain the head root itself")
		} else {
			// signer reached through s.contributions(ctx, accounts, epoch, root) or directly
			for _, g := range p.FuncsIn(scmRel) {
				for _, ci := range core.CallsNamed(g, "SignSyncCommitteeRoots") {
					if !ci.Common().IsInvoke() {
						continue
					}
					args := ci.Common().Args
					rootArg, epochArg := args[len(args)-1], args[len(args)-2]
					rootV, epochV := []ssa.Value{rootArg}, []ssa.Value{epochArg}
					if prm, ok := rootArg.(*ssa.Parameter); ok && g != f {
						rootV = p.ParamOrigins(g, core.ParamIndex(g, prm.Name()), 0)
					}
					if prm, ok := epochArg.(*ssa.Parameter); ok && g != f {
						epochV = p.ParamOrigins(g, core.ParamIndex(g, prm.Name()), 0)
					}
					for _, v := range rootV {
						r.Check(ds.D(v).MentionsValue(rootCall), "C15.c", core.FnKey(f)+"|signed-root", p.Pos(ci.Pos()), "the root signed is the head root obtained in this call", "the root signed is "+ds.D(v).String()+", not the head root obtained in this call of Message")
					}
					for _, v := range epochV {
						d := ds.D(v)
						r.Check(d.IsCall("SlotToEpoch") && d.MentionsCall("synccommitteemessenger.Duty.Slot"), "C15.c", core.FnKey(f)+"|signed-epoch", p.Pos(ci.Pos()), "the domain epoch is SlotToEpoch(duty.Slot())", "the epoch handed to the signer is "+d.String())
					}
				}
			}
			for _, sl := range core.StructLits(f, "altair.SyncCommitteeMessage") {
				if v := sl.Fields["BeaconBlockRoot"]; v != nil {
					r.Check(ds.D(v).MentionsValue(rootCall), "C15.c", core.FnKey(f)+"|message-root", p.Pos(sl.Alloc.Pos()), "message carries the head root obtained in this call", "message root is "+ds.D(v).String())
				} else {
					r.Violate("C15.c", core.FnKey(f)+"|message-root", p.Pos(sl.Alloc.Pos()), "message root is not set")
				}
				if v := sl.Fields["Slot"]; v != nil {
					r.Check(ds.D(v).IsCall("synccommitteemessenger.Duty.Slot"), "C15.c", core.FnKey(f)+"|message-slot", p.Pos(sl.Alloc.Pos()), "message slot is duty.Slot()", "message slot is "+ds.D(v).String())
				}
			}
		}
	} else {
		r.Undecide("C15.anchor", scmRel+".Message", "", "anchor not found")
	}

	// ---- (d) dense batches ----
	eng := newIdxEngine(p)
	eng.Strict[scmRel] = true
	eng.Strict[scaRel] = true
	for _, rel := range []string{scmRel, scaRel} {
		sp := eng.SparseFills(rel)
		for _, s := range sp {
			r.Violate("C15.d", s.Fn+"|sparse-batch|"+s.Var, p.Pos(s.Pos), "slice "+s.Var+" is created with a length and filled by an indexed store that can be skipped: the nil entries reach the batch signer, which fails the whole batch for ordinary accounts")
		}
		if len(sp) == 0 {
			r.Hold("C15.d", rel+"|no-sparse-batch", "", "no account/pointer slice is pre-sized and conditionally filled")
		}
	}

	// ---- (e) independent members ----
	nLoops := 0
	for _, spec := range []struct{ rel, recv, name string }{{scmRel, "Service", "Prepare"}, {scmRel, "Service", "Message"}, {scaRel, "Service", "Aggregate"}, {scmRel, "Service", "getAggregatorsSignatureData"}} {
		f := p.Func(spec.rel, spec.recv, spec.name)
		if f == nil {
			r.Undecide("C15.anchor", spec.rel+"."+spec.name, "", "anchor not found")
			continue
		}
		for _, l := range p.Loops(f) {
			nLoops++
			construct := core.FnKey(f) + "|loop " + l.Describe()
			bad := 0
			for _, ex := range l.EarlyExits() {
				cond := enclosingIfCond(l, ex.Stmt)
				if cond != nil && condIsErrTest(p.PkgOf(f).TypesInfo, cond) {
					continue // leaving on an error of a call is outside this clause
				}
				if cond != nil && condIsCallOutcome(p.PkgOf(f).TypesInfo, cond, l.Body) {
					continue // leaving because a library call did not do its work (short write) is likewise not about a member
				}
				bad++
				r.Violate("C15.e", construct+"|exit-on|"+exprOrNone(cond), p.Pos(ex.Stmt.Pos()), "the per-member loop is left ("+ex.Kind+") when "+exprOrNone(cond)+": one member's missing account or signature suppresses the messages/contributions of the others")
			}
			if bad == 0 {
				r.Hold("C15.e", construct, p.Pos(l.Stmt.Pos()), "no early exit on a member-specific condition")
			}
		}
	}
	r.Floor("C15.e per-member loops", nLoops, 4)

	// ---- (i) a member's entry of a batch is left out only for a reason of its own (no account, no signature):
	// the branches that decide whether the account of the member at hand joins the batch are nil/presence tests,
	// never the state left behind by other members (a local "seen" set) ----
	nJoin := 0
	for _, rel := range []string{scmRel, scaRel} {
		for _, f := range p.FuncsIn(rel) {
			core.EachInstr(f, func(in ssa.Instruction) {
				c, ok := in.(*ssa.Call)
				if !ok || !core.InLoop(in) {
					return
				}
				b, ok := c.Call.Value.(*ssa.Builtin)
				if !ok || b.Name() != "append" {
					return
				}
				sl, ok := c.Type().Underlying().(*types.Slice)
				if !ok || !(strings.Contains(sl.Elem().String(), "wallet-types") && strings.HasSuffix(sl.Elem().String(), ".Account")) {
					return
				}
				nJoin++
				k := 0
				for _, sc := range skipConditions(ds, f, in) {
					k++
					ok := sc.Kind == "nil test" || sc.Kind == "presence flag" || sc.Kind == "emptiness test"
					r.Check(ok, "C15.i", fmt.Sprintf("%s|joins-batch#%d|condition#%d", core.FnKey(f), nJoin, k), p.Pos(core.IfPos(sc.If)), "the member is left out only on a "+sc.Kind+" of its own data",
						"a committee member's entry can be left out of the batch on a condition that is not a nil/presence test of its own data ("+orStr(sc.Kind, "unrecognised condition")+"): what other members did decides whether this member gets its selection proof / message / contribution")
				}
			})
		}
	}
	r.Floor("C15.i account batch appends in per-member loops", nJoin, 2)

	// ---- (j) sync committee duties are set up for the sync-committee-eligible validators (which include exited
	// validators still sitting in a committee), never for the attesting-active set ----
	nElig := 0
	for _, f := range p.FuncsIn("services/controller/standard") {
		for _, wf := range core.WithClosures(f) {
			if wf != f {
				continue
			}
			for _, ci := range core.Calls(wf, func(c *ssa.CallCommon) bool {
				callee := c.StaticCallee()
				return callee != nil && callee.Name() == "scheduleSyncCommitteeMessages"
			}) {
				for _, a := range ci.Common().Args {
					sl, ok := a.Type().Underlying().(*types.Slice)
					if !ok || !strings.HasSuffix(sl.Elem().String(), "phase0.ValidatorIndex") {
						continue
					}
					nElig++
					d := ds.D(a)
					r.Check(d.MentionsCall("syncCommitteeIndicesForEpoch"), "C15.j", fmt.Sprintf("%s|eligible-validators#%d", core.FnKey(wf), nElig), p.Pos(ci.Pos()), "sync committee messages are scheduled for the sync-committee-eligible validators",
						"sync committee messages are scheduled for "+d.String()+", which is not the sync-committee-eligible set: an exited validator that is still a committee member gets no duty for the whole period")
				}
			}
		}
	}
	r.Floor("C15.j sync committee scheduling calls", nElig, 5)
	// … and the helper that names that set asks the accounts provider for the sync committee accounts: the provider's
	// attesting-active query (directly or through another helper of the controller) leaves out exited members
	if sf := p.Func("services/controller/standard", "Service", "syncCommitteeIndicesForEpoch"); sf != nil {
		reaches := func(name string) bool {
			seen := map[*ssa.Function]bool{}
			var walk func(g *ssa.Function, depth int) bool
			walk = func(g *ssa.Function, depth int) bool {
				if g == nil || seen[g] || depth > 3 {
					return false
				}
				seen[g] = true
				found := false
				core.EachInstr(g, func(in ssa.Instruction) {
					ci, ok := in.(ssa.CallInstruction)
					if !ok || found {
						return
					}
					if core.MethodName(ci.Common()) == name {
						found = true
						return
					}
					if callee := ci.Common().StaticCallee(); callee != nil && callee.Pkg == sf.Pkg && walk(callee, depth+1) {
						found = true
					}
				})
				return found
			}
			return walk(sf, 0)
		}
		r.Check(reaches("SyncCommitteeAccountsForEpoch") && !reaches("ValidatingAccountsForEpoch"), "C15.j", core.FnKey(sf)+"|asks-for-sync-committee-accounts", p.Pos(sf.Pos()), "the sync-committee-eligible set is obtained with SyncCommitteeAccountsForEpoch",
			"the set of validators that sync committee duties are set up for is not obtained with SyncCommitteeAccountsForEpoch (or also with ValidatingAccountsForEpoch): exited or slashed validators that are still committee members get no duty")
	} else {
		r.Undecide("C15.j", "services/controller/standard.Service.syncCommitteeIndicesForEpoch", "", "anchor not found")
	}

	// ---- (k) chain constants are read under their own names (sync committee size, subnet count, aggregator target):
	// shared with C14.k ----
	nSpec15 := checkSpecConstantNames(p, r, "C15.k")
	r.Floor("C15.k fields filled from chain constants", nSpec15, 8)

	// ---- (l) a refresh withdraws exactly the jobs of the window it refreshes: the controller cancels by full job
	// name (which carries the slot), never by prefix — a prefix also matches the jobs of the period under way,
	// whose prepare jobs have already run and will not recreate them ----
	checkNoPrefixCancel(p, r, "C15.l")

	// ---- (f) index spaces ----
	decided, unknown := 0, 0
	for _, rel := range []string{scmRel, scaRel} {
		for _, fo := range eng.FuncsOfPkg(rel) {
			s := eng.Summary(fo)
			if s == nil {
				continue
			}
			decided += s.Accesses
			unknown += s.Unknown
			if s.Accesses > 0 && len(s.Findings) == 0 {
				r.Hold("C15.f", eng.Key(fo)+"|index-spaces", "", fmt.Sprintf("%d indexed accesses / co-indexed calls are consistent", s.Accesses))
			}
			for _, fd := range s.Findings {
				r.Violate("C15.f", fmt.Sprintf("%s|%s|%s", fd.Fn, fd.Kind, fd.Expr), p.Pos(fd.Pos), fd.Detail)
			}
		}
	}
	r.Count("index-space decided accesses", decided)
	r.Floor("C15.f decided indexed accesses", decided, 6)
	// contributions and accounts appended together in Aggregate
	if f := p.Func(scaRel, "Service", "Aggregate"); f != nil {
		checkCoAppend(p, r, f, "C15.f")
	}

	// (f') a member's aggregator selections accumulate: the per-validator inner map of the duty is created only when absent
	nInit := checkNestedInitOnlyWhenAbsent(p, r, ds, "C15.f", p.FuncsIn("services/synccommitteemessenger"),
		"a validator selected as aggregator for several subcommittees of one slot keeps only the last one, and no contribution is produced for the others")
	r.Floor("C15.f inner selection maps created", nInit, 1)

	// (h) the start-up paths cover the whole preparation window: the periodic ticker prepares the next period exactly
	// when the distance to it equals syncCommitteePreparationEpochs, so a start (or the Altair fork) at any distance up
	// to and INCLUDING that value must schedule the period itself
	nPrep := 0
	for _, f := range p.FuncsIn(ctrlRel) {
		core.EachInstr(f, func(in ssa.Instruction) {
			ifi, ok := in.(*ssa.If)
			if !ok {
				return
			}
			c := core.DecodeCond(ds, ifi)
			if c.Op == "" {
				return
			}
			isPrep := func(d *core.VD) bool { return strings.Contains(d.String(), "syncCommitteePreparationEpochs") }
			var rel string
			switch {
			case isPrep(c.Y) && !isPrep(c.X):
				rel = c.RelOnEdge(0)
			case isPrep(c.X) && !isPrep(c.Y):
				rel = core.FlipRel(c.RelOnEdge(0))
			default:
				return
			}
			if c.Y.Kind == "binop" || c.X.Kind == "binop" && isPrep(c.X) {
				// period - window on one side: the ticker's equality
				if rel == "==" {
					nPrep++
					r.Hold("C15.h", fmt.Sprintf("%s|preparation-window#%d", core.FnKey(f), nPrep), p.Pos(core.IfPos(ifi)), "the ticker prepares at distance == window")
				}
				return
			}
			nPrep++
			r.Check(rel == "<=" || rel == "==", "C15.h", fmt.Sprintf("%s|preparation-window#%d", core.FnKey(f), nPrep), p.Pos(core.IfPos(ifi)), "distance "+rel+" window: the boundary epoch is covered",
				"the distance to the next period is compared with the preparation window by '"+rel+"': a start exactly at the boundary is covered neither here nor by the ticker (which fires at distance == window, one epoch later), so the next period gets no jobs")
		})
	}
	r.Floor("C15.h comparisons with the preparation window", nPrep, 3)

	// ---- (g) fork epoch data flow ----
	checkForkEpochFlow(p, r, ds, "C15.g")
}

// checkSyncWindows: the sync-committee slot windows (scheduling and refresh) and their unsigned subtractions.
func checkSyncWindows(p *core.Prog, r *core.Report, ds *core.Describer, ruleA, ruleB string) {
	// ---- (a) window loops in the controller ----
	nWin := 0
	for _, f := range p.FuncsIn(ctrlRel) {
		for _, l := range p.Loops(f) {
			fs, ok := l.Stmt.(*ast.ForStmt)
			if !ok || fs.Cond == nil {
				continue
			}
			pk := p.PkgOf(f)
			be, ok := fs.Cond.(*ast.BinaryExpr)
			if !ok {
				continue
			}
			t := pk.TypesInfo.TypeOf(be.X)
			if t == nil || !core.IsSlotOrEpoch(t) {
				continue
			}
			// is this a sync committee window? bounds mention firstEpochOfSyncPeriod
			loV, hiV := loopBoundValues(p, f, fs)
			if loV == nil || hiV == nil {
				continue
			}
			lod, hid := ds.D(loV), ds.D(hiV)
			if !lod.MentionsCall("firstEpochOfSyncPeriod") && !hid.MentionsCall("firstEpochOfSyncPeriod") {
				continue
			}
			nWin++
			construct := core.FnKey(f) + "|sync-window"
			r.Check(be.Op.String() == "<=", ruleA, construct+"|inclusive", p.Pos(fs.Pos()), "the loop includes lastSlot (<=)", "the loop condition is '"+be.Op.String()+"', the window's last slot is not covered")
			los, his := windowBounds(lod), windowBounds(hid)
			if len(los) == 0 || len(his) == 0 {
				r.Violate(ruleA, construct+"|bounds-form", p.Pos(fs.Pos()), "window bounds are not of the form FirstSlotOfEpoch(firstEpochOfSyncPeriod(period+k)+j)+c: "+lod.String()+" .. "+hid.String())
			} else {
				r.Check(hasDec(los, winDec{0, 0, -1}), ruleA, construct+"|first-slot", p.Pos(fs.Pos()), "first slot = first slot of the period - 1",
					fmt.Sprintf("first slot readings %v do not include FirstSlotOfEpoch(firstEpochOfSyncPeriod(period))-1", los))
				r.Check(len(his) == 1 && his[0] == winDec{1, 0, -2}, ruleA, construct+"|last-slot", p.Pos(fs.Pos()), "last slot = first slot of the next period - 2",
					fmt.Sprintf("last slot readings %v: expected exactly FirstSlotOfEpoch(firstEpochOfSyncPeriod(period+1))-2 (the slot before the period's last slot; the next period starts messaging at its first slot - 1)", his))
				// no reading of the first slot may start before first-1 or skip slots at the start beyond the clamps
				for _, lo := range los {
					if lo.pk != 0 || lo.ek != 0 || (lo.sk != -1 && lo.sk != 0) {
						r.Violate(ruleA, construct+"|first-slot-alt", p.Pos(fs.Pos()), fmt.Sprintf("a path computes the first slot as FirstSlotOfEpoch(firstEpochOfSyncPeriod(period%+d)%+d)%+d", lo.pk, lo.ek, lo.sk))
					}
				}
			}
			// exits: none; skips: only the current-slot skip
			ex := l.EarlyExits()
			r.Check(len(ex) == 0, ruleA, construct+"|no-early-exit", p.Pos(fs.Pos()), "the window loop is only left by exhaustion", "the window loop can be left early")
			conts := continuesIn(l)
			for i, c := range conts {
				cond := enclosingIfCond(l, c)
				okc := cond != nil && strings.Contains(types.ExprString(cond), "CurrentSlot()") && strings.Contains(types.ExprString(cond), "notCurrentSlot") && strings.Contains(types.ExprString(cond), "&&")
				r.Check(okc, ruleA, fmt.Sprintf("%s|skip#%d", construct, i+1), p.Pos(c.Pos()), "the only skipped slot is the current one when notCurrentSlot is set", "a slot of the window is skipped under condition "+exprOrNone(cond))
			}
			// the scheduling / cancelling happens inside
			hasJob := false
			for _, g := range core.WithClosures(f) {
				for _, ci := range core.CallsNamed(g, "ScheduleJob", "CancelJob", "CancelJobIfExists") {
					if l.Contains(ci.Pos()) {
						hasJob = true
					}
				}
			}
			r.Check(hasJob, ruleA, construct+"|job-per-slot", p.Pos(fs.Pos()), "a job is scheduled/cancelled per slot of the window", "no job is scheduled or cancelled inside the window loop")
		}
	}
	r.Floor(ruleA+" sync-committee window loops", nWin, 2)

	// ---- (b) guarded subtraction in the functions with window loops ----
	nSub := 0
	for _, f := range p.FuncsIn(ctrlRel) {
		if f.Name() != "scheduleSyncCommitteeMessages" && f.Name() != "refreshSyncCommitteeDutiesForEpochPeriod" && !hasWindowLoop(p, ds, f) {
			continue
		}
		for _, s := range core.UnsignedSubs(f) {
			nSub++
			xd, yd := ds.D(s.X), ds.D(s.Y)
			construct := core.FnKey(f) + "|sub|" + xd.String() + " - " + yd.String()
			if safeSubForm(xd, yd) {
				r.Hold(ruleB, construct, p.Pos(s.Pos()), "minuend is FirstSlotOfEpoch(e+k)/firstEpochOfSyncPeriod(p+k), k>=1: cannot wrap")
				continue
			}
			w := core.SubUnguarded(ds, f, s)
			r.Check(w == nil, ruleB, construct, p.Pos(s.Pos()), "subtraction is guarded", "unsigned slot/epoch subtraction can wrap (e.g. period 0 of a chain with Altair at genesis): no guard establishes minuend >= subtrahend", p.WitnessText(w)...)
		}
	}
	r.Floor(ruleB+" subtractions in window functions", nSub, 4)

	// ---- the jobs of a period do not depend on the subnet subscription: in scheduleSyncCommitteeMessages the call
	// that subscribes to the subnets (whose failure ends the function) does not come before the per-slot scheduling ----
	if sf := p.Func(ctrlRel, "Service", "scheduleSyncCommitteeMessages"); sf != nil {
		var subs []ssa.Instruction
		core.EachInstr(sf, func(in ssa.Instruction) {
			if ci, ok := in.(ssa.CallInstruction); ok && ci.Common().IsInvoke() && core.MethodName(ci.Common()) == "Subscribe" {
				subs = append(subs, in)
			}
		})
		var starts []ssa.Instruction
		core.EachInstr(sf, func(in ssa.Instruction) {
			if _, isGo := in.(*ssa.Go); isGo {
				starts = append(starts, in)
			}
			if ci, ok := in.(ssa.CallInstruction); ok && ci.Common().IsInvoke() && core.MethodName(ci.Common()) == "ScheduleJob" {
				starts = append(starts, in)
			}
		})
		for i, sub := range subs {
			before := false
			for _, st := range starts {
				if (core.PathQuery{Fn: sf, From: sub, Target: func(x ssa.Instruction) bool { return x == st }}).Find() != nil {
					before = true
				}
			}
			r.Check(!before, ruleA, fmt.Sprintf("%s|subscription#%d|after-scheduling", core.FnKey(sf), i+1), p.Pos(sub.Pos()), "the subnet subscription is made after the period's jobs have been set up", "the subnet subscription is made before the per-slot jobs are set up, and the function returns when it fails: a beacon node that rejects the subscription (syncing, 5xx) leaves the whole period without message jobs")
		}
	}

}

func exprOrNone(e ast.Expr) string {
	if e == nil {
		return "<unconditional>"
	}
	return types.ExprString(e)
}

// loopBoundValues returns the SSA values of the initial value and the upper bound of `for x := lo; x <= hi; x++`.
func loopBoundValues(p *core.Prog, f *ssa.Function, fs *ast.ForStmt) (lo, hi ssa.Value) {
	be, ok := fs.Cond.(*ast.BinaryExpr)
	if !ok {
		return nil, nil
	}
	core.EachInstr(f, func(in ssa.Instruction) {
		b, ok := in.(*ssa.BinOp)
		if !ok || b.Pos() != be.OpPos {
			return
		}
		hi = b.Y
		if phi, ok := b.X.(*ssa.Phi); ok {
			for i, e := range phi.Edges {
				// the edge that does not come from the loop body (not the increment)
				if bo, ok := e.(*ssa.BinOp); ok && bo.X == ssa.Value(phi) {
					continue
				}
				_ = i
				lo = e
			}
		}
	})
	return lo, hi
}

func hasWindowLoop(p *core.Prog, ds *core.Describer, f *ssa.Function) bool {
	for _, l := range p.Loops(f) {
		if fs, ok := l.Stmt.(*ast.ForStmt); ok && fs.Cond != nil {
			lo, hi := loopBoundValues(p, f, fs)
			if lo != nil && hi != nil && (ds.D(lo).MentionsCall("firstEpochOfSyncPeriod") || ds.D(hi).MentionsCall("firstEpochOfSyncPeriod")) {
				return true
			}
		}
	}
	return false
}

// safeSubForm: FirstSlotOfEpoch(e + k) - c (k >= 1, c <= 2) or firstEpochOfSyncPeriod(p + k) - 1.
func safeSubForm(x, y *core.VD) bool {
	if y.Kind != "const" {
		return false
	}
	var c int64
	if _, err := fmt.Sscanf(y.Name, "%d", &c); err != nil {
		return false
	}
	// (F - 1) - 1 is F - 2
	if b, k0 := lin(x); b != nil && k0 < 0 {
		x, c = b, c-k0
	}
	if x.IsCall("FirstSlotOfEpoch") && len(x.Args) > 0 && c <= 2 {
		e, k := lin(x.Args[len(x.Args)-1])
		if k >= 1 {
			return true
		}
		// FirstSlotOfEpoch(firstEpochOfSyncPeriod(p + j)), j >= 1: at least one full period of slots
		if k == 0 && e.IsCall("firstEpochOfSyncPeriod") && len(e.Args) > 0 {
			_, j := lin(e.Args[len(e.Args)-1])
			return j >= 1
		}
		return false
	}
	if x.IsCall("firstEpochOfSyncPeriod") && len(x.Args) > 0 && c <= 1 {
		_, k := lin(x.Args[len(x.Args)-1])
		return k >= 1
	}
	return false
}

func continuesIn(l *core.Loop) []ast.Stmt {
	var out []ast.Stmt
	ast.Inspect(l.Body, func(n ast.Node) bool {
		switch s := n.(type) {
		case *ast.FuncLit:
			return false
		case *ast.ForStmt, *ast.RangeStmt:
			if n != ast.Node(l.Stmt) {
				return false
			}
		case *ast.BranchStmt:
			if s.Tok.String() == "continue" {
				out = append(out, s)
			}
		}
		return true
	})
	return out
}

// enclosingIfCond returns the condition of the innermost if statement inside loop l whose body (or else) contains stmt.
func enclosingIfCond(l *core.Loop, stmt ast.Stmt) ast.Expr {
	var best ast.Expr
	ast.Inspect(l.Body, func(n ast.Node) bool {
		ifs, ok := n.(*ast.IfStmt)
		if !ok {
			return true
		}
		if ifs.Body.Pos() <= stmt.Pos() && stmt.End() <= ifs.Body.End() {
			best = ifs.Cond
		} else if ifs.Else != nil && ifs.Else.Pos() <= stmt.Pos() && stmt.End() <= ifs.Else.End() {
			best = &ast.UnaryExpr{Op: 43 /* token.NOT */, X: ifs.Cond}
		}
		return true
	})
	return best
}

// condIsErrTest: the condition compares an error value with nil.
func condIsErrTest(info *types.Info, cond ast.Expr) bool {
	found := false
	ast.Inspect(cond, func(n ast.Node) bool {
		be, ok := n.(*ast.BinaryExpr)
		if !ok {
			return true
		}
		for _, pair := range [][2]ast.Expr{{be.X, be.Y}, {be.Y, be.X}} {
			if id, ok := pair[1].(*ast.Ident); ok && id.Name == "nil" {
				if t := info.TypeOf(pair[0]); t != nil && core.IsErrorType(t) {
					found = true
				}
			}
		}
		return true
	})
	return found
}

// checkCoAppend: in f, slices that are handed together to a batch signer must be appended in the same blocks.
func checkCoAppend(p *core.Prog, r *core.Report, f *ssa.Function, rule string) {
	body := core.FuncBody(f)
	pk := p.PkgOf(f)
	if body == nil || pk == nil {
		return
	}
	// arguments of the batch signer
	for _, ci := range core.CallsNamed(f, "SignContributionAndProofs") {
		ce := callExprAt(p, f, ci.Pos())
		if ce == nil || len(ce.Args) < 3 {
			continue
		}
		var objs []types.Object
		for _, a := range ce.Args[1:3] {
			if id, ok := a.(*ast.Ident); ok {
				objs = append(objs, pk.TypesInfo.ObjectOf(id))
			}
		}
		if len(objs) != 2 {
			r.Undecide(rule, core.FnKey(f)+"|co-append", p.Pos(ci.Pos()), "batch signer arguments are not plain variables")
			continue
		}
		blocks := func(o types.Object) map[ast.Node]int {
			m := map[ast.Node]int{}
			var stack []ast.Node
			ast.Inspect(body, func(n ast.Node) bool {
				if n == nil {
					stack = stack[:len(stack)-1]
					return true
				}
				stack = append(stack, n)
				if as, ok := n.(*ast.AssignStmt); ok && len(as.Lhs) == 1 {
					if id, ok := as.Lhs[0].(*ast.Ident); ok && pk.TypesInfo.ObjectOf(id) == o {
						if c, ok := as.Rhs[0].(*ast.CallExpr); ok {
							if fn, ok := c.Fun.(*ast.Ident); ok && fn.Name == "append" && len(stack) >= 2 {
								m[stack[len(stack)-2]]++
							}
						}
					}
				}
				return true
			})
			return m
		}
		b0, b1 := blocks(objs[0]), blocks(objs[1])
		same := len(b0) == len(b1) && len(b0) > 0
		for k, v := range b0 {
			if b1[k] != v {
				same = false
			}
		}
		// and no exit/continue between the two appends of a block
		if same {
			for blk := range b0 {
				bs, ok := blk.(*ast.BlockStmt)
				if !ok {
					continue
				}
				first, last := -1, -1
				for i, st := range bs.List {
					if as, ok := st.(*ast.AssignStmt); ok && len(as.Lhs) == 1 {
						if id, ok := as.Lhs[0].(*ast.Ident); ok {
							o := pk.TypesInfo.ObjectOf(id)
							if o == objs[0] || o == objs[1] {
								if first < 0 {
									first = i
								}
								last = i
							}
						}
					}
				}
				for i := first + 1; i < last; i++ {
					ast.Inspect(bs.List[i], func(n ast.Node) bool {
						switch b := n.(type) {
						case *ast.ReturnStmt:
							same = false
						case *ast.BranchStmt:
							_ = b
							same = false
						}
						return true
					})
				}
			}
		}
		r.Check(same, rule, core.FnKey(f)+"|co-append|"+objs[0].Name()+"+"+objs[1].Name(), p.Pos(ci.Pos()), "the two batch arguments grow together (same blocks, nothing can separate the appends)",
			"the batch arguments "+objs[0].Name()+" and "+objs[1].Name()+" are not appended together on every path: the i-th account would sign another member's contribution")
	}
}

// checkForkEpochFlow: functions of the controller that call a fetch*ForkEpoch helper and return an Epoch must return
// a value that, on some path, is the fetched one.
func checkForkEpochFlow(p *core.Prog, r *core.Report, ds *core.Describer, rule string) {
	n := 0
	for _, f := range p.FuncsIn(ctrlRel) {
		res := f.Signature.Results()
		epochIdx := -1
		for i := 0; i < res.Len(); i++ {
			if core.IsSlotOrEpoch(res.At(i).Type()) {
				epochIdx = i
			}
		}
		if epochIdx < 0 {
			continue
		}
		var fetch *ssa.Call
		for _, ci := range core.Calls(f, func(c *ssa.CallCommon) bool {
			cf := c.StaticCallee()
			if cf == nil || cf.Pkg != f.Pkg {
				return false
			}
			cr := cf.Signature.Results()
			return cr.Len() == 2 && core.IsSlotOrEpoch(cr.At(0).Type()) && core.IsErrorType(cr.At(1).Type()) && len(core.CallsNamed(cf, "Spec")) > 0
		}) {
			if c, ok := ci.(*ssa.Call); ok {
				fetch = c
			}
		}
		if fetch == nil {
			continue
		}
		n++
		flows := false
		for _, ret := range core.ReturnsOf(f) {
			if epochIdx < len(ret.Results) {
				for _, lf := range core.PhiLeaves(ret.Results[epochIdx], ret) {
					if ds.D(lf.V).MentionsValue(fetch) {
						flows = true
					}
				}
			}
		}
		r.Check(flows, rule, core.FnKey(f)+"|fetched-epoch-returned", p.Pos(fetch.Pos()), "the fetched fork epoch reaches the function's result",
			"the fork epoch fetched by "+core.CalleeName(fetch.Common())+" never reaches the function's result (it is assigned to a shadowed variable): the caller always sees the zero/default epoch")
	}
	r.Floor(rule+" fork-detail functions", n, 2)
}

func orStr(a, b string) string {
	if a != "" {
		return a
	}
	return b
}

// checkNoPrefixCancel: no function of the controller calls the scheduler's CancelJobs (cancellation by prefix).
func checkNoPrefixCancel(p *core.Prog, r *core.Report, rule string) {
	n, nCancel := 0, 0
	for _, f := range p.FuncsIn("services/controller/standard") {
		for _, ci := range core.Calls(f, func(c *ssa.CallCommon) bool {
			return c.IsInvoke() && (c.Method.Name() == "CancelJobs" || c.Method.Name() == "CancelJob" || c.Method.Name() == "CancelJobIfExists")
		}) {
			nCancel++
			if ci.Common().Method.Name() != "CancelJobs" {
				continue
			}
			n++
			args := ci.Common().Args
			r.Violate(rule, fmt.Sprintf("%s|cancel-by-prefix#%d", core.FnKey(f), n), p.Pos(ci.Pos()), "the controller cancels every job whose name starts with a prefix: jobs outside the window being refreshed (the current slot's and next slot's messages and contributions of the period under way) are withdrawn too and nothing sets them up again")
			_ = args
		}
	}
	if n == 0 {
		r.Hold(rule, "controller|cancels-by-name-only", "", fmt.Sprintf("%d job cancellations in the controller, all by full job name", nCancel))
	}
	r.Floor(rule+" job cancellations in the controller", nCancel, 3)
}

// condIsCallOutcome: every variable the condition tests (outside len(...) arguments) was assigned from the results
// of a call in the loop body (e.g. `n != len(buf)` after `n, err := h.Write(buf)`).
func condIsCallOutcome(info *types.Info, cond ast.Expr, body *ast.BlockStmt) bool {
	fromCall := map[types.Object]bool{}
	ast.Inspect(body, func(n ast.Node) bool {
		as, ok := n.(*ast.AssignStmt)
		if !ok || len(as.Rhs) != 1 {
			return true
		}
		if _, isCall := as.Rhs[0].(*ast.CallExpr); !isCall {
			return true
		}
		for _, l := range as.Lhs {
			if id, ok := l.(*ast.Ident); ok {
				if o := info.Defs[id]; o != nil {
					fromCall[o] = true
				} else if o := info.Uses[id]; o != nil {
					fromCall[o] = true
				}
			}
		}
		return true
	})
	tested, all := 0, true
	var walk func(n ast.Node)
	walk = func(n ast.Node) {
		switch x := n.(type) {
		case *ast.CallExpr:
			if id, ok := x.Fun.(*ast.Ident); ok && id.Name == "len" {
				return
			}
			all = false // a method or function of something else: not a plain outcome test
			return
		case *ast.Ident:
			o := info.Uses[x]
			if o == nil {
				return
			}
			if _, isVar := o.(*types.Var); !isVar {
				return
			}
			tested++
			if !fromCall[o] {
				all = false
			}
			return
		case *ast.BinaryExpr:
			walk(x.X)
			walk(x.Y)
		case *ast.UnaryExpr:
			walk(x.X)
		case *ast.ParenExpr:
			walk(x.X)
		case *ast.BasicLit:
		default:
			all = false
		}
	}
	walk(cond)
	return all && tested > 0
}
