package rules

import (
	"fmt"
	"go/token"
	"go/types"
	"os"
	"sort"
	"strings"

	"golang.org/x/tools/go/ssa"

	"vouchcheck/internal/core"
)

func init() {
	register(&Pack{
		ID:  "C17",
		Run: runC17,
		Expl: "Decides the structural half of data-race freedom for the long-lived shared objects (every struct named Service, and every module struct that carries a mutex): " +
			"(a) a field that is written after construction and is accessed under one of its owner's mutexes anywhere is accessed under that mutex everywhere (write mode for writes; maps and slices mutated in place need it for every element access, copy-on-write ones only for the reference); " +
			"(a2) a collection is not mutated after it has been published into a field; (b) a field written after construction that no access locks is reachable from one sequential thread root only; " +
			"(d) methods called on plain data objects held in guarded fields do not write through the receiver unless the caller holds the write lock; (e) collections shared by the instances of a fan-out goroutine are written and read only with a lock held; " +
			"(f) every ExecutionConfigurator.ProposerConfig returns a fresh object (callers modify it). " +
			"Added with the third seeding round: (g) package-level collections written after init are accessed only under the package-level mutex held at their other accesses; (h) collections obtained from a duty's getters are never changed in place. Added with the fourth seeding round: (i) a duty captured by a scheduled job is not written by the scheduling function afterwards. Added with the seventh seeding round: (a2, extended) a map read from a field that is replaced as a whole is never changed in place without a lock. Added with the eleventh seeding round: (i, extended) a map or slice made by a function and stored into a service field is not written by that function afterwards. Not decided: happens-before through channels, WaitGroups and atomics beyond these shapes, atomicity across two critical sections, hand-off objects (duties, responses) whose exclusive ownership moves between goroutines, races inside libraries, library-created concurrency (an event stream delivering on several goroutines).",
		Rule: "lock sets (must-hold, per instruction, plus the locks held at every call site of lock-free helpers) × field-access enumeration over SSA × thread roots from the VTA call graph",
		Assumptions: []string{
			"a lock is identified by (owner struct type, field): two instances of one service type are not distinguished",
			"functions named New / parseAndCheckParameters / With* / UnmarshalJSON and functions only they call run before the object is shared",
			"one periodic job, and one event subscription, runs its functions sequentially (scheduler loop; go-eth2-client delivers one subscription's events in order)",
			"objects freshly allocated in a function are not yet shared when the function writes their fields",
		},
		Technique: "lock-set / guarded-by analysis with thread-root reachability",
	})
}

// c17Guards is the confirmed guarded-by table: field -> mutex field of the same struct. Fields not
// listed are decided by inference (any owner mutex held at one access must be held at all).
var c17Guards = map[string]string{
	"services/accountmanager/dirk.Service.accounts":                      "mutex",
	"services/accountmanager/dirk.Service.pubKeys":                       "mutex",
	"services/accountmanager/dirk.Service.wallets":                       "walletsMutex",
	"services/accountmanager/wallet.Service.accounts":                    "mutex",
	"services/attester/standard.Service.attested":                        "attestedMu",
	"services/blockrelay/standard.Service.builderBidsCache":              "builderBidsCacheMu",
	"services/blockrelay/standard.Service.controlledValidators":          "controlledValidatorsMu",
	"services/blockrelay/standard.Service.executionConfig":               "executionConfigMu",
	"services/blockrelay/standard.Service.latestValidatorRegistrations":  "latestValidatorRegistrationsMu",
	"services/blockrelay/standard.Service.signedValidatorRegistrations":  "signedValidatorRegistrationsMu",
	"services/cache/standard.Service.blockRootToSlot":                    "blockRootToSlotMu",
	"services/cache/standard.Service.executionChainHeadHeight":           "executionChainHeadMu",
	"services/cache/standard.Service.executionChainHeadRoot":             "executionChainHeadMu",
	"services/controller/standard.Service.pendingAttestations":           "pendingAttestationsMutex",
	"services/controller/standard.Service.subscriptionInfos":             "subscriptionInfosMutex",
	"services/controller/standard.epochTickerData.latestEpochRan":        "mutex",
	"services/scheduler/advanced.Service.jobs":                           "jobsMutex",
	"services/synccommitteeaggregator/standard.Service.beaconBlockRoots": "beaconBlockRootsMu",
	"services/synccommitteemessenger/standard.Service.slotDataRecords":   "slotDataRecordsMu",
	"services/validatorsmanager/standard.Service.validatorPubKeyToIndex": "validatorsMutex",
	"services/validatorsmanager/standard.Service.validatorsByIndex":      "validatorsMutex",
	"services/validatorsmanager/standard.Service.validatorsByPubKey":     "validatorsMutex",
	"strategies/beaconblockproposal/best.Service.priorBlocksVotes":       "priorBlocksVotesMu",
	"strategies/builderbid/best.Service.relayPubkeys":                    "relayPubkeysMu",
	"strategies/builderbid/deadline.Service.relayPubkeys":                "relayPubkeysMu",
}

// c17SingleRoot documents the fields that are written after construction without any lock, with
// the one sequential root that owns them (confirmed by reading). The decision does not depend on
// the table: any such field, listed or not, must be reachable from one sequential root only.
var c17SingleRoot = map[string]string{
	"services/controller/standard.Service.activeValidators":          "periodic account refresh job (run-time function and job function run on the job's goroutine)",
	"services/controller/standard.Service.currentDutyDependentRoot":  "head event handler",
	"services/controller/standard.Service.previousDutyDependentRoot": "head event handler",
	"services/controller/standard.Service.lastBlockEpoch":            "head event handler",
	"services/controller/standard.Service.lastBlockRoot":             "head event handler",
	"services/controller/standard.epochTickerData.atGenesis":         "periodic epoch ticker job",
}

type c17Field struct {
	id  core.FieldID
	acc []core.FieldAccess
	typ types.Type
}

// sharedOwner: the long-lived shared objects — structs named Service and structs carrying a mutex.
func sharedOwner(t types.Type) bool {
	for {
		if p, ok := t.(*types.Pointer); ok {
			t = p.Elem()
			continue
		}
		break
	}
	nt, ok := t.(*types.Named)
	if !ok || nt.Obj().Pkg() == nil || !strings.HasPrefix(nt.Obj().Pkg().Path(), core.ModulePath) {
		return false
	}
	st, ok := nt.Underlying().(*types.Struct)
	if !ok {
		return false
	}
	if nt.Obj().Name() == "Service" {
		return true
	}
	for i := 0; i < st.NumFields(); i++ {
		if core.IsMutexType(st.Field(i).Type()) {
			return true
		}
	}
	return false
}

func runC17(p *core.Prog, r *core.Report, tier string) {
	la := core.NewLockAnalysis(p)
	ctor := p.ConstructorPhase()
	roots := core.NewRoots(p)
	isCtor := func(fn *ssa.Function) bool {
		if ctor[fn] {
			return true
		}
		top := fn
		for top.Parent() != nil {
			top = top.Parent()
		}
		return top.Name() == "UnmarshalJSON" || top.Name() == "UnmarshalYAML"
	}
	heldAt := func(a core.FieldAccess) core.LockSet {
		h := core.LockSet{}
		for l := range la.HeldAt(a.Fn)[a.Instr] {
			h[l] = true
		}
		for l := range la.EntryHeld(a.Fn) {
			h[l] = true
		}
		return h
	}

	fields := map[core.FieldID]*c17Field{}
	nfn := 0
	for _, fn := range p.SrcFuncs() {
		if isCtor(fn) {
			continue
		}
		nfn++
		for _, a := range core.FieldAccesses(fn) {
			if _, fresh := a.Base.(*ssa.Alloc); fresh {
				continue
			}
			if !sharedOwner(a.Base.Type()) {
				continue
			}
			f := fields[a.Field]
			if f == nil {
				f = &c17Field{id: a.Field, typ: a.Type}
				fields[a.Field] = f
			}
			f.acc = append(f.acc, a)
		}
	}
	r.Count("functions swept for field accesses", nfn)
	var ids []core.FieldID
	for id, f := range fields {
		for _, a := range f.acc {
			if a.Write {
				ids = append(ids, id)
				break
			}
		}
	}
	sort.Slice(ids, func(i, j int) bool { return ids[i].String() < ids[j].String() })
	r.Count("shared-object fields written after construction", len(ids))

	dump := os.Getenv("VCHECK_DUMP") != ""
	guarded, unlocked := 0, 0
	seenGuardRows := map[string]bool{}
	for _, id := range ids {
		f := fields[id]
		core.SortAccesses(f.acc)
		// per nesting level: is the collection at that level ever mutated in place? A level that is only ever
		// replaced wholesale (copy-on-write) may be read through a reference taken under the lock.
		inplaceAt := map[int]bool{}
		inplace := false
		for _, a := range f.acc {
			if a.Write && a.Inner {
				inplaceAt[a.Depth] = true
				inplace = true
			}
		}
		var rel []core.FieldAccess
		for _, a := range f.acc {
			if a.Inner && !inplaceAt[a.Depth] {
				continue
			}
			rel = append(rel, a)
		}
		// candidate guards: owner mutexes held at some access
		cand := map[string]int{}
		for _, a := range rel {
			for l := range heldAt(a) {
				if l.Field.Owner == id.Owner {
					cand[l.Field.Name]++
				}
			}
		}
		if dump {
			fmt.Printf("FIELD %s inplace=%v cand=%v\n", id, inplace, cand)
			for _, a := range f.acc {
				fmt.Printf("   %-11s %-60s held=%s roots=%v %s\n", a.Kind, core.FnKey(a.Fn), heldAt(a), core.RootIDs(roots.Of(a.Fn)), p.Pos(a.Instr.Pos()))
			}
		}
		guard, listed := c17Guards[id.String()]
		if listed {
			seenGuardRows[id.String()] = true
			// the documented guard was renamed (no mutex field of that name in the owner any more): infer
			if !ownerHasField(f.acc[0].Base.Type(), guard) {
				guard, listed = "", false
			}
		}
		if !listed && len(cand) > 0 {
			best := -1
			var names []string
			for n := range cand {
				names = append(names, n)
			}
			sort.Strings(names)
			for _, n := range names {
				if cand[n] > best {
					best, guard = cand[n], n
				}
			}
		}
		if guard != "" {
			// C17.a guarded-by
			guarded++
			gf := core.FieldID{Owner: id.Owner, Name: guard}
			type k struct{ fn, kind string }
			done := map[k]bool{}
			for _, a := range rel {
				key := k{core.FnKey(a.Fn), a.Kind}
				ok := heldAt(a).HasField(gf, a.Write)
				if done[key] && ok {
					continue
				}
				done[key] = true
				mode := "read"
				if a.Write {
					mode = "write"
				}
				cow := ""
				if !inplace {
					cow = " (copy-on-write: only the reference is guarded)"
				}
				r.Check(ok, "C17.a", fmt.Sprintf("%s|%s|%s", id, core.FnKey(a.Fn), a.Kind), p.Pos(a.Instr.Pos()),
					fmt.Sprintf("%s access holds %s.%s%s", mode, id.Owner, guard, cow),
					fmt.Sprintf("%s access (%s) to %s without %s held in %s mode; held here: %s — other accesses to the field take the lock, so this one races with them", mode, a.Kind, id, guard, mode, heldAt(a)))
			}
			continue
		}
		// C17.b never locked: single sequential root
		unlocked++
		all := map[string]core.Root{}
		var where []string
		for _, a := range f.acc {
			for rid, x := range roots.Of(a.Fn) {
				if x.Kind == "startup" {
					continue
				}
				if _, seen := all[rid]; !seen {
					where = append(where, fmt.Sprintf("%s via %s (%s)", rid, core.FnKey(a.Fn), p.Pos(a.Instr.Pos())))
				}
				all[rid] = x
			}
		}
		ok := len(all) <= 1
		for _, x := range all {
			if !x.Sequential {
				ok = false
			}
		}
		why := c17SingleRoot[id.String()]
		if why != "" {
			why = " — " + why
		}
		r.Check(ok, "C17.b", id.String(), p.Pos(f.acc[0].Instr.Pos()),
			fmt.Sprintf("written after construction without a lock, reachable only from %v%s", core.RootIDs(all), why),
			fmt.Sprintf("%s is written after construction, no access takes a lock, and it is reachable from more than one goroutine (or from a root with concurrent instances): %v", id, core.RootIDs(all)), where...)
	}
	// Rows whose field was renamed or removed are not an alarm: the field (under its new name) is
	// decided by inference, and with every lock gone by the single-root rule.
	stale := 0
	for row := range c17Guards {
		if !seenGuardRows[row] {
			stale++
		}
	}
	r.Count("guarded-by table rows without a matching field (renamed/removed; decided by inference)", stale)
	r.Count("fields decided by guarded-by", guarded)
	r.Count("fields decided by single-root", unlocked)
	r.Floor("fields decided by guarded-by", guarded, 18)
	r.Floor("fields decided by guarded-by or single-root", guarded+unlocked, 25)

	c17Publish(p, r, la, isCtor)
	nsw := checkFilteredSwap(p, r, la, "C17.a3", p.SrcFuncs(), isCtor)
	r.Count("filtered-copy swaps of shared maps", nsw)
	c17ReceiverPure(p, r, la, isCtor)
	c17FreshProposerConfig(p, r)
	c17FanOut(p, r, la)
	c12Pairing(p, r, la)
	c17Globals(p, r, la)
	// an object handed to a job (captured by the job function given to the scheduler) is finished: the function that
	// schedules the job does not, after the ScheduleJob call, pass the object to anything that writes it (the job can
	// start at once — a duty of the current slot, an early run — and would read the object while it is being written)
	nHand := 0
	for _, fn := range p.FuncsIn("services/controller/standard") {
		for _, ci := range core.Calls(fn, func(c *ssa.CallCommon) bool {
			return c.IsInvoke() && (c.Method.Name() == "ScheduleJob" || c.Method.Name() == "SchedulePeriodicJob")
		}) {
			args := ci.Common().Args
			var captured []ssa.Value
			for _, a := range args {
				for {
					if ct, ok := a.(*ssa.ChangeType); ok {
						a = ct.X
						continue
					}
					break
				}
				if mc, ok := a.(*ssa.MakeClosure); ok {
					for _, b := range mc.Bindings {
						v := b
						// a captured variable: the value stored in its cell
						if al, ok := b.(*ssa.Alloc); ok && al.Referrers() != nil {
							for _, ref := range *al.Referrers() {
								if st, ok := ref.(*ssa.Store); ok && st.Addr == ssa.Value(al) {
									v = st.Val
								}
							}
						}
						if _, isPtr := v.Type().Underlying().(*types.Pointer); isPtr && strings.HasSuffix(typeName(v.Type()), ".Duty") {
							captured = append(captured, v)
						}
					}
				}
			}
			for _, obj := range captured {
				nHand++
				var writer ssa.Instruction
				w := core.PathQuery{Fn: fn, From: ci.(ssa.Instruction), Target: func(x ssa.Instruction) bool {
					c, ok := x.(*ssa.Call)
					if !ok {
						return false
					}
					for i, a := range c.Call.Args {
						if a != obj && !sameExpr(a, obj, 0) && singleStoreOf(a) != obj {
							continue
						}
						var callees []*ssa.Function
						if g := c.Call.StaticCallee(); g != nil {
							callees = []*ssa.Function{g}
						} else {
							callees = p.CalleesAt(fn, c)
						}
						for _, g := range callees {
							k := i
							if c.Call.IsInvoke() {
								k = i + 1 // receiver first in the callee's parameters
							}
							if k < len(g.Params) && len(writesThrough(p, g, g.Params[k], 3, map[*ssa.Function]bool{})) > 0 {
								writer = x
								return true
							}
						}
					}
					return false
				}}.Find()
				where := ""
				if writer != nil {
					where = core.CalleeName(writer.(*ssa.Call).Common())
				}
				r.Check(w == nil, "C17.i", fmt.Sprintf("%s|handed-to-job-then-written#%d", core.FnKey(fn), nHand), p.Pos(ci.Pos()), "the duty captured by the job is not written by this function after the job was scheduled",
					"after scheduling a job that captures this duty the function passes the duty to "+where+", which writes it: the job (which may start immediately) reads the duty's fields while they are being written — there is no lock on the duty", p.WitnessText(w)...)
			}
		}
	}
	r.Floor("C17.i duties handed to scheduled jobs", nHand, 4)
	// (i, extended) a collection is complete when it is published: after a map or slice that a function has made is
	// stored into a field of a service, the function does not go on writing it (the readers of the field take it under
	// the field's lock and then use it without — they would see it half filled, and a map read during a write crashes)
	nPub := 0
	for _, fn := range p.SrcFuncs() {
		rel := core.RelPkg(fn.Pkg.Pkg.Path())
		if !strings.HasPrefix(rel, "services/") || len(fn.Blocks) == 0 || fn.Name() == "New" || fn.Name() == "init" {
			continue
		}
		core.EachInstr(fn, func(in ssa.Instruction) {
			st, ok := in.(*ssa.Store)
			if !ok {
				return
			}
			fa, ok := st.Addr.(*ssa.FieldAddr)
			if !ok {
				return
			}
			if _, isParam := fa.X.(*ssa.Parameter); !isParam {
				return
			}
			switch st.Val.(type) {
			case *ssa.MakeMap, *ssa.MakeSlice:
			default:
				return
			}
			nPub++
			id, _, _ := core.FieldOfAddr(fa)
			var writer ssa.Instruction
			w := core.PathQuery{Fn: fn, From: st, Target: func(x ssa.Instruction) bool {
				switch y := x.(type) {
				case *ssa.MapUpdate:
					if y.Map == st.Val {
						writer = x
						return true
					}
				case *ssa.Store:
					if ia, ok := y.Addr.(*ssa.IndexAddr); ok && ia.X == st.Val {
						writer = x
						return true
					}
				case *ssa.Call:
					for i, a := range y.Call.Args {
						if a != st.Val {
							continue
						}
						g := y.Call.StaticCallee()
						if g == nil {
							continue
						}
						k := i
						if k < len(g.Params) && len(writesThrough(p, g, g.Params[k], 3, map[*ssa.Function]bool{})) > 0 {
							writer = x
							return true
						}
					}
				}
				return false
			}}.Find()
			where := ""
			if writer != nil {
				where = p.Pos(writer.Pos())
			}
			r.Check(w == nil, "C17.i", fmt.Sprintf("%s|published-then-written|%s#%d", core.FnKey(fn), id.Name, nPub), p.Pos(st.Pos()), "the collection stored into "+id.String()+" is complete when it is stored",
				"the collection made here is stored into "+id.String()+" and written afterwards (at "+where+"): readers of the field see it while it is being filled, without a lock on the collection itself", p.WitnessText(w)...)
		})
	}
	r.Count("collections published into service fields", nPub)
	// collections handed out by a duty's getters belong to the duty, which is shared between the jobs of several
	// slots and the records published for verification: consumers read them, never change them
	nGet, nMut := 0, 0
	for _, fn := range p.SrcFuncs() {
		core.EachInstr(fn, func(in ssa.Instruction) {
			if c, ok := in.(*ssa.Call); ok {
				if _, ok := dutyGetterResult(c); ok && isCollection(c.Type()) {
					nGet++
				}
			}
		})
		for _, m := range collectionMutations(fn, func(v ssa.Value) bool {
			_, ok := dutyGetterResult(v)
			return ok && isCollection(v.Type())
		}) {
			nMut++
			r.Violate("C17.h", fmt.Sprintf("%s|mutates-duty-collection#%d", core.FnKey(fn), nMut), p.Pos(m.Pos()), "a collection obtained from a duty's getter is changed in place: the duty (and the map/slice behind it) is shared with the jobs of other slots and with published records that other goroutines read without a lock")
		}
	}
	if nMut == 0 {
		r.Hold("C17.h", "duty-collections-read-only", "", fmt.Sprintf("none of the %d uses of a duty's collection getters changes the collection", nGet))
	}
	r.Floor("C17.h uses of duty collection getters", nGet, 10)
	for k, n := range roots.Registrations {
		r.Count("thread-root registrations: "+k, n)
	}
}

// c12Pairing: every lock acquired in a function of a shared object is released on all paths (the
// precondition of the lock-set argument) — shared with C12.
func c12Pairing(p *core.Prog, r *core.Report, la *core.LockAnalysis) {
	n := 0
	for _, fn := range p.SrcFuncs() {
		pv := la.Pairing(fn)
		for _, v := range pv {
			r.Violate("C17.p", fmt.Sprintf("%s|%s", core.FnKey(fn), v.Lock), p.Pos(v.Pos), "lock may still be held on a return path", v.Witness...)
		}
		for _, op := range la.UnlockWithoutLock(fn) {
			r.Violate("C17.p", fmt.Sprintf("%s|unlock|%s", core.FnKey(fn), op.Lock), p.Pos(op.Instr.Pos()), "unlock of a lock that is not held on some path")
		}
		n++
	}
	r.Hold("C17.p", "pairing", "", fmt.Sprintf("%d functions: every acquired lock is released on every return path and no unlock runs without the lock", n))
}

// reachableAfter reports whether instruction b may execute after instruction a (same function).
func reachableAfter(a, b ssa.Instruction) bool {
	if a.Block() == b.Block() {
		ia, ib := -1, -1
		for i, in := range a.Block().Instrs {
			if in == a {
				ia = i
			}
			if in == b {
				ib = i
			}
		}
		if ib > ia {
			return true
		}
	}
	seen := map[*ssa.BasicBlock]bool{}
	stack := append([]*ssa.BasicBlock{}, a.Block().Succs...)
	for len(stack) > 0 {
		x := stack[len(stack)-1]
		stack = stack[:len(stack)-1]
		if seen[x] {
			continue
		}
		seen[x] = true
		if x == b.Block() {
			return true
		}
		stack = append(stack, x.Succs...)
	}
	return false
}

// c17Publish: C17.a2 — a map or slice stored into a shared object's field is not written through
// the local name afterwards (readers holding a snapshot of the reference would race with it).
func c17Publish(p *core.Prog, r *core.Report, la *core.LockAnalysis, isCtor func(*ssa.Function) bool) {
	n := 0
	for _, fn := range p.SrcFuncs() {
		if isCtor(fn) {
			continue
		}
		core.EachInstr(fn, func(in ssa.Instruction) {
			st, ok := in.(*ssa.Store)
			if !ok {
				return
			}
			id, base, ok := core.FieldOfAddr(st.Addr)
			if !ok || !sharedOwner(base.Type()) {
				return
			}
			if _, fresh := base.(*ssa.Alloc); fresh {
				return
			}
			if _, isMap := st.Val.Type().Underlying().(*types.Map); !isMap {
				return
			}
			if st.Val.Referrers() == nil {
				return
			}
			n++
			bad := false
			for _, ref := range *st.Val.Referrers() {
				var w ssa.Instruction
				switch x := ref.(type) {
				case *ssa.MapUpdate:
					if x.Map == st.Val {
						w = x
					}
				case *ssa.Call:
					if b, ok := x.Call.Value.(*ssa.Builtin); ok && b.Name() == "delete" && x.Call.Args[0] == st.Val {
						w = x
					}
				}
				if w != nil && reachableAfter(st, w) {
					bad = true
					r.Violate("C17.a2", fmt.Sprintf("%s|%s", id, core.FnKey(fn)), p.Pos(w.Pos()),
						fmt.Sprintf("the map stored into %s at %s is written again afterwards through its local name: holders of the published reference read it without synchronisation", id, p.Pos(st.Pos())))
					break
				}
			}
			if !bad {
				r.Hold("C17.a2", fmt.Sprintf("%s|%s", id, core.FnKey(fn)), p.Pos(st.Pos()), "map is complete before it is published and not written through its local name afterwards")
			}
		})
	}
	r.Count("map publications into shared fields", n)
	r.Floor("map publications into shared fields", n, 4)

	// (a3) … and the other way round: a map that is replaced as a whole (readers take the reference under the lock and
	// read the map after releasing it) is never changed in place through a reference read from the field, unless a
	// lock is held at that point
	published := map[core.FieldID]bool{}
	for _, fn := range p.SrcFuncs() {
		if isCtor(fn) {
			continue
		}
		core.EachInstr(fn, func(in ssa.Instruction) {
			st, ok := in.(*ssa.Store)
			if !ok {
				return
			}
			id, base, ok := core.FieldOfAddr(st.Addr)
			if !ok || !sharedOwner(base.Type()) {
				return
			}
			if _, fresh := base.(*ssa.Alloc); fresh {
				return
			}
			if _, isMap := st.Val.Type().Underlying().(*types.Map); isMap {
				published[id] = true
			}
		})
	}
	nLoads := 0
	for _, fn := range p.SrcFuncs() {
		if isCtor(fn) {
			continue
		}
		var held map[ssa.Instruction]core.LockSet
		core.EachInstr(fn, func(in ssa.Instruction) {
			ld, ok := in.(*ssa.UnOp)
			if !ok || ld.Op != token.MUL {
				return
			}
			id, base, ok := core.FieldOfAddr(ld.X)
			if !ok || !published[id] || !sharedOwner(base.Type()) {
				return
			}
			nLoads++
			if held == nil {
				held = la.HeldAt(fn)
			}
			k := 0
			for _, w := range writesThrough(p, fn, ld, 2, map[*ssa.Function]bool{}) {
				if len(held[w]) > 0 {
					continue // changed under a lock: not the snapshot discipline, decided by (a)
				}
				k++
				r.Violate("C17.a2", fmt.Sprintf("%s|%s|in-place-write-of-snapshot#%d", id, core.FnKey(fn), k), p.Pos(w.Pos()),
					fmt.Sprintf("the map read from %s is changed in place with no lock held, but the field is replaced as a whole elsewhere and its readers use the reference after releasing the lock: they read the map while it is written", id))
			}
		})
	}
	r.Floor("C17.a2 reads of wholesale-replaced map fields", nLoads, 4)
}

// derivesFrom reports whether the address / collection value v is reached from root through field
// addresses, loads, element addresses, map lookups, range iteration and phis.
func derivesFrom(v ssa.Value, root ssa.Value, seen map[ssa.Value]bool) bool {
	if v == root {
		return true
	}
	if v == nil || seen[v] {
		return false
	}
	seen[v] = true
	switch x := v.(type) {
	case *ssa.FieldAddr:
		return derivesFrom(x.X, root, seen)
	case *ssa.IndexAddr:
		return derivesFrom(x.X, root, seen)
	case *ssa.Index:
		return derivesFrom(x.X, root, seen)
	case *ssa.Field:
		return derivesFrom(x.X, root, seen)
	case *ssa.UnOp:
		if x.Op == token.MUL {
			return derivesFrom(x.X, root, seen)
		}
	case *ssa.Lookup:
		return derivesFrom(x.X, root, seen)
	case *ssa.Extract:
		return derivesFrom(x.Tuple, root, seen)
	case *ssa.Next:
		return derivesFrom(x.Iter, root, seen)
	case *ssa.Range:
		return derivesFrom(x.X, root, seen)
	case *ssa.Phi:
		for _, e := range x.Edges {
			if derivesFrom(e, root, seen) {
				return true
			}
		}
	case *ssa.ChangeType:
		return derivesFrom(x.X, root, seen)
	case *ssa.Slice:
		return derivesFrom(x.X, root, seen)
	case *ssa.TypeAssert:
		return derivesFrom(x.X, root, seen)
	case *ssa.MakeInterface:
		return derivesFrom(x.X, root, seen)
	}
	return false
}

// writesThrough lists the instructions in fn (and, to the given depth, in static callees that
// receive a root-derived pointer) that write memory reached from root.
func writesThrough(p *core.Prog, fn *ssa.Function, root ssa.Value, depth int, busy map[*ssa.Function]bool) []ssa.Instruction {
	var out []ssa.Instruction
	if fn == nil || len(fn.Blocks) == 0 || busy[fn] {
		return nil
	}
	busy[fn] = true
	defer delete(busy, fn)
	core.EachInstr(fn, func(in ssa.Instruction) {
		switch x := in.(type) {
		case *ssa.Store:
			if _, isAlloc := x.Addr.(*ssa.Alloc); isAlloc {
				return
			}
			if derivesFrom(x.Addr, root, map[ssa.Value]bool{}) {
				out = append(out, x)
			}
		case *ssa.MapUpdate:
			if derivesFrom(x.Map, root, map[ssa.Value]bool{}) {
				out = append(out, x)
			}
		case *ssa.Call:
			if b, ok := x.Call.Value.(*ssa.Builtin); ok {
				if b.Name() == "delete" && derivesFrom(x.Call.Args[0], root, map[ssa.Value]bool{}) {
					out = append(out, x)
				}
				return
			}
			if depth <= 0 {
				return
			}
			callee := x.Call.StaticCallee()
			if callee == nil || len(callee.Blocks) == 0 {
				return
			}
			args := x.Call.Args
			for i, a := range args {
				if i >= len(callee.Params) {
					break
				}
				if !pointerLike(a.Type()) {
					continue
				}
				if derivesFrom(a, root, map[ssa.Value]bool{}) {
					for _, w := range writesThrough(p, callee, callee.Params[i], depth-1, busy) {
						_ = w
						out = append(out, x)
						break
					}
				}
			}
		}
	})
	return out
}

func pointerLike(t types.Type) bool {
	switch t.Underlying().(type) {
	case *types.Pointer, *types.Map, *types.Slice, *types.Interface:
		return true
	}
	return false
}

// c17ReceiverPure: C17.d — a method called on a plain data object held in a shared object's field
// (the execution configuration is the instance today) runs concurrently in several callers, under
// at most a read lock: it must not write through its receiver.
func c17ReceiverPure(p *core.Prog, r *core.Report, la *core.LockAnalysis, isCtor func(*ssa.Function) bool) {
	type site struct {
		fn     *ssa.Function
		ci     ssa.CallInstruction
		field  core.FieldID
		callee *ssa.Function
	}
	var sites []site
	checked := map[*ssa.Function]bool{}
	for _, fn := range p.SrcFuncs() {
		if isCtor(fn) {
			continue
		}
		core.EachInstr(fn, func(in ssa.Instruction) {
			ci, ok := in.(ssa.CallInstruction)
			if !ok {
				return
			}
			c := ci.Common()
			var recv ssa.Value
			if c.IsInvoke() {
				recv = c.Value
			} else if f := c.StaticCallee(); f != nil && f.Signature.Recv() != nil && len(c.Args) > 0 {
				recv = c.Args[0]
			} else {
				return
			}
			id, ok := core.FieldOfValue(recv)
			if !ok {
				return
			}
			ld, ok := recv.(*ssa.UnOp)
			if !ok {
				return
			}
			_, base, ok := core.FieldOfAddr(ld.X)
			if !ok || !sharedOwner(base.Type()) {
				return
			}
			for _, callee := range p.CalleesAt(fn, ci) {
				if callee == nil || len(callee.Blocks) == 0 || callee.Signature.Recv() == nil {
					continue
				}
				if sharedOwner(callee.Signature.Recv().Type()) {
					continue // synchronises itself: rule a
				}
				if !strings.HasPrefix(core.PkgOfType(callee.Signature.Recv().Type()), core.ModulePath) {
					continue
				}
				sites = append(sites, site{fn, ci, id, callee})
			}
		})
	}
	n := 0
	for _, s := range sites {
		if checked[s.callee] {
			continue
		}
		checked[s.callee] = true
		n++
		ws := writesThrough(p, s.callee, s.callee.Params[0], 3, map[*ssa.Function]bool{})
		if len(ws) == 0 {
			r.Hold("C17.d", core.FnKey(s.callee), p.Pos(s.callee.Pos()), fmt.Sprintf("called on the object in %s (e.g. from %s); no store, map update or delete reaches memory through the receiver", s.field, core.FnKey(s.fn)))
			continue
		}
		// writers are acceptable only if every call site holds the write lock of some owner mutex
		allLocked := true
		var open string
		for _, s2 := range sites {
			if s2.callee != s.callee {
				continue
			}
			h := la.HeldAt(s2.fn)[s2.ci]
			w := false
			for l := range h {
				if !l.Read && l.Field.Owner == s2.field.Owner {
					w = true
				}
			}
			if !w {
				allLocked = false
				open = core.FnKey(s2.fn) + " at " + p.Pos(s2.ci.Pos())
			}
		}
		var wit []string
		for _, w := range ws {
			wit = append(wit, p.Pos(w.Pos()))
		}
		r.Check(allLocked, "C17.d", core.FnKey(s.callee), p.Pos(ws[0].Pos()),
			"writes through its receiver, but every call site holds the owner's write lock",
			fmt.Sprintf("%s writes memory reached from its receiver, and is called on the shared object in %s without the write lock (%s): concurrent callers race on the object", core.FnKey(s.callee), s.field, open), wit...)
	}
	r.Count("methods called on data objects held in shared fields", n)
	// no floor: where the object is handed to a callback under the lock no call on the field itself remains; the
	// configurator implementations are decided on their own (C17.f)
}

// c17FreshProposerConfig: C17.f — callers alter the returned proposer configuration (fallback fee
// recipient), so every implementation must return an object allocated for the call.
func c17FreshProposerConfig(p *core.Prog, r *core.Report) {
	n := 0
	for _, fn := range p.SrcFuncs() {
		if fn.Name() != "ProposerConfig" || fn.Signature.Recv() == nil || fn.Signature.Results().Len() != 2 {
			continue
		}
		if !strings.HasSuffix(typeName(fn.Signature.Results().At(0).Type()), "beaconblockproposer.ProposerConfig") {
			continue
		}
		n++
		ok := true
		why := ""
		for _, ret := range core.ReturnsOf(fn) {
			var vals []ssa.Value
			for _, lf := range core.PhiLeaves(ret.Results[0], ret) {
				v := core.Unspill(lf.V)
				// named / defer-spilled result: every value stored into the result slot
				if u, isLoad := v.(*ssa.UnOp); isLoad && u.Op == token.MUL {
					if a, isAlloc := u.X.(*ssa.Alloc); isAlloc && a.Referrers() != nil {
						for _, ref := range *a.Referrers() {
							if st, isStore := ref.(*ssa.Store); isStore && st.Addr == ssa.Value(a) {
								for _, l2 := range core.PhiLeaves(st.Val, st) {
									vals = append(vals, l2.V)
								}
							}
						}
						continue
					}
				}
				vals = append(vals, v)
			}
			for _, v := range vals {
				switch x := v.(type) {
				case *ssa.Alloc:
				case *ssa.Const:
				case *ssa.Extract:
					// result of another ProposerConfig (delegation)
					if c, isCall := x.Tuple.(*ssa.Call); !isCall || core.MethodName(c.Common()) != "ProposerConfig" {
						ok, why = false, "returns "+x.String()+" at "+p.Pos(ret.Pos())
					}
				default:
					ok, why = false, fmt.Sprintf("returns %s (%T) at %s", v.Name(), v, p.Pos(ret.Pos()))
				}
			}
		}
		r.Check(ok, "C17.f", core.FnKey(fn), p.Pos(fn.Pos()), "every return is an object allocated in the call (or a delegated ProposerConfig result)",
			"returns an object that is not allocated for the call; callers write to the returned configuration: "+why)
	}
	r.Count("ProposerConfig implementations", n)
	r.Floor("ProposerConfig implementations", n, 3)
}

// c17FanOut: C17.e — a collection shared by the instances of a goroutine started in a loop (or by
// the workers of util.Scatter) is written, and — when some instance writes it — read, only with a lock held.
func c17FanOut(p *core.Prog, r *core.Report, la *core.LockAnalysis) {
	type body struct {
		fn     *ssa.Function
		shared []ssa.Value // values inside fn denoting the shared collections
		site   ssa.Instruction
	}
	var bodies []body
	loopInvariant := func(v ssa.Value, site ssa.Instruction) bool {
		// defined outside the loop containing site: its block does not lie on a cycle through the site's block
		in, ok := v.(ssa.Instruction)
		if !ok {
			return true // parameter, free variable, constant, global
		}
		if in.Block() == nil {
			return true
		}
		// v's block reachable from site's block => defined inside the loop
		seen := map[*ssa.BasicBlock]bool{}
		stack := append([]*ssa.BasicBlock{}, site.Block().Succs...)
		for len(stack) > 0 {
			x := stack[len(stack)-1]
			stack = stack[:len(stack)-1]
			if seen[x] {
				continue
			}
			seen[x] = true
			if x == in.Block() {
				return false
			}
			stack = append(stack, x.Succs...)
		}
		return true
	}
	collectionLike := func(t types.Type) bool {
		switch u := t.Underlying().(type) {
		case *types.Map:
			return true
		case *types.Pointer:
			switch u.Elem().Underlying().(type) {
			case *types.Slice, *types.Map:
				return true
			}
		}
		return false
	}
	for _, fn := range p.SrcFuncs() {
		core.EachInstr(fn, func(in ssa.Instruction) {
			switch x := in.(type) {
			case *ssa.Go:
				if !core.InLoop(x) {
					return
				}
				c := x.Common()
				var tgt *ssa.Function
				var bindings []ssa.Value
				switch v := c.Value.(type) {
				case *ssa.MakeClosure:
					tgt, _ = v.Fn.(*ssa.Function)
					bindings = v.Bindings
				case *ssa.Function:
					tgt = v
				}
				if tgt == nil || len(tgt.Blocks) == 0 {
					return
				}
				b := body{fn: tgt, site: x}
				for i, a := range c.Args {
					if i < len(tgt.Params) && collectionLike(a.Type()) && loopInvariant(a, x) {
						b.shared = append(b.shared, tgt.Params[i])
					}
				}
				for i, bv := range bindings {
					if i < len(tgt.FreeVars) {
						fv := tgt.FreeVars[i]
						// captured variables are pointers to the variable
						if pt, ok := fv.Type().(*types.Pointer); ok {
							switch pt.Elem().Underlying().(type) {
							case *types.Map, *types.Slice:
								if loopInvariant(bv, x) {
									b.shared = append(b.shared, fv)
								}
							}
						}
					}
				}
				bodies = append(bodies, b)
			case *ssa.Call:
				if f := x.Call.StaticCallee(); f != nil && f.Name() == "Scatter" && f.Pkg != nil && strings.HasSuffix(f.Pkg.Pkg.Path(), "/util") {
					for _, a := range x.Call.Args {
						if mc, ok := a.(*ssa.MakeClosure); ok {
							tgt, _ := mc.Fn.(*ssa.Function)
							if tgt == nil {
								continue
							}
							b := body{fn: tgt, site: x}
							for i := range mc.Bindings {
								fv := tgt.FreeVars[i]
								if pt, ok := fv.Type().(*types.Pointer); ok {
									switch pt.Elem().Underlying().(type) {
									case *types.Map, *types.Slice:
										b.shared = append(b.shared, fv)
									}
								}
							}
							bodies = append(bodies, b)
						}
					}
				}
			}
		})
	}
	nb, nshared := 0, 0
	for _, b := range bodies {
		nb++
		for _, sv := range b.shared {
			nshared++
			type acc struct {
				in    ssa.Instruction
				fn    *ssa.Function
				write bool
				held  bool
			}
			var accs []acc
			// mutex parameters of callees inside the instance that are handed a lock from outside the instance
			sharedLockParam := map[string]bool{}
			var scan func(fn *ssa.Function, root ssa.Value, depth int, entryHeld bool)
			scan = func(fn *ssa.Function, root ssa.Value, depth int, entryHeld bool) {
				held := la.HeldAt(fn)
				// a lock synchronises the instances only if all of them use the same one: a mutex field of a shared
				// object, or a mutex handed to the fan-out body from outside (its parameter or captured variable).
				// A mutex created inside the instance's own call tree is private to the instance.
				sharedLock := func(l core.LockID) bool {
					o := l.Field.Owner
					for _, pre := range []string{"local:", "param:", "free:"} {
						if strings.HasPrefix(o, pre) {
							if pre == "local:" {
								// a mutex declared in a function that encloses the fan-out body exists once for all
								// instances; one declared in the body (or below it) is the instance's own
								for par := b.fn.Parent(); par != nil; par = par.Parent() {
									if strings.TrimPrefix(o, pre) == core.FnKey(par) {
										return true
									}
								}
								return false
							}
							if strings.TrimPrefix(o, pre) == core.FnKey(b.fn) {
								return true
							}
							return pre == "param:" && sharedLockParam[o+"|"+l.Field.Name]
						}
					}
					return true
				}
				isHeld := func(in ssa.Instruction) bool {
					if entryHeld {
						return true
					}
					if os.Getenv("VCHECK_DEBUG17E") != "" {
						for l := range held[in] {
							fmt.Fprintf(os.Stderr, "17e: %s in %s holds %s.%s shared=%v\n", p.Pos(in.Pos()), core.FnKey(fn), l.Field.Owner, l.Field.Name, sharedLock(l))
						}
						if len(held[in]) == 0 {
							fmt.Fprintf(os.Stderr, "17e: %s in %s holds nothing\n", p.Pos(in.Pos()), core.FnKey(fn))
						}
					}
					for l := range held[in] {
						if sharedLock(l) {
							return true
						}
					}
					return false
				}
				core.EachInstr(fn, func(in ssa.Instruction) {
					switch x := in.(type) {
					case *ssa.MapUpdate:
						if derivesFrom(x.Map, root, map[ssa.Value]bool{}) {
							accs = append(accs, acc{x, fn, true, isHeld(x)})
						}
					case *ssa.Lookup:
						if _, isMap := x.X.Type().Underlying().(*types.Map); isMap && derivesFrom(x.X, root, map[ssa.Value]bool{}) {
							accs = append(accs, acc{x, fn, false, isHeld(x)})
						}
					case *ssa.Range:
						if derivesFrom(x.X, root, map[ssa.Value]bool{}) {
							accs = append(accs, acc{x, fn, false, isHeld(x)})
						}
					case *ssa.Store:
						// *captured = append(*captured, ...) or a map variable replaced
						if x.Addr == root {
							accs = append(accs, acc{x, fn, true, isHeld(x)})
						}
					case *ssa.Call:
						if bi, ok := x.Call.Value.(*ssa.Builtin); ok {
							if bi.Name() == "delete" && derivesFrom(x.Call.Args[0], root, map[ssa.Value]bool{}) {
								accs = append(accs, acc{x, fn, true, isHeld(x)})
							}
							return
						}
						if depth <= 0 {
							return
						}
						callee := x.Call.StaticCallee()
						if callee == nil || len(callee.Blocks) == 0 {
							return
						}
						// a mutex handed on to the callee: shared if it is not one the instance made itself
						for i, a := range x.Call.Args {
							if i >= len(callee.Params) || !strings.HasSuffix(a.Type().String(), "Mutex") {
								continue
							}
							own := false
							if al, isAlloc := a.(*ssa.Alloc); isAlloc {
								for cur := al.Parent(); cur != nil; cur = cur.Parent() {
									if cur == b.fn {
										own = true // declared in the fan-out body or below it
									}
								}
							}
							if prm, isParam := a.(*ssa.Parameter); isParam && prm.Parent() != b.fn && !sharedLockParam["param:"+core.FnKey(prm.Parent())+"|"+prm.Name()] {
								own = true // handed down from a callee level that got it from inside
							}
							if !own {
								sharedLockParam["param:"+core.FnKey(callee)+"|"+callee.Params[i].Name()] = true
							}
						}
						for i, a := range x.Call.Args {
							if i < len(callee.Params) && pointerLike(a.Type()) && derivesFrom(a, root, map[ssa.Value]bool{}) {
								scan(callee, callee.Params[i], depth-1, isHeld(x))
							}
						}
					case *ssa.Go:
						// goroutines started further down still belong to this instance
						if depth <= 0 {
							return
						}
						var callee *ssa.Function
						switch v := x.Call.Value.(type) {
						case *ssa.MakeClosure:
							callee, _ = v.Fn.(*ssa.Function)
							for i, bv := range v.Bindings {
								if callee != nil && i < len(callee.FreeVars) && derivesFrom(bv, root, map[ssa.Value]bool{}) {
									scan(callee, callee.FreeVars[i], depth-1, false)
								}
							}
						case *ssa.Function:
							callee = v
						}
						if callee == nil || len(callee.Blocks) == 0 {
							return
						}
						for i, a := range x.Call.Args {
							if i < len(callee.Params) && pointerLike(a.Type()) && derivesFrom(a, root, map[ssa.Value]bool{}) {
								scan(callee, callee.Params[i], depth-1, false)
							}
						}
					}
				})
				// nested closures capturing the shared value
				for _, an := range fn.AnonFuncs {
					core.EachInstr(fn, func(in ssa.Instruction) {
						if mc, ok := in.(*ssa.MakeClosure); ok && mc.Fn == ssa.Value(an) {
							for i, bv := range mc.Bindings {
								if bv == root && depth > 0 {
									scan(an, an.FreeVars[i], depth-1, false)
								}
							}
						}
					})
				}
			}
			scan(b.fn, sv, 3, false)
			anyWrite := false
			for _, a := range accs {
				if a.write {
					anyWrite = true
				}
			}
			key := fmt.Sprintf("%s|%s", core.FnKey(b.fn), sv.Name())
			if !anyWrite {
				r.Hold("C17.e", key, p.Pos(b.site.Pos()), "shared by the goroutine instances and only read")
				continue
			}
			ok := true
			var wit []string
			for _, a := range accs {
				if !a.held {
					ok = false
					kind := "read"
					if a.write {
						kind = "write"
					}
					wit = append(wit, fmt.Sprintf("%s at %s in %s", kind, p.Pos(a.in.Pos()), core.FnKey(a.fn)))
				}
			}
			r.Check(ok, "C17.e", key, p.Pos(b.site.Pos()),
				fmt.Sprintf("%d accesses by concurrent instances, all with a lock held", len(accs)),
				fmt.Sprintf("collection %s is shared by the concurrently running instances of %s and written by them, but accessed without a lock held", sv.Name(), core.FnKey(b.fn)), wit...)
		}
	}
	r.Count("fan-out goroutine bodies", nb)
	r.Count("collections shared by fan-out instances", nshared)
	r.Floor("fan-out goroutine bodies", nb, 20)
	r.Floor("collections shared by fan-out instances", nshared, 3)
}

// checkFilteredSwap: a function that ranges over the map held in a shared object's field and then
// stores another map into that field (the filter-and-swap idiom) must hold the owner's write lock
// continuously from the range to the store; otherwise an insert made by another goroutine between
// the scan and the swap is silently lost. Returns the number of swaps examined.
func checkFilteredSwap(p *core.Prog, r *core.Report, la *core.LockAnalysis, rule string, fns []*ssa.Function, skip func(*ssa.Function) bool) int {
	n := 0
	for _, fn := range fns {
		if skip != nil && skip(fn) {
			continue
		}
		var ranges []core.FieldAccess
		var stores []core.FieldAccess
		for _, a := range core.FieldAccesses(fn) {
			if _, fresh := a.Base.(*ssa.Alloc); fresh || !sharedOwner(a.Base.Type()) {
				continue
			}
			if _, isMap := a.Type.Underlying().(*types.Map); !isMap {
				continue
			}
			switch a.Kind {
			case "map-range":
				ranges = append(ranges, a)
			case "store":
				stores = append(stores, a)
			}
		}
		held := la.HeldAt(fn)
		for _, st := range stores {
			for _, rg := range ranges {
				if rg.Field != st.Field || !reachableAfter(rg.Instr, st.Instr) {
					continue
				}
				n++
				hasW := func(in ssa.Instruction) bool {
					for l := range held[in] {
						if !l.Read && l.Field.Owner == st.Field.Owner {
							return true
						}
					}
					return false
				}
				var gap ssa.Instruction
				if !hasW(rg.Instr) {
					gap = rg.Instr
				}
				if gap == nil {
					core.EachInstr(fn, func(in ssa.Instruction) {
						if gap != nil || hasW(in) {
							return
						}
						if _, isDbg := in.(*ssa.DebugRef); isDbg {
							return
						}
						if reachableAfter(rg.Instr, in) && reachableAfter(in, st.Instr) {
							gap = in
						}
					})
				}
				key := fmt.Sprintf("%s|%s|filter-and-swap", st.Field, core.FnKey(fn))
				if gap == nil {
					r.Hold(rule, key, p.Pos(st.Instr.Pos()), "the scan of the map and the store of its replacement are in one write-locked critical section")
				} else {
					r.Violate(rule, key, p.Pos(st.Instr.Pos()),
						fmt.Sprintf("%s is scanned at %s and replaced at %s, but the owner's write lock is not held at %s in between: an entry inserted by another goroutine after the scan is lost by the swap", st.Field, p.Pos(rg.Instr.Pos()), p.Pos(st.Instr.Pos()), p.Pos(gap.Pos())))
				}
			}
		}
	}
	return n
}

func ownerHasField(t types.Type, name string) bool {
	st := structOfType(t)
	if st == nil {
		return false
	}
	for i := 0; i < st.NumFields(); i++ {
		if st.Field(i).Name() == name {
			return true
		}
	}
	return false
}

func structOfType(t types.Type) *types.Struct {
	for {
		if p, ok := t.Underlying().(*types.Pointer); ok {
			t = p.Elem()
			continue
		}
		break
	}
	s, _ := t.Underlying().(*types.Struct)
	return s
}

// c17Globals: package-level collections that are written after initialisation are accessed under one
// package-level mutex at every access (reads included: a lock-free fast path in front of a locked insert is
// a data race on the map).
func c17Globals(p *core.Prog, r *core.Report, la *core.LockAnalysis) {
	type acc struct {
		fn    *ssa.Function
		in    ssa.Instruction
		write bool
		kind  string
	}
	accs := map[*ssa.Global][]acc{}
	for _, fn := range p.SrcFuncs() {
		top := fn
		for top.Parent() != nil {
			top = top.Parent()
		}
		if top.Name() == "init" || strings.HasPrefix(top.Name(), "init#") {
			continue
		}
		core.EachInstr(fn, func(in ssa.Instruction) {
			switch x := in.(type) {
			case *ssa.Store:
				if g, ok := x.Addr.(*ssa.Global); ok && isCollection(g.Type().(*types.Pointer).Elem()) {
					accs[g] = append(accs[g], acc{fn, in, true, "assign"})
				}
			case *ssa.UnOp:
				g, ok := x.X.(*ssa.Global)
				if !ok || x.Op != token.MUL || !isCollection(x.Type()) || x.Referrers() == nil {
					return
				}
				for _, ref := range *x.Referrers() {
					switch y := ref.(type) {
					case *ssa.MapUpdate:
						if y.Map == ssa.Value(x) {
							accs[g] = append(accs[g], acc{fn, ref, true, "insert"})
						}
					case *ssa.Lookup:
						if y.X == ssa.Value(x) {
							accs[g] = append(accs[g], acc{fn, ref, false, "lookup"})
						}
					case *ssa.Range:
						accs[g] = append(accs[g], acc{fn, ref, false, "range"})
					case *ssa.Call:
						if b, ok := y.Call.Value.(*ssa.Builtin); ok {
							switch b.Name() {
							case "delete":
								accs[g] = append(accs[g], acc{fn, ref, true, "delete"})
							case "len":
								accs[g] = append(accs[g], acc{fn, ref, false, "len"})
							case "append":
								accs[g] = append(accs[g], acc{fn, ref, false, "append"})
							}
						}
					case *ssa.IndexAddr:
						accs[g] = append(accs[g], acc{fn, ref, false, "index"})
					}
				}
			}
		})
	}
	n := 0
	var gs []*ssa.Global
	for g := range accs {
		gs = append(gs, g)
	}
	sort.Slice(gs, func(i, j int) bool { return gs[i].String() < gs[j].String() })
	for _, g := range gs {
		as := accs[g]
		written := false
		for _, a := range as {
			if a.write {
				written = true
			}
		}
		if !written {
			continue
		}
		n++
		held := func(a acc) core.LockSet {
			h := core.LockSet{}
			for l := range la.HeldAt(a.fn)[a.in] {
				h[l] = true
			}
			for l := range la.EntryHeld(a.fn) {
				h[l] = true
			}
			return h
		}
		// the guard: the package-level mutex held at most accesses
		cnt := map[core.FieldID]int{}
		for _, a := range as {
			for l := range held(a) {
				if l.Field.Owner == "global" {
					cnt[l.Field]++
				}
			}
		}
		var guard core.FieldID
		best := 0
		for f, c := range cnt {
			if c > best || c == best && f.Name < guard.Name {
				guard, best = f, c
			}
		}
		name := core.RelPkg(g.Pkg.Pkg.Path()) + "." + g.Name()
		if best == 0 {
			r.Violate("C17.g", name+"|guarded", p.Pos(g.Pos()), "package-level collection "+name+" is written after initialisation and no access holds a package-level mutex")
			continue
		}
		for i, a := range as {
			ok := held(a).HasField(guard, a.write)
			r.Check(ok, "C17.g", fmt.Sprintf("%s|%s#%d|under-%s", name, a.kind, i+1, guard.Name), p.Pos(a.in.Pos()), a.kind+" under "+guard.Name,
				fmt.Sprintf("%s of package-level collection %s in %s without %s held (it is held at %d of %d accesses): a data race with the locked writers (concurrent map read and map write)", a.kind, name, core.FnKey(a.fn), guard.Name, best, len(as)))
		}
	}
	r.Count("package-level collections written after initialisation", n)
	r.Floor("C17.g package-level collections written after initialisation", n, 1)
}

func isCollection(t types.Type) bool {
	switch t.Underlying().(type) {
	case *types.Map, *types.Slice:
		return true
	}
	return false
}

// singleStoreOf: v is a load of a local cell that is stored to exactly once; returns the stored value.
func singleStoreOf(v ssa.Value) ssa.Value {
	u, ok := v.(*ssa.UnOp)
	if !ok || u.Op != token.MUL {
		return nil
	}
	a, ok := u.X.(*ssa.Alloc)
	if !ok || a.Referrers() == nil {
		return nil
	}
	var stored ssa.Value
	n := 0
	for _, ref := range *a.Referrers() {
		if st, ok := ref.(*ssa.Store); ok && st.Addr == ssa.Value(a) {
			stored = st.Val
			n++
		}
	}
	if n != 1 {
		return nil
	}
	return stored
}
